#!/bin/sh
# MANIFEST.setup_cmd — offline build of the whole framework from files on disk.
# 1. translator: regenerate lean/Verif/Gen from /repo   2. lake build (all models, proofs, vdrv)
# 3. go build of the correspondence harness against /repo (build tag verif)
set -e
cd "$(dirname "$0")"
export GOFLAGS=-mod=mod GOPROXY=off GOSUMDB=off GOTOOLCHAIN=local CGO_ENABLED=0
mkdir -p out evidence replays harness/bin
( cd harness && go build -o bin/extract ./cmd/extract )
harness/bin/extract -repo "${VERIF_REPO:-/repo}" -out lean/Verif/Gen
( cd lean && lake build )
( cd harness && go build -tags verif -o bin/corr ./cmd/corr )
echo setup ok

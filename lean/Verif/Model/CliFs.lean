import Verif.Base.Bytes
/-!
# CliFs — the file-system protocol of `cmd/minify` `minify(t Task)`

Behavioural model of the order in which `/repo/cmd/minify/main.go: minify()` (with
`io.go: openInputFile / openInputFiles / openOutputFile / SameFile`, `main.go: preserveAttributes`)
touches the file system, for every task shape:

* separate output file, * in place (`SameFile(src, dst)`: `rename dst → dst.bak` first),
* bundle (several sources, lazily opened one after the other by `concatFileReader`), also when one
  source is the destination, * sync copy, * minifier error (original bytes are written),
* write error (`remove dst; rename dst.bak → dst`).

The file system, the system calls and Go's `os`/`io` wrappers are **modelled by contract**:

* a file system is an association list `path → bytes` (+ the set of directories and the open handles);
* `rename a b` atomically replaces `b`, `openTrunc p` creates/truncates `p`, `write p c` appends `c`
  at the handle offset (= end of the file: the handle was opened with `O_TRUNC` and is written
  sequentially), `remove p` unlinks, `mkdir`, `chmod`, `chown`, `chtimes`, `openRead`, `close` do not
  change any file content;
* "same file" is decided lexically (equal cleaned path that exists) — hard links and symbolic links
  are outside the model (the harness exercises them against the real binary only);
* a `SIGKILL` takes effect between two system calls, or inside a `write`, which then has written a
  prefix of its buffer — the latter is the same as a finer chunking, and chunking is a parameter.

Core Lean only.
-/
namespace Verif.Model.CliFs
open Verif

abbrev Path := Bytes

/-- `".bak"` -/
def bakSuffix : Bytes := [46, 98, 97, 107]

/-- `p + ".bak"` -/
def bak (p : Path) : Path := p ++ bakSuffix

/-! ## file system -/

structure Fs where
  files : List (Path × Bytes) := []
  dirs  : List Path := []
  /-- paths currently open for reading / writing (one entry per handle) -/
  rd    : List Path := []
  wr    : List Path := []
deriving Repr, BEq, DecidableEq

def Fs.get (fs : Fs) (p : Path) : Option Bytes := fs.files.lookup p

def delFile (l : List (Path × Bytes)) (p : Path) : List (Path × Bytes) := l.filter (fun e => e.1 != p)
def setFile (l : List (Path × Bytes)) (p : Path) (v : Bytes) : List (Path × Bytes) := (p, v) :: delFile l p

inductive Op where
  | rename (a b : Path)
  | openRead (p : Path)
  | openTrunc (p : Path)
  | write (p : Path) (c : Bytes)
  | close (p : Path)
  | remove (p : Path)
  | mkdir (d : Path)
  | chmod (p : Path)
  | chown (p : Path)
  | chtimes (p : Path)
deriving Repr, BEq, DecidableEq

/-- one system call.  A call whose precondition does not hold fails and leaves the state unchanged
    (`enabled` below states the preconditions; `Props.C20.ops_enabled` shows they hold along `minifyOps`). -/
def step (fs : Fs) : Op → Fs
  | .rename a b =>
    match fs.get a with
    | some v => { fs with files := setFile (delFile fs.files a) b v }
    | none => fs
  | .openRead p => { fs with rd := p :: fs.rd }
  | .openTrunc p => { fs with files := setFile fs.files p [], wr := p :: fs.wr }
  | .write p c =>
    match fs.get p with
    | some v => { fs with files := setFile fs.files p (v ++ c) }
    | none => fs
  | .close p => if fs.wr.contains p then { fs with wr := fs.wr.erase p } else { fs with rd := fs.rd.erase p }
  | .remove p => { fs with files := delFile fs.files p }
  | .mkdir d => { fs with dirs := d :: fs.dirs }
  | .chmod _ => fs
  | .chown _ => fs
  | .chtimes _ => fs

def run (ops : List Op) (fs : Fs) : Fs := ops.foldl step fs

/-- the paths whose *content or existence* an op can change -/
def touches : Op → List Path
  | .rename a b => [a, b]
  | .openTrunc p => [p]
  | .write p _ => [p]
  | .remove p => [p]
  | _ => []

/-! ## lexical helpers (contract of `path/filepath` on cleaned slash paths) -/

def slash : UInt8 := 47
def dot : UInt8 := 46

/-- `filepath.Dir` of a cleaned path -/
def parentDir (p : Path) : Path :=
  let r := (p.reverse.dropWhile (· != slash)).drop 1   -- reversed text before the last '/'
  if !p.contains slash then [dot]
  else if r.isEmpty then [slash] else r.reverse

/-- all proper and improper prefixes of `d` that name a directory, outermost first: `a/b/c ↦ [a, a/b, a/b/c]` -/
def dirChain (d : Path) : List Path :=
  let comps := d.splitOn slash
  let abs := d.head? == some slash
  let rec go (acc : Path) (first : Bool) : List Path → List Path
    | [] => []
    | c :: rest =>
      if c.isEmpty then go acc first rest else
      let cur := if first then (if abs then slash :: c else c) else acc ++ [slash] ++ c
      cur :: go cur false rest
  (go [] true comps).filter (fun q => q != [dot])

/-- `os.MkdirAll d`: one `mkdir` per missing component, outermost first; nothing when `d` exists -/
def mkdirOps (fs : Fs) (d : Path) : List Op :=
  ((dirChain d).filter (fun q => !fs.dirs.contains q)).map Op.mkdir

/-- `filepath.Rel root p` for `p` below `root` (both cleaned); `none` when `p` is not below `root` -/
def relTo (root p : Path) : Option Path :=
  if root == [dot] || root.isEmpty then some p
  else if root == [slash] then (if p.head? == some slash then some (p.drop 1) else none)
  else if (root ++ [slash]).isPrefixOf p then some (p.drop (root.length + 1)) else none

def replaceFirst (l : List Path) (a b : Path) : List Path :=
  match l with
  | [] => []
  | x :: r => if x == a then b :: r else x :: replaceFirst r a b

/-! ## tasks -/

structure Task where
  srcs : List Path
  /-- `[]` = stdout -/
  dst  : Path
  sync : Bool := false
  root : Path := [dot]
  /-- separator of the concatenating reader (`";\n"` for JavaScript bundles, else empty) -/
  sep  : Bytes := []
  /-- the mimetype could not be inferred / differs between bundled sources: `minify` returns at once -/
  skip : Bool := false
deriving Repr, BEq

structure Cfg where
  presMode : Bool := true
  presOwn  : Bool := true
  presTime : Bool := true
  /-- bundles: all sources have the same permission bits / the same owner -/
  modeAgree : Bool := true
  ownAgree  : Bool := true
  /-- what stdin delivers (source path `[]`) -/
  stdin : Bytes := []
deriving Repr, BEq

/-- the outcome of the write loop (`io.Copy(fw, …)`) -/
inductive Writes where
  /-- every write succeeds; the chunks are the buffers of the successive `write` calls (any split,
      including none at all for an empty output and partial writes completed by a retry) -/
  | ok (chunks : List Bytes)
  /-- a write fails after these chunks (complete or partial, arbitrary bytes) have reached the file -/
  | fail (written : List Bytes)
deriving Repr, BEq

def Writes.chunks : Writes → List Bytes
  | .ok c => c
  | .fail c => c

def Writes.isOk : Writes → Bool
  | .ok _ => true
  | .fail _ => false

/-- `SameFile(srcs[i], dst)` holds for some `i` (lexically): the destination is renamed first -/
def renamed (t : Task) (fs : Fs) : Bool :=
  !t.dst.isEmpty && t.srcs.contains t.dst && (fs.get t.dst).isSome

/-- the source list after `srcs[i] += ".bak"` -/
def srcs1 (t : Task) (fs : Fs) : List Path :=
  if renamed t fs then replaceFirst t.srcs t.dst (bak t.dst) else t.srcs

def preOps (t : Task) (fs : Fs) : List Op :=
  if renamed t fs then [.rename t.dst (bak t.dst)] else []

def rOpen (p : Path) : List Op := if p.isEmpty then [] else [.openRead p]
def cl (p : Path) : List Op := if p.isEmpty then [] else [.close p]

/-- `openInputFile(srcs[0])` resp. `newConcatFileReader` (opens the first file only) -/
def openOps (ss : List Path) : List Op :=
  match ss with
  | [] => []
  | s :: _ => rOpen s

/-- `openOutputFile(dst)`: `MkdirAll(Dir(dst))`, then `O_WRONLY|O_TRUNC|O_CREATE` -/
def outOps (t : Task) (fs : Fs) : List Op :=
  if t.dst.isEmpty then [] else mkdirOps fs (parentDir t.dst) ++ [.openTrunc t.dst]

/-- `concatFileReader.Read` during `io.ReadAll`: at the end of each file close it and open the next;
    the last one is closed at its EOF as well.  A single source is an `*os.File` and stays open. -/
def lazyOps (ss : List Path) : List Op :=
  match ss with
  | [] => []
  | [_] => []
  | s :: rest => cl s ++ (rest.flatMap (fun q => rOpen q ++ cl q))

/-- `fr.Close(); fw.Close()` after the write loop -/
def closeOps (t : Task) (ss : List Path) : List Op :=
  (match ss with
   | [s] => cl s
   | _ => []) ++ cl t.dst

def writeOps (t : Task) (w : Writes) : List Op :=
  if t.dst.isEmpty then [] else w.chunks.map (Op.write t.dst)

/-- bytes delivered by source `p` when it is read in state `fs` -/
def contentOf (cfg : Cfg) (fs : Fs) (p : Path) : Bytes :=
  if p.isEmpty then cfg.stdin else (fs.get p).getD []

/-- everything up to and including the (truncating) open of the destination -/
def headOps (t : Task) (fs : Fs) : List Op :=
  preOps t fs ++ openOps (srcs1 t fs) ++ outOps t fs

/-- what `io.ReadAll(fr)` returns: the sources are read *after* the destination has been truncated -/
def inputBytes (cfg : Cfg) (t : Task) (fs : Fs) : Bytes :=
  let fsR := run (headOps t fs) fs
  t.sep.intercalate ((srcs1 t fs).map (contentOf cfg fsR))

/-- what is handed to the write loop: the library's output, the original on a minifier error,
    the verbatim source in sync mode -/
def outBytes (cfg : Cfg) (lib : Bytes → Option Bytes) (t : Task) (fs : Fs) : Bytes :=
  let b := inputBytes cfg t fs
  if t.sync then b else
  match lib b with
  | some o => o
  | none => b

/-- the loop "remove original that was renamed": taken when some source is *spelled* `dst + ".bak"` -/
def postOps (t : Task) (fs : Fs) (w : Writes) : List Op :=
  if (srcs1 t fs).contains (bak t.dst) then
    (if w.isOk then [.remove (bak t.dst)]
     else if t.dst.isEmpty then []     -- `os.Remove("")` fails, `minify` returns
     else [.remove t.dst, .rename (bak t.dst) t.dst])
  else []

def srcs2 (t : Task) (fs : Fs) : List Path :=
  if (srcs1 t fs).contains (bak t.dst) then replaceFirst (srcs1 t fs) (bak t.dst) t.dst else srcs1 t fs

def attrLevel (cfg : Cfg) (single : Bool) (p : Path) : List Op :=
  (if cfg.presMode && (single || cfg.modeAgree) then [.chmod p] else []) ++
  (if cfg.presOwn && (single || cfg.ownAgree) then [.chown p] else []) ++
  (if cfg.presTime then [.chtimes p] else [])

def iterParent : Nat → Path → List Path
  | 0, _ => []
  | n + 1, p => p :: iterParent n (parentDir p)

/-- `preserveAttributes(srcs, root, dst)` evaluated in state `fsP` -/
def attrOps (cfg : Cfg) (t : Task) (ss : List Path) (fsP : Fs) : List Op :=
  if ss.isEmpty || t.dst.isEmpty then [] else
  if !(cfg.presMode || cfg.presOwn || cfg.presTime) then [] else
  if !(ss.all (fun s => (fsP.get s).isSome)) then [] else     -- `os.Stat` of a source fails
  match ss with
  | [s] =>
    match relTo t.root s with
    | none => []
    | some rel =>
      let levels := (rel.filter (· == slash)).length + 1
      (iterParent levels t.dst).flatMap (attrLevel cfg true)
  | _ => attrLevel cfg false t.dst

/-- between the optional initial rename and the clean-up: open the first source, open (truncate) the
    destination, read (bundles: close/open the sources in turn), write, close -/
def midOps (w : Writes) (t : Task) (fs : Fs) : List Op :=
  let ss := srcs1 t fs
  openOps ss ++ outOps t fs ++ (if t.sync then [] else lazyOps ss) ++ writeOps t w ++ closeOps t ss

/-- clean-up (`remove dst.bak`, or `remove dst; rename dst.bak dst` after a write error) and
    `preserveAttributes`; a failed sync copy returns without either -/
def tailOps (cfg : Cfg) (w : Writes) (t : Task) (fs : Fs) : List Op :=
  let body := preOps t fs ++ midOps w t fs
  if t.sync then
    (if w.isOk then attrOps cfg t (srcs1 t fs) (run body fs) else [])
  else
    postOps t fs w ++ attrOps cfg t (srcs2 t fs) (run (body ++ postOps t fs w) fs)

/-- `minify(t)` returns before touching anything: mimetype not inferable, or sync of a file onto itself -/
def noop (t : Task) : Bool := t.skip || (t.sync && t.srcs.head? == some t.dst)

/-- the complete sequence of file-system operations of `minify(t)` started in state `fs` -/
def minifyOps (cfg : Cfg) (w : Writes) (t : Task) (fs : Fs) : List Op :=
  if noop t then [] else preOps t fs ++ midOps w t fs ++ tailOps cfg w t fs

/-- `minify` returns `true` (counts as success for the exit status) -/
def minifyOk (cfg : Cfg) (lib : Bytes → Option Bytes) (w : Writes) (t : Task) (fs : Fs) : Bool :=
  if t.skip then false else
  if noop t then true else
  if t.sync then w.isOk else
  if !w.isOk && t.dst.isEmpty && ((srcs1 t fs).contains (bak t.dst)) then false
  else (lib (inputBytes cfg t fs)).isSome

/-! ## several tasks -/

/-- tasks executed one after the other (`verbose` > 0 or a single task) -/
def seqOps (cfg : Cfg) (lib : Bytes → Option Bytes) : List Task → Fs → List Op
  | [], _ => []
  | t :: rest, fs =>
    let o := minifyOps cfg (.ok [outBytes cfg lib t fs]) t fs
    o ++ seqOps cfg lib rest (run o fs)

/-! ## preconditions of the system calls (success path) -/

def dirOk (fs : Fs) (d : Path) : Bool := d == [dot] || d == [slash] || fs.dirs.contains d

/-- the call succeeds in state `fs` (its file / directory / handle preconditions hold).  `minifyOps` is the
    sequence of the *success* path; the correspondence run evaluates `firstDisabled` on every generated
    case (it must be `none`), it is not a theorem. -/
def enabled (fs : Fs) : Op → Bool
  | .rename a b => (fs.get a).isSome && dirOk fs (parentDir b)
  | .openRead p => (fs.get p).isSome
  | .openTrunc p => dirOk fs (parentDir p)
  | .write p _ => fs.wr.contains p && (fs.get p).isSome
  | .close p => fs.wr.contains p || fs.rd.contains p
  | .remove p => (fs.get p).isSome
  | .mkdir d => !fs.dirs.contains d && dirOk fs (parentDir d)
  | .chmod p => (fs.get p).isSome || fs.dirs.contains p
  | .chown p => (fs.get p).isSome || fs.dirs.contains p
  | .chtimes p => (fs.get p).isSome || fs.dirs.contains p

/-- index of the first op of the sequence whose precondition fails when the sequence is run from `fs` -/
def firstDisabled (fs : Fs) (ops : List Op) (i : Nat := 0) : Option Nat :=
  match ops with
  | [] => none
  | op :: r => if enabled fs op then firstDisabled (step fs op) r (i + 1) else some i

/-- tasks executed by the worker pool (`minifyWorker` goroutines): `sch` names, step by step, the task
    that performs its next system call (a task without remaining calls idles).  Every interleaving of
    prefixes of the task sequences — every crash point of every schedule — is `interleave opss sch` for
    some `sch`. -/
def interleave (rem : List (List Op)) : List Nat → List Op
  | [] => []
  | j :: rest =>
    match rem[j]? with
    | some (op :: tl) => op :: interleave (rem.set j tl) rest
    | _ => interleave rem rest

end Verif.Model.CliFs

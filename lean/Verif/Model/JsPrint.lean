import Verif.Model.JsOpt
import Verif.Spec.JsGrammar
/-!
# C01-A — behavioural model of `minifyExpr` (js/js.go): the required-precedence printer

`minE v20 fuel e p` is the *output tree* of `m.minifyExpr(e, p)`: the tree whose plain flattening `flat` is the
token sequence the Go code writes.  Every decision of the printer is a tree transformation:
a `GroupExpr` is dropped iff `p ≤ prec inner` (or `prec inner = OpCoalesce ∧ p = OpBitOr`), literals are lowered
(`true → !0`, `undefined → 0[0]`, `void pure → 0[0]`, `!"s" → !1`), `(a,b)&&c → a,b&&c` at statement level,
`a===null||a===undefined → a==null`, `typeof a==="s" → typeof a=="s"`, and — at every `CondExpr`/`UnaryExpr` node,
before descending — `optimizeCondExpr`/`optimizeUnaryExpr` (`JsOpt`).  The recursion continues into the children of
the *rewritten* node, hence the fuel; `none` = out of fuel or outside the modelled fragment.
`minGen rw` is the same traversal with an arbitrary node rewriter; `printT = minGen id` is the pure printer.

`flat` turns an output tree into tokens, `emit` is the writer (`write`, `writeSpaceBeforeIdent`, `writeSpaceBefore`,
`writeSpaceAfterIdent`) that turns tokens into bytes.
-/
namespace Verif.Model.JsPrint
open Verif.Spec.JsSyntax Verif.Spec.JsGrammar Verif.Model.JsAst Verif.Model.JsOpt
open Verif.Spec.JsSyntax.E

def mapO {α β : Type} (f : α → Option β) : List α → Option (List β)
  | [] => some []
  | a :: t =>
    match f a, mapO f t with
    | some b, some bs => some (b :: bs)
    | _, _ => none

/-- `0[0]` -/
def undefIdx : E := index (lit (.num 0)) (lit (.num 0))

/-- strings the model covers: `minifyString` only re-quotes them with double quotes -/
def wfStr (s : String) : Bool := s.toList.all (fun c => c.isAlpha || c == ' ')

def isStrLit : E → Bool
  | lit (.str _) => true
  | _ => false

/-- the operand shapes on which `mergeBinaryExpr` would concatenate string literals (not modelled) -/
def mergesStrings (op : BOp) (x y : E) : Bool :=
  op == .add && isStrLit y &&
    (isStrLit x || (match x with | bin .add _ y2 => isStrLit y2 | _ => false))

def isTypeof : E → Bool
  | unary .typeof _ => true
  | _ => false

/-- a valid simple assignment target of the fragment: a (parenthesised) variable other than the immutable globals, or a
    member expression; assignments / updates / `delete` of anything else are outside the modelled fragment -/
def assignable (x : E) : Bool :=
  match x.inner with
  | var n => n != "undefined" && n != "NaN"
  | dot _ _ => true
  | index _ _ => true
  | _ => false

/-- operators that evaluate their left operand as a reference -/
def isAssignLike (op : BOp) : Bool := op.prec == opAssign

/-- node rewriter applied on entry of `minifyExpr`: `optimizeCondExpr` / `optimizeUnaryExpr` -/
def optNode (guarded : Bool) (v20 : Bool) (e : E) (p : Prec) : Option E :=
  match e with
  | .cond c x y => optCond guarded v20 c x y p
  | unary op x => some (optUnary op x p)
  | e => some e

/-- the print-time rewrites of a binary node: `a===null||a===undefined → a==null`, `typeof a==="s" → typeof a=="s"`;
    result: (operator to print, left operand, right operand) -/
def binPrep (op : BOp) (y : E) (x1 : E) : BOp × E × E :=
  let e2 : BOp × E × E := match isUndefinedOrNullVar (bin op x1 y) with
    | some (v, neg) => ((if neg then BOp.ne else BOp.eq), var v, lit .null)
    | none => (op, x1, y)
  let op2 := e2.1
  let x2 := e2.2.1
  let y2 := e2.2.2
  let op3 : BOp :=
    if (op2 == .seq || op2 == .sne) && ((isTypeof x2 && isStrLit y2) || (isTypeof y2 && isStrLit x2)) then
      (if op2 == .seq then .eq else .ne)
    else op2
  (op3, x2, y2)

/-- the binary expression proper of `minifyExpr`'s `BinaryExpr` case, `x1` being the left operand -/
def binCore (rec : E → Prec → Option E) (op : BOp) (y : E) (x1 : E) : Option E :=
  if op == .inOp || op == .instOf then
    match rec x1 op.left, rec y op.right with
    | some x', some y' => some (bin op x' y')
    | _, _ => none
  else
    match rec (binPrep op y x1).2.1 op.left, rec (binPrep op y x1).2.2 (binPrep op y x1).1.right with
    | some x', some y' => some (bin (binPrep op y x1).1 x' y')
    | _, _ => none

/-- the list hoisted out of `(a,b)&&c` at statement level (`none`: no hoisting) -/
def hoistList (op : BOp) (x : E) (p : Prec) : Option (List E) :=
  if p ≤ opExpr then
    match x with
    | group (comma l) => if op.left ≤ (lastD l x).prec then some l else none
    | _ => none
  else none

/-- a conditional directly inside a group is rewritten (at `OpExpr`) before the group is examined -/
def groupInner (rw : E → Prec → Option E) (x : E) : Option E :=
  match x with
  | .cond c a b => rw (E.cond c a b) opExpr
  | _ => some x

/-- `(5).a`: the number inside the group that is the object of a member expression -/
def dotNumObj : E → Option Nat
  | group (lit (.num n)) => some n
  | _ => none

def strLit? : E → Option String
  | lit (.str s) => some s
  | _ => none

/-- the first token written for `e` may be the `!` of `!<number or string literal>`.  Directly after `<` or `<<` the Go
    printer takes the `<!--` branch (`isLtNot`) and skips the `!5 → !1` rewrite; that context is outside the model.
    A conditional may be folded to one of its parts (`(1000?!12000:a)` is printed as `!12e3` there): any part counts -/
def startsNotLit : E → Bool
  | unary .not (lit (.num _)) => true
  | unary .not (lit (.str _)) => true
  | unary op x => (op == .postinc || op == .postdec) && startsNotLit x
  | bin _ x _ => startsNotLit x
  | call f _ => startsNotLit f
  | dot x _ => startsNotLit x
  | index x _ => startsNotLit x
  | group x => startsNotLit x
  | .cond c x y => startsNotLit c || startsNotLit x || startsNotLit y
  | opt _ e => startsNotLit e
  | _ => false

/-- the literal cases of `!x`: `!"" → !0`, `!"s" → !1`, `!5 → !1` -/
def notLit (x : E) : Option E :=
  match x with
  | lit (.str s) => some (unary .not (lit (.num (if s == "" then 0 else 1))))
  | lit (.num n) => some (unary .not (lit (.num (if n == 0 then 0 else 1))))
  | _ => none

/-- the member / index / call cases of `minifyExpr` (`DotExpr`, `IndexExpr`, `CallExpr`) -/
def descLink (rec : E → Prec → Option E) (e1 : E) (p : Prec) : Option E :=
    match e1 with
    | dot x name =>
      match dotNumObj x with
      | some n => if n < 1000 then some (dot (lit (.num n)) name) else none
      | none => (rec x (if opMember ≤ p then opMember else opCall)).map (fun x' => dot x' name)
    | index x y =>
      match rec x (if p < opMember then opCall else opMember) with
      | none => none
      | some x' =>
        match strLit? y with
        | some s =>
          if s != "" && s.toList.all Char.isAlpha then some (dot x' s)   -- a["b"] → a.b
          else (rec y opExpr).map (index x')
        | none => (rec y opExpr).map (index x')
    | call f args =>
      match rec f opCall, mapO (fun a => rec a opAssign) args with
      | some f', some args' => some (call f' args')
      | _, _ => none
    | _ => none

/-- one step of `minifyExpr` below the node rewriter: `rec` is the recursive call on the children -/
def descend (rw : E → Prec → Option E) (rec : E → Prec → Option E) (e1 : E) (p : Prec) : Option E :=
    match e1 with
    | var n =>
      if n == "undefined" then some (if opMember < p then group undefIdx else undefIdx)
      else if unmodelledNames.contains n then none
      else some (var n)
    | lit .true => some (if opUnary < p then group (unary .not (lit (.num 0))) else unary .not (lit (.num 0)))
    | lit .false => some (if opUnary < p then group (unary .not (lit (.num 1))) else unary .not (lit (.num 1)))
    | lit (.str s) => if wfStr s then some (lit (.str s)) else none
    | lit l => some (lit l)
    | bin op x y =>
      if mergesStrings op x y then none else
      if isAssignLike op && !assignable x then none else
      if (op == .lt || op == .shl) && startsNotLit y then none else
      -- convert (a,b)&&c into a,b&&c at statement level: the last item becomes the left operand
      match hoistList op x p with
      | some l =>
        (match mapO (fun a => rec a opAssign) l.dropLast, binCore rec op y (lastD l x) with
         | some init', some b' => some (comma (init' ++ [b']))
         | _, _ => none)
      | none => binCore rec op y x
    | unary op x =>
      if (op == .postinc || op == .postdec || op == .preinc || op == .predec || op == .delete) && !assignable x then none
      else if op == .postinc || op == .postdec then
        (rec x op.argPrec).map (unary op)
      else if op == .void && !hasSideEffects x then some undefIdx
      else
        match (if op == .not then notLit x else none) with
        | some r => some r
        | none => (rec x op.argPrec).map (unary op)
    | dot x name => descLink rec (dot x name) p
    | index x y => descLink rec (index x y) p
    | group x =>
      match groupInner rw x with
      | none => none
      | some x1 =>
        let pi := x1.prec
        -- in the position of a member/call object (`p` above `OpLHS`) the Go code optimizes the conditional without the
        -- optional-chaining rewrite: that variant is outside the model
        if opLHS < p && x1.isOpt then none
        else if p ≤ pi || (pi == opCoalesce && p == opBitOr) then rec x1 p
        else (rec x1 opExpr).map group
    | call f args => descLink rec (call f args) p
    | opt a e =>
      -- the chain produced by `a==null?undefined:a.b.c ⇒ a?.b.c`: printed like the chain itself (the `Optional` flag
      -- of the innermost link only changes its punctuator).  In the position of a member/call object (`p` above
      -- `OpLHS`) the Go code drops the parentheses around the chain and so extends it (K-C01-10): outside the model
      if opLHS < p then none
      else if a == "undefined" || a == "NaN" || unmodelledNames.contains a then none
      else if e.chainVar? == some a then (descLink rec e p).map (opt a) else none
    | .cond c x y =>
      match rec c opCoalesce, rec x opAssign, rec y opAssign with
      | some c', some x', some y' => some (E.cond c' x' y')
      | _, _, _ => none
    | comma l => (mapO (fun a => rec a opAssign) l).map comma


/-- the traversal of `minifyExpr` with node rewriter `rw` -/
def minGen (rw : E → Prec → Option E) : Nat → E → Prec → Option E
  | 0, _, _ => none
  | fuel + 1, e, p =>
    match rw e p with
    | none => none
    | some e1 => descend rw (minGen rw fuel) e1 p

/-- the model of `minifyExpr` -/
def minE (v20 : Bool) : Nat → E → Prec → Option E := minGen (optNode false v20)

/-- `minE` restricted to the inputs on which no open known finding applies (see `optCondN`) -/
def minEG (v20 : Bool) : Nat → E → Prec → Option E := minGen (optNode true v20)

/-- the printer alone: no `optimizeCondExpr`/`optimizeUnaryExpr` -/
def printT : Nat → E → Prec → Option E := minGen (fun e _ => some e)

mutual
def size : E → Nat
  | var _ => 1
  | lit _ => 1
  | unary _ x => 1 + size x
  | bin _ x y => 1 + size x + size y
  | .cond c x y => 1 + size c + size x + size y
  | comma l => 1 + sizeL l
  | call f a => 1 + size f + sizeL a
  | dot x _ => 1 + size x
  | index x y => 1 + size x + size y
  | group x => 1 + size x
  | opt _ e => 1 + size e
def sizeL : List E → Nat
  | [] => 0
  | a :: t => size a + sizeL t
end

/-! ## tokens -/

/-- `minify.Number` on a decimal integer literal (exact, precision 0): `1000 → 1e3` -/
def trailingZeros : Nat → Nat → Nat
  | 0, _ => 0
  | fuel + 1, n => if n != 0 && n % 10 == 0 then 1 + trailingZeros fuel (n / 10) else 0

def numText (n : Nat) : String :=
  let z := trailingZeros 64 n
  if 3 ≤ z then toString (n / 10 ^ z) ++ "e" ++ toString z else toString n

def allDigits (s : String) : Bool := s.toList.all Char.isDigit

/-- spelling of a token; a number directly followed by a member dot gets a trailing `.` when it is all digits -/
def tokText : Tok → String
  | .ident s => s
  | .kw s => s
  | .num n beforeDot => if beforeDot && allDigits (numText n) then numText n ++ "." else numText n
  | .str s => "\"" ++ s ++ "\""
  | .p s => s

/-- plain flattening of an output tree: the terminal yield of the tree (`Spec.JsGrammar.yield`) -/
abbrev flat (e : E) : List Tok := yield e

/-! ## the writer -/

def isIdentChar (c : Char) : Bool := c.isAlphanum || c == '_' || c == '$' || c.toNat ≥ 128

structure WState where
  out : List Char := []          -- reversed? no: appended (small outputs)
  needsSpace : Bool := false
  spaceBefore : Option Char := none
  prevLast : Option Char := none
deriving Inhabited

def kwNeedsSpace (s : String) : Bool :=
  ["typeof", "void", "delete", "in", "instanceof", "return", "throw", "else", "var", "let", "const", "new",
   "do", "case", "function"].contains s

/-- one `m.write(tok)` including the spaces the Go code writes around this token -/
def writeTok (st : WState) (t : Tok) : WState :=
  let s := (tokText t).toList
  let first := s.head?
  -- writeSpaceAfterIdent before `in` / `instanceof`
  let pre1 : Bool := match t with
    | .kw k => (k == "in" || k == "instanceof") && (match st.prevLast with | some c => isIdentChar c | none => false)
    | _ => false
  -- `a-- >b`: a space before `>` when the previous token ends in `-` (written through `write(" ")`, which clears the flags)
  let pre2 : Bool := t == .p ">" && st.prevLast == some '-'
  let st1 : WState := if pre2 then { st with out := st.out ++ [' '], needsSpace := false, spaceBefore := none, prevLast := some ' ' } else st
  let sp : Bool := (st1.needsSpace && (match first with | some c => isIdentChar c | none => false))
      || (st1.spaceBefore.isSome && st1.spaceBefore == first)
  let out := st1.out ++ (if pre1 then [' '] else []) ++ (if sp then [' '] else []) ++ s
  let isLtNot := t == .p "!" && st.prevLast == some '<'
  { out := out,
    needsSpace := (match t with | .kw k => kwNeedsSpace k | _ => false),
    spaceBefore := (match t with
      | .p "+" => some '+'
      | .p "-" => some '-'
      | .p "/" => some '/'
      | .p "!" => if isLtNot then some '-' else none
      | _ => none),
    prevLast := s.getLast? }

/-- a statement separator written by `writeSemicolon`: not through `write`, clears `needsSpace` only -/
def writeSemi (st : WState) : WState := { st with out := st.out ++ [';'], needsSpace := false }

def emitFrom (st : WState) (ts : List Tok) : WState := ts.foldl writeTok st

def emit (ts : List Tok) : List Char := (emitFrom {} ts).out

end Verif.Model.JsPrint

import Verif.Spec.CssValue
import Verif.Model.CssNum
/-!
# Behavioural model of the declaration path of `/repo/css/css.go`

`minifyDeclaration o prop components` = the bytes `(*cssMinifier).minifyDeclaration` writes after `prop:` for
the component tokens the dependency parser hands over (`css.Parser.Values()`, *by contract*), at Precision 0:

* `parseDeclaration` / `parseFunction` — the flat-list recogniser,
* `minifyTokens` — numbers, percentages, dimensions (+ zero-unit dropping incl. the aliasing of the unit
  bytes that `minifyDimension` observes), strings, `url()`, `rgb()/rgba()/hsl()/hsla()`,
* `minifyProperty` — every case except `font`, `background` and `url` (outside the model: `none`),
* `writeDeclaration` — the spacing rules.

`none` means "outside the modelled domain" (the harness then only runs the independent value oracle).
Token identity (`Ident`/`Fun` hashes of the Go `Token`) is computed on demand: `identOf t` is the lower-cased
lexeme if it is one of the strings `css.ToHash` knows (`Gen.C04Tables.hashNames`), `[]` (= hash 0) otherwise.
-/
set_option maxRecDepth 100000
namespace Verif.Model.Css
open Verif.Spec.CssValue (TT Tok lower isWs splitOn)
open Verif.Gen.C04Tables
open Verif.Model.CssNum

structure Opts where
  keepCSS2 : Bool
  deriving Repr, DecidableEq

/-! ## small helpers -/

def S (s : String) : List Char := s.toList

def known (s : List Char) : List Char := if hashNames.contains s then s else []

/-- `Token.Ident` as filled by `parseDeclaration`: hash of the lower-cased lexeme of an identifier -/
def identOf (t : Tok) : List Char := if t.tt == .ident then known (lower t.data) else []

/-- `zeroAngleFunc`: the pseudo hash of the unhashed functions that accept a bare `0` for an `<angle>` -/
def zeroAngleFn : List Char := ['\x01']

def zeroAngleFuncs : List (List Char) :=
  ["rotate", "rotatex", "rotatey", "rotatez", "rotate3d", "skew", "skewx", "skewy", "hue-rotate",
   "conic-gradient", "repeating-conic-gradient"].map String.toList

def angleDimension : List (List Char) := ["deg", "grad", "rad", "turn"].map String.toList

/-- `funHash` of a function name (without the parenthesis) -/
def funHash (name : List Char) : List Char :=
  let l := lower name
  if known l != [] then known l else if zeroAngleFuncs.contains l then zeroAngleFn else []

/-- `Token.Fun` -/
def funOf (t : Tok) : List Char := if t.tt == .function then funHash t.data.dropLast else []

/-- the math functions whose arguments are minified like those of `calc()` -/
def typedMathFuncs : List (List Char) :=
  ["abs", "sign", "hypot", "atan2", "pow", "sqrt", "mod", "rem", "sin", "cos", "tan", "asin", "acos", "atan",
   "exp", "log"].map String.toList

/-- the `fun` argument with which the arguments of function `name` are minified -/
def argFun (name : List Char) : List Char :=
  if funHash name == [] && typedMathFuncs.contains (lower name) then "calc".toList else funHash name

def tIdent (s : List Char) : Tok := .mk .ident s []
def tNum (s : List Char) : Tok := .mk .number s []
def tPct (s : List Char) : Tok := .mk .percentage s []
def tHash (s : List Char) : Tok := .mk .hash s []

def isSlash (t : Tok) : Bool := t.tt == .delim && t.data.head? == some '/'
def isComma (t : Tok) : Bool := t.tt == .comma

/-- `Token.IsZero` -/
def isZero (t : Tok) : Bool :=
  (t.tt == .dimension || t.tt == .percentage || t.tt == .number) && t.data.head? == some '0'

def lengthFuns : List (List Char) := ["calc", "min", "max", "clamp", "attr", "var", "env"].map S

/-- `Token.IsLength` (the function name is hashed *without* lower-casing there) -/
def isLength (t : Tok) : Bool :=
  t.tt == .dimension || (t.tt == .number && t.data.head? == some '0') ||
  (t.tt == .function && lengthFuns.contains (known t.data.dropLast))

def isLengthPercentage (t : Tok) : Bool := t.tt == .percentage || isLength t

/-! ## parseFunction / parseDeclaration -/

/-- arguments of a function up to its closing parenthesis; returns the arguments and the remaining tokens -/
def parseFunction : Nat → List Tok → Nat → List Tok → List Tok × List Tok
  | 0, ts, _, acc => (acc.reverse, ts)
  | _ + 1, [], _, acc => (acc.reverse, [])
  | fuel + 1, t :: r, level, acc =>
    if t.tt == .rightParen && level == 0 then (acc.reverse, r)
    else
      let level' := if t.tt == .leftParen then level + 1 else if t.tt == .rightParen then level - 1 else level
      if t.tt == .function then
        let (sub, r') := parseFunction fuel r 0 []
        parseFunction fuel r' level' (Tok.mk .function t.data sub :: acc)
      else parseFunction fuel r level' (Tok.mk t.tt t.data [] :: acc)

def isBracket (tt : TT) : Bool :=
  tt == .leftParen || tt == .leftBrace || tt == .leftBracket ||
  tt == .rightParen || tt == .rightBrace || tt == .rightBracket

/-- the flat-list recogniser: `none` = "complex value, written out unprocessed" -/
def parseDecl : Nat → List Tok → Bool → List Tok → Option (List Tok)
  | 0, _, _, _ => none
  | _ + 1, [], _, acc => some acc.reverse
  | fuel + 1, t :: r, prevSep, acc =>
    if isBracket t.tt then none else
    let sep := t.tt == .whitespace || t.tt == .comma || isSlash t
    if !prevSep && !sep then none else
    if sep then
      parseDecl fuel r true (if t.tt != .whitespace then Tok.mk t.tt t.data [] :: acc else acc)
    else if t.tt == .function then
      let (args, r') := parseFunction (r.length + 1) r 0 []
      parseDecl fuel r' true (Tok.mk .function t.data args :: acc)
    else parseDecl fuel r (t.tt == .url) (Tok.mk t.tt t.data [] :: acc)

def parseDeclaration (comps : List Tok) : Option (List Tok) := parseDecl (comps.length + 1) comps true []

/-! ## minifyTokens -/

/-- `minifyNumber`: `minify.Decimal` with KeepCSS2 unless the lexeme already has an exponent, else `minify.Number` -/
def num (o : Opts) (s : List Char) : List Char :=
  if o.keepCSS2 && !s.any isExpChar then decimal0 s else number0 s

def zeroTail (o : Opts) (s : List Char) : Nat :=
  if o.keepCSS2 && !s.any isExpChar then zeroTailDecimal s else zeroTailNumber s

def isLetter (c : Char) : Bool := ('a' ≤ c && c ≤ 'z') || ('A' ≤ c && c ≤ 'Z')

/-- the bytes `minifyDimension` returns as `dim`: a sub-slice of the *old* buffer, read after the unit was
    appended `d` bytes further to the front -/
def aliasedDim (dim : List Char) (d : Nat) : List Char :=
  if d == 0 || dim.length ≤ d then dim else dim.drop d ++ dim.drop (dim.length - d)

/-- `minifyDimension`: (new lexeme, unit bytes as seen by the caller) -/
def minifyDimension (o : Opts) (data : List Char) : List Char × List Char :=
  let unitRev := data.reverse.takeWhile isLetter
  let n := data.length - unitRev.length
  let numPart := data.take n
  let dim := lower (data.drop n)
  let m := num o numPart
  let tail := if m == ['0'] then zeroTail o numPart else 0
  (m ++ dim, aliasedDim dim tail)

/-- the zero-unit cut of `minifyTokens`: `d` = minified lexeme, `dimSeen` = unit bytes as `minifyDimension`
    returned them, `fn` = `fun` of the enclosing function (`[]` = none or unknown); a zero angle loses its unit only in the
    `zeroAngleFn` functions -/
def zeroCut (prop fn d dimSeen : List Char) : List Char :=
  if 1 < d.length && d.head? == some '0' && optionalZeroDimension.contains dimSeen && prop != S "flex" &&
      ((fn == [] && !angleDimension.contains dimSeen) || fn == zeroAngleFn) then ['0']
  else d

/-- the hexadecimal digits of an escape: `0-9`, and the bytes `c` with `'a' ≤ c|0x20 ≤ 'f'` -/
def isHexByte (c : Char) : Bool := ('0' ≤ c && c ≤ '9') || ('a' ≤ c && c ≤ 'f') || ('A' ≤ c && c ≤ 'F')

/-- `endsInHexEscape` (a933f35): the bytes end in an unescaped backslash and one to six hexadecimal digits — an escape
that would consume a following white-space character -/
def endsInHexEscape (b : List Char) : Bool :=
  let hs := (b.reverse.takeWhile isHexByte).take 6
  if hs.isEmpty then false else
  match b.reverse.drop hs.length with
  | '\\' :: r => (r.takeWhile (· == '\\')).length % 2 == 0
  | _ => false

/-- `removeMarkupNewlines` once a first `\`-newline has been found: drop every `\` + newline; a space is written in
its place where the bytes written so far (`acc`, reversed) end in a hexadecimal escape -/
def dropEscapedNewlinesAcc : List Char → List Char → List Char
  | acc, '\\' :: '\r' :: '\n' :: r => dropEscapedNewlinesAcc (if endsInHexEscape acc.reverse then ' ' :: acc else acc) r
  | acc, '\\' :: '\n' :: r => dropEscapedNewlinesAcc (if endsInHexEscape acc.reverse then ' ' :: acc else acc) r
  | acc, '\\' :: '\r' :: r => dropEscapedNewlinesAcc (if endsInHexEscape acc.reverse then ' ' :: acc else acc) r
  | acc, c :: r => dropEscapedNewlinesAcc (c :: acc) r
  | acc, [] => acc.reverse

/-- the same without the escape rule (the code before a933f35; kept for the lemmas about strings without escapes) -/
def dropEscapedNewlines : List Char → List Char
  | '\\' :: '\r' :: '\n' :: r => dropEscapedNewlines r
  | '\\' :: '\n' :: r => dropEscapedNewlines r
  | '\\' :: '\r' :: r => dropEscapedNewlines r
  | c :: r => c :: dropEscapedNewlines r
  | [] => []

def hasEscapedNewline : List Char → Bool
  | '\\' :: '\n' :: _ => true
  | '\\' :: '\r' :: _ => true
  | _ :: r => hasEscapedNewline r
  | [] => false

/-- `removeMarkupNewlines` (util.go): the search for the first occurrence covers indices `1 … len-3` -/
def removeMarkupNewlines (data : List Char) : List Char :=
  if hasEscapedNewline ((data.take (data.length - 1)).drop 1) then dropEscapedNewlinesAcc (data.take 1).reverse (data.drop 1)
  else data

/-- `css.IsURLUnquoted` for bytes without backslash -/
def isURLUnquoted (b : List Char) : Bool :=
  b.all fun c => !(c == '"' || c == '\'' || c == '(' || c == ')' || c == '\\' || c == ' ' || c.toNat ≤ 0x1F || c.toNat == 0x7F)

def trimWs (b : List Char) : List Char := ((b.dropWhile isWs).reverse.dropWhile isWs).reverse

def startsWithFold (s : List Char) (p : List Char) : Bool := lower (s.take p.length) == p

/-- URL token rewriting of `minifyTokens`; `none` = outside the model (data: URI, backslashes, no `)`) -/
def minifyURL (data : List Char) : Option (List Char) :=
  if data.length ≤ 10 then some data else
  if data.getLast? != some ')' || data.contains '\\' then none else
  let uri := trimWs ((data.drop 4).dropLast)
  let quoted := 1 < uri.length && (uri.head? == some '\'' || uri.head? == some '"')
  let delim : Char := if quoted then uri.headD '"' else '"'
  let uri := if quoted then (uri.drop 1).dropLast else uri
  if 4 < uri.length && startsWithFold uri (S "data:") then none else
  if isURLUnquoted uri then some (S "url(" ++ uri ++ [')'])
  else some (S "url(" ++ delim :: uri ++ [delim, ')'])

/-- `minifyNumberPercentage` -/
def minifyNumberPercentage (t : Tok) : Tok :=
  match t.tt, t.data with
  | .percentage, [d, '0', '%'] => tNum ['.', d]
  | .number, '.' :: '0' :: '0' :: r => tPct ('.' :: r ++ ['%'])
  | .number, ['.', '0', d] => tPct [d, '%']
  | _, _ => t

def epsilon : Rat := 1 / 100000

def clampEps (d : Rat) : Rat := if d < epsilon then 0 else if 1 - epsilon < d then 1 else d

def hexDigitChar (n : Nat) : Char := if n < 10 then Char.ofNat (48 + n) else Char.ofNat (87 + n)

/-- `rgbToToken` (util.go) on exact rationals in [0, 1] -/
def rgbToToken (r g b : Rat) : Tok :=
  let byte (x : Rat) : Nat := ((x * 255 + 1 / 2).floor.toNat) % 256
  let hx (n : Nat) : List Char := [hexDigitChar (n / 16), hexDigitChar (n % 16)]
  let val := '#' :: hx (byte r) ++ hx (byte g) ++ hx (byte b)
  match shortenColorHex.lookup val with
  | some s => tIdent s
  | none =>
    match val with
    | ['#', a, a', b, b', c, c'] => if a == a' && b == b' && c == c' then tHash ['#', a, b, c] else tHash val
    | _ => tHash val

/-- value of a number lexeme as an exact rational (what `strconv.ParseFloat` approximates) -/
def ratOf (s : List Char) : Option Rat := Verif.Spec.CssValue.numVal s

def ratMod (x m : Rat) : Rat := x - m * ((x / m).floor : Rat)

def hue2rgb (m1 m2 h : Rat) : Rat :=
  let h := if h < 0 then h + 1 else h
  let h := if 1 < h then h - 1 else h
  if h * 6 < 1 then m1 + (m2 - m1) * h * 6
  else if h * 2 < 1 then m2
  else if h * 3 < 2 then m1 + (m2 - m1) * (2 / 3 - h) * 6
  else m1

/-- `css.HSL2RGB` of the dependency -/
def hsl2rgb (h s l : Rat) : Rat × Rat × Rat :=
  let m2 := if 1 / 2 < l then l + s - l * s else l * (s + 1)
  let m1 := l * 2 - m2
  (hue2rgb m1 m2 (h + 1 / 3), hue2rgb m1 m2 h, hue2rgb m1 m2 (h - 1 / 3))

/-- the scan over the arguments of `rgb()/rgba()/hsl()/hsla()`: `none` = not valid (left alone) -/
def colorVals : Nat → List Tok → List Rat → Option (List Rat)
  | _, [], acc => some acc.reverse
  | i, a :: r, acc =>
    let numeric := a.tt == .number || a.tt == .percentage
    let separator := a.tt == .comma || (i != 5 && a.tt == .whitespace) || (i == 5 && isSlash a)
    if (i % 2 == 0 && !numeric) || (i % 2 == 1 && !separator) then none
    else if numeric then
      match (if a.tt == .percentage then ratOf a.data.dropLast else ratOf a.data) with
      | none => none
      | some d => colorVals (i + 1) r ((if a.tt == .percentage then clampEps (d / 100) else d) :: acc)
    else colorVals (i + 1) r acc

def setAt (l : List Tok) (i : Nat) (t : Tok) : List Tok := l.set i t

def rgbFuns : List (List Char) := ["rgb", "rgba"].map S
def colorFuns : List (List Char) := ["rgb", "rgba", "hsl", "hsla"].map S

/-- the `rgb()/rgba()/hsl()/hsla()` branch of `minifyTokens` applied to a function token whose arguments are
    already minified; `none` = outside the model -/
def minifyColorFunc (t : Tok) : Option Tok :=
  let fn := funOf t
  let args := t.args
  match colorVals 0 args [] with
  | none => some t
  | some vals =>
    -- a separator trails the last value; the comma syntax of rgb() mixes numbers and percentages
    if args.length + 1 != 2 * vals.length then some t else
    if rgbFuns.contains fn && 3 ≤ vals.length && (args.getD 1 default).tt == .comma &&
        ((args.getD 0 default).tt != (args.getD 2 default).tt || (args.getD 0 default).tt != (args.getD 4 default).tt) then some t else
    -- float32 range of ParseFloat(…, 32)
    if vals.any (fun v => 100000000000000000000000000000000000000 < v || v < -100000000000000000000000000000000000000) then none else
    let opaque4 := vals.length == 4 && 1 - epsilon < vals.getD 3 0
    let transparent := vals.length == 4 && vals.all (· < epsilon)
    if transparent then some (tIdent (S "transparent")) else
    let vals' := if opaque4 then vals.take 3 else vals
    let a : Rat := if vals.length == 4 && !opaque4 then vals.getD 3 0 else 1
    let t1 : Tok :=
      if opaque4 then
        .mk .function (if fn == S "rgba" || fn == S "hsla" then t.data.dropLast.dropLast ++ ['('] else t.data)
          (args.take (args.length - 2))
      else t
    if a == 1 && vals'.length == 3 then
      if rgbFuns.contains fn then
        let v (j : Nat) : Rat :=
          if (args.getD (j * 2) default).tt == .number then clampEps (vals'.getD j 0 / 255) else vals'.getD j 0
        some (rgbToToken (v 0) (v 1) (v 2))
      else
        -- (fun == Hsl || fun == Hsla) && number, percentage, percentage
        let typed := (args.getD 0 default).tt == .number && (args.getD 2 default).tt == .percentage &&
          (args.getD 4 default).tt == .percentage
        if typed then
          let h0 := vals'.getD 0 0 / 360
          -- math.Modf: fractional part with the sign of the argument
          let frac : Rat := if 0 ≤ h0 then h0 - (h0.floor : Rat) else -((-h0) - ((-h0).floor : Rat))
          let h := if frac < 0 then 1 + frac else frac
          let (r, g, b) := hsl2rgb h (vals'.getD 1 0) (vals'.getD 2 0)
          -- a channel exactly half-way between two levels: the float64 computation of the code decides (outside the model)
          if [r, g, b].any (fun x => x * 255 + 1 / 2 == ((x * 255 + 1 / 2).floor : Rat)) then none else
          some (rgbToToken r g b)
        else some t1
    else
      let args1 := if vals'.length == 4 then setAt t1.args 6 (minifyNumberPercentage (args.getD 6 default)) else t1.args
      if 3 ≤ vals'.length && rgbFuns.contains fn then
        let removePct := [0, 1, 2].all fun j =>
          (args.getD (j * 2) default).tt == .percentage && ratMod (vals'.getD j 0 + epsilon) (1 / 5) < 2 * epsilon
        if removePct then
          let repl (v : Rat) : Option (List Char) :=
            if v < epsilon then some ['0']
            else if (v - 1 / 5 < epsilon && 1 / 5 - v < epsilon) then some (S "51")
            else if (v - 2 / 5 < epsilon && 2 / 5 - v < epsilon) then some (S "102")
            else if (v - 3 / 5 < epsilon && 3 / 5 - v < epsilon) then some (S "153")
            else if (v - 4 / 5 < epsilon && 4 / 5 - v < epsilon) then some (S "204")
            else if (v - 1 < epsilon && 1 - v < epsilon) then some (S "255")
            else none
          let args2 := [0, 1, 2].foldl (fun (as : List Tok) j =>
            match repl (vals'.getD j 0) with
            | some d => setAt as (j * 2) (tNum d)
            | none => setAt as (j * 2) (.mk .number (as.getD (j * 2) default).data [])) args1
          some (.mk .function t1.data args2)
        else some (.mk .function t1.data args1)
      else some (.mk .function t1.data args1)

def integerProps : List (List Char) :=
  ["z-index", "counter-increment", "counter-reset", "orphans", "widows"].map S

/-- `minifyDimension` leaves a dimension alone when the bytes after its number are not all letters -/
def unitIsLetters (data : List Char) : Bool := (Verif.Spec.CssValue.spanNumber data).2.all isLetter

/-- `gluedSignedNumber`: a signed number directly behind a token it would merge with once the sign is dropped -/
def gluedSignedNumber (prev cur : Tok) : Bool :=
  (cur.tt == .number || cur.tt == .percentage || cur.tt == .dimension) &&
  (cur.data.head? == some '+' || cur.data.head? == some '-') &&
  prev.tt != .function &&
  (match prev.data.getLast? with
   | some c => isLetter c || ('0' ≤ c && c ≤ '9') || c == '.' || c == '+' || c == '-' || c == '_' || c == '\\' || c.toNat ≥ 0x80
   | none => false)

mutual
/-- `minifyTokens` on one token (`fn` = `fun` of the enclosing function, `[]` at top level) -/
def minifyTok (o : Opts) (prop fn : List Char) : Nat → Tok → Option Tok
  | 0, t => some t
  | lvl + 1, t =>
    match t.tt with
    | .number => if integerProps.contains prop then some t else some (tNum (num o t.data))
    | .percentage => some (tPct (num o t.data.dropLast ++ ['%']))
    | .dimension =>
      if !unitIsLetters t.data then some t else
      let (d, dim) := minifyDimension o t.data
      some (.mk .dimension (zeroCut prop fn d dim) [])
    | .string => some (.mk .string (removeMarkupNewlines t.data) [])
    | .url => (minifyURL t.data).map fun d => .mk .url d []
    | .function =>
      match minifyToks o prop (argFun t.data.dropLast) true lvl none t.args with
      | none => none
      | some args =>
        let t' := Tok.mk .function t.data args
        if colorFuns.contains (funOf t) then minifyColorFunc t' else some t'
    | _ => some t
/-- the loop of `minifyTokens`; `prev` = the previous token as already rewritten, `inFn` = inside a function -/
def minifyToks (o : Opts) (prop fn : List Char) (inFn : Bool) : Nat → Option Tok → List Tok → Option (List Tok)
  | _, _, [] => some []
  | lvl, prev, t :: r =>
    let glued := inFn && (match prev with | some p => gluedSignedNumber p t | none => false)
    match (if glued then some t else minifyTok o prop fn lvl t) with
    | none => none
    | some t' =>
      match minifyToks o prop fn inFn lvl (some t') r with
      | some r' => some (t' :: r')
      | none => none
end

/-- `minifyTokens` at top level (nesting deeper than 100 levels is outside the model) -/
def minifyTokens (o : Opts) (prop : List Char) (vs : List Tok) : Option (List Tok) :=
  minifyToks o prop [] false 100 none vs

/-! ## minifyColor -/

/-- a hash lexeme with everything behind `#` lower-cased (`parse.ToLower(data[1:])`) -/
def lowerTail : List Char → List Char
  | c :: r => c :: lower r
  | [] => []

/-- `#rrggbbff` → `#rrggbb`, `#rrggbb00` → `#0000` -/
def trimAlpha (data : List Char) : List Char :=
  match data with
  | [h, a, b, c, d, e, f, x, y] =>
    if x == y then (if x == 'f' then [h, a, b, c, d, e, f] else if x == '0' then S "#0000" else data) else data
  | _ => data

/-- `#aabbcc` → `#abc`, `#aabbccdd` → `#abcd` -/
def shortHex (data : List Char) : List Char :=
  match data with
  | [h, a, a', b, b', c, c'] => if a == a' && b == b' && c == c' then [h, a, b, c] else data
  | [h, a, a', b, b', c, c', d, d'] => if a == a' && b == b' && c == c' && d == d' then [h, a, b, c, d] else data
  | _ => data

/-- `minifyColor` (css.go) -/
def minifyColor (t : Tok) : Tok :=
  match t.tt with
  | .ident =>
    match shortenColorName.lookup (identOf t) with
    | some hex => tHash hex
    | none => t
  | .hash =>
    let data := trimAlpha (lowerTail t.data)
    match shortenColorHex.lookup data with
    | some name => .mk .ident name t.args
    | none => .mk .hash (shortHex data) t.args
  | _ => t

/-! ## comma separated layers -/

/-- the value list as first layer and the following (comma token, layer) pairs -/
def splitC : List Tok → List Tok × List (Tok × List Tok)
  | [] => ([], [])
  | t :: r =>
    let (s, rest) := splitC r
    if isComma t then ([], (t, s) :: rest) else (t :: s, rest)

def joinC (p : List Tok × List (Tok × List Tok)) : List Tok :=
  p.1 ++ p.2.flatMap fun (c, seg) => c :: seg

/-- a layer rewrite is applied to non-empty layers only -/
def onLayer (f : List Tok → List Tok) (seg : List Tok) : List Tok := if seg.isEmpty then [] else f seg

/-- apply `f` to every non-empty comma-separated layer, commas stay (the `start`/`end` loop of
    `minifyProperty`) -/
def mapSeg (f : List Tok → List Tok) (vs : List Tok) : List Tok :=
  let p := splitC vs
  joinC (onLayer f p.1, p.2.map fun (c, seg) => (c, onLayer f seg))

/-! ## property rewrites -/

/-- `margin`, `padding`, `border-width` -/
def minifySides : List Tok → List Tok
  | [a, b] => if a == b then [a] else [a, b]
  | [a, b, c] => if a == b && a == c then [a] else if a == c then [a, b] else [a, b, c]
  | [a, b, c, d] =>
    if a == b && a == c && a == d then [a]
    else if a == c && b == d then [a, b]
    else if b == d then [a, b, c]
    else [a, b, c, d]
  | vs => vs

/-- drop the tokens whose identifier hash is one of `kws`; `none` if nothing is left -/
def dropOnly (kws : List (List Char)) (vs : List Tok) : List Tok :=
  let r := vs.filter fun t => !kws.contains (identOf t)
  if r.isEmpty then [tIdent (S "none")] else r

/-- `border*`, `outline`, `column-rule`, `text-decoration`, `text-emphasis`: drop the listed initial-value
    keywords, shorten colours, `none` if nothing is left -/
def dropKeywords (kws : List (List Char)) (vs : List Tok) : List Tok :=
  let r := (vs.filter fun t => !kws.contains (identOf t)).map minifyColor
  if r.isEmpty then [tIdent (S "none")] else r

/-- the shorthands whose initial-value keywords are dropped, with those keywords (literals of `minifyProperty`) -/
def lineDropTable : List (List Char × List (List Char)) :=
  [(S "border", ["none", "currentcolor", "medium"].map S),
   (S "border-bottom", ["none", "currentcolor", "medium"].map S),
   (S "border-left", ["none", "currentcolor", "medium"].map S),
   (S "border-right", ["none", "currentcolor", "medium"].map S),
   (S "border-top", ["none", "currentcolor", "medium"].map S),
   (S "outline", ["invert", "none", "medium"].map S),
   (S "column-rule", ["currentcolor", "none", "medium"].map S),
   (S "text-decoration", ["currentcolor", "none", "solid"].map S),
   (S "text-emphasis", ["currentcolor", "none"].map S)]

def minifyFontWeight : List Tok → List Tok
  | t :: r =>
    if identOf t == S "normal" then tNum (S "400") :: r
    else if identOf t == S "bold" then tNum (S "700") :: r
    else t :: r
  | [] => []

/-- `css.IsIdent` for bytes without backslash -/
def isIdentBytes (b : List Char) : Bool :=
  let start (c : Char) : Bool := isLetter c || c == '_' || c.toNat ≥ 0x80
  let cont (c : Char) : Bool := start c || ('0' ≤ c && c ≤ '9') || c == '-'
  let b' := match b with | '-' :: r => r | _ => b
  match b' with
  | c :: r => start c && r.all cont
  | [] => false

/-- `font-family`: `none` = a string with a backslash (outside the model) -/
def minifyFontFamilyTok (t : Tok) : Option Tok :=
  if t.tt == .string && 2 < t.data.length then
    if t.data.contains '\\' then none else
    let data := lower t.data
    let s := (data.drop 1).dropLast
    let unquote := (splitOn ' ' s).all fun w => !w.isEmpty && isIdentBytes w
    some (.mk .string (if unquote then s else data) t.args)
  else some t

def minifyFontFamily (vs : List Tok) : Option (List Tok) := vs.mapM minifyFontFamilyTok

def bgSizeSeg : List Tok → List Tok
  | [a, b] => if identOf b == S "auto" then [a] else [a, b]
  | seg => seg

def bgRepeatSeg : List Tok → List Tok
  | [a, b] =>
    if a.tt == .ident && b.tt == .ident then
      if identOf a == identOf b then [a]
      else if identOf a == S "repeat" && identOf b == S "no-repeat" then [.mk .ident (S "repeat-x") a.args]
      else if identOf a == S "no-repeat" && identOf b == S "repeat" then [.mk .ident (S "repeat-y") a.args]
      else [a, b]
    else [a, b]
  | seg => seg

def eraseIdx (l : List Tok) (i : Nat) : List Tok := l.eraseIdx i

def boxShadowSeg (seg : List Tok) : List Tok :=
  match seg with
  | [a] => if identOf a == S "initial" then [.mk .ident (S "none") a.args] else
    -- a single token: at most one length, nothing to drop
    [a]
  | _ =>
    let idx := (List.range seg.length).filter fun i => isLength (seg.getD i default)
    let (seg, idx) :=
      if idx.length == 4 && isZero (seg.getD (idx.getD 3 0) default) then (eraseIdx seg (idx.getD 3 0), idx.take 3)
      else (seg, idx)
    if idx.length == 3 && isZero (seg.getD (idx.getD 2 0) default) then eraseIdx seg (idx.getD 2 0) else seg

/-- the per-token rewrite of `border-color`: `currentcolor` → `initial`, otherwise colour shortening -/
def borderColorTok (t : Tok) : Tok :=
  if identOf t == S "currentcolor" then Tok.mk .ident (S "initial") t.args else minifyColor t

def minifyBorderColor (vs : List Tok) : List Tok :=
  let vs' := vs.map borderColorTok
  match vs' with
  | a :: r => if r.all (fun t => a == t) then [a] else vs'
  | [] => []

def mapHead (f : Tok → Tok) : List Tok → List Tok
  | t :: r => f t :: r
  | [] => []

/-- `minifyLengthPercentage` -/
def minifyLengthPercentage (t : Tok) : Tok :=
  if t.tt != .number && isZero t then .mk .number (t.data.take 1) t.args else t

def minifyFlex : List Tok → List Tok
  | [a, b] =>
    if a.tt == .number && b.tt != .number && isZero b then [a] else [a, b]
  | [a, b, c] =>
    if a.tt == .number && b.tt == .number && a.data.length == 1 && b.data.length == 1 then
      if identOf c == S "auto" then
        if a.data == ['0'] && b.data == ['1'] then [.mk .ident (S "initial") a.args]
        else if a.data == ['1'] && b.data == ['1'] then [.mk .ident (S "auto") a.args]
        else if a.data == ['0'] && b.data == ['0'] then [.mk .ident (S "none") a.args]
        else [a, b, c]
      else if b.data == ['1'] && isZero c then [a]
      else if isZero c then [a, b]
      else [a, b, minifyLengthPercentage c]
    else [a, b, c]
  | vs => vs

/-! ### unicode-range -/

def urHexDigit (c : Char) : Option Nat :=
  if '0' ≤ c && c ≤ '9' then some (c.toNat - 48)
  else
    let l := Char.ofNat (c.toNat ||| 32)
    if 'a' ≤ l && l ≤ 'f' then some (l.toNat - 87) else none

/-- the start scan: `start*16 + digit` for hex digits, `*16` for anything else up to `-`; position of the
    first `?` (as index into the lexeme) -/
def urScanStart : List Char → Nat → Nat → Nat → Nat × Nat × List Char
  | [], _, start, iw => (start, iw, [])
  | c :: r, i, start, iw =>
    if c == '-' then (start, iw, c :: r)
    else
      let start := start * 16
      match urHexDigit c with
      | some d => urScanStart r (i + 1) (start + d) iw
      | none => urScanStart r (i + 1) start (if iw == 0 && c == '?' then i else iw)

def urScanEnd : List Char → Nat → Nat
  | [], e => e
  | c :: r, e => urScanEnd r (e * 16 + (urHexDigit c).getD 0)

/-- the `[start, end]` pair the code computes for one unicode-range lexeme (`U+…`); `none` = reversed range
    (`end < start`): the whole value is returned unchanged -/
def urBounds (data : List Char) : Option (Nat × Nat) :=
  let (start, iw, rest) := urScanStart (data.drop 2) 2 0 0
  if iw != 0 then some (start, start + 16 ^ (data.length - iw) - 1)
  else match rest with
    | '-' :: r => let e := urScanEnd r 0; if e < start then none else some (start, e)
    | _ => some (start, start)

/-- insertion into a list sorted by the first component (stable: behind equal keys).  `sort.Slice` is not
    stable; the model is tied on inputs without equal starts or where the order does not matter. -/
def insertRange (x : Nat × Nat) : List (Nat × Nat) → List (Nat × Nat)
  | [] => [x]
  | y :: r => if x.1 < y.1 then x :: y :: r else y :: insertRange x r

def sortRanges (l : List (Nat × Nat)) : List (Nat × Nat) := l.foldl (fun acc x => insertRange x acc) []

/-- the merge loop: the current range absorbs its successors as long as they are contained in it or touch it -/
def mergeInto (a : Nat × Nat) : List (Nat × Nat) → List (Nat × Nat)
  | [] => [a]
  | b :: r =>
    if b.2 ≤ a.2 then mergeInto a r
    else if b.1 ≤ a.2 + 1 then mergeInto (a.1, b.2) r
    else a :: mergeInto b r

def mergeRanges : List (Nat × Nat) → List (Nat × Nat)
  | [] => []
  | a :: r => mergeInto a r

def hexUpper (n : Nat) : List Char :=
  (Nat.toDigits 16 n).map fun c => if 'a' ≤ c && c ≤ 'f' then Char.ofNat (c.toNat - 32) else c

def nibble (x k : Nat) : Nat := (x >>> (k * 4)) &&& 0xF

def urWildcards (a b : Nat) : Nat :=
  let k0 := ((List.range 6).takeWhile fun k => nibble a k == 0 && nibble b k == 0xF).length
  if ((List.range 6).drop k0).all (fun k => nibble a k == nibble b k) then k0 else 0

def urRender (ran : Nat × Nat) : Tok :=
  let (a, b) := ran
  if a == b then .mk .unicodeRange ('U' :: '+' :: hexUpper a) []
  else if a == 0 && b == 0x10FFFF then tIdent (S "initial")
  else
    let w := urWildcards a b
    if w != 0 then
      if a >>> (w * 4) == 0 then .mk .unicodeRange ('U' :: '+' :: List.replicate w '?') []
      else .mk .unicodeRange ('U' :: '+' :: hexUpper (a >>> (w * 4)) ++ List.replicate w '?') []
    else .mk .unicodeRange ('U' :: '+' :: hexUpper a ++ '-' :: hexUpper b) []

def intersperseComma : List Tok → List Tok
  | [] => []
  | [a] => [a]
  | a :: r => a :: .mk .comma [','] [] :: intersperseComma r

/-- `unicode-range` -/
def minifyUR (vs : List Tok) : List Tok :=
  let toks := vs.filter fun t => t.tt != .comma
  if toks.any (fun t => t.tt != .unicodeRange) then
    -- the scan returns at the first token that is neither comma nor unicode-range
    vs
  else match toks.mapM (fun t => urBounds t.data) with
    | none => vs
    | some rs => intersperseComma ((mergeRanges (sortRanges rs)).map urRender)

/-! ### background-position -/

/-- token with its (possibly stale) `Ident` field -/
abbrev ATok := Tok × List Char

def annot (t : Tok) : ATok := (t, identOf t)

def aZero : ATok := (tNum ['0'], [])
def a100 : ATok := (tPct (S "100%"), [])

/-- `strconv.ParseInt` of the dependency: (value, bytes consumed); stops at the first non-digit, (0, 0) when
    there is no digit or on int64 overflow -/
def parseIntPrefix (s : List Char) : Int × Nat :=
  let (neg, sg, ds) : Bool × Nat × List Char :=
    match s with | '-' :: r => (true, 1, r) | '+' :: r => (false, 1, r) | _ => (false, 0, s)
  let ds := ds.takeWhile isDig
  let n : Nat := ds.foldl (fun a c => a * 10 + (c.toNat - 48)) 0
  if ds.isEmpty then (0, 0)
  else if neg then (if n ≤ 2 ^ 63 then (-(n : Int), sg + ds.length) else (0, 0))
  else (if n < 2 ^ 63 then ((n : Int), sg + ds.length) else (0, 0))

def intDigits (i : Int) : List Char := if i < 0 then '-' :: natDigits i.natAbs else natDigits i.natAbs

structure PosState where
  vs : List ATok
  off0 : Option ATok
  off1 : Option ATok

/-- one iteration of `for _, i := range []int{j, start}` on a segment (indices relative to the segment) -/
def bgPosStep (len j i : Nat) (st : PosState) : PosState :=
  let vi := st.vs.getD i default
  if i + 1 < len && i + 1 != j then
    let nx := st.vs.getD (i + 1) default
    let (vi, nx) : ATok × ATok :=
      if nx.1.tt == .percentage && (parseIntPrefix nx.1.data.dropLast).2 == nx.1.data.length - 1 &&
          (vi.2 == S "right" || vi.2 == S "bottom") then
        let n := (parseIntPrefix nx.1.data.dropLast).1
        let nx' : ATok := (.mk nx.1.tt (intDigits (100 - n) ++ ['%']) nx.1.args, nx.2)
        if vi.2 == S "right" then ((.mk vi.1.tt (S "left") vi.1.args, S "left"), nx')
        else ((.mk vi.1.tt (S "top") vi.1.args, S "top"), nx')
      else (vi, nx)
    let vs := (st.vs.set i vi).set (i + 1) nx
    if vi.2 == S "left" then { st with vs := vs, off0 := some nx }
    else if vi.2 == S "top" then { st with vs := vs, off1 := some nx }
    else { st with vs := vs }
  else if vi.2 == S "left" then { st with off0 := some aZero }
  else if vi.2 == S "top" then { st with off1 := some aZero }
  else if vi.2 == S "right" then { st with vs := st.vs.set i (vi.1, S "left"), off0 := some a100 }
  else if vi.2 == S "bottom" then { st with vs := st.vs.set i (vi.1, S "top"), off1 := some a100 }
  else st

/-- the 3- or 4-value block after the zero offsets were removed -/
def bgPosOffsets (seg : List ATok) : List ATok :=
  let len := seg.length
  let j := if 2 < len && (seg.getD 2 default).1.tt == .ident then 2 else 1
  let st := bgPosStep len j 0 (bgPosStep len j j ⟨seg, none, none⟩)
  let idS := (st.vs.getD 0 default).2
  let idJ := (st.vs.getD j default).2
  let center := idS == S "center" || idJ == S "center"
  let one := center && (idS == S "left" || idJ == S "left")
  let off0 := if center && !one && (idS == S "top" || idJ == S "top") then some (tNum (S "50%"), []) else st.off0
  match off0, one, st.off1 with
  | some a, true, _ => [a]
  | some a, false, some b => [a, b]
  | _, _, _ => st.vs

/-- the 1- or 2-value block; `true` = the Go loop `break`s (single `top`/`bottom`) -/
def bgPosKeywords (seg : List ATok) : List ATok × Bool :=
  match seg with
  | [a] =>
    if a.2 == S "top" || a.2 == S "bottom" then ([a], true)
    else if a.1.tt == .ident then
      if a.2 == S "left" then ([aZero], false)
      else if a.2 == S "right" then ([a100], false)
      else if a.2 == S "center" then ([(tPct (S "50%"), [])], false)
      else ([a], false)
    else if a.1.tt == .percentage && a.1.data.head? == some '0' then ([aZero], false)
    else ([a], false)
  | [a0, b0] =>
    let (a, b) := if a0.2 == S "top" || a0.2 == S "bottom" || b0.2 == S "left" || b0.2 == S "right" then (b0, a0) else (a0, b0)
    let conv (x : ATok) : ATok :=
      if x.1.tt == .ident then
        if x.2 == S "left" || x.2 == S "top" then aZero
        else if x.2 == S "right" || x.2 == S "bottom" then a100
        else x
      else if x.1.tt == .percentage && x.1.data.head? == some '0' then aZero
      else x
    let a' : ATok := if a.1.tt == .ident && a.2 == S "center" then (tPct (S "50%"), []) else conv a
    -- second position: `center` and `50%` are dropped
    if b.1.tt == .ident && b.2 == S "center" then ([a'], false)
    else if b.1.tt != .ident && b.1.tt == .percentage && b.1.data == S "50%" then ([a'], false)
    else ([a', conv b], false)
  | _ => (seg, false)

def aIsZero (a : ATok) : Bool := isZero a.1

/-- a segment that starts at index 0 of the value list -/
def bgPosSeg0 (seg : List ATok) : List ATok × Bool :=
  if seg.length == 3 || seg.length == 4 then
    let i1 := seg.length - 1
    let seg := if 2 < seg.length && aIsZero (seg.getD i1 default) then seg.eraseIdx i1 else seg
    let seg := if 2 < seg.length && aIsZero (seg.getD 1 default) then seg.eraseIdx 1 else seg
    -- the 3- or 4-value block continues with whatever is left
    let seg := bgPosOffsets seg
    if seg.length == 1 || seg.length == 2 then bgPosKeywords seg else (seg, false)
  else if seg.length == 1 || seg.length == 2 then bgPosKeywords seg else (seg, false)

/-! ### the same rewrite on a layer that is a valid `<bg-position>`, in structured form

`bgPosSeg0` follows the index arithmetic of the Go code and is total.  For layers that *are* valid positions
(`Spec.position` defined) the same input/output behaviour is described below by shape — keyword groups instead of
indices — which is the form the preservation theorem is proved about; the correspondence stage enumerates every
valid shape × offset class through both the real code and this definition. -/

open Verif.Spec.CssValue (PKw pkwOf position)

/-- a percentage offset the code can subtract from 100: `ParseInt` consumes the whole number -/
def flippable (o : Tok) : Option Int :=
  if o.tt == .percentage && (parseIntPrefix o.data.dropLast).2 == o.data.length - 1 then
    some (parseIntPrefix o.data.dropLast).1
  else none

def flipTok (o : Tok) (n : Int) : Tok := .mk o.tt (intDigits (100 - n) ++ ['%']) o.args

def tZero : Tok := tNum ['0']
def t100 : Tok := tPct (S "100%")
def t50 : Tok := tPct (S "50%")
/-- `Token{css.NumberToken, n50pBytes}`: the 50% the code writes for `center` next to a vertical offset -/
def tNum50 : Tok := tNum (S "50%")

/-- what one axis (keyword, optional offset) resolves to -/
inductive AxRes where
  | val (t : Tok)      -- a single offset from the left / top edge
  | center
  | stuck              -- right/bottom with an offset that is not a whole percentage
  deriving Repr

/-- resolution of a keyword group, and the tokens it is written with when the layer stays in keyword form -/
def resolveAxis (k : PKw) (kt : Tok) (o : Option Tok) : AxRes × List Tok :=
  match k, o with
  | .left, none => (.val tZero, [kt])
  | .top, none => (.val tZero, [kt])
  | .left, some o => (.val o, [kt, o])
  | .top, some o => (.val o, [kt, o])
  | .right, none => (.val t100, [kt])
  | .bottom, none => (.val t100, [kt])
  | .right, some o =>
    match flippable o with
    | some n => (.val (flipTok o n), [.mk kt.tt (S "left") kt.args, flipTok o n])
    | none => (.stuck, [kt, o])
  | .bottom, some o =>
    match flippable o with
    | some n => (.val (flipTok o n), [.mk kt.tt (S "top") kt.args, flipTok o n])
    | none => (.stuck, [kt, o])
  | .center, none => (.center, [kt])
  | .center, some o => (.stuck, [kt, o])

/-- `0%`-like percentages become `0` -/
def pctZero (t : Tok) : Tok := if t.tt == .percentage && t.data.head? == some '0' then tZero else t

/-- the last loop of the case on one or two resolved offsets -/
def finishVals : List Tok → List Tok
  | [x] => [pctZero x]
  | [x, y] => if y.tt == .percentage && y.data == S "50%" then [pctZero x] else [pctZero x, pctZero y]
  | l => l

def isHorizontalKw (k : PKw) : Bool := k == .left || k == .right
def isVerticalKw (k : PKw) : Bool := k == .top || k == .bottom

/-- two keyword groups in textual order → the rewritten layer -/
def assemble (k1 : PKw) (kt1 : Tok) (o1 : Option Tok) (k2 : PKw) (kt2 : Tok) (o2 : Option Tok) : List Tok :=
  let r1 := resolveAxis k1 kt1 o1
  let r2 := resolveAxis k2 kt2 o2
  let firstIsH := isHorizontalKw k1 || isVerticalKw k2
  let (h, v) := if firstIsH then (r1.1, r2.1) else (r2.1, r1.1)
  match h, v with
  | .val a, .val b => finishVals [a, b]
  | .val a, .center => finishVals [a]
  | .center, .val b => finishVals [tNum50, b]
  | _, _ => r1.2 ++ r2.2

/-- a zero offset is dropped first -/
def dropZero (o : Tok) : Option Tok := if isZero o then none else some o

/-- keyword → value in the one- and two-value forms -/
def kwValue (first : Bool) (t : Tok) : Option Tok :=
  match pkwOf t with
  | some .left => some tZero
  | some .top => some tZero
  | some .right => some t100
  | some .bottom => some t100
  | some .center => if first then some t50 else none
  | none => some (pctZero t)

/-- the rewrite of a layer that is a valid `<bg-position>`; the flag is the `break` of the Go loop -/
def bgPosClean (seg : List Tok) : List Tok × Bool :=
  match seg with
  | [a] =>
    match pkwOf a with
    | some .top => ([a], true)
    | some .bottom => ([a], true)
    | _ => ((kwValue true a).toList, false)
  | [a0, b0] =>
    let swap := pkwOf a0 == some .top || pkwOf a0 == some .bottom || pkwOf b0 == some .left || pkwOf b0 == some .right
    let (a, b) := if swap then (b0, a0) else (a0, b0)
    let second : Option Tok :=
      if pkwOf b == none && b.tt == .percentage && b.data == S "50%" then none else kwValue false b
    ((kwValue true a).toList ++ second.toList, false)
  | [a, b, c] =>
    match pkwOf a, pkwOf b, pkwOf c with
    | some ka, none, some kc => (assemble ka a (dropZero b) kc c none, false)
    | some ka, some kb, none => (assemble ka a none kb b (dropZero c), false)
    | _, _, _ => (seg, false)
  | [a, b, c, d] =>
    match pkwOf a, pkwOf c with
    | some ka, some kc => (assemble ka a (dropZero b) kc c (dropZero d), false)
    | _, _ => (seg, false)
  | _ => (seg, false)

/-- one layer: the structured description where the layer is a valid position, the index-faithful one otherwise -/
def bgPosLayer (seg : List Tok) : List Tok × Bool :=
  if (position seg).isSome then bgPosClean seg
  else
    let r := bgPosSeg0 (seg.map annot)
    (r.1.map (·.1), r.2)

/-- the `start`/`end` loop over comma-separated layers; a single `top`/`bottom` layer ends it (`break`) -/
def bgPosLayers : List Tok → List Tok → List Tok
  | cur, [] => if cur.isEmpty then [] else (bgPosLayer cur.reverse).1
  | cur, t :: r =>
    if isComma t then
      if cur.isEmpty then t :: bgPosLayers [] r
      else
        let (seg, stop) := bgPosLayer cur.reverse
        if stop then seg ++ t :: r else seg ++ t :: bgPosLayers [] r
    else bgPosLayers (t :: cur) r

/-- `background-position` -/
def minifyBgPosition (vs : List Tok) : List Tok := bgPosLayers [] vs

/-! ## minifyProperty -/

def sideColorProps : List (List Char) :=
  ["border-left-color", "border-right-color", "border-top-color", "border-bottom-color",
   "text-decoration-color", "text-emphasis-color"].map S
def plainColorProps : List (List Char) := ["color", "caret-color", "outline-color", "fill", "stroke"].map S

def msFilterAlpha : List Char := S "progid:DXImageTransform.Microsoft.Alpha(Opacity="

/-- the properties `minifyProperty` has a case for (the `switch prop` labels of css.go) -/
def rewrittenProps : List (List Char) :=
  ["font", "font-family", "font-weight", "url", "margin", "padding", "border-width", "border", "border-bottom",
   "border-left", "border-right", "border-top", "outline", "background", "background-size", "background-repeat",
   "background-position", "box-shadow", "-ms-filter", "color", "background-color", "border-color",
   "border-left-color", "border-right-color", "border-top-color", "border-bottom-color", "text-decoration-color",
   "text-emphasis-color", "caret-color", "outline-color", "fill", "stroke", "column-rule", "text-shadow",
   "text-decoration", "text-emphasis", "flex", "flex-basis", "order", "flex-grow", "flex-shrink",
   "unicode-range"].map S

/-- `minifyProperty`; `none` = property outside the model (`font`, `background`, `url`) or value outside it -/
def minifyProperty (o : Opts) (prop : List Char) (vs : List Tok) : Option (List Tok) :=
  if 100 < vs.length then some vs
  else if !rewrittenProps.contains prop then some vs
  else if prop == S "font" || prop == S "background" || prop == S "url" then none
  else if prop == S "font-family" then minifyFontFamily vs
  else if prop == S "font-weight" then some (minifyFontWeight vs)
  else if prop == S "margin" || prop == S "padding" || prop == S "border-width" then some (minifySides vs)
  else if (lineDropTable.lookup prop).isSome then some (dropKeywords ((lineDropTable.lookup prop).getD []) vs)
  else if prop == S "background-size" then some (mapSeg bgSizeSeg vs)
  else if prop == S "background-repeat" then some (mapSeg bgRepeatSeg vs)
  else if prop == S "background-position" then some (minifyBgPosition vs)
  else if prop == S "box-shadow" then some (mapSeg boxShadowSeg vs)
  else if prop == S "-ms-filter" then
    match vs with
    | t :: r =>
      if t.tt == .string && 2 < t.data.length && ((t.data.drop 1).dropLast.take msFilterAlpha.length == msFilterAlpha) then
        some (.mk .string (t.data.take 1 ++ S "alpha(opacity=" ++ t.data.drop (1 + msFilterAlpha.length)) t.args :: r)
      else some vs
    | [] => some vs
  else if prop == S "color" then some (mapHead minifyColor vs)
  else if prop == S "background-color" then
    some (mapHead (fun t =>
      let t' := minifyColor t
      if !o.keepCSS2 && identOf t' == S "transparent" then .mk .ident (S "initial") t'.args else t') vs)
  else if prop == S "border-color" then some (minifyBorderColor vs)
  else if sideColorProps.contains prop then
    some (mapHead (fun t => if identOf t == S "currentcolor" then .mk .ident (S "initial") t.args else minifyColor t) vs)
  else if plainColorProps.contains prop then some (mapHead minifyColor vs)
  else if prop == S "text-shadow" then some (vs.map minifyColor)
  else if prop == S "flex" then some (minifyFlex vs)
  else if prop == S "flex-basis" then
    some (mapHead (fun t => if identOf t == S "initial" then .mk .ident (S "auto") t.args else minifyLengthPercentage t) vs)
  else if prop == S "order" || prop == S "flex-grow" then
    some (mapHead (fun t => if identOf t == S "initial" then .mk .number ['0'] t.args else t) vs)
  else if prop == S "flex-shrink" then
    some (mapHead (fun t => if identOf t == S "initial" then .mk .number ['1'] t.args else t) vs)
  else if prop == S "unicode-range" then some (minifyUR vs)
  else some vs

/-! ## writer -/

/-- `opensComment`: would writing `next` directly behind `prev` glue `/` and `*` into a comment opener? -/
def opensComment (prev next : List Char) : Bool := prev.getLast? == some '/' && next.head? == some '*'

def isNameStartByte (c : Char) : Bool :=
  c == '-' || c == '_' || c == '\\' || c.toNat ≥ 0x80 || ('0' ≤ c && c ≤ '9') || isLetter c

/-- `gluesArgs` (a933f35): would writing `cur` directly behind `prev`, two arguments of a function, make one token of
them (or a function or percentage token)? -/
def gluesArgs (ptt : TT) (pdata : List Char) (ctt : TT) (cdata : List Char) : Bool :=
  if pdata.isEmpty || cdata.isEmpty then false
  else if !(ptt == .ident || ptt == .hash || ptt == .number || ptt == .dimension || ptt == .atKeyword || ptt == .customPropertyName) then false
  else if ctt == .whitespace then ptt != .number && endsInHexEscape pdata
  else
    let c := cdata.headD ' '
    if ctt == .leftParen then ptt == .ident
    else if c == '%' || c == '.' then
      ptt == .number && (c == '%' || (match cdata with | _ :: d :: _ => '0' ≤ d && d ≤ '9' | _ => false))
    else isNameStartByte c

/-- the tokens behind which a hexadecimal escape can end (`writeDeclaration`, raw path) -/
def escTT (tt : TT) : Bool := tt == .ident || tt == .hash || tt == .dimension

mutual
/-- a token inside a function: its lexeme, and for a nested function its arguments and `)` -/
def writeArg : Tok → List Char
  | .mk tt data args => data ++ (if tt == .function then writeFunction none args ++ [')'] else [])
/-- `writeFunction`; `prev` = the argument written last -/
def writeFunction : Option (TT × List Char) → List Tok → List Char
  | _, [] => []
  | prev, .mk tt data args :: r =>
    (match prev with
     | some (ptt, pdata) => if ptt != .function && (opensComment pdata data || gluesArgs ptt pdata tt data) then [' '] else []
     | none => []) ++
    writeArg (.mk tt data args) ++ writeFunction (some (tt, data)) r
end

/-- is a space *not* needed before the next value after this token? -/
def sepAfter (t : Tok) : Bool := t.tt == .comma || isSlash t || t.tt == .function || t.tt == .url

def writeVals : Option Tok → Bool → List Tok → List Char
  | _, _, [] => []
  | prev, prevSep, t :: r =>
    (if !prevSep && t.tt != .comma && !isSlash t then
       ' ' :: (match prev with
         | some p => if escTT p.tt && endsInHexEscape p.data then [' '] else []   -- the first space only ends the escape
         | none => [])
     else match prev with
       | some p => if p.tt == .delim && opensComment p.data t.data then [' '] else []
       | none => []) ++
    writeArg t ++ writeVals (some t) (sepAfter t) r

/-- `writeDeclaration` -/
def writeDeclaration (vs : List Tok) (important : Bool) : List Char :=
  writeVals none true vs ++ (if important then S "!important" else [])

/-- the raw path: components written as they are, `/` and `*` kept apart, a second space behind a hexadecimal escape -/
def writeRaw : Option Tok → List Tok → List Char
  | _, [] => []
  | prev, t :: r =>
    (match prev with
     | some p =>
       if opensComment p.data t.data then [' ']
       else if t.tt == .whitespace && escTT p.tt && endsInHexEscape p.data then [' '] else []
     | none => []) ++ t.data ++ writeRaw (some t) r

/-! ## minifyDeclaration -/

/-- strip a trailing `!important` (the identifier is compared case-sensitively through `ToHash`) -/
def stripImportant (comps : List Tok) : List Tok × Bool :=
  if 2 < comps.length then
    let a := comps.getD (comps.length - 2) default
    let b := comps.getD (comps.length - 1) default
    if a.tt == .delim && a.data.head? == some '!' && b.data == S "important" then (comps.take (comps.length - 2), true)
    else (comps, false)
  else (comps, false)

/-- bytes written after `prop:`; `none` = outside the model -/
def minifyDeclaration (o : Opts) (prop : List Char) (comps : List Tok) : Option (List Char) :=
  if comps.isEmpty then some [] else
  let (comps, important) := stripImportant comps
  match parseDeclaration comps with
  | none =>
    if prop == S "filter" && comps.length == 11 then none else
    some (writeRaw none comps ++ (if important then S "!important" else []))
  | some values =>
    match minifyTokens o prop values with
    | none => none
    | some values =>
      if values.isEmpty then some (writeDeclaration values important) else
      match minifyProperty o prop values with
      | none => none
      | some values => some (writeDeclaration values important)

end Verif.Model.Css

import Verif.Model.Css
/-!
# C09 (CSS slice): what `minifyDeclaration` hands to its writer

`Verif.Model.Css.minifyDeclaration` (model of `/repo/css/css.go`, see docs/C04.md) is split into the part that
chooses the tokens (`declPlan`) and the part that writes them (`writePlan`), so that the C09 theorems and the harness
can speak about "the tokens the minifier meant to write".  `minifyDeclaration_eq_plan` ties the two.
-/
namespace Verif.Model.C09Css
open Verif.Model.Css Verif.Spec.CssValue

/-- the writer's input: the raw path writes the parser's components, the other path the rewritten values -/
structure Plan where
  raw : Bool
  toks : List Tok
  important : Bool
  deriving Repr

def writePlan (p : Plan) : List Char :=
  if p.raw then writeRaw none p.toks ++ (if p.important then S "!important" else [])
  else writeDeclaration p.toks p.important

/-- the tokens `minifyDeclaration` decides to write; `none` = outside the model (as `minifyDeclaration`) -/
def declPlan (o : Opts) (prop : List Char) (comps : List Tok) : Option Plan :=
  if comps.isEmpty then some ⟨false, [], false⟩ else
  match parseDeclaration (stripImportant comps).1 with
  | none =>
    if prop == S "filter" && (stripImportant comps).1.length == 11 then none else
    some ⟨true, (stripImportant comps).1, (stripImportant comps).2⟩
  | some values =>
    match minifyTokens o prop values with
    | none => none
    | some values =>
      if values.isEmpty then some ⟨false, values, (stripImportant comps).2⟩ else
      match minifyProperty o prop values with
      | none => none
      | some values => some ⟨false, values, (stripImportant comps).2⟩

theorem minifyDeclaration_eq_plan (o : Opts) (prop : List Char) (comps : List Tok) :
    minifyDeclaration o prop comps = (declPlan o prop comps).map writePlan := by
  unfold minifyDeclaration declPlan
  by_cases h : comps.isEmpty
  · simp [h, writePlan, writeDeclaration, writeVals]
  · simp only [h, Bool.false_eq_true, if_false]
    cases hp : parseDeclaration (stripImportant comps).1 with
    | none =>
      simp only []
      split <;> simp [writePlan]
    | some values =>
      simp only []
      cases hm : minifyTokens o prop values with
      | none => rfl
      | some vs =>
        simp only []
        by_cases he : vs.isEmpty
        · simp [he, writePlan]
        · simp only [he, Bool.false_eq_true, if_false]
          cases minifyProperty o prop vs <;> simp [writePlan]

mutual
/-- the lexemes of one value in writing order: a function's name, its arguments, and `)` -/
def flatTok : Tok → List (List Char)
  | .mk tt data args => data :: (if tt == .function then flatArgs args ++ [[')']] else [])
def flatArgs : List Tok → List (List Char)
  | [] => []
  | t :: r => flatTok t ++ flatArgs r
end

/-- the lexemes a plan stands for -/
def planLexemes (p : Plan) : List (List Char) :=
  (if p.raw then p.toks.map Tok.data else flatArgs p.toks) ++ (if p.important then [['!'], S "important"] else [])

end Verif.Model.C09Css

import Verif.Model.Html
import Verif.Spec.C09HtmlTok
/-!
# C09 / HTML — the minifier's front end (parse/v2 `html.Lexer` + `html.TokenBuffer`), BY CONTRACT

`frontEnd` maps the token stream of the HTML standard to the token stream that `Model/Html.lean` consumes, for documents
on which the dependency lexer agrees with the standard (no template delimiters; no svg/math; tag and attribute names
without `/`; comments opened with `<!--` and closed with `-->`; no `<![CDATA[`; the document does not end inside a tag —
the deviations are the known findings K-C09-HTML-1, 2, 5, 6, 7 of `docs/C09-html.md`).  It is a model of a dependency,
used only to state what "the second pass reads the output of the first" means; correspondence with the real lexer is
exercised by the harness (`c09-html-*`: second pass on the real output), not proved.
-/
namespace Verif.Model.C09HtmlFront
open Verif.Spec.C09HtmlTok Verif.Model.Html

/-- `AttributeToken`: `Text` = name, `AttrVal` = raw value without the quotes, `Data` = the bytes of the attribute -/
def attrOf (a : SAttr) : Attr :=
  { name := a.name, val := a.raw,
    data := ' ' :: a.name ++ (match a.q with
      | .missing => []
      | .unquoted => '=' :: a.raw
      | .single => '=' :: '\'' :: a.raw ++ ['\'']
      | .double => '=' :: '"' :: a.raw ++ ['"']) }

def tokOf : Item → HTok
  | .text d _ => .text d false
  | .startTag n as _ => .startTag n (as.map attrOf)
  | .endTag n => .endTag n ('<' :: '/' :: n ++ ['>'])
  | .comment d => .comment (['<', '!', '-', '-'] ++ d ++ ['-', '-', '>']) d
  | .doctype _ => .doctype

def frontEnd (doc : List Char) : List HTok := (items false doc).map tokOf

end Verif.Model.C09HtmlFront

import Verif.Spec.Json
/-!
# Model of `json/json.go` (property C07) — core Lean only

* `events`        — **contract of the dependency** `github.com/tdewolff/parse/v2/json.Parser`: for a
                    valid JSON text denoting `v` the loop `state := p.State(); gt, text := p.Next()`
                    observes exactly `events .value v` — (state *before* `Next`, grammar type, text) —
                    and then `ErrorGrammar` with `io.EOF`.  Not verified; exercised on every run by the
                    harness (real parser vs `events (parseJ text)`).
* `minifyEvents`  — behavioural model of the loop of `(*Minifier).Minify` in `/repo/json/json.go`:
                    `skipComma`, separator chosen by the state, the number branch
                    (`minify.Number(text, o.Precision)`, then either the saved original lexeme — when
                    it has an exponent and the repaired result would be longer — or the `0` / `-0`
                    repair when the result starts with `.` / `-.`), `KeepNumbers`.
                    `minify.Number` enters as the parameter `num` (lexeme, precision ↦ result); it is
                    modelled and proved separately (C08).
-/
namespace Verif.Model.Json
open Verif.Spec.Json

/-- `json.State` of the dependency (same numbering: Value=0, ObjectKey=1, ObjectValue=2, Array=3) -/
inductive JState | value | objectKey | objectValue | array
deriving DecidableEq, Repr

def JState.code : JState → Nat
  | .value => 0 | .objectKey => 1 | .objectValue => 2 | .array => 3

/-- `json.GrammarType` of the dependency without Error/Whitespace (same numbering: Literal=2 …
    EndArray=8) -/
inductive JGram | literal | number | string | startObject | endObject | startArray | endArray
deriving DecidableEq, Repr

def JGram.code : JGram → Nat
  | .literal => 2 | .number => 3 | .string => 4 | .startObject => 5 | .endObject => 6
  | .startArray => 7 | .endArray => 8

/-- one iteration of the parser loop: (state before `Next`, grammar type, text) -/
abbrev Ev := JState × JGram × List Char

mutual
/-- events of a value met in state `st` -/
def events (st : JState) : JV → List Ev
  | .lit l => [(st, .literal, l.text)]
  | .num s => [(st, .number, s)]
  | .str s => [(st, .string, s)]
  | .arr xs => (st, .startArray, ['[']) :: (eventsElems xs ++ [(.array, .endArray, [']'])])
  | .obj ms => (st, .startObject, ['{']) :: (eventsMems ms ++ [(.objectKey, .endObject, ['}'])])
def eventsElems : List JV → List Ev
  | [] => []
  | x :: r => events .array x ++ eventsElems r
/-- a key is a `StringGrammar` in `ObjectKeyState`; its value is met in `ObjectValueState` -/
def eventsMems : List (List Char × JV) → List Ev
  | [] => []
  | (k, x) :: r => (.objectKey, .string, k) :: (events .objectValue x ++ eventsMems r)
end

/-- `json.Minifier` -/
structure JsonOpts where
  precision : Int := 0
  keepNumbers : Bool := false
deriving Repr

/-- the guard of the number branch: `0 < len(text) && ('0' <= text[0] && text[0] <= '9' || text[0] == '-')` -/
def startsNum : List Char → Bool
  | c :: _ => isDigit c || c == '-'
  | [] => false

/-- `.5 ↦ 0.5`, `-.5 ↦ -0.5` (JSON requires an integer part) -/
def repair : List Char → List Char
  | '.' :: t => '0' :: '.' :: t
  | '-' :: '.' :: t => '-' :: '0' :: '.' :: t
  | r => r

/-- the result of `Number` starts with `.` or `-.` (the repair adds one byte) -/
def startsDot : List Char → Bool
  | '.' :: _ => true
  | '-' :: '.' :: _ => true
  | _ => false

/-- `bytes.IndexByte(text, 'e') != -1 || bytes.IndexByte(text, 'E') != -1` -/
def hasExp (s : List Char) : Bool := s.any isE

/-- what is written for the lexeme `s` when `Number` returned `r`: the saved copy of the lexeme when it
    has an exponent and the repaired result would be longer (`n <= len(text)` and the result starts
    with `.` / `-.`), otherwise the result with the `0` / `-0` repair -/
def jsonNumOut (s r : List Char) : List Char :=
  if hasExp s && decide (s.length ≤ r.length) && startsDot r then s else repair r

/-- what `Minify` writes for a number lexeme -/
def jsonNum (o : JsonOpts) (num : List Char → Int → List Char) (s : List Char) : List Char :=
  if o.keepNumbers then s else jsonNumOut s (num s o.precision)

/-- what `Minify` writes for the text of one event (the number branch looks at the first byte
    only, not at the grammar type) -/
def emitText (o : JsonOpts) (num : List Char → Int → List Char) (t : List Char) : List Char :=
  if !o.keepNumbers && startsNum t then jsonNumOut t (num t o.precision) else t

/-- the separator written in front of an event -/
def sep (skipComma : Bool) (st : JState) (g : JGram) : List Char :=
  if !skipComma && g != .endObject && g != .endArray then
    (match st with
     | .objectKey => [',']
     | .array => [',']
     | .objectValue => [':']
     | .value => [])
  else []

def isStart (g : JGram) : Bool := g == .startObject || g == .startArray

/-- the loop, with the current value of `skipComma` -/
def minifyGo (o : JsonOpts) (num : List Char → Int → List Char) : Bool → List Ev → List Char
  | _, [] => []
  | skip, (st, g, t) :: r => sep skip st g ++ (emitText o num t ++ minifyGo o num (isStart g) r)

/-- output of `Minify` for an event sequence that ends in `io.EOF` -/
def minifyEvents (o : JsonOpts) (num : List Char → Int → List Char) (evs : List Ev) : List Char :=
  minifyGo o num true evs

/-- output of `Minify` on a text, through the parser contract (`none`: not a valid JSON text) -/
def minifyText (o : JsonOpts) (num : List Char → Int → List Char) (text : List Char) :
    Option (List Char) :=
  (parseJ text).map (fun v => minifyEvents o num (events .value v))

/-! ## the minifier's number grammar and the hypotheses on `num` -/

/-- `[ minus ] ( int [ frac ] | frac ) [ exp ]` — the JSON number grammar except that the integer
    part may be missing when a fraction follows (`.5`, `-.5e-7`) -/
def unsignedMinOk (r : List Char) : Bool :=
  (intOk (r.takeWhile isDigit) || ((r.takeWhile isDigit).isEmpty && hasDot (r.dropWhile isDigit))) &&
  fracExpOk (r.dropWhile isDigit)

def isMinNumber (s : List Char) : Bool := unsignedMinOk (stripMinus s)

/-- hypothesis on `num` for all precisions (C08: grammar, length): on JSON numbers the result is a
    number of the minifier grammar and not longer than the lexeme -/
def NumGrammar (num : List Char → Int → List Char) (p : Int) : Prop :=
  ∀ s, isJsonNumber s = true → isMinNumber (num s p) = true ∧ (num s p).length ≤ s.length

/-- hypothesis on `num` for all precisions (C08): for a JSON number lexeme *without* exponent a result
    that starts with `.` / `-.` is strictly shorter than the lexeme (it lost the leading `0`), so the
    repair cannot make it longer.  (With an exponent this is false — `1e-3 ↦ .001` — and json.go
    keeps the original lexeme there.) -/
def NumDotShrinks (num : List Char → Int → List Char) (p : Int) : Prop :=
  ∀ s, isJsonNumber s = true → hasExp s = false → startsDot (num s p) = true →
    (num s p).length < s.length

/-- hypothesis on `num` at precision ≤ 0 (C08: value): the value is unchanged -/
def NumValue (num : List Char → Int → List Char) (p : Int) : Prop :=
  ∀ s, isJsonNumber s = true → numVal (num s p) = numVal s

end Verif.Model.Json

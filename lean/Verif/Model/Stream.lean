import Verif.Base.Bytes
import Verif.Base.SkelIR
import Verif.Base.SkelOwn
/-!
# C12 — model of the stream wrappers of `minify.go`

The wrappers (`Reader`, `Writer`, `writer.Close`, `responseWriter.*`, `Bytes`, `String`, `Middleware*`)
are a few statements each and their *order* is the mechanism.  They are therefore not transcribed by
hand: the translator regenerates them as lists of atoms (`Verif.Skel.WAtom`, `Gen/Wrappers.lean`) and
this file gives the atoms their meaning:

* `readAll` / `minifyVia` — the contract of `io.ReadAll` behind `parse.NewInput(r)` and the regenerated
  fact that a `Minify` uses its reader only there: the result depends on the concatenation only;
* `wstep` — a small-step transition system for `Writer`: the *producer* thread (`Write c₁ … Write cₙ`,
  then `Close` = the regenerated statements of `writer.Close`) and the *minifier goroutine* (the
  regenerated body of the `go func`, defers run last in LIFO order), sharing an `io.Pipe` modelled by
  contract as a rendezvous (a `Write` completes only when fully consumed, or fails with
  `io.ErrClosedPipe` once the read side is closed; a `Read` sees EOF once the write side is closed),
  a `sync.WaitGroup` counter (`Wait` is enabled iff it is zero) and the stored error;
* `rstep` — the analogous system for `Reader`: goroutine (minifier writing its output into the pipe,
  then `CloseWithError`/`Close`) and a *consumer* whose `Read` sizes are chosen by the schedule;
* `pickMediatype`, `writeHeader`, `bytesVia` — the sequential wrappers;
* `ocall` / `orun` — HISTORIES of `Bytes`/`String` calls over a heap of buffers: what a call hands back is a
  *reference* into the heap (a Go slice aliases its backing array), the buffer it is cut from is a fresh
  local or a shared (pooled) one as the regenerated `retFacts` say, and the minifier may scribble on the
  buffer it is given.  The ownership contract "what call i returned still equals the plain call on
  input i at every later point of the history" is a statement about this model.

Schedules are lists of thread choices; everything is total and computable.  Core only.
-/
namespace Verif.Model.Stream
open Verif Verif.Skel

inductive Err
  /-- `minify.ErrNotExist` -/
  | notExist
  /-- `io.ErrClosedPipe` -/
  | closedPipe
  /-- an error returned by the minifier (syntax error, failed writer, failed reader, …) -/
  | minifier (code : Nat)
  deriving DecidableEq, Repr

/-! ## reading: `io.ReadAll` and the single use of the reader -/

/-- contract of `io.ReadAll` on a reader that delivers the chunks in order and then EOF
    (a failing reader is the subject of C14, `Model/IoFail.lean`) -/
def readAll (chunks : List Bytes) : Bytes := chunks.flatten

/-- a minifier as a function of its whole input: output bytes written and error returned -/
abbrev MinFn := Bytes → Bytes × Option Err

/-- What a `Minify` whose reader uses are `uses` computes on a chunked stream, given the function `f`
    it computes on the slurped buffer: defined only when the reader is used exactly once, as the
    argument of `parse.NewInput`, or handed on unchanged in a `return g(…, r, …)` to such a function. -/
def minifyVia (uses : List RUse) (f : MinFn) (chunks : List Bytes) : Option (Bytes × Option Err) :=
  match uses with
  | [.newInput] => some (f (readAll chunks))
  | _ => none

/-- well-formed use of the reader parameter by a leaf minifier -/
def wfLeafUse (u : InputUse) : Bool := u.uses == [.newInput]

/-- well-formed use by a dispatcher: every use hands the reader on unchanged in a `return` -/
def wfPassUse (u : InputUse) : Bool := !u.uses.isEmpty && u.uses.all (· == .passOnReturn)

def wfInputUses (l : List InputUse) : Bool :=
  l.all (fun u => wfLeafUse u || wfPassUse u) &&
  ["css", "html", "js", "json", "svg", "xml"].all (fun p =>
    l.any (fun u => u.func == p ++ ".(*Minifier).Minify" && wfLeafUse u))

/-- the plain call `m.Minify(mediatype, w, r)`: no minifier registered → `ErrNotExist`, nothing
    read, nothing written; otherwise the minifier's function of the whole input -/
def plain (mf : Option MinFn) (input : Bytes) : Bytes × Option Err :=
  match mf with
  | none => ([], some .notExist)
  | some f => f input

/-! ## goroutine bodies -/

/-- the atoms between the first `goBegin` and its `goEnd` -/
def goBody : List WAtom → List WAtom
  | [] => []
  | .goBegin :: r => r.takeWhile (· != .goEnd)
  | _ :: r => goBody r

/-- number of `wgAdd` executed before the goroutine is started -/
def wgBefore : List WAtom → Nat
  | [] => 0
  | .goBegin :: _ => 0
  | .wgAdd :: r => wgBefore r + 1
  | _ :: r => wgBefore r

def undefer : WAtom → Option WAtom
  | .deferWgDone => some .wgDone
  | .deferPipeReaderClose => some .pipeReaderClose
  | _ => none

/-- Go's `defer`: deferred calls run after the body, last registered first -/
def compileGo (body : List WAtom) : List WAtom :=
  body.filter (fun a => (undefer a).isNone) ++ (body.filterMap undefer).reverse

/-! ## the `Writer` system -/

structure WState where
  /-- producer: chunks still to be written -/
  todo : List Bytes
  /-- producer is blocked in `pw.Write` with these bytes not yet consumed -/
  pend : Option Bytes := none
  /-- number of `Write` calls that returned nil / `io.ErrClosedPipe` -/
  wok : Nat := 0
  wfail : Nat := 0
  /-- producer: 0 = `Close` not called yet, `j+1` = about to execute statement `j` of `writer.Close` -/
  cj : Nat := 0
  /-- local `err` of `Close` -/
  cerr : Option Err := none
  /-- `Close` returned this value -/
  cres : Option (Option Err) := none
  zclosed : Bool := false
  zerr : Option Err := none
  wg : Nat
  /-- read side / write side of the pipe closed -/
  rclosed : Bool := false
  wclosed : Bool := false
  /-- goroutine: index of the next statement of its compiled body -/
  gi : Nat := 0
  /-- bytes the minifier has read from the pipe so far -/
  acc : Bytes := []
  /-- local `err` of the goroutine -/
  merr : Option Err := none
  /-- bytes written to the underlying writer `w` -/
  delivered : Bytes := []
  deriving Repr

/-- the goroutine's program and the initial state, from the regenerated `Writer` skeleton -/
def gprog (writer : List WAtom) : List WAtom := compileGo (goBody writer)

def winit (writer : List WAtom) (chunks : List Bytes) : WState :=
  { todo := chunks, wg := wgBefore writer }

inductive Choice
  /-- the producer thread makes its next step -/
  | p
  /-- the goroutine makes its next step; a pipe read takes at most `n+1` bytes -/
  | g (n : Nat)
  deriving Repr, DecidableEq

/-- one step of the producer; `none` = blocked (or finished) -/
def pstep (close : List WAtom) (s : WState) : Option WState :=
  if s.cres.isSome then none else
  match s.pend with
  | some _ => if s.rclosed then some { s with pend := none, wfail := s.wfail + 1 } else none
  | none =>
    match s.todo with
    | c :: r =>
      if s.rclosed then some { s with todo := r, wfail := s.wfail + 1 }
      else some { s with todo := r, pend := some c }
    | [] =>
      if s.cj = 0 then some { s with cj := 1 } else
      match close[s.cj - 1]? with
      | some .returnNilIfClosed =>
        if s.zclosed then some { s with cj := close.length + 1, cres := some none }
        else some { s with cj := s.cj + 1 }
      | some .setClosed => some { s with cj := s.cj + 1, zclosed := true }
      | some .pipeWriterClose => some { s with cj := s.cj + 1, wclosed := true, cerr := none }
      | some .wgWait => if s.wg = 0 then some { s with cj := s.cj + 1 } else none
      | some .returnStoredOrCloseErr =>
        some { s with cj := close.length + 1, cres := some (s.zerr.or s.cerr) }
      | _ => none

/-- one step of the goroutine; `none` = blocked (or finished) -/
def gstep (prog : List WAtom) (mf : Option MinFn) (n : Nat) (s : WState) : Option WState :=
  match prog[s.gi]? with
  | some (.callMinify _ src) =>
    if src != "pr" then none else
    match mf with
    | none => some { s with gi := s.gi + 1, merr := some .notExist }
    | some f =>
      match s.pend with
      | some rem =>
        let j := min (n + 1) rem.length
        if rem.drop j = [] then
          some { s with acc := s.acc ++ rem, pend := none, wok := s.wok + 1 }
        else some { s with acc := s.acc ++ rem.take j, pend := some (rem.drop j) }
      | none =>
        if s.wclosed then
          some { s with gi := s.gi + 1, delivered := s.delivered ++ (f s.acc).1, merr := (f s.acc).2 }
        else none
  | some .storeErr =>
    some { s with gi := s.gi + 1, zerr := s.merr.or s.zerr }
  | some .pipeReaderClose => some { s with gi := s.gi + 1, rclosed := true }
  | some .wgDone => some { s with gi := s.gi + 1, wg := s.wg - 1 }
  | _ => none

def wstep (sk : WSkel) (mf : Option MinFn) (s : WState) : Choice → Option WState
  | .p => pstep sk.writerClose s
  | .g n => gstep (gprog sk.writer) mf n s

/-- run a schedule; a choice that is not enabled is skipped -/
def wrun (sk : WSkel) (mf : Option MinFn) : WState → List Choice → WState
  | s, [] => s
  | s, c :: cs => wrun sk mf ((wstep sk mf s c).getD s) cs

/-- the producer has finished (`Close` returned) and the goroutine has run to its end -/
def wterminal (sk : WSkel) (s : WState) : Bool :=
  s.cres.isSome && decide ((gprog sk.writer).length ≤ s.gi)

/-- the canonical programs: what the theorems are proved for -/
def canonGo (dst : String) : List WAtom := [.callMinify dst "pr", .storeErr, .pipeReaderClose, .wgDone]
def canonClose : List WAtom :=
  [.returnNilIfClosed, .setClosed, .pipeWriterClose, .wgWait, .returnStoredOrCloseErr]

/-- decidable well-formedness of the `Writer`/`Close` skeleton: exactly one `wg.Add` before the
    goroutine starts; the goroutine calls the minifier from the pipe reader to the caller's writer,
    stores its error, and only then closes the pipe reader and signals the wait group; `Close`
    closes the pipe writer, then waits, then returns the stored error or the close error -/
def wfWriter (sk : WSkel) : Bool :=
  decide (gprog sk.writer = canonGo "w") && wgBefore sk.writer == 1 &&
  decide (sk.writerClose = canonClose) && sk.writer.getLast? == some .returnWriter

/-! ## the `responseWriter` (first `Write` builds the same machinery inline) -/

/-- the atoms strictly between `b` and `e` -/
def between (b e : WAtom) : List WAtom → List WAtom
  | [] => []
  | a :: r => if a = b then r.takeWhile (· != e) else between b e r

/-- body of the first-write `if`, then-branch and else-branch of the `Match` test -/
def firstWrite (rw : List WAtom) : List WAtom := between .firstWriteBegin .firstWriteEnd rw
def matchThen (rw : List WAtom) : List WAtom := between .matchBegin .matchElse rw
def matchElse (rw : List WAtom) : List WAtom := between .matchElse .matchEnd rw

/-- the `Writer`-shaped skeleton embedded in `responseWriter.Write` -/
def rwAsWriter (sk : WSkel) : WSkel :=
  { sk with writer := (matchThen sk.rwWrite).filter (· != .setZWriter) ++ [.returnWriter] }

def wfRespWriter (sk : WSkel) : Bool :=
  decide (gprog (rwAsWriter sk).writer = canonGo "rw") && wgBefore (rwAsWriter sk).writer == 1 &&
  decide (sk.writerClose = canonClose) &&
  (matchThen sk.rwWrite).getLast? == some .setZWriter &&
  decide (matchElse sk.rwWrite = [.setZPassthrough]) &&
  sk.rwWrite.getLast? == some .returnZWrite &&
  decide (sk.rwClose = [.closeIfCloser, .returnNil]) &&
  -- the Content-Type is looked at before the minifier is selected
  decide ((firstWrite sk.rwWrite).head? = some .pickContentType) &&
  decide (sk.responseWriter = [.mediatypeFromExt, .returnResponseWriter]) &&
  decide (sk.rwWriteHeader = [.delContentLength, .forwardWriteHeader]) &&
  decide (sk.middleware = [.handlerBegin, .mkResponseWriter, .serveNext, .closeMw, .handlerEnd]) &&
  decide (sk.middlewareWithError = [.handlerBegin, .mkResponseWriter, .serveNext, .closeMwReportErr, .handlerEnd])

/-- media type used by the response writer: interpretation of `ResponseWriter` (initial value from
    the request path extension iff `mediatypeFromExt` is there) and of the first-write block
    (`pickContentType` overrides it with a non-empty `Content-Type` header iff it comes before the
    `Match`) -/
def pickMediatype (sk : WSkel) (contentType extType : String) : String :=
  let init := if sk.responseWriter.contains .mediatypeFromExt then extType else ""
  let fw := firstWrite sk.rwWrite
  let beforeMatch := fw.takeWhile (· != .matchBegin)
  if beforeMatch.contains .pickContentType && contentType != "" then contentType else init

/-- `responseWriter.WriteHeader`: the header names that reach the wrapped writer's `WriteHeader`;
    `none` if the status is never forwarded -/
def writeHeader (sk : WSkel) (hdrs : List String) : Option (List String) :=
  let rec go : List WAtom → List String → Option (List String)
    | [], _ => none
    | .delContentLength :: r, h => go r (h.filter (· != "Content-Length"))
    | .forwardWriteHeader :: _, h => some h
    | _ :: r, h => go r h
  go sk.rwWriteHeader hdrs

/-! ## `Bytes` / `String` -/

/-- interpretation of the `Bytes`/`String` skeleton: output and error returned for input `v` -/
def bytesVia (prog : List WAtom) (mf : Option MinFn) (v : Bytes) : Option (Bytes × Option Err) :=
  match prog with
  | [.newOutBuffer, .minifyBufOrReturnInput _, .returnOut] =>
    match plain mf v with
    | (_, some e) => some (v, some e)
    | (out, none) => some (out, none)
  | _ => none

/-- `Bytes`/`String` have the expected three statements (whether the input is copied first is the
    business of C10, not of this property) -/
def wfBytesProg : List WAtom → Bool
  | [.newOutBuffer, .minifyBufOrReturnInput _, .returnOut] => true
  | _ => false

def wfBytes (sk : WSkel) : Bool := wfBytesProg sk.bytes && wfBytesProg sk.string

/-! ## the `Reader` system -/

structure RState where
  /-- goroutine: index of the next statement of its body -/
  gi : Nat := 0
  /-- `Write` calls the minifier still has to make on the pipe writer (incl. the zero-length probe) -/
  outs : List Bytes
  /-- goroutine is blocked in `pw.Write` with these bytes not yet consumed -/
  pend : Option Bytes := none
  merr : Option Err := none
  /-- the pipe writer was closed (with this error / plainly) -/
  wclosed : Option (Option Err) := none
  /-- consumer: bytes received so far, number of `Read` calls that returned, final result -/
  got : Bytes := []
  nreads : Nat := 0
  rres : Option (Option Err) := none
  deriving Repr

inductive RChoice
  /-- the goroutine makes its next step -/
  | g
  /-- the consumer calls `Read` with a buffer of `n+1` bytes -/
  | c (n : Nat)
  deriving Repr, DecidableEq

/-- goroutine of `Reader`: `ws` are the minifier's `Write` calls (their concatenation is its output),
    `err` the error it returns -/
def rgstep (prog : List WAtom) (err : Option Err) (s : RState) : Option RState :=
  match prog[s.gi]? with
  | some (.callMinify dst _) =>
    if dst != "pw" then none else
    match s.pend with
    | some _ => none
    | none =>
      match s.outs with
      | w :: r => some { s with outs := r, pend := some w }
      | [] => some { s with gi := s.gi + 1, merr := err }
  | some .closeWithErrorElseClose => some { s with gi := s.gi + 1, wclosed := some s.merr }
  | _ => none

def rcstep (n : Nat) (s : RState) : Option RState :=
  if s.rres.isSome then none else
  match s.pend with
  | some rem =>
    let j := min (n + 1) rem.length
    some { s with got := s.got ++ rem.take j, nreads := s.nreads + 1,
                  pend := if rem.drop j = [] then none else some (rem.drop j) }
  | none =>
    match s.wclosed with
    | some e => some { s with rres := some e, nreads := s.nreads + 1 }
    | none => none

def rstep (sk : WSkel) (err : Option Err) (s : RState) : RChoice → Option RState
  | .g => rgstep (goBody sk.reader) err s
  | .c n => rcstep n s

def rrun (sk : WSkel) (err : Option Err) : RState → List RChoice → RState
  | s, [] => s
  | s, c :: cs => rrun sk err ((rstep sk err s c).getD s) cs

def rinit (ws : List Bytes) : RState := { outs := ws }

def wfReader (sk : WSkel) : Bool :=
  decide (goBody sk.reader = [.callMinify "pw" "r", .closeWithErrorElseClose]) &&
  sk.reader.head? == some .pipeNew && sk.reader.getLast? == some .returnPipeReader

/-- everything together -/
def wfSkel (sk : WSkel) : Bool :=
  wfWriter sk && wfRespWriter sk && wfReader sk && wfBytes sk

/-! ## trace acceptance (tie to the real code)

The harness records what is observable from outside on a real `m.Writer` run: the producer's
`Write`/`Close` calls and returns, and the `Write` calls the minifier makes on the underlying
writer.  `acceptsW` replays these events against the transition system: before each observed event
the goroutine is run as far as the event needs, and the event itself must be enabled and must carry
the values the model computes. -/

inductive WEvent
  /-- `Write(chunk)` called -/
  | wcall (chunk : Bytes)
  /-- that `Write` returned (`failed` = with an error) -/
  | wret (failed : Bool)
  /-- the minifier wrote these bytes to the underlying writer -/
  | out (b : Bytes)
  | ccall
  /-- `Close` returned this error (`none` = nil) -/
  | cret (e : Option Err)
  deriving Repr, DecidableEq

/-- run goroutine steps (reading whole pending writes) while `cond` holds, at most `fuel` times -/
def gdrive (sk : WSkel) (mf : Option MinFn) (cond : WState → Bool) : Nat → WState → WState
  | 0, s => s
  | fuel + 1, s =>
    if cond s then
      match gstep (gprog sk.writer) mf (1 <<< 30) s with
      | some s' => gdrive sk mf cond fuel s'
      | none => s
    else s

/-- run producer steps while `cond` holds -/
def pdrive (sk : WSkel) (cond : WState → Bool) : Nat → WState → WState
  | 0, s => s
  | fuel + 1, s =>
    if cond s then
      match pstep sk.writerClose s with
      | some s' => pdrive sk cond fuel s'
      | none => s
    else s

structure Acc where
  s : WState
  /-- bytes seen in `out` events so far -/
  outSeen : Bytes := []
  /-- failed-`Write` counter when the current `Write` was called -/
  failsAtCall : Nat := 0
  ok : Bool := true

def acceptEvent (sk : WSkel) (mf : Option MinFn) (a : Acc) (ev : WEvent) : Acc :=
  if !a.ok then a else
  match ev with
  | .wcall c =>
    -- the producer must be idle with exactly this chunk next
    match a.s.todo, a.s.pend with
    | c' :: _, none =>
      if c' = c && a.s.cj = 0 then
        match pstep sk.writerClose a.s with
        | some s' => { a with s := s', failsAtCall := a.s.wfail }
        | none => { a with ok := false }
      else { a with ok := false }
    | _, _ => { a with ok := false }
  | .wret failed =>
    -- let the goroutine consume (or finish, which closes the read side); then the Write returns
    let s1 := gdrive sk mf (fun s => s.pend.isSome && !s.rclosed) 16 a.s
    let s2 := if s1.pend.isSome then (pstep sk.writerClose s1).getD s1 else s1
    { a with s := s2, ok := s2.pend.isNone && (decide (s2.wfail > a.failsAtCall) == failed) }
  | .out b =>
    -- output appears only after the goroutine has seen EOF, i.e. after Close closed the pipe writer
    let s1 := gdrive sk mf (fun s => s.gi = 0) 16 a.s
    { a with s := s1, outSeen := a.outSeen ++ b,
             ok := decide (s1.gi ≥ 1) && (a.outSeen ++ b).isPrefixOf s1.delivered }
  | .ccall =>
    if a.s.todo.isEmpty && a.s.pend.isNone && a.s.cj = 0 then
      -- Close runs up to (not including) wg.Wait
      let s1 := pdrive sk (fun s => s.cj ≤ 3) 8 a.s
      { a with s := s1 }
    else { a with ok := false }
  | .cret e =>
    let s1 := gdrive sk mf (fun _ => true) 16 a.s
    let s2 := pdrive sk (fun s => s.cres.isNone) 8 s1
    { a with s := s2, ok := s2.cres == some e && a.outSeen == s2.delivered }

/-- is the observed event sequence a run of the `Writer` system for this minifier result? -/
def acceptsW (sk : WSkel) (mf : Option MinFn) (evs : List WEvent) : Bool :=
  let chunks := evs.filterMap (fun | .wcall c => some c | _ => none)
  let a := evs.foldl (acceptEvent sk mf) { s := winit sk.writer chunks }
  a.ok && a.s.cres.isSome

/-- The response writer builds its machinery on the first `Write`; a response without any `Write`
    never selects a minifier: `Close` finds `w.z == nil` and returns nil, nothing is written.
    (Equal to the plain call exactly for minifiers that map empty input to empty output without
    error — true of the six built-in ones, checked by the harness.) -/
def acceptsRW (sk : WSkel) (mf : Option MinFn) (evs : List WEvent) : Bool :=
  if evs.any (fun | .wcall _ => true | _ => false) then acceptsW (rwAsWriter sk) mf evs
  else evs == [.ccall, .cret none]

/-- events of a `Reader` run: the source reader saw EOF (the minifier has slurped its input), a
    consumer `Read` with buffer size `n` returned `b` / the final result -/
inductive REvent
  | srcEOF
  | read (n : Nat) (b : Bytes)
  | done (e : Option Err)
  deriving Repr, DecidableEq

/-- A `Reader` run is accepted if the source is drained before any byte comes out, the bytes read
    concatenate to the minifier's output with no `Read` returning more than its buffer, and the final
    result is the minifier's error — i.e. it is the run of `rstep` in which the minifier's `Write`
    calls are exactly the pieces the consumer received. -/
def acceptsR (sk : WSkel) (out : Bytes) (err : Option Err) (evs : List REvent) : Bool :=
  let pieces := evs.filterMap (fun | .read _ b => some b | _ => none)
  let sizesOk := evs.all (fun | .read n b => decide (b.length ≤ n) | _ => true)
  let drained := match evs with | .srcEOF :: r => !r.contains .srcEOF | _ => false
  -- replay: goroutine hands over piece after piece, the consumer takes each completely
  let sched : List RChoice := (pieces.map fun _ => [RChoice.g, RChoice.c (1 <<< 30)]).flatten ++ [.g, .g, .c 0]
  let s := rrun sk err (rinit pieces) sched
  sizesOk && drained && decide (s.got = out) && decide (pieces.flatten = out) &&
    s.rres == some err && evs.getLast? == some (.done err)

/-! ## ownership of returned memory: histories of `Bytes` / `String` calls over a heap

`bytesVia` above treats results as *values*; in a pure model a value can never change afterwards, so
"the result is still right after the next call" would hold by construction.  A Go `[]byte` is a
reference into a backing array.  Here the heap is explicit: a list of buffers; the caller's slice, the
working copy the minifier reads (and may modify in place — contract of the `parse` lexers), and the
output buffer are cells; a call returns a `Ref` (cell, length).  Where the output buffer comes from and
what the `return` hands out is read off the regenerated `retFacts` (`BufOrigin`, `RetExpr`): a fresh
local is a new cell; a shared buffer is taken from / put back into a pool of cells, as `sync.Pool`
does (`Get`, `Reset`, write, deferred `Put`).  Calls are atomic (a pooled buffer is exclusively held
between `Get` and `Put`, so every interleaving of concurrent calls has the memory effect of one of
their sequential orders: histories over several goroutines are the merged histories). -/

abbrev Heap := List Bytes

/-- a slice: the first `len` bytes of heap cell `cell` -/
structure Ref where
  cell : Nat
  len : Nat
  deriving DecidableEq, Repr

/-- what a retained slice reads *now* -/
def deref (h : Heap) (r : Ref) : Bytes := (h.getD r.cell []).take r.len

/-- `Reset` followed by writing `new` into a backing array that held `old` -/
def overwrite (old new : Bytes) : Bytes := new ++ old.drop new.length

/-- what the success `return` hands out -/
inductive RetKind
  /-- `X.Bytes()`: a slice of the output buffer itself -/
  | aliasBuf
  /-- a copy of the output buffer's content -/
  | copy
  /-- the caller's own slice -/
  | input
  deriving DecidableEq, Repr

/-- memory behaviour of one of the two helpers, read off the regenerated facts -/
structure OwnCfg where
  /-- the output buffer is allocated by the call and stays inside it -/
  fresh : Bool
  ret : RetKind
  /-- the minifier reads a copy of the caller's slice (`parse.Copy(v)`, `[]byte(v)`) -/
  copied : Bool
  deriving DecidableEq, Repr

/-- interpretation of a regenerated `RetFact` + the `Bytes`/`String` skeleton: `none` when the shape is
    not "error return hands back the input, final return hands out the buffer" -/
def ownCfgOf (f : RetFact) (prog : List WAtom) : Option OwnCfg :=
  let fresh := match f.buf with | .freshLocal _ => true | .shared _ => false
  let copied := prog.contains (.minifyBufOrReturnInput true) && !prog.contains (.minifyBufOrReturnInput false)
  match f.returns with
  | [.input, .bufBytes] => some { fresh, ret := .aliasBuf, copied }
  | [.input, .copyOfBuf] => some { fresh, ret := .copy, copied }
  | [.input, .input] => some { fresh, ret := .input, copied }
  | _ => none

/-- the ownership discipline the theorems need: output buffer fresh and local, the success return hands out
    that buffer or a copy of it, the minifier works on a copy of the caller's slice -/
def ownOK (c : OwnCfg) : Bool := c.fresh && c.copied && (c.ret == .aliasBuf || c.ret == .copy)

/-- one call of a history: `str` = `String` (else `Bytes`), the registered minifier, the caller's input -/
structure OCall where
  str : Bool
  mf : Option MinFn
  input : Bytes

/-- what the caller retains from a finished call -/
structure ODone where
  call : OCall
  /-- the caller's own input slice -/
  inRef : Ref
  /-- the slice (or string) that was returned -/
  outRef : Ref
  err : Option Err

structure OState where
  heap : Heap := []
  /-- cells currently lying in the shared pool -/
  pool : List Nat := []
  done : List ODone := []

/-- what the helper has to return: the plain call's output on success, the caller's data on error -/
def expected (c : OCall) : Bytes :=
  match plain c.mf c.input with
  | (out, none) => out
  | (_, some _) => c.input

/-- One call.  `scr` is what the minifier leaves in the buffer it was given to read (anything). -/
def ocall (cfgB cfgS : OwnCfg) (scr : Bytes → Bytes) (s : OState) (c : OCall) : OState :=
  let cfg := if c.str then cfgS else cfgB
  let inRef : Ref := ⟨s.heap.length, c.input.length⟩
  -- the caller's slice, and the working buffer of the minifier (a copy, or that very slice), after the call
  let h1 := if cfg.copied then s.heap ++ [c.input, scr c.input] else s.heap ++ [scr c.input]
  let r := plain c.mf c.input
  -- the output buffer: fresh cell, or pooled cell (`Get` + `Reset` + write; `Put` when the call returns)
  let (o, h2, pool) : Nat × Heap × List Nat :=
    if cfg.fresh then (h1.length, h1 ++ [r.1], s.pool)
    else match s.pool with
      | p :: rest => (p, h1.set p (overwrite (h1.getD p []) r.1), p :: rest)
      | [] => (h1.length, h1 ++ [r.1], [h1.length])
  match r.2 with
  | some e => { heap := h2, pool, done := s.done ++ [⟨c, inRef, inRef, some e⟩] }
  | none =>
    match cfg.ret with
    | .aliasBuf => { heap := h2, pool, done := s.done ++ [⟨c, inRef, ⟨o, r.1.length⟩, none⟩] }
    | .copy => { heap := h2 ++ [(h2.getD o []).take r.1.length], pool,
                 done := s.done ++ [⟨c, inRef, ⟨h2.length, r.1.length⟩, none⟩] }
    | .input => { heap := h2, pool, done := s.done ++ [⟨c, inRef, inRef, none⟩] }

/-- a history: the calls one after the other -/
def orun (cfgB cfgS : OwnCfg) (scr : Bytes → Bytes) : OState → List OCall → OState
  | s, [] => s
  | s, c :: cs => orun cfgB cfgS scr (ocall cfgB cfgS scr s c) cs

/-- the two configurations (`Bytes`, `String`) described by the regenerated facts -/
def ownCfgs (sk : WSkel) (facts : List RetFact) : Option (OwnCfg × OwnCfg) :=
  match facts with
  | [fb, fs] =>
    if fb.func == "Bytes" && fs.func == "String" then
      match ownCfgOf fb sk.bytes, ownCfgOf fs sk.string with
      | some cb, some cs => some (cb, cs)
      | _, _ => none
    else none
  | _ => none

/-- the regenerated facts describe helpers that keep to the ownership discipline -/
def wfOwnership (sk : WSkel) (facts : List RetFact) : Bool :=
  match ownCfgs sk facts with
  | some (cb, cs) => ownOK cb && ownOK cs
  | none => false

end Verif.Model.Stream

import Verif.Base.Bytes
import Verif.Base.SkelIR
/-!
# C14 — model of I/O failure handling

*What the code does* (`/repo/{json,xml,svg,html,css,js}/*.go`): a minifier slurps its input with
`parse.NewInput(r)` (contract of `io.ReadAll`), writes its output with many `w.Write(b)` calls whose
errors are **dropped**, and reports a failed writer only through a final zero-length probe
`w.Write(nil)` whose error is returned.  A failed reader is remembered by `parse.Input` and comes
back from the lexer's / parser's `Err()`, which every `Minify` compares with `io.EOF` and otherwise
returns (`js.Parse` returns it directly).

The *order* of those few statements is the mechanism, so it is not transcribed by hand: the
translator regenerates it as a list of atoms (`Verif.Skel.XAtom`, `Gen/ExitPaths.lean`) and this file
gives the atoms their meaning (`exec`).  Dependencies are modelled by contract: `io.ReadAll`
(`readAll`), `parse.NewInput` (`newInput`), the lexers' `Err()` (`lexNow`), `js.Parse` (`parse` atom).

Core only.
-/
namespace Verif.Model.IoFail
open Verif Verif.Skel

/-- error values that can come out of a `Minify` call, as far as this property distinguishes them -/
inductive Err
  /-- the error injected into the output writer -/
  | writer
  /-- the error injected into the input reader -/
  | reader
  /-- a syntax error reported by a lexer/parser -/
  | syntax
  /-- `io.EOF` -/
  | eof
  /-- an error returned by an embedded (sub-)minifier -/
  | sub
  deriving DecidableEq, Repr

/-! ## the sticky failing writer -/

/-- `StickyW k` fails from its `k`-th call on (calls are counted from 1) and keeps failing.
    A healthy writer is one whose `k` exceeds the number of calls that are ever made. -/
structure StickyW where
  k : Nat
  calls : Nat := 0
  deriving Repr, DecidableEq

namespace StickyW
/-- one `Write` call: the call counter advances; the call fails iff it is the `k`-th or a later one -/
def write (w : StickyW) : StickyW × Option Err :=
  ({ w with calls := w.calls + 1 }, if w.k ≤ w.calls + 1 then some Err.writer else none)
/-- `n` `Write` calls whose results are dropped -/
def writeN (w : StickyW) (n : Nat) : StickyW := { w with calls := w.calls + n }
/-- has some call made so far failed? -/
def failed (w : StickyW) : Bool := decide (w.k ≤ w.calls)
end StickyW

/-! ## the simple run: a list of writes, then the probe -/

/-- A minifier run on valid input seen from the writer: all body writes `ws` (errors dropped),
    then the probe `w.Write(nil)` whose error is returned. Result: the returned error and the
    chunks that the medium accepted (those before the first failing call). -/
def simpleRun (ws : List Bytes) (k : Nat) : Option Err × List Bytes :=
  let w := (StickyW.mk k 0).writeN ws.length
  ((w.write).2, ws.take (k - 1))

/-! ## the failing reader behind `parse.NewInput` -/

/-- result of one `Read` call: bytes delivered and the error returned with them -/
abbrev ReadRes := Bytes × Option Err

/-- cut `d` into pieces of `chunk+1` bytes (`fuel` bounds the number of pieces) -/
def pieces (chunk : Nat) : Nat → Bytes → List Bytes
  | 0, _ => []
  | fuel + 1, d => if d.isEmpty then [] else d.take (chunk + 1) :: pieces chunk fuel (d.drop (chunk + 1))

/-- deliver all of `d` in pieces of `chunk+1` bytes, then fail (see `failReads`) -/
def failReadsOf (d : Bytes) (chunk : Nat) (short : Bool) : List ReadRes :=
  let ps := pieces chunk (d.length + 1) d
  if short then
    match ps.reverse with
    | [] => [([], some Err.reader)]
    | l :: r => (r.reverse.map fun p => (p, none)) ++ [(l, some Err.reader)]
  else (ps.map fun p => (p, none)) ++ [([], some Err.reader)]

/-- The reader of the property: delivers `data` in pieces of `chunk+1` bytes and fails with
    `Err.reader` after `k` bytes; `short = true`: the failing `Read` call still delivers the last
    piece together with the error (`n > 0, err`), `short = false`: the error comes with `n = 0`. -/
def failReads (data : Bytes) (k chunk : Nat) (short : Bool) : List ReadRes :=
  failReadsOf (data.take k) chunk short

/-- contract of `io.ReadAll`: concatenate what the `Read` calls deliver until one returns an
    error; `io.EOF` is not an error for the caller. A list that ends without error models a reader
    that is never asked again. -/
def readAll : List ReadRes → Bytes × Option Err
  | [] => ([], none)
  | (b, none) :: r => let (bs, e) := readAll r; (b ++ bs, e)
  | (b, some e) :: _ => (b, if e = Err.eof then none else some e)

/-- `parse.Input` as far as errors are concerned: the buffer and the remembered read error -/
structure Input where
  buf : Bytes
  err : Option Err
  deriving Repr, DecidableEq

/-- `parse.NewInput(r)`: on a read error the data is dropped and the error is kept -/
def newInput (rs : List ReadRes) : Input :=
  match readAll rs with
  | (_, some e) => { buf := [], err := some e }
  | (b, none) => { buf := b, err := none }

/-! ## meaning of the exit-sequence atoms -/

/-- everything that is fixed during one `Minify` call -/
structure Env where
  /-- the read error kept by `parse.Input`, if the reader failed -/
  rerr : Option Err
  /-- what the lexer's `Err()` reports at the end if the reader did not fail: `eof` or `syntax` -/
  lex : Err
  /-- what `js.Parse` returns if the reader did not fail -/
  parseRes : Option Err
  deriving Repr

/-- contract of the lexers' / parsers' `Err()`: a read error kept by the input wins -/
def lexNow (env : Env) : Err := env.rerr.getD env.lex

/-- contract of `js.Parse`: a read error kept by the input is returned -/
def parseNow (env : Env) : Option Err := match env.rerr with | some e => some e | none => env.parseRes

structure St where
  w : StickyW
  /-- the `err` variable of the last probe -/
  lastW : Option Err := none
  /-- the `err` variable after `js.Parse` -/
  perr : Option Err := none
  deriving Repr

inductive Out
  /-- the function returned this error value (`none` = `nil`, success) -/
  | ret (e : Option Err)
  /-- the end of the statement list was reached without a return -/
  | fall
  deriving Repr, DecidableEq

/-- One oracle item is consumed by every `work` atom (how many `w.Write` calls the statement makes)
    and by every `returnSubErr` atom (does the guarded return fire).  All oracles are universally
    quantified in the theorems. -/
abbrev Oracle := List (Nat × Bool)

/-- run a statement list given as atoms -/
def exec (env : Env) : List XAtom → Oracle → St → Out × St
  | [], _, st => (.fall, st)
  | .work :: r, os, st =>
    exec env r os.tail { st with w := st.w.writeN (os.head?.getD (0, false)).1 }
  | .probeWrite :: r, os, st =>
    let (w', e) := st.w.write
    exec env r os { st with w := w', lastW := e }
  | .returnIfErr :: r, os, st =>
    match st.lastW with
    | some e => (.ret (some e), st)
    | none => exec env r os st
  | .writeReturnIfErr :: r, os, st =>
    let (w', e) := st.w.write
    match e with
    | some e => (.ret (some e), { st with w := w' })
    | none => exec env r os { st with w := w' }
  | .returnNilIfEOF :: r, os, st =>
    if lexNow env = Err.eof then (.ret none, st) else exec env r os st
  | .returnLexErrIfNotEOF :: r, os, st =>
    if lexNow env = Err.eof then exec env r os st else (.ret (some (lexNow env)), st)
  | .returnLexErr :: _, _, st => (.ret (some (lexNow env)), st)
  | .returnNil :: _, _, st => (.ret none, st)
  | .parse :: r, os, st => exec env r os { st with perr := parseNow env }
  | .returnIfParseErr :: r, os, st =>
    match st.perr with
    | some e => (.ret (some e), st)
    | none => exec env r os st
  | .returnSubErr :: r, os, st =>
    if (os.head?.getD (0, false)).2 then (.ret (some Err.sub), st) else exec env r os.tail st
  | .other _ :: _, _, st => (.ret none, st)   -- unknown code: assume the worst (reports success)

/-! ## decidable well-formedness of an exit block -/

/-- knowledge accumulated while scanning a block from its first statement -/
structure Scan where
  /-- every `Write` call made so far succeeded (a probe / checked write succeeded since the last work) -/
  probed : Bool := false
  /-- the reader did not fail (an `Err()`/`Parse` check fell through) -/
  readOk : Bool := false
  /-- the previous atom -/
  prev : Option XAtom := none
  deriving Repr, DecidableEq

/-- `guarded sc blk`: no `other`; `returnIfErr`/`returnIfParseErr`/`returnLexErr` directly follow their
    partner; a success return is reached only after a successful probe since the last work and after a
    check of the lexer/parser error. -/
def guarded (sc : Scan) : List XAtom → Bool
  | [] => true
  | .work :: r => guarded { sc with probed := false, prev := some .work } r
  | .probeWrite :: r => guarded { sc with probed := false, prev := some .probeWrite } r
  | .returnIfErr :: r => sc.prev == some .probeWrite && guarded { sc with probed := true, prev := some .returnIfErr } r
  | .writeReturnIfErr :: r => guarded { sc with probed := true, prev := some .writeReturnIfErr } r
  | .returnNilIfEOF :: r => sc.probed && guarded { sc with prev := some .returnNilIfEOF } r
  | .returnLexErrIfNotEOF :: r => guarded { sc with readOk := true, prev := some .returnLexErrIfNotEOF } r
  | .returnLexErr :: _ => sc.prev == some .returnNilIfEOF
  | .returnNil :: _ => sc.probed && sc.readOk
  | .parse :: r => guarded { sc with prev := some .parse } r
  | .returnIfParseErr :: r => sc.prev == some .parse && guarded { sc with readOk := true, prev := some .returnIfParseErr } r
  | .returnSubErr :: r => guarded { sc with prev := some .returnSubErr } r
  | .other _ :: _ => false

/-- does the block end in an unconditional return and contain a probe (a *main* exit block)? -/
def isMain (b : List XAtom) : Bool :=
  b.contains .probeWrite && (b.getLast? == some .returnNil || b.getLast? == some .returnLexErr)

/-- well-formedness of a package's exit skeleton: every block guarded, at least one main block,
    no `recover()` -/
def wfExit (p : ExitPkg) : Bool :=
  p.exits.all (guarded {}) && p.exits.any isMain && p.recovers == 0

/-! ## a whole `Minify` call -/

/-- One segment of a run: `pre` body writes (errors dropped) made outside the exit blocks, then the
    statement list `blk` of the package is entered with oracle `os`. -/
structure Seg where
  pre : Nat
  blk : Nat
  os : Oracle
  deriving Repr

/-- A run of `Minify` is any sequence of segments: the function returns as soon as a block returns
    (`fall` = the block ended without return, the loop goes on).  Which blocks are entered, how many
    writes happen in between and what the oracles say is universally quantified in the theorems. -/
def runPkg (env : Env) (p : ExitPkg) : List Seg → St → Out × St
  | [], st => (.fall, st)
  | s :: r, st =>
    let st1 := { st with w := st.w.writeN s.pre }
    match p.exits[s.blk]? with
    | none => runPkg env p r st1
    | some b =>
      match exec env b s.os st1 with
      | (.ret e, st2) => (.ret e, st2)
      | (.fall, st2) => runPkg env p r st2

/-- the first main block of a package (the one the valid-input run ends in) -/
def mainBlock (p : ExitPkg) : List XAtom := (p.exits.find? isMain).getD []

/-- Prediction used by the correspondence run: a call that makes `n` body writes on input that is
    valid (`lex = eof`, no parse error) or whose reader failed, against `StickyW k`:
    all body writes happen before the main block is entered. -/
def predict (p : ExitPkg) (n k : Nat) (readerFails : Bool) : Out :=
  let env : Env := { rerr := if readerFails then some Err.reader else none, lex := Err.eof, parseRes := none }
  (exec env (mainBlock p) [] { w := { k := k, calls := if readerFails then 0 else n } }).1

end Verif.Model.IoFail

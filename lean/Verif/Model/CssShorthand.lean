import Verif.Model.Css
/-!
# Behavioural model of the `font` and `background` cases of `minifyProperty` (`/repo/css/css.go`)

`Verif.Model.Css.minifyProperty` answers `none` ("outside the model") for the two shorthands; this file adds them and
`minifyDeclarationB`, the declaration minifier with both cases filled in (everything else is `Model.Css`).

* `minifyFont` — the family start search (`famLoop`: backwards from the token in front of the first comma; size-keyword rule of 3013349), the
  `font-family` rewrite of the tail, the IE fix (a family starting with `-` is quoted), `/normal` line-height and the
  `normal` / `bold` / `400` rewrite of the tokens in front of the size.
* `minifyBackground` — per comma-separated layer: the `/ <bg-size>` pass (`bgSizes`), then the token loop (`bgLoop`:
  colours, `repeat` pairs, `none`/`scroll`/`transparent`, the `padding-box`…`border-box` pair with its index `iPaddingBox`
  — stale after a removal, as in the code —, `#0000`, `var(`, and the position run handed to `background-position`,
  which also picks up the size values behind a `/`), `0 0` for a layer that became empty.
The in-place `append`s of the Go code never let a callee see bytes its caller changes later (checked case by case:
sub-slices handed to `minifyProperty` are rewritten inside their own length), so lists are a faithful model.
-/
set_option maxRecDepth 100000
namespace Verif.Model.CssShorthand
open Verif.Spec.CssValue (TT Tok lower)
open Verif.Model.Css

/-! ## font -/

def fontSizeBreak : List (List Char) :=
  ["xx-small", "x-small", "small", "medium", "large", "x-large", "xx-large", "smaller", "larger", "inherit",
   "initial", "unset"].map S

def fontSizeKws : List (List Char) :=
  ["xx-small", "x-small", "small", "medium", "large", "x-large", "xx-large", "smaller", "larger"].map S

/-- a token that can be the font size or ends it: `/`, a length or percentage, a size keyword -/
def sizeCand (t : Tok) : Bool := isSlash t || isLengthPercentage t || fontSizeKws.contains (identOf t)

/-- index of the first comma at or behind position 2 -/
def firstCommaFrom2 (vs : List Tok) : Option Nat := ((vs.drop 2).findIdx? isComma).map (· + 2)

/-- the loop `for ; i > 0; i--` that walks from the last family token towards the size -/
def famLoop (vs : List Tok) : Nat → Nat
  | 0 => 0
  | i + 1 =>
    let cur := vs.getD (i + 1) default
    let prev := vs.getD i default
    if isSlash prev then i + 1
    else if cur.tt != .ident && cur.tt != .string then i + 1
    else if fontSizeBreak.contains (identOf cur) then
      -- 3013349: the keyword is the font size unless a size candidate or a slash stands somewhere in front of it
      if (vs.take (i + 1)).any sizeCand then famLoop vs i else i + 1
    else famLoop vs i

/-- rewrite of one token in front of the font size: `none` = removed -/
def fontPreTok (t : Tok) : Option Tok :=
  if identOf t == S "normal" then none
  else if identOf t == S "bold" then some (.mk .number (S "700") t.args)
  else if t.tt == .number && t.data == S "400" then none
  else some t

def quoteDash (fam : List Tok) : List Tok :=
  match fam with
  | f :: r => if f.data.head? == some '-' then .mk f.tt ('\'' :: f.data ++ ['\'']) f.args :: r else fam
  | [] => []

/-- the index `i` at which the family search stops: the last token that is not part of the families -/
def fontSplit (vs : List Tok) : Nat :=
  famLoop vs ((match firstCommaFrom2 vs with | some c => c - 1 | none => vs.length - 1) - 1)

/-- the `font` case once `i` is known -/
def minifyFontAt (vs : List Tok) (i : Nat) : Option (List Tok) :=
  match minifyFontFamily (vs.drop (i + 1)) with
  | none => none
  | some fam =>
    let fam := quoteDash fam
    let head := vs.take (i + 1)
    if i == 0 then some (head ++ fam)
    else if 1 < i && isSlash (head.getD (i - 1) default) then
      let mid := if identOf (head.getD i default) == S "normal" then [head.getD (i - 2) default] else head.drop (i - 2)
      some ((head.take (i - 2)).filterMap fontPreTok ++ mid ++ fam)
    else some ((head.take i).filterMap fontPreTok ++ head.drop i ++ fam)

/-- the `font` case; `none` = a family string with a backslash (outside the model of `font-family`) -/
def minifyFont (vs : List Tok) : Option (List Tok) :=
  if vs.length ≤ 1 then some vs else minifyFontAt vs (fontSplit vs)

/-! ## background -/

def bgSizeTok (t : Tok) : Bool := t.tt == .number || isLengthPercentage t || identOf t == S "auto"

/-- the first loop over a layer: `/ <bg-size>` -/
def bgSizes : List Tok → List Tok
  | [] => []
  | [t] => [t]
  | [t, v1] => if isSlash t && bgSizeTok v1 && identOf v1 == S "auto" then [] else [t, v1]
  | t :: v1 :: v2 :: r' =>
    if isSlash t then
      if bgSizeTok v1 then
        if bgSizeTok v2 then
          let sv := bgSizeSeg [v1, v2]
          if sv.length == 1 && identOf v1 == S "auto" then bgSizes r'
          else t :: sv ++ bgSizes r'
        else if identOf v1 == S "auto" then bgSizes (v2 :: r')
        else t :: bgSizes (v1 :: v2 :: r')
      else t :: bgSizes (v1 :: v2 :: r')
    else t :: bgSizes (v1 :: v2 :: r')
termination_by l => l.length
decreasing_by all_goals simp_wf <;> omega

def repeatish : List (List Char) := ["space", "round", "repeat", "no-repeat"].map S
def posKws : List (List Char) := ["left", "right", "top", "bottom", "center"].map S
def boxKws : List (List Char) := ["border-box", "padding-box"].map S

def isPosLike (t : Tok) : Bool := posKws.contains (identOf t) || t.tt == .number || isLengthPercentage t

def tZeroNum : Tok := .mk .number ['0'] []

/-- `iPaddingBox`: not set, index into the tokens passed so far, or stale (the pair was removed but the index not
reset: a further `border-box` would remove an unrelated token or panic — outside the model) -/
inductive PB where | unset | at (k : Nat) | stale
  deriving DecidableEq, Repr

/-- the second loop over a layer.  `acc` = tokens of the layer already passed (as they are now), the list = the
tokens not yet visited; `none` = a third box keyword behind a removed `padding-box`…`border-box` pair. -/
def bgLoop : Nat → List Tok → PB → List Tok → Option (List Tok)
  | 0, acc, _, rest => some (acc ++ rest)
  | _ + 1, acc, _, [] => some acc
  | fuel + 1, acc, pb, t :: r =>
    let h := identOf t
    let t' := minifyColor t
    let nextIdent := match r with | n :: _ => n.tt == .ident | [] => false
    -- the position run (taken when none of the branches below `continue`s)
    let position : Unit → Option (List Tok) := fun _ =>
      if t'.tt == .number || isLengthPercentage t' || posKws.contains h then
        let run := r.takeWhile isPosLike
        let rest := r.dropWhile isPosLike
        let pv := minifyBgPosition (t' :: run)
        let hasSize := match rest with | n :: _ => isSlash n | [] => false
        if !hasSize && pv.length == 2 && isZero (pv.getD 0 default) && isZero (pv.getD 1 default) then
          if acc.length + (t :: r).length == 2 then bgLoop fuel (acc ++ [tZeroNum, tZeroNum]) pb rest
          else bgLoop fuel acc pb rest
        else bgLoop fuel (acc ++ pv) pb rest
      else bgLoop fuel (acc ++ [t']) pb r
    if t'.tt == .ident then
      if nextIdent && repeatish.contains h then
        match r with
        | n :: r' =>
          if repeatish.contains (identOf n) then
            let rv := bgRepeatSeg [t', n]
            if rv.length == 1 && identOf (rv.getD 0 default) == S "repeat" then bgLoop fuel acc pb r'
            else bgLoop fuel (acc ++ rv) pb r'
          else position ()
        | [] => position ()
      else if h == S "none" || h == S "scroll" || h == S "transparent" then bgLoop fuel acc pb r
      else if boxKws.contains h then
        match pb with
        | .unset => if h == S "padding-box" then bgLoop fuel (acc ++ [t']) (.at acc.length) r else bgLoop fuel (acc ++ [t']) pb r
        | .at k => if h == S "border-box" then bgLoop fuel (acc.eraseIdx k) .unset r else bgLoop fuel (acc ++ [t']) pb r
        | .stale => if h == S "border-box" then none else bgLoop fuel (acc ++ [t']) pb r
      else position ()
    else if t'.tt == .hash && t'.data == S "#0000" then bgLoop fuel acc pb r
    else if t'.tt == .function && t'.data == S "var(" then bgLoop fuel (acc ++ [t']) pb r
    else if isSlash t' then
      -- the background-size behind the slash was minified by the first loop: skipped (d2ef36a)
      let sz := (r.takeWhile bgSizeTok).take 2
      bgLoop fuel (acc ++ t' :: sz) pb (r.drop sz.length)
    else position ()

/-- one layer of `background` (`none` = outside the model, see `PB.stale`) -/
def bgSeg? (seg : List Tok) : Option (List Tok) :=
  let s1 := bgSizes seg
  (bgLoop (s1.length + 1) [] .unset s1).map fun s2 => if s2.isEmpty then [tZeroNum, tZeroNum] else s2

def bgSeg (seg : List Tok) : List Tok := (bgSeg? seg).getD seg

/-- is every layer inside the model? -/
def bgInside (vs : List Tok) : Bool :=
  let p := splitC vs
  (p.1.isEmpty || (bgSeg? p.1).isSome) && p.2.all fun (_, seg) => seg.isEmpty || (bgSeg? seg).isSome

/-- the `background` case -/
def minifyBackground (vs : List Tok) : List Tok := mapSeg bgSeg vs

/-! ## minifyProperty / minifyDeclaration with the two cases -/

def minifyPropertyB (o : Opts) (prop : List Char) (vs : List Tok) : Option (List Tok) :=
  if 100 < vs.length then some vs
  else if prop == S "font" then minifyFont vs
  else if prop == S "background" then (if bgInside vs then some (minifyBackground vs) else none)
  else minifyProperty o prop vs

/-- `minifyDeclaration` (bytes after `prop:`); `none` = outside the model -/
def minifyDeclarationB (o : Opts) (prop : List Char) (comps : List Tok) : Option (List Char) :=
  if comps.isEmpty then some [] else
  let (comps, important) := stripImportant comps
  match parseDeclaration comps with
  | none =>
    if prop == S "filter" && comps.length == 11 then none else
    some (writeRaw none comps ++ (if important then S "!important" else []))
  | some values =>
    match minifyTokens o prop values with
    | none => none
    | some values =>
      if values.isEmpty then some (writeDeclaration values important) else
      match minifyPropertyB o prop values with
      | none => none
      | some values => some (writeDeclaration values important)

end Verif.Model.CssShorthand

import Verif.Model.SvgPath
import Verif.Spec.SvgHazard
/-!
# Decidable scanner-side guards of `path_geometry_partial` (core only; evaluated by the driver: `spec.c05.guards`)

`instrsCmds` reads the scanner's instruction list as specification commands (one per argument group, later pairs of
a moveto as linetos).  `scanGuard d`: the scanner read the whole string, every coordinate carries the exact value of
its lexeme, and the instructions are exactly what the specification parses from `d`.
-/
namespace Verif.Model.SvgGuard
open Verif.Spec.SvgPath Verif.Model.SvgPath

def vals (cs : List Coord) : List Rat := cs.map (·.v)

/-- the input commands of the groups of one instruction -/
def cmdsOf (k0 : Kind) (rel : Bool) : Bool → List (List Coord) → List Cmd
  | _, [] => []
  | first, g :: r => ⟨groupKind k0 first, rel, vals g⟩ :: cmdsOf k0 rel false r

/-- the input commands one instruction stands for (an instruction with a wrong number of coordinates stands for nothing) -/
def instrCmds (ins : Instr) : List Cmd :=
  if ins.cs.length == 0 then (if ins.k == .Z then [⟨.Z, ins.rel, []⟩] else [])
  else
    match instrArity ins.k ins.cs.length with
    | none => []
    | some di => cmdsOf ins.k ins.rel true (chunks di ins.cs.length ins.cs)

def instrsCmds : List Instr → List Cmd
  | [] => []
  | i :: r => instrCmds i ++ instrsCmds r

def coordOkB (k : Kind) (i : Nat) (c : Coord) : Bool :=
  if isFlagIdx k i then ((c.lx.headD ' ' == '1') && c.v == 1) || (!(c.lx.headD ' ' == '1') && c.v == 0)
  else c.v == numVal c.lx

def coordsOkB (k : Kind) : Nat → List Coord → Bool
  | _, [] => true
  | i, c :: r => coordOkB k i c && coordsOkB k (i + 1) r

def instrOkB (ins : Instr) : Bool :=
  match instrArity ins.k ins.cs.length with
  | none => true
  | some di => (chunks di ins.cs.length ins.cs).all (coordsOkB ins.k 0)

def isZ (c : Cmd) : Bool := c.k == .Z && c.a.isEmpty

/-- a closepath directly after a closepath written with the same letter (`ZZ`, `z z`) is not a new instruction
    for the scanner; for the specification it is a zero-length closepath that `≃` drops -/
def mergeZGo (prev : Option Bool) : List Cmd → List Cmd
  | [] => []
  | c :: r =>
    if isZ c && prev == some c.rel then mergeZGo prev r
    else c :: mergeZGo (if isZ c then some c.rel else none) r

def mergeZ (cs : List Cmd) : List Cmd := mergeZGo none cs

/-- the scanner-side guards of `path_geometry_partial`: the scanner read the whole string (no bad format), every
    coordinate carries the exact value of its lexeme, and the instructions are exactly the commands the specification
    parses (up to repeated closepath letters).  A string without any command is returned unchanged. -/
def scanGuard (d : List Char) : Bool :=
  match scan d with
  | none => (parse d).isSome
  | some r => r.tail.isEmpty && r.instrs.all instrOkB && ((parse d).map mergeZ == some (instrsCmds r.instrs))

end Verif.Model.SvgGuard

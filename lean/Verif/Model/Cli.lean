import Verif.Base.Bytes
import Verif.Model.CliFs
import Verif.Gen.CliExtMap
/-!
# Cli — which files `cmd/minify` selects, where it writes them, and what it reads

Behavioural model of `/repo/cmd/minify/main.go` `run` (argument checks, input/output normalisation,
`dirDst`), `NewTask`, `createTasks` (files, directories, hidden entries, `--recursive`, `--sync`,
`--match`, `--include`, `--exclude`, `--type`, unknown extensions), bundling, the per-task mimetype inference
of `minify`, and of `io.go` `concatFileReader`.  File effects are C20's `minifyOps`.

Modelled by contract (validated against the real functions by the harness):

* `path/filepath` on slash paths: a cleaned path is `P = (absolute?, components)`; `cleanP`, `dirRaw`,
  `baseRaw`, `extRaw`, `relP`, `joinP` are `Clean`, `Dir`, `Base`, `Ext`, `Rel`, `Join`;
* `fs.WalkDir`: entries of a directory in byte-wise name order, depth first;
* `regexp`: whether pattern `i` matches a string is an oracle `pm i s` computed in Go;
* the library: `lib mimetype bytes = some output | none`;
* symbolic links, `--preserve`, `--watch`, `argp` parsing, the statistics lines are not modelled (the harness
  always passes `-q`).

Core Lean only.
-/
namespace Verif.Model.Cli
open Verif Verif.Model.CliFs

def slashB : UInt8 := 47
def dotB : UInt8 := 46
def dotdot : Bytes := [46, 46]

/-! ## lexical paths -/

/-- a cleaned path: `abs` = rooted, `cs` = components (none empty, none `.`, `..` only leading and only
    when relative) -/
structure P where
  abs : Bool
  cs : List Bytes
deriving BEq, DecidableEq, Repr

/-- `Clean` on a component list, `st` = reversed stack of components kept so far -/
def cleanAux (abs : Bool) : List Bytes → List Bytes → List Bytes
  | [], st => st.reverse
  | c :: r, st =>
    if c.isEmpty || c == [dotB] then cleanAux abs r st
    else if c == dotdot then
      match st with
      | top :: st' => if top == dotdot then cleanAux abs r (c :: st) else cleanAux abs r st'
      | [] => if abs then cleanAux abs r [] else cleanAux abs r [c]
    else cleanAux abs r (c :: st)

/-- `filepath.Clean` -/
def cleanP (p : Bytes) : P :=
  let abs := p.head? == some slashB
  ⟨abs, cleanAux abs (p.splitOn slashB) []⟩

def joinS (cs : List Bytes) : Bytes := [slashB].intercalate cs

def render (p : P) : Bytes :=
  if p.abs then slashB :: joinS p.cs else if p.cs.isEmpty then [dotB] else joinS p.cs

def cleanB (p : Bytes) : Bytes := render (cleanP p)

/-- `filepath.Dir` of a raw string -/
def dirRaw (p : Bytes) : P := cleanP ((p.reverse.dropWhile (· != slashB)).reverse)

/-- `filepath.Base` of a raw string -/
def baseRaw (p : Bytes) : Bytes :=
  if p.isEmpty then [dotB] else
  let q := (p.reverse.dropWhile (· == slashB)).reverse
  if q.isEmpty then [slashB] else (q.reverse.takeWhile (· != slashB)).reverse

/-- `filepath.Ext` of a raw string (with the dot; empty when the last element has no dot) -/
def extRaw (p : Bytes) : Bytes :=
  let rev := p.reverse.takeWhile (· != slashB)
  match rev.idxOf? dotB with
  | some i => (rev.take (i + 1)).reverse
  | none => []

def stripCommon : List Bytes → List Bytes → List Bytes × List Bytes
  | a :: r, b :: s => if a == b then stripCommon r s else (a :: r, b :: s)
  | l, m => (l, m)

/-- `filepath.Rel base targ` (up to `Clean` of the result) -/
def relP (base targ : P) : Option P :=
  if base.abs != targ.abs then none else
  let (b, t) := stripCommon base.cs targ.cs
  if b.head? == some dotdot then none
  else some ⟨false, List.replicate b.length dotdot ++ t⟩

/-- `filepath.Join o r` for a non-empty `o` -/
def joinP (o r : P) : P := ⟨o.abs, cleanAux o.abs (o.cs ++ r.cs) []⟩

/-! ## tasks -/

/-- a task before rendering: `dst = none` is stdout -/
structure TaskP where
  root : P
  src  : P
  dst  : Option P
  sync : Bool
deriving BEq, DecidableEq, Repr

def endsWithSlash (b : Bytes) : Bool := b.getLast? == some slashB

/-- `output` names a directory for `NewTask`: `"."` or a trailing slash -/
def dirLike (output : Bytes) : Bool := !output.isEmpty && (output == [dotB] || endsWithSlash output)

/-- `NewTask(root, input, output, sync)`; `none` = `filepath.Rel` failed -/
def newTask (root input : P) (output : Bytes) (sync : Bool) : Option TaskP :=
  if dirLike output then
    match relP root input with
    | none => none
    | some r => some ⟨root, input, some (joinP (cleanP output) r), sync⟩
  else some ⟨root, input, if output.isEmpty then none else some (cleanP output), sync⟩

/-! ## selection -/

structure Inv where
  inputs : List Bytes
  output : Bytes
  recursive : Bool := false
  hidden : Bool := false
  sync : Bool := false
  bundle : Bool := false
  /-- raw `--type` -/
  typ : Bytes := []
  /-- `--match` patterns (ids into the oracle) -/
  matchPats : List Nat := []
  /-- `--include` (`true`) / `--exclude` (`false`) patterns in command-line order -/
  filters : List (Bool × Nat) := []
  stdin : Bytes := []
deriving Repr

def extMapB : List (Bytes × Bytes) := Verif.Gen.CliExtMap.extMap.map (fun (k, v) => (strBytes k, strBytes v))

def extOf (p : Bytes) : Bytes := (extRaw p).drop 1

def extKnown (p : Bytes) : Bool := (extMapB.lookup (extOf p)).isSome

/-- `fileFilter`: some `--match` pattern matches the base name (if there are any), and the last
    `--include` or `--exclude` pattern matching the whole path decides (default: selected) -/
def fileFilter (pm : Nat → Bytes → Bool) (inv : Inv) (filename : Bytes) : Bool :=
  (inv.matchPats.isEmpty || inv.matchPats.any (fun i => pm i (baseRaw filename))) &&
  inv.filters.foldl (fun acc (inc, i) => if pm i filename then inc else acc) true

/-- `fileMatches` (used for files found in directories) -/
def fileMatches (pm : Nat → Bytes → Bool) (inv : Inv) (mimetype : Bytes) (filename : Bytes) : Bool :=
  fileFilter pm inv filename && (!mimetype.isEmpty || extKnown filename)

def isHiddenName (n : Bytes) : Bool := n.head? == some dotB

/-- byte-wise order of names, lexicographic on component lists: the order of `fs.WalkDir` -/
def bytesLe : Bytes → Bytes → Bool
  | [], _ => true
  | _ :: _, [] => false
  | a :: r, b :: s => a < b || (a == b && bytesLe r s)

def compsLe : List Bytes → List Bytes → Bool
  | [], _ => true
  | _ :: _, [] => false
  | a :: r, b :: s => if a == b then compsLe r s else bytesLe a b

/-- the regular files below directory `d` (relative component lists), in walk order, hidden entries
    skipped unless `--all` -/
def walk (fs : Fs) (hidden : Bool) (d : P) : List (List Bytes) :=
  let rels := fs.files.filterMap (fun (p, _) =>
    let q := cleanP p
    if q.abs != d.abs then none else
    let (b, t) := stripCommon d.cs q.cs
    if b.isEmpty && !t.isEmpty then some t else none)
  let vis := rels.filter (fun r => hidden || !r.any isHiddenName)
  vis.mergeSort compsLe

inductive Kind where
  | file | dir | missing
deriving BEq, Repr

def kindOf (fs : Fs) (p : P) : Kind :=
  let b := render p
  if (fs.get b).isSome then .file
  else if b == [dotB] || b == [slashB] || fs.dirs.contains b then .dir
  else .missing

/-- the `WalkDir` callback of `createTasks` over the regular files `inp/r`, in walk order -/
def walkTasks (pm : Nat → Bytes → Bool) (inv : Inv) (mimetype output : Bytes) (root inp : P) :
    List (List Bytes) → Option (List TaskP)
  | [] => some []
  | r :: rest =>
    let p : P := ⟨inp.abs, inp.cs ++ r⟩
    let valid := fileMatches pm inv mimetype (render p)
    if valid || inv.sync then
      match newTask root p output (!valid) with
      | none => none
      | some t => (walkTasks pm inv mimetype output root inp rest).map (t :: ·)
    else walkTasks pm inv mimetype output root inp rest

/-- `createTasks` for one (normalised) input; `none` = error -/
def tasksOfInput (pm : Nat → Bytes → Bool) (fs : Fs) (inv : Inv) (mimetype output input : Bytes) :
    Option (List TaskP) :=
  -- `root := Clean(Dir(input)); input = Clean(input)`
  let root := dirRaw input
  let inp := cleanP input
  match kindOf fs inp with
  | .missing => none
  | .file =>
    let name := render inp
    let valid := fileFilter pm inv name
    if valid || inv.sync then
      if mimetype.isEmpty && !inv.sync && !extKnown name then none
      else (newTask root inp output (!valid)).map (fun t => [t])
    else some []
  | .dir =>
    if !inv.recursive then some [] else
    -- the root entry itself is subject to the hidden check, unless it is `.` or `..`
    let rootName := baseRaw (render inp)
    if rootName != [dotB] && rootName != dotdot && !inv.hidden && isHiddenName rootName then some [] else
    walkTasks pm inv mimetype output root inp (walk fs inv.hidden inp)

/-- `createTasks`: the tasks of all inputs in order; `none` = error -/
def allTasks (pm : Nat → Bytes → Bool) (fs : Fs) (inv : Inv) (mimetype output : Bytes) :
    List Bytes → Option (List TaskP)
  | [] => some []
  | i :: rest =>
    match tasksOfInput pm fs inv mimetype output i with
    | none => none
    | some n => (allTasks pm fs inv mimetype output rest).map (fun m => n ++ m)

/-- the plan of an invocation -/
structure Plan where
  tasks : List TaskP
  /-- bundle: the sources of the single task (otherwise empty) -/
  bundleSrcs : List P := []
  /-- `os.MkdirAll(output)` before the tasks run -/
  outDir : Option Bytes := none
  mimetype : Bytes := []
  stdinTask : Bool := false
deriving DecidableEq, Repr

/-- `inputs[i] = Clean(input)` plus a trailing `/` when the argument had one -/
def normInput (input : Bytes) : Bytes :=
  cleanB input ++ (if endsWithSlash input then [slashB] else [])

/-- `-` as the only input means stdin, `-o -` means stdout: the (inputs, output) the checks work with -/
def normArgs (inv : Inv) : List Bytes × Bytes :=
  let dash : Bytes := [45]
  if inv.inputs == [dash] then (([] : List Bytes), inv.output)
  else if inv.output == dash then (inv.inputs, ([] : Bytes)) else (inv.inputs, inv.output)

/-- `--type`: an extension is looked up in `extMap` (`none` = unknown filetype) -/
def mimeOf (inv : Inv) : Option Bytes :=
  if !inv.typ.contains slashB && !inv.typ.isEmpty then extMapB.lookup inv.typ else some inv.typ

/-- the option combinations `run()` refuses -/
def rejected (inv : Inv) (inputs : List Bytes) (output mimetype : Bytes) : Bool :=
  let useStdin := inputs.isEmpty
  ((useStdin || output.isEmpty) && inv.sync) ||
  (useStdin && (inv.bundle || inv.recursive)) ||
  (output.isEmpty && inv.recursive && !inv.bundle) ||
  (inv.bundle && inv.sync) ||
  (mimetype.isEmpty && useStdin) ||
  (!mimetype.isEmpty && inv.sync) ||
  inputs.contains [45]

/-- bundling: the first task keeps its destination and gets all sources -/
def finishPlan (inv : Inv) (outDir : Option Bytes) (mimetype : Bytes) (ts : List TaskP) : Plan :=
  if inv.bundle && ts.length > 1 then
    { tasks := ts.take 1, bundleSrcs := ts.map (·.src), outDir := outDir, mimetype := mimetype }
  else { tasks := ts, outDir := outDir, mimetype := mimetype }

/-- `dirDst`: the output names a directory (trailing slash, several inputs, or one directory input) -/
def dirDstOf (fs : Fs) (inv : Inv) (inputs : List Bytes) (output : Bytes) : Bool :=
  !output.isEmpty && (endsWithSlash output || (!inv.bundle && inputs.length > 1) ||
    (!inv.bundle && (match inputs with | [i] => kindOf fs (cleanP i) == .dir | _ => false)))

/-- input/output normalisation, `dirDst`, task creation, bundling -/
def planTasks (pm : Nat → Bytes → Bool) (fs : Fs) (inv : Inv) (mimetype : Bytes) (inputs0 : List Bytes)
    (output0 : Bytes) : Option Plan :=
  let useStdin := inputs0.isEmpty
  let inputs := inputs0.map normInput
  let dirDst : Bool := dirDstOf fs inv inputs output0
  if dirDst && inv.bundle then none
  else if output0.isEmpty && !inv.bundle && inputs.length > 1 then none
  else
  let output := if output0.isEmpty then output0 else cleanB output0 ++ (if dirDst then [slashB] else [])
  let outDir := if dirDst then some (cleanB output) else none
  if useStdin then
    (newTask ⟨false, []⟩ ⟨false, []⟩ output false).map
      (fun t => { tasks := [t], outDir := outDir, mimetype := mimetype, stdinTask := true })
  else
  match allTasks pm fs inv mimetype output inputs with
  | none => none
  | some ts => some (finishPlan inv outDir mimetype ts)

/-- `run()` up to the task list, before the duplicate-destination check of `createTasks` -/
def planCore (pm : Nat → Bytes → Bool) (fs : Fs) (inv : Inv) : Option Plan :=
  match mimeOf inv with
  | none => none
  | some mimetype =>
    if rejected inv (normArgs inv).1 (normArgs inv).2 mimetype then none
    else planTasks pm fs inv mimetype (normArgs inv).1 (normArgs inv).2

/-- two tasks write to the same file (`createTasks`: "… have the same destination …") -/
def dupDst : List TaskP → Bool
  | [] => false
  | t :: r => (t.dst.isSome && r.any (fun u => decide (u.dst = t.dst))) || dupDst r

/-- `run()` up to the task list; `none` = the command prints an error and exits 1 without touching a file.
    Unless `--bundle` is given, two inputs with the same destination are an error (fix 33fb456). -/
def plan (pm : Nat → Bytes → Bool) (fs : Fs) (inv : Inv) : Option Plan :=
  match planCore pm fs inv with
  | none => none
  | some pl => if !inv.bundle && dupDst pl.tasks then none else some pl

/-- the mimetype `minify(t)` works with: the given one, else the common inferred one; `none` = the task is skipped -/
def taskMime (mimetype : Bytes) (sync : Bool) (srcs : List Bytes) : Option Bytes :=
  if !mimetype.isEmpty || sync then some mimetype else
  srcs.foldl (fun acc s =>
    match acc with
    | none => none
    | some m =>
      match extMapB.lookup (extOf s) with
      | none => none
      | some sm => if m.isEmpty then some sm else if sm == m then some m else none) (some [])

def jsMime : Bytes := (extMapB.lookup (strBytes "js")).getD []

/-- the `Task` of C20 for a planned task, with its mimetype -/
def toTask (pl : Plan) (t : TaskP) : Task × Bytes :=
  let srcs : List Bytes :=
    if pl.stdinTask then [[]] else if pl.bundleSrcs.isEmpty then [render t.src] else pl.bundleSrcs.map render
  let dst : Bytes := match t.dst with | some d => render d | none => []
  let mo := taskMime pl.mimetype t.sync srcs
  let mime := mo.getD []
  ({ srcs := srcs, dst := dst, sync := t.sync, root := render t.root,
     sep := if srcs.length > 1 && mime == jsMime then strBytes ";\n" else [], skip := mo.isNone }, mime)

structure Result where
  fs : Fs
  stdout : Bytes
  exit : Nat
  tasks : List Task

def quietCfg (stdin : Bytes) : Cfg := { presMode := false, presOwn := false, presTime := false, stdin := stdin }

/-- tasks one after the other (the worker pool gives the same final state when footprints are disjoint, C20) -/
def runTasks (lib : Bytes → Bytes → Option Bytes) (cfg : Cfg) :
    List (Task × Bytes) → Fs → Bytes → Nat → Fs × Bytes × Nat
  | [], fs, so, fails => (fs, so, fails)
  | (t, mime) :: rest, fs, so, fails =>
    let out := outBytes cfg (lib mime) t fs
    let w : Writes := .ok [out]
    let fs' := run (minifyOps cfg w t fs) fs
    let ok := minifyOk cfg (lib mime) w t fs
    let so' := if t.dst.isEmpty && !noop t then so ++ out else so
    runTasks lib cfg rest fs' so' (if ok then fails else fails + 1)

/-- the whole command: final tree, stdout (with `-q`), exit status -/
def effects (pm : Nat → Bytes → Bool) (lib : Bytes → Bytes → Option Bytes) (inv : Inv) (fs : Fs) : Result :=
  match plan pm fs inv with
  | none => { fs := fs, stdout := [], exit := 1, tasks := [] }
  | some pl =>
    let ts := pl.tasks.map (toTask pl)
    let fs0 := match pl.outDir with
      | some d => run (mkdirOps fs d) fs
      | none => fs
    let (fs1, so, fails) := runTasks lib (quietCfg inv.stdin) ts fs0 [] 0
    { fs := fs1, stdout := so, exit := if fails > 0 then 1 else 0, tasks := ts.map (·.1) }

/-! ## `concatFileReader` -/

/-- state of the reader: contents of the files not yet opened, unread rest of the open file, bytes of
    the separator still to deliver -/
structure CR where
  files : List Bytes
  cur : Option Bytes
  sepLeft : Nat
  sep : Bytes
deriving Repr

def newCR (files : List Bytes) (sep : Bytes) : CR :=
  match files with
  | [] => ⟨[], none, 0, sep⟩
  | f :: r => ⟨r, some f, 0, sep⟩

/-- `writeSep(p)` with `len(p) = n`: the bytes written and the new `sepLeft` -/
def writeSep (sep : Bytes) (sepLeft n : Nat) : Bytes × Nat :=
  let m := min n sepLeft
  ((sep.drop (sep.length - sepLeft)).take m, sepLeft - m)

/-- one `Read(p)` with `len(p) = n`; the underlying `os.File.Read` delivers at most `max k 1` bytes (and at
    least one when there are any and there is room).  Result: bytes delivered, `err == io.EOF`, new state. -/
def readCR : (files : List Bytes) → (cur : Option Bytes) → (sepLeft : Nat) → (sep : Bytes) → (n k : Nat) →
    Bytes × Bool × CR
  | files, none, sl, sep, n, _ =>
    let (w, sl') := writeSep sep sl n
    (w, true, ⟨files, none, sl', sep⟩)
  | files, some c, sl, sep, n, k =>
    let (w, sl') := writeSep sep sl n
    let room := n - w.length
    if room == 0 then (w, false, ⟨files, some c, sl', sep⟩)
    else if !c.isEmpty then
      let j := min (max k 1) (min room c.length)
      (w ++ c.take j, false, ⟨files, some (c.drop j), sl', sep⟩)
    else
      match files with
      | [] => (w, true, ⟨[], none, sl', sep⟩)
      | f :: rest =>
        if w.isEmpty then readCR rest (some f) sep.length sep n k
        else
          let (w2, sl2) := writeSep sep sep.length (n - w.length)
          (w ++ w2, false, ⟨rest, some f, sl2, sep⟩)

def CR.read (s : CR) (n k : Nat) : Bytes × Bool × CR := readCR s.files s.cur s.sepLeft s.sep n k

/-- `io.ReadAll`: reads with the buffer sizes / underlying read sizes of the schedule until EOF;
    `none` = the schedule ended before EOF -/
def readAll : List (Nat × Nat) → CR → Bytes → Option Bytes
  | [], _, _ => none
  | (n, k) :: rest, s, acc =>
    let (c, eof, s') := s.read n k
    if eof then some (acc ++ c) else readAll rest s' (acc ++ c)

/-- the chunks of the successive `Read` calls and whether EOF was reported (for the correspondence run) -/
def readChunks : List (Nat × Nat) → CR → List Bytes × Bool
  | [], _ => ([], false)
  | (n, k) :: rest, s =>
    let (c, eof, s') := s.read n k
    if eof then ([c], true) else
    let (cs, e) := readChunks rest s'
    (c :: cs, e)

end Verif.Model.Cli

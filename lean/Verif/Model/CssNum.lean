/-!
# `minify.Number` / `minify.Decimal` at precision 0, as used by the CSS minifier

Behavioural models over `List Char` (Latin-1 embedding of bytes).  `minify.Number`/`Decimal` are the
subject of property C08; this file is the copy the CSS model (C04) computes with, tied to `/repo` by its own
correspondence stage (`num` in `harness/cmd/corr/c04.go`).  Only `prec ≤ 0` is modelled (C04 fixes Precision 0).

Besides the result bytes the CSS code observes *where* in the buffer the result ends: `minifyDimension`
appends the unit behind the returned sub-slice while it still holds a sub-slice of the old unit bytes.
`zeroTail…` gives, for a zero result, the number of bytes between the end of the returned slice and the end of
the number lexeme.
-/
namespace Verif.Model.CssNum

def isDig (c : Char) : Bool := '0' ≤ c && c ≤ '9'

def natDigits (n : Nat) : List Char := Nat.toDigits 10 n

/-- `strconv.LenInt`: number of decimal digits of |x| -/
def lenInt (x : Int) : Nat := (natDigits x.natAbs).length

def dropZeros : List Char → List Char
  | '0' :: r => dropZeros r
  | l => l

def dropTrailZeros (l : List Char) : List Char := (dropZeros l.reverse).reverse

/-- number of leading `'0'` characters -/
def countZeros : List Char → Nat
  | '0' :: r => countZeros r + 1
  | _ => 0

/-- `strconv.ParseInt` of the dependency as used for the exponent (after one optional `+` was skipped by
    the caller): optional sign, digits up to the first non-digit; `none` when no digit or on int64 overflow -/
def parseExp (l : List Char) : Option Int :=
  let l := match l with | '+' :: r => r | _ => l
  let (neg, ds) : Bool × List Char :=
    match l with | '-' :: r => (true, r) | '+' :: r => (false, r) | _ => (false, l)
  let ds := ds.takeWhile isDig
  if ds.isEmpty then none else
  let n : Nat := ds.foldl (fun a c => a * 10 + (c.toNat - 48)) 0
  if neg then (if n ≤ 2 ^ 63 then some (-(n : Int)) else none)
  else (if n < 2 ^ 63 then some (n : Int) else none)

def maxInt : Int := 2 ^ 63 - 1
def minInt : Int := -(2 ^ 63)

def isExpChar (c : Char) : Bool := c == 'e' || c == 'E'

/-- `minify.Number(s, 0)` -/
def number0 (s : List Char) : List Char :=
  if s.length ≤ 1 then s else
  let neg := s.head? == some '-'
  let signed := neg || s.head? == some '+'
  let body := if signed then s.drop 1 else s
  let mant := body.takeWhile (fun c => !isExpChar c)
  let rest := body.dropWhile (fun c => !isExpChar c)
  let expo : Option Int := match rest with | [] => some 0 | _ :: r => parseExp r
  match expo with
  | none => s
  | some origExp =>
  let ipart := mant.takeWhile (· != '.')
  let hasDot := mant.any (· == '.')
  let fpart := (mant.dropWhile (· != '.')).drop 1
  -- leading zeros are trimmed while at least two mantissa bytes remain
  let dropped := min (countZeros ipart) (mant.length - 1)
  let ip := ipart.drop dropped
  let start0 : Nat := (if signed then 1 else 0) + dropped
  let fp := dropTrailZeros fpart
  let sgn (o : List Char) : List Char := if neg then '-' :: o else o
  if hasDot && fp.isEmpty && ip.isEmpty then ['0'] else
  if (!hasDot || !fp.isEmpty) && (ip ++ (if hasDot then '.' :: fpart else [])).length == 1 && ip == ['0'] then ['0'] else
  let isInt := fp.isEmpty
  let (ds, normExp0, kindA, lz) : List Char × Int × Bool × Nat :=
    if ip.isEmpty then
      let z := countZeros fp
      (dropZeros fp, -(z : Int), true, z)
    else if isInt then (dropTrailZeros ip, (ip.length : Int), false, 0)
    else (ip ++ fp, (ip.length : Int), false, 0)
  let n : Int := ds.length
  if (origExp < 0 && (normExp0 < minInt - origExp || normExp0 - n < minInt - origExp)) ||
     (0 < origExp && (maxInt - origExp < normExp0 || maxInt - origExp < normExp0 - n)) then s else
  let normExp := normExp0 + origExp
  let intExp := normExp - n
  let lenIntExp := lenInt intExp
  let lenNormExp := lenInt normExp
  let hasFrac := !isInt
  if n ≤ normExp then
    let z := (normExp - n).toNat
    sgn (ds ++ (if 3 ≤ z then 'e' :: natDigits z else List.replicate z '0'))
  else if normExp < -3 && lenNormExp < lenIntExp && hasFrac then
    sgn ('.' :: ds ++ 'e' :: '-' :: natDigits normExp.natAbs)
  else if -(lenIntExp : Int) - 1 ≤ normExp then
    if normExp < 0 then sgn ('.' :: List.replicate normExp.natAbs '0' ++ ds)
    else sgn (ds.take normExp.toNat ++ '.' :: ds.drop normExp.toNat)
  else
    let endIdx : Int := start0 + (if kindA then 1 + lz + ds.length else if isInt then ds.length else ds.length + 1)
    let newEnd : Int := (if kindA then (start0 : Int) + n else endIdx - 1) + 2 + lenIntExp
    if newEnd < s.length then
      sgn (ds ++ 'e' :: '-' :: natDigits intExp.natAbs)
    else
      let m := if kindA then '.' :: List.replicate lz '0' ++ ds else if isInt then ds else ip ++ '.' :: fp
      sgn (m ++ 'e' :: '-' :: natDigits origExp.natAbs)

/-- for a lexeme on which `number0` returns `"0"` through one of its two early zero exits: the number of
    bytes of the lexeme behind the returned one-byte slice (0 when the input is returned unchanged) -/
def zeroTailNumber (s : List Char) : Nat :=
  if s.length ≤ 1 then 0 else
  let signed := s.head? == some '-' || s.head? == some '+'
  let body := if signed then s.drop 1 else s
  let mant := body.takeWhile (fun c => !isExpChar c)
  let rest := body.dropWhile (fun c => !isExpChar c)
  let expo : Option Int := match rest with | [] => some 0 | _ :: r => parseExp r
  match expo with
  | none => 0
  | some _ =>
  let hasDot := mant.any (· == '.')
  if hasDot then ((mant.dropWhile (· != '.')).drop 1).length + rest.length
  else rest.length

/-- `minify.Decimal(s, 0)`: no exponent handling at all -/
def decimal0 (s : List Char) : List Char :=
  if s.length ≤ 1 then s else
  let neg := s.head? == some '-'
  let signed := neg || s.head? == some '+'
  let body := if signed then s.drop 1 else s
  let ipart := body.takeWhile (· != '.')
  let hasDot := body.any (· == '.')
  let fpart := (body.dropWhile (· != '.')).drop 1
  let dropped := min (countZeros ipart) (body.length - 1)
  let ip := ipart.drop dropped
  let sgn (o : List Char) : List Char := if neg then '-' :: o else o
  if hasDot then
    let fp := dropTrailZeros fpart
    if fp.isEmpty then (if ip.isEmpty then ['0'] else sgn ip)
    else sgn (ip ++ '.' :: fp)
  else
    if ip == ['0'] then ['0'] else sgn ip

def zeroTailDecimal (s : List Char) : Nat :=
  if s.length ≤ 1 then 0 else
  let signed := s.head? == some '-' || s.head? == some '+'
  let body := if signed then s.drop 1 else s
  if body.any (· == '.') then ((body.dropWhile (· != '.')).drop 1).length else 0

end Verif.Model.CssNum

import Verif.Spec.SvgPath
import Verif.Model.SvgNum
/-!
# Behavioural model of `svg.PathData.ShortenPathData` (/repo/svg/pathdata.go) over exact decimals

Same input string → same output bytes as the Go code on inputs on which `float64` arithmetic is exact
(every coordinate and every cursor position is a dyadic rational of small magnitude); the model
computes with exact rationals.  Not a line-by-line mirror: no in-place buffer, no aliasing.

Layers (mirroring the Go functions)

* `scanNumber` — model of the dependency `parse.Number` (longest number lexeme; `1.` yields `1`).
* `scan` — the loop of `ShortenPathData`: separators, command letters (a repeated identical letter
  other than `M`/`m` is skipped, i.e. continues the instruction), single-character arc flags at
  argument positions 3, 4 (mod 7) of `A`/`a`, number lexemes, any other byte skipped; a bad flag or `1.e5`
  stops the scan: the rest of the input from the current instruction's letter is kept verbatim.
* `PState`, `emitCmd`, `copyNumber`, `copyFlag`, `emitGroup` — the separator-elision printer
  (`prevDigit`, `prevDigitIsInt`, `prevFlag`; the `.0` trick; the trailing `00` → `e2` rewrite of
  plain integers; a letter is printed unless equal to the previous one or `L` after `M` / `l` after `m`).
* `groupStep` — one iteration of the loop of `copyInstruction`: new cursor, C→S, Q→T, degenerate
  curve → line, L→H/V, zero-length L removal, control-point state (`NaN` = `none`; **not** reset by
  closepath), current and alternative (absolute ↔ relative) candidates, shortest
  choice (ties → current).
* `copyInstr`, `run`, `shorten` — `copyInstruction` per instruction (arity checks: an instruction whose
  coordinate count is not a multiple of the arity is dropped), the 100 000-byte cut-off, the `cmd == 0`
  bail-out.

The chosen groups are kept (`groupsOf`) and the output is `renderGroups` of them: the theorems
in `Props/C05.lean` talk about both.

The number printers are parameters (`NumPr`): `cur` = `minify.Number(lexeme, Precision)`,
`alt v` = `minify.Number(strconv.AppendFloat(v,'g',-1,64), newPrecision)`.  `goPr prec` instantiates
them with the private copy in `Model/SvgNum.lean`.
-/
namespace Verif.Model.SvgPath
open Verif.Spec.SvgPath

/-! ## dependency `parse.Number` -/

def expLen (r : List Char) : Nat :=
  match r with
  | e :: r' =>
    if e == 'e' || e == 'E' then
      let (j, r'') : Nat × List Char := match r' with
        | '+' :: t => (1, t)
        | '-' :: t => (1, t)
        | t => (0, t)
      let es := r''.takeWhile isDigit
      if es.isEmpty then 0 else 1 + j + es.length
    else 0
  | [] => 0

/-- model of `parse.Number(b)`: length of the number lexeme at the start of `b` (0 = none) -/
def scanNumber (b : List Char) : Nat :=
  match b with
  | [] => 0
  | c0 :: t =>
    let (i0, r0) : Nat × List Char := if c0 == '+' || c0 == '-' then (1, t) else (0, b)
    if r0.isEmpty then 0 else
    let ds := r0.takeWhile isDigit
    let r1 := r0.dropWhile isDigit
    let firstDigit := !ds.isEmpty
    let i1 := i0 + ds.length
    match r1 with
    | '.' :: r2 =>
      let fs := r2.takeWhile isDigit
      if !fs.isEmpty then
        let i2 := i1 + 1 + fs.length
        i2 + expLen (r2.dropWhile isDigit)
      else if firstDigit then i1
      else 0
    | _ => if !firstDigit then 0 else i1 + expLen r1

/-! ## scanner -/

structure Coord where
  lx : List Char
  v : Rat
  deriving Repr, DecidableEq

structure Instr where
  k : Kind
  rel : Bool
  cs : List Coord
  deriving Repr, DecidableEq

structure ScanSt where
  /-- `none` = Go `cmd == 0` -/
  cmd : Option (Kind × Bool) := none
  /-- coordinates of the current instruction, reversed -/
  coords : List Coord := []
  /-- finished instructions, reversed -/
  done : List Instr := []
  /-- the input from the command letter of the instruction being read (Go `b[start:]`) -/
  start : List Char := []
  /-- bad format met (bad arc flag, or `1.e5`): the rest of the input from `start` is kept verbatim -/
  bail : Option (List Char) := none

def isSep (c : Char) : Bool := c == ' ' || c == ',' || c == '\n' || c == '\r' || c == '\t'

def flush (st : ScanSt) : List Instr :=
  match st.cmd with
  | some (k, rel) => { k := k, rel := rel, cs := st.coords.reverse } :: st.done
  | none => st.done

def scanGo : Nat → ScanSt → List Char → ScanSt
  | 0, st, _ => st
  | _ + 1, st, [] => st
  | f + 1, st, c :: r =>
    if isSep c then scanGo f st r
    else
      let newCmd : Option (Kind × Bool) :=
        match kindOf c with
        | some kr => if st.cmd.isNone || st.cmd != some kr || kr.1 == .M then some kr else none
        | none => none
      match newCmd with
      | some kr => scanGo f { st with cmd := some kr, coords := [], done := flush st, start := c :: r } r
      | none =>
        let isA := match st.cmd with | some (.A, _) => true | _ => false
        if isA && (st.coords.length % 7 == 3 || st.coords.length % 7 == 4) then
          if c == '1' then scanGo f { st with coords := { lx := ['1'], v := 1 } :: st.coords } r
          else if c == '0' then scanGo f { st with coords := { lx := ['0'], v := 0 } :: st.coords } r
          else { st with bail := some st.start }
        else
          let n := scanNumber (c :: r)
          if n > 0 then
            let lx := (c :: r).take n
            scanGo f { st with coords := { lx := lx, v := numVal lx } :: st.coords } ((c :: r).drop n)
          else if c == '.' && st.cmd.isSome && (match r with | e :: _ => e == 'e' || e == 'E' | [] => false) then
            { st with bail := some st.start }
          else scanGo f st r

/-- result of the scanner: the complete instructions, the verbatim tail after a bad format (else empty), and the
    command that follows the last complete instruction (the one being read when the scan bailed out) -/
structure ScanRes where
  instrs : List Instr
  tail : List Char := []
  lastNext : Option Kind := none
  deriving Repr, DecidableEq

/-- `none` = no command at all (`cmd == 0` at the end: the input is returned) -/
def scan (d : List Char) : Option ScanRes :=
  let st := scanGo (d.length + 1) {} d
  match st.bail with
  | some t => some { instrs := st.done.reverse, tail := t, lastNext := st.cmd.map (·.1) }
  | none =>
    match st.cmd with
    | none => none
    | some _ => some { instrs := (flush st).reverse }

/-! ## printer -/

inductive PItem
  | num (s : List Char)
  | flag (b : Bool)
  deriving Repr, DecidableEq

structure PState where
  /-- last printed command; `none` = 0 -/
  cmd : Option (Kind × Bool) := none
  prevDigit : Bool := false
  prevDigitIsInt : Bool := false
  prevFlag : Bool := false
  deriving Repr, DecidableEq

def needLetter (st : PState) (k : Kind) (rel : Bool) : Bool :=
  st.cmd != some (k, rel) && !(st.cmd == some (.M, rel) && k == .L)

def emitCmd (st : PState) (k : Kind) (rel : Bool) : PState × List Char :=
  if needLetter st k rel then
    ({ st with cmd := some (k, rel), prevDigit := false, prevDigitIsInt := false }, [letter k rel])
  else (st, [])

def isPlainInt (coord : List Char) : Bool := !coord.any (fun c => c == '.' || c == 'e' || c == 'E')

/-- the trailing `00` → `e2` rewrite applies to plain integers longer than 2 bytes whose last two bytes are `00` -/
def rewrites00 (coord : List Char) : Bool :=
  isPlainInt coord &&
    (match coord.reverse with
     | '0' :: '0' :: _ :: _ => true
     | _ => false)

def body00 (coord : List Char) : List Char :=
  if rewrites00 coord then (coord.reverse.drop 2).reverse ++ ['e', '2'] else coord

def needSep (st : PState) (c0 : Char) : Bool :=
  st.prevDigit && (isDigit c0 || (c0 == '.' && st.prevDigitIsInt))

/-- `copyNumber`: returns the new state and the bytes appended -/
def copyNumber (st : PState) (coord : List Char) : PState × List Char :=
  let c0 := coord.headD ' '
  if needSep st c0 && c0 == '0' && !st.prevDigitIsInt then (st, ['.', '0'])
  else
    let sep := if needSep st c0 then [' '] else []
    ({ st with prevDigit := true, prevDigitIsInt := isPlainInt coord && !rewrites00 coord, prevFlag := false },
      sep ++ body00 coord)

def copyFlag (st : PState) (b : Bool) : PState × List Char :=
  let ch := if b then '1' else '0'
  ({ st with prevFlag := true, prevDigit := false, prevDigitIsInt := false },
    if st.prevFlag then [ch] else [' ', ch])

def emitItem (st : PState) : PItem → PState × List Char
  | .num s => copyNumber st s
  | .flag b => copyFlag st b

def emitItems : PState → List PItem → PState × List Char
  | st, [] => (st, [])
  | st, it :: r =>
    let a := emitItem st it
    let b := emitItems a.1 r
    (b.1, a.2 ++ b.2)

/-- one printed command group -/
structure OutGroup where
  /-- `p.state.cmd = 0` before printing (first group of a moveto instruction) -/
  force : Bool := false
  k : Kind
  rel : Bool
  items : List PItem
  deriving Repr, DecidableEq

def emitGroup (st : PState) (g : OutGroup) : PState × List Char :=
  if g.k == .Z then ({ cmd := some (.Z, true) }, ['z'])
  else
    let st0 := if g.force then { st with cmd := none } else st
    let a := emitCmd st0 g.k g.rel
    let b := emitItems a.1 g.items
    (b.1, a.2 ++ b.2)

def renderFrom : PState → List OutGroup → List Char
  | _, [] => []
  | st, g :: r => (emitGroup st g).2 ++ renderFrom (emitGroup st g).1 r

def renderGroups (gs : List OutGroup) : List Char := renderFrom {} gs

def stateAfter : PState → List OutGroup → PState
  | st, [] => st
  | st, g :: r => stateAfter (emitGroup st g).1 r

/-! ## number printers -/

structure NumPr where
  /-- `minify.Number(lexeme, o.Precision)` -/
  cur : List Char → List Char
  /-- `minify.Number(strconv.AppendFloat(nil, v, 'g', -1, 64), o.newPrecision)` -/
  alt : Rat → List Char

/-- the printers of the Go code: `newPrec` is `o.newPrecision` (15 inside `svg.Minify` when
    `Precision` is 0; 0 for a bare `&Minifier{}` handed to `NewPathData`) -/
def goPr (prec newPrec : Int) : NumPr :=
  { cur := fun s => SvgNum.number s prec
    alt := fun v => SvgNum.number (SvgNum.fmtG v) newPrec }

/-! ## `copyInstruction` -/

structure MSt where
  x : Rat := 0
  y : Rat := 0
  x0 : Rat := 0
  y0 : Rat := 0
  /-- (cx, cy); `none` = NaN -/
  c : Option Pt := none
  /-- (qx, qy); `none` = NaN -/
  q : Option Pt := none
  ps : PState := {}
  deriving Repr

def isFlagIdx (k : Kind) (i : Nat) : Bool := k == .A && (i % 7 == 3 || i % 7 == 4)

def curItemsFrom (P : NumPr) (k : Kind) : Nat → List Coord → List PItem
  | _, [] => []
  | i, c :: r =>
    (if isFlagIdx k i then PItem.flag (c.lx.headD ' ' == '1') else PItem.num (P.cur c.lx)) :: curItemsFrom P k (i + 1) r

/-- offset added to the `i`-th coordinate of a `k` group by `shortenAltPosInstruction` -/
def altOffset (k : Kind) (i : Nat) (dx dy : Rat) : Rat :=
  match k with
  | .H => dx
  | .V => dy
  | .A => if i % 7 == 5 then dx else if i % 7 == 6 then dy else 0
  | .Z => 0
  | _ => if i % 2 == 0 then dx else dy

def altItemsFrom (P : NumPr) (k : Kind) (dx dy : Rat) : Nat → List Coord → List PItem
  | _, [] => []
  | i, c :: r =>
    (if isFlagIdx k i then PItem.flag (c.v == 1) else PItem.num (P.alt (c.v + altOffset k i dx dy))) ::
      altItemsFrom P k dx dy (i + 1) r

def getV (cs : List Coord) (i : Nat) : Rat := (cs.getD i { lx := [], v := 0 }).v

/-- reflected control point `p.cx, p.cy` after the update at the top of the C/S (Q/T) block -/
def reflPt (x y : Rat) (o : Option Pt) : Pt :=
  match o with
  | none => (x, y)
  | some p => (2 * x - p.1, 2 * y - p.2)

/-- result of the rewriting part of one loop iteration: new control-point state, resulting command
    kind and coordinates; `none` = zero-length line, nothing printed -/
structure Rewritten where
  c : Option Pt
  q : Option Pt
  k : Kind
  cs : List Coord
  skip : Bool
  ax : Rat
  ay : Rat
  deriving Repr

/-- control point coincides with the start or the end point -/
def onEnds (p a c : Pt) : Bool := c == p || c == a

/-- new cursor position of a `k` group (`rx`,`ry` = current point for relative commands, else 0) -/
def endPoint (x y rx ry : Rat) : Kind → List Coord → Pt
  | .H, [a] => (a.v + rx, y)
  | .V, [a] => (x, a.v + ry)
  | .M, [a, b] => (a.v + rx, b.v + ry)
  | .L, [a, b] => (a.v + rx, b.v + ry)
  | .T, [a, b] => (a.v + rx, b.v + ry)
  | .S, [_, _, a, b] => (a.v + rx, b.v + ry)
  | .Q, [_, _, a, b] => (a.v + rx, b.v + ry)
  | .C, [_, _, _, _, a, b] => (a.v + rx, b.v + ry)
  | .A, [_, _, _, _, _, a, b] => (a.v + rx, b.v + ry)
  | _, _ => (x, y)

/-- what the rewriting of one group knows about its successor (fixes K-C05-3/4): all `false` = plain rules -/
structure Ctx where
  /-- this is the last group of its instruction and an `S`/`s` instruction follows -/
  nextS : Bool := false
  /-- this is the last group of its instruction and a `T`/`t` instruction follows -/
  nextT : Bool := false
  /-- the last printed command and the next group/command are curves: a zero-length line must stay -/
  keepZero : Bool := false
  deriving Repr, DecidableEq

/-- the C/S block: C → S when the first control point is the reflected one; a curve whose control points
    lie on the end points becomes a line (an S only if it is the single group of its instruction; not when
    `keepS` and the second control point is not the end point); returns the new `p.cx,p.cy` -/
def stageC (p a pc : Pt) (rx ry : Rat) (single keepS : Bool) : Kind → List Coord → Option Pt × Kind × List Coord
  | .C, [c1x, c1y, c2x, c2y, ex, ey] =>
    let cp1 : Pt := (c1x.v + rx, c1y.v + ry)
    let cp2 : Pt := (c2x.v + rx, c2y.v + ry)
    let keep := keepS && cp2 != a
    if cp1 == pc then
      if !keep && single && onEnds p a cp1 && onEnds p a cp2 then (none, .L, [ex, ey])
      else (some cp2, .S, [c2x, c2y, ex, ey])
    else
      if !keep && onEnds p a cp1 && onEnds p a cp2 then (none, .L, [ex, ey])
      else (some cp2, .C, [c1x, c1y, c2x, c2y, ex, ey])
  | .S, [c2x, c2y, ex, ey] =>
    let cp2 : Pt := (c2x.v + rx, c2y.v + ry)
    let keep := keepS && cp2 != a
    if !keep && single && onEnds p a pc && onEnds p a cp2 then (none, .L, [ex, ey])
    else (some cp2, .S, [c2x, c2y, ex, ey])
  | k, cs => (none, k, cs)

/-- the Q/T block -/
def stageQ (p a pq : Pt) (rx ry : Rat) (single keepT : Bool) : Kind → List Coord → Option Pt × Kind × List Coord
  | .Q, [cx, cy, ex, ey] =>
    let cp : Pt := (cx.v + rx, cy.v + ry)
    let keep := keepT && cp != a
    if cp == pq then
      if !keep && single && onEnds p a cp then (none, .L, [ex, ey])
      else (some cp, .T, [ex, ey])
    else
      if !keep && onEnds p a cp then (none, .L, [ex, ey])
      else (some cp, .Q, [cx, cy, ex, ey])
  | .T, [ex, ey] =>
    let keep := keepT && pq != a
    if !keep && single && onEnds p a pq then (none, .L, [ex, ey])
    else (some pq, .T, [ex, ey])
  | k, cs => (none, k, cs)

/-- the L block: zero-length line → nothing (or kept as `V` when `keepZero`), vertical → V, horizontal → H;
    returns (kind, coords, skip) -/
def stageL (p a : Pt) (keepZero : Bool) : Kind → List Coord → Kind × List Coord × Bool
  | .L, [ex, ey] =>
    if a.1 == p.1 && a.2 == p.2 && !keepZero then (.L, [ex, ey], true)
    else if a.1 == p.1 then (.V, [ey], false)
    else if a.2 == p.2 then (.H, [ex], false)
    else (.L, [ex, ey], false)
  | k, cs => (k, cs, false)

/-- `k` is the command of this group (L for the later pairs of a moveto), `single` = `i == 0 && i+di >= n`;
    `cs` has exactly `k.arity` coordinates (guaranteed by `copyInstr`) -/
def rewrite (st : MSt) (k : Kind) (rel : Bool) (single : Bool) (cs : List Coord) (ctx : Ctx := {}) : Rewritten :=
  let p : Pt := (st.x, st.y)
  let rx : Rat := if rel then st.x else 0
  let ry : Rat := if rel then st.y else 0
  let a := endPoint st.x st.y rx ry k cs
  let c := stageC p a (reflPt st.x st.y st.c) rx ry single ctx.nextS k cs
  let q := stageQ p a (reflPt st.x st.y st.q) rx ry single ctx.nextT c.2.1 c.2.2
  let l := stageL p a ctx.keepZero q.2.1 q.2.2
  { c := c.1, q := q.1, k := l.1, cs := l.2.1, skip := l.2.2, ax := a.1, ay := a.2 }

/-- current and alternative candidate of a rewritten group -/
def candidates (P : NumPr) (st : MSt) (force : Bool) (rel : Bool) (r : Rewritten) : OutGroup × OutGroup :=
  let dx : Rat := if rel then st.x else -st.x
  let dy : Rat := if rel then st.y else -st.y
  ({ force := force, k := r.k, rel := rel, items := curItemsFrom P r.k 0 r.cs },
   { force := force, k := r.k, rel := !rel, items := altItemsFrom P r.k dx dy 0 r.cs })

def choose (ps : PState) (cur alt : OutGroup) : OutGroup :=
  if (emitGroup ps alt).2.length < (emitGroup ps cur).2.length then alt else cur

/-- the later pairs of a moveto are linetos -/
def groupKind (k0 : Kind) (first : Bool) : Kind := if !first && k0 == .M then .L else k0

/-- first group of a moveto instruction: the letter is always printed and the subpath start is set -/
def isMoveFirst (k0 : Kind) (first : Bool) : Bool := first && k0 == .M

/-- state after printing group `g` and moving to the rewritten end point -/
def advance (st : MSt) (r : Rewritten) (g : OutGroup) (setStart : Bool) : MSt :=
  { st with c := r.c, q := r.q, x := r.ax, y := r.ay, ps := (emitGroup st.ps g).1,
            x0 := if setStart then r.ax else st.x0, y0 := if setStart then r.ay else st.y0 }

/-- the group printed for a rewritten group: the shorter of the current and the alternative candidate -/
def chosen (P : NumPr) (st : MSt) (k0 : Kind) (rel first : Bool) (r : Rewritten) : OutGroup :=
  choose st.ps (candidates P st (isMoveFirst k0 first) rel r).1 (candidates P st (isMoveFirst k0 first) rel r).2

/-- one iteration of the loop in `copyInstruction`: new state and the printed group (none for a removed
    zero-length line).  `k0` = the instruction's command, `first` = `i == 0`, `single` = `i == 0 && i + di >= n` -/
def groupStep (P : NumPr) (st : MSt) (k0 : Kind) (rel : Bool) (first single : Bool) (cs : List Coord) (ctx : Ctx := {}) :
    MSt × List OutGroup :=
  let r := rewrite st (groupKind k0 first) rel single cs ctx
  if r.skip then ({ st with c := r.c, q := r.q }, [])
  else (advance st r (chosen P st k0 rel first r) (isMoveFirst k0 first), [chosen P st k0 rel first r])

def isCurveKind (k : Kind) : Bool := k == .C || k == .S || k == .Q || k == .T

/-- look-ahead of `copyInstruction` (`p.next`): `last` = this is the last group of the instruction,
    `next` = kind of the following instruction; within an instruction the next group has the instruction's kind
    (L after the first pair of a moveto).  `ps.cmd` is the last printed command. -/
def ctxOf (ps : PState) (k0 : Kind) (last : Bool) (next : Option Kind) : Ctx :=
  let next' : Option Kind := if last then next else some (groupKind k0 false)
  let nextCurve := match next' with | some k => isCurveKind k | none => false
  let prevCurve := match ps.cmd with | some (k, _) => isCurveKind k | none => false
  { nextS := last && next == some .S, nextT := last && next == some .T, keepZero := nextCurve && prevCurve }

/-- split into chunks of `di` (the caller has checked divisibility) -/
def chunks (di : Nat) : Nat → List Coord → List (List Coord)
  | 0, _ => []
  | _ + 1, [] => []
  | f + 1, l => l.take di :: chunks di f (l.drop di)

def groupLoop (P : NumPr) (k0 : Kind) (rel : Bool) (single : Bool) (next : Option Kind) :
    MSt → Bool → List (List Coord) → MSt × List OutGroup
  | st, _, [] => (st, [])
  | st, first, g :: r =>
    let a := groupStep P st k0 rel first (first && single) g (ctxOf st.ps k0 r.isEmpty next)
    let b := groupLoop P k0 rel single next a.1 false r
    (b.1, a.2 ++ b.2)

/-- arity `di` of an instruction with `n` coordinates, `none` = the instruction is dropped -/
def instrArity (k : Kind) (n : Nat) : Option Nat :=
  match k with
  | .M | .L | .T => if n % 2 == 0 then some 2 else none
  | .H | .V => some 1
  | .S | .Q => if n % 4 == 0 then some 4 else none
  | .C => if n % 6 == 0 then some 6 else none
  | .A => if n % 7 == 0 then some 7 else none
  | .Z => none

def zGroup : OutGroup := { k := .Z, rel := true, items := [] }

def copyInstr (P : NumPr) (st : MSt) (ins : Instr) (next : Option Kind := none) : MSt × List OutGroup :=
  let n := ins.cs.length
  if n == 0 then
    if ins.k == .Z then
      ({ st with x := st.x0, y := st.y0, c := none, q := none, ps := (emitGroup st.ps zGroup).1 }, [zGroup])
    else (st, [])
  else
    match instrArity ins.k n with
    | none => (st, [])
    | some di => groupLoop P ins.k ins.rel (n == di) next st true (chunks di n ins.cs)

/-- kind of the command that follows: the next instruction, or `final` after the last one -/
def nextKind (r : List Instr) (final : Option Kind) : Option Kind :=
  match r with
  | j :: _ => some j.k
  | [] => final

/-- `final` = command following the last instruction (`none` at the end of the input) -/
def runInstrs (P : NumPr) (final : Option Kind) : MSt → List Instr → MSt × List OutGroup
  | st, [] => (st, [])
  | st, i :: r =>
    let a := copyInstr P st i (nextKind r final)
    let b := runInstrs P final a.1 r
    (b.1, a.2 ++ b.2)

/-- the groups `ShortenPathData` prints for the instruction list -/
def groupsOfInstrs (P : NumPr) (is : List Instr) (final : Option Kind := none) : List OutGroup :=
  (runInstrs P final {} is).2

def maxLen : Nat := 100000

/-- model of `ShortenPathData` -/
def shortenWith (P : NumPr) (d : List Char) : List Char :=
  if maxLen < d.length then d else
  match scan d with
  | none => d
  | some r => renderGroups (groupsOfInstrs P r.instrs r.lastNext) ++ r.tail

/-- `svg.Minify` path data (Precision 0 → newPrecision 15) -/
def shorten (d : List Char) : List Char := shortenWith (goPr 0 15) d

end Verif.Model.SvgPath

import Verif.Gen.C03Tables
/-!
# C03 — behavioural models of the byte-level helpers used by `html/html.go`

* `replaceEntities`        — `parse.ReplaceEntities(b, entitiesMap, revEntitiesMap)`  (parse/v2 common.go)
* `replaceWsEntities`      — `parse.ReplaceMultipleWhitespaceAndEntities`
* `trimWhitespace`         — `parse.TrimWhitespace`
* `escapeAttrVal`          — `html.EscapeAttrVal` (parse/v2 html/util.go)

These are dependency functions; they are modelled *behaviourally* (same bytes out) and tied to the real
functions by correspondence (`harness/cmd/corr/c03.go`).  The Go functions work in place with index
arithmetic; the models are left-to-right list recursions.

`replaceEntities` in Go: at every `&` with at least three more bytes it calls `replaceEntities(b, i, …)`,
which either leaves the text alone and returns an index inside the reference-like text (none of the skipped
bytes is `&` or whitespace, so skipping them is unobservable), or splices the replacement `r` in and
continues scanning *after* `r`.  Hence the model: at `&`, `replAt` yields `none` (keep `&`, continue with
the next byte) or `some (r, k)` (emit `r`, drop the `k` bytes of the reference, continue after them).
-/
namespace Verif.Model.HtmlAttr
open Verif.Gen

def isDigit (c : Char) : Bool := 48 ≤ c.toNat && c.toNat ≤ 57
def isAlpha (c : Char) : Bool := (65 ≤ c.toNat && c.toNat ≤ 90) || (97 ≤ c.toNat && c.toNat ≤ 122)
def isAlnum (c : Char) : Bool := isDigit c || isAlpha c
def isHexDigit (c : Char) : Bool :=
  isDigit c || (97 ≤ c.toNat && c.toNat ≤ 102) || (65 ≤ c.toNat && c.toNat ≤ 70)
/-- `parse.IsWhitespace`: space, \n, \r, \t, \f -/
def isWhitespace (c : Char) : Bool := c = ' ' || c = '\n' || c = '\r' || c = '\t' || c = '\x0c'
/-- `parse.IsNewline` -/
def isNewline (c : Char) : Bool := c = '\n' || c = '\r'

def hexDigitVal (c : Char) : Nat :=
  if c.toNat ≤ 57 then c.toNat - 48 else if c.toNat ≤ 70 then c.toNat - 65 + 10 else c.toNat - 97 + 10

/-- Go `c = c<<4 + digit` on a 64-bit `int`: the value modulo 2^64 -/
def hexAcc (ds : List Char) : Nat := ds.foldl (fun a c => (a * 16 + hexDigitVal c) % 2 ^ 64) 0

/-- Go's decimal loop `for …; c < 128 && isdigit; … { c = c*10 + d }`: (value reached, digits consumed) -/
def decAcc : Nat → List Char → Nat → Nat × Nat
  | c, [], n => (c, n)
  | c, d :: r, n => if c < 128 && isDigit d then decAcc (c * 10 + (d.toNat - 48)) r (n + 1) else (c, n)

/-- `strconv.AppendInt(…, n, 10)` for `n ≥ 0` -/
def natDigits (n : Nat) : List Char :=
  if n < 10 then [Char.ofNat (48 + n)] else natDigits (n / 10) ++ [Char.ofNat (48 + n % 10)]
decreasing_by omega

abbrev EntMap := List (List Char × List Char)
abbrev RevMap := List (Char × List Char)

/-- first stage of Go `replaceEntities`: recognise `#x…`, `#…` or a name and compute the replacement `r`;
    result `(r, k)`: `k` = number of bytes after `&` up to (not including) the position `j` where Go then
    demands a `;`.  `none` = one of the early `return b, …` exits. -/
def refBodyHex (h : List Char) : Option (List Char × Nat) :=
  let ds := h.takeWhile isHexDigit
  let c := hexAcc ds
  -- `j <= i+3 || 10000 <= c` with c a signed 64-bit int
  if ds.isEmpty || (10000 ≤ c && c < 2 ^ 63) then none
  else if c < 128 || 2 ^ 63 ≤ c then some ([Char.ofNat (c % 256)], 2 + ds.length)
  else some ('&' :: '#' :: natDigits c ++ [';'], 2 + ds.length)

def refBodyDec (r : List Char) : Option (List Char × Nat) :=
  let (c, n) := decAcc 0 r 0
  if n = 0 || 128 ≤ c then none else some ([Char.ofNat c], 1 + n)

def refBodyNamed (em : EntMap) (s : List Char) : Option (List Char × Nat) :=
  let run := s.takeWhile isAlnum
  -- the scan stops after 32 name bytes; a longer run is then not followed by `;`
  if run.isEmpty || 32 < run.length then none
  else match em.lookup run with
    | some r => some (r, run.length)
    | none => none

def refBody (em : EntMap) (s : List Char) : Option (List Char × Nat) :=
  match s with
  | c :: r =>
    if c = '#' then
      match r with
      | x :: h => if x = 'x' then refBodyHex h else refBodyDec r
      | [] => none
    else refBodyNamed em s
  | [] => none

def headIs (p : Char → Bool) : List Char → Bool
  | c :: _ => p c
  | [] => false

/-- Go `replaceEntities(b, i, em, rev)` with `s` = the bytes after `b[i] = '&'`.
    `some (r, k)`: the `k` bytes after `&` (ending in `;`) are replaced by `r`. -/
def replAt (em : EntMap) (rev : RevMap) (s : List Char) : Option (List Char × Nat) :=
  match refBody em s with
  | none => none
  | some (r, k) =>
    if headIs (· = ';') (s.drop k) then
      match r with
      | [c] =>
        match rev.lookup c with
        | some q => if q = '&' :: s.take (k + 1) then none else some (q, k + 1)
        | none =>
          if c = '&' && headIs (fun d => isAlnum d || d = '#') (s.drop (k + 1)) then none
          else some (r, k + 1)
      | _ => some (r, k + 1)
    else none

/-- `parse.ReplaceEntities`; first argument: bytes still to be dropped (rest of a replaced reference) -/
def replEnt (em : EntMap) (rev : RevMap) : Nat → List Char → List Char
  | _, [] => []
  | k + 1, _ :: s => replEnt em rev k s
  | 0, c :: s =>
    if c = '&' && 3 ≤ s.length then
      match replAt em rev s with
      | some (r, k) => r ++ replEnt em rev k s
      | none => '&' :: replEnt em rev 0 s
    else c :: replEnt em rev 0 s

def replaceEntities (em : EntMap) (rev : RevMap) (b : List Char) : List Char := replEnt em rev 0 b

/-- the two call shapes of html.go -/
def replaceEntitiesText (b : List Char) : List Char :=
  replaceEntities C03Tables.entitiesMap C03Tables.textRevEntitiesMap b
def replaceEntitiesAttr (b : List Char) : List Char :=
  replaceEntities C03Tables.entitiesMap C03Tables.attrRevEntitiesMap b

/-- `parse.ReplaceMultipleWhitespaceAndEntities`: every maximal whitespace run becomes one byte (`\n` if the
    run contains `\n` or `\r`, else a space); references are replaced as in `replaceEntities`; bytes produced
    by a replacement are not looked at again.
    State: `skip` bytes still to drop; `inWs` = the previous source byte was whitespace (its run has
    already been emitted). -/
def runHasNewline : List Char → Bool
  | c :: s => if isWhitespace c then (isNewline c || runHasNewline s) else false
  | [] => false

def replWsEnt (em : EntMap) (rev : RevMap) : Nat → Bool → List Char → List Char
  | _, _, [] => []
  | k + 1, _, _ :: s => replWsEnt em rev k false s
  | 0, inWs, c :: s =>
    if isWhitespace c then
      if inWs then replWsEnt em rev 0 true s
      else (if runHasNewline (c :: s) then '\n' else ' ') :: replWsEnt em rev 0 true s
    else if c = '&' && 3 ≤ s.length then
      match replAt em rev s with
      | some (r, k) => r ++ replWsEnt em rev k false s
      | none => '&' :: replWsEnt em rev 0 false s
    else c :: replWsEnt em rev 0 false s

def replaceWsEntities (em : EntMap) (rev : RevMap) (b : List Char) : List Char := replWsEnt em rev 0 false b

/-- `parse.TrimWhitespace` -/
def trimWhitespace (b : List Char) : List Char :=
  ((b.dropWhile isWhitespace).reverse.dropWhile isWhitespace).reverse

/-! ## `html.EscapeAttrVal` -/

/-- `charTable` of parse/v2 html/util.go: bytes that force quoting -/
def needsQuote (c : Char) : Bool :=
  c = '\t' || c = '\n' || c = '\x0c' || c = '\r' || c = ' ' || c = '"' || c = '\'' ||
  c = '<' || c = '=' || c = '>' || c = '`'

/-- the `origQuote` byte argument: 0, `'` or `"` -/
inductive Quote where
  | none | single | double
  deriving DecidableEq, Repr

def Quote.char : Quote → Char
  | .single => '\'' | .double => '"' | .none => '\x00'

def escapeQuote (q : Char) (ent : List Char) : List Char → List Char
  | [] => []
  | c :: s => if c = q then ent ++ escapeQuote q ent s else c :: escapeQuote q ent s

/-- `html.EscapeAttrVal(buf, b, origQuote, mustQuote)` -/
def escapeAttrVal (b : List Char) (orig : Quote) (must : Bool) : List Char :=
  let singles := b.count '\''
  let doubles := b.count '"'
  let unquoted := b.all (fun c => !needsQuote c)
  if unquoted && (!must || orig = .none) then b
  else if (singles = 0 && orig = .single) || (doubles = 0 && orig = .double) then
    orig.char :: b ++ [orig.char]
  else if doubles < singles || (singles = doubles && orig ≠ .single) then
    '"' :: escapeQuote '"' ['&', '#', '3', '4', ';'] b ++ ['"']
  else
    '\'' :: escapeQuote '\'' ['&', '#', '3', '9', ';'] b ++ ['\'']

end Verif.Model.HtmlAttr

/-!
# C13 — concurrent use of one shared registry (model)

`Sh` is the state shared by all calls: the registry (literal map, pattern slice), the option structs
the user registered, every package-level table and byte slice.  `Lo` is everything a call owns: its
input, lexer/parser state, output buffer, per-call copies of option structs, renamer, ….
A call is a deterministic step function that READS `Sh` and reads/writes only its own `Lo`; that
the Go code has this shape is exactly what the regenerated facts `Verif.Gen.ConcFacts` state
(no package-level writes, option writes only after rebinding to a private copy, no order-dependent
map iteration, no randomness/time, goroutines only in the three pipe wrappers).

The registry lock is a Go `sync.RWMutex`: model `RW` with the pending-writer rule (a waiting `Lock`
blocks new `RLock`s — the reason registration concurrent with use is outside the property).
-/
namespace Verif.Model.Conc

structure Prog (Sh Lo : Type) where
  /-- one atomic step of a thread: may read shared state, updates only its own local state -/
  step : Sh → Lo → Lo

structure Cfg (Sh Lo : Type) where
  shared : Sh
  locals : List Lo

/-- thread `i` takes one step (a schedule entry naming a non-existent thread is a no-op) -/
def stepThread {Sh Lo : Type} (P : Prog Sh Lo) (c : Cfg Sh Lo) (i : Nat) : Cfg Sh Lo :=
  { c with locals := c.locals.modify i (P.step c.shared) }

/-- run an arbitrary interleaving: the schedule lists which thread moves next -/
def run {Sh Lo : Type} (P : Prog Sh Lo) (c : Cfg Sh Lo) (sched : List Nat) : Cfg Sh Lo :=
  sched.foldl (stepThread P) c

/-- n sequential steps of one thread on its own -/
def iter {Lo : Type} (f : Lo → Lo) : Nat → Lo → Lo
  | 0, x => x
  | n + 1, x => iter f n (f x)

/-! ## sync.RWMutex -/

structure RW where
  readers : Nat := 0
  writer : Bool := false
  pending : Bool := false   -- a goroutine is blocked in Lock()
  deriving DecidableEq, Repr

inductive LockOp where
  | rlock | runlock | lock | unlock
  deriving DecidableEq, Repr

def enabled (s : RW) : LockOp → Bool
  | .rlock => !s.writer && !s.pending
  | .runlock => 0 < s.readers
  | .lock => !s.writer && s.readers == 0
  | .unlock => s.writer

/-- effect of an operation; a `lock` that is not enabled registers as pending -/
def applyOp (s : RW) : LockOp → RW
  | .rlock => if enabled s .rlock then { s with readers := s.readers + 1 } else s
  | .runlock => { s with readers := s.readers - 1 }
  | .lock => if enabled s .lock then { s with writer := true, pending := false } else { s with pending := true }
  | .unlock => { s with writer := false }

def isReaderOp : LockOp → Bool
  | .rlock | .runlock => true
  | _ => false

end Verif.Model.Conc

import Verif.Model.Registry
/-!
# C11 — embedded resources: which minifier is asked, with what, and what is emitted

Behavioural model of the embedding decisions of `html/html.go` (raw-text elements, `<svg>`/`<math>`
tokens, `style` and `on*` attributes), `svg/svg.go` (`style` element text / CDATA, `style` attribute,
`contentStyleType`) and the error-position update of `common.go` `UpdateErrorPosition`.
The host's own rewriting of the surrounding markup is the subject of C03/C05/C04; here the host is
abstracted to the *site* of the embedded payload.
-/
namespace Verif.Model.Embed
open Verif Verif.Model.Registry

inductive RawTag where
  | script | style | iframe
  deriving DecidableEq, Repr

/-- where a payload is embedded -/
inductive Site where
  | htmlRaw (tag : RawTag) (typeAttr : List Char)   -- `typeAttr = []` when absent or empty
  | htmlSvg | htmlMath
  | htmlStyleAttr | htmlOnAttr
  | svgStyleText (contentStyleType : Option (List Char)) | svgStyleAttr (contentStyleType : Option (List Char))
  deriving DecidableEq, Repr

structure Target where
  mime : List Char
  params : List (List Char × List Char)
  payload : List Char
  deriving DecidableEq, Repr

def inlineParams : List (List Char × List Char) := [("inline".toList, "1".toList)]

def isWs (c : Char) : Bool := c == ' ' || c == '\t' || c == '\n' || c == '\r' || c == '\x0c'

def trimWs (l : List Char) : List Char := ((l.dropWhile isWs).reverse.dropWhile isWs).reverse

def lowerAscii (c : Char) : Char := if 'A' ≤ c ∧ c ≤ 'Z' then Char.ofNat (c.toNat + 32) else c

def equalFold (a b : List Char) : Bool := a.map lowerAscii == b.map lowerAscii

/-- `on*` attributes: value trimmed, a leading `javascript:` (any case) stripped -/
def onAttrPayload (v : List Char) : List Char :=
  let v := trimWs v
  if 11 ≤ v.length ∧ equalFold (v.take 11) "javascript:".toList then v.drop 11 else v

/-- what is handed to `MinifyMimetype` at a site -/
def target (s : Site) (payload : List Char) : Target :=
  match s with
  | .htmlRaw .iframe _ => ⟨"text/html".toList, [], payload⟩
  | .htmlRaw tag ty =>
    if ty.isEmpty then
      ⟨(if tag == .script then "application/javascript" else "text/css").toList, [], payload⟩
    else
      let (mt, ps) := splitMediatype ty
      ⟨mt, toMap (ps.getD []), payload⟩
  | .htmlSvg => ⟨"image/svg+xml".toList, inlineParams, payload⟩
  | .htmlMath => ⟨"application/mathml+xml".toList, [], payload⟩
  | .htmlStyleAttr => ⟨"text/css".toList, inlineParams, trimWs payload⟩
  | .htmlOnAttr => ⟨"application/javascript".toList, inlineParams, onAttrPayload payload⟩
  | .svgStyleText cst => ⟨cst.getD "text/css".toList, [], payload⟩
  | .svgStyleAttr cst => ⟨cst.getD "text/css".toList, inlineParams, payload⟩

/-- answer of the registry for the target -/
inductive Sub where
  | ok (out : List Char)
  | notExist
  | err (line col : Nat) (isParseErr : Bool)
  deriving DecidableEq, Repr

structure Pos where
  line : Nat
  col : Nat
  deriving DecidableEq, Repr

/-- `parse.Position`: 1-based line and column of a byte offset (LF, CRLF and CR line ends; columns in bytes) -/
def position : List Char → Nat → Nat → Nat → Pos
  | _, 0, line, col => ⟨line, col⟩
  | [], _, line, col => ⟨line, col⟩
  | '\r' :: '\n' :: r, n + 1, line, _ => if n = 0 then ⟨line + 1, 1⟩ else position r (n - 1) (line + 1) 1
  | c :: r, n + 1, line, col =>
    if c == '\n' || c == '\r' then position r n (line + 1) 1 else position r n line (col + 1)

/-- `UpdateErrorPosition`: only `*parse.Error` values carry a position; others pass through unchanged -/
def updatePos (doc : List Char) (offset : Nat) (line col : Nat) (isParseErr : Bool) : Nat × Nat :=
  if isParseErr then
    let p := position doc offset 1 1
    (line + (p.line - 1), col + (p.col - 1))
  else (line, col)

inductive Emit where
  | bytes (b : List Char)
  | fail (line col : Nat)
  deriving DecidableEq, Repr

/-- what replaces the payload in the output (before the host's own re-escaping) -/
def emit (doc : List Char) (offset : Nat) (payload : List Char) : Sub → Emit
  | .ok out => .bytes out
  | .notExist => .bytes payload
  | .err l c pe => let (l', c') := updatePos doc offset l c pe; .fail l' c'

/-- the whole step: registry lookup by the C15 rule, then emit -/
def embedStep (h : List RegOp) (pmOf : List Char → Nat → Bool) (run : Nat → Target → Sub)
    (doc : List Char) (offset : Nat) (s : Site) (payload : List Char) : Emit :=
  let t := target s payload
  match lookup (build h) (pmOf t.mime) (charsToBytes t.mime) with
  | some id => emit doc offset t.payload (run id t)
  | none => emit doc offset t.payload .notExist

end Verif.Model.Embed

/-!
# C08 — `minify.Number` and `minify.Decimal` (`/repo/common.go`)

Behavioural functional models over `List Char` (Latin-1 embedding of Go's `[]byte`): same input
bytes and precision → same output bytes as the in-place Go routines.  The Go code works with indices
`start`, `dot`, `end` into one buffer; the model follows the same *decisions* on the pieces

* `ip` — integer digits of the mantissa after dropping leading zeros,
* `fp` — fraction digits after dropping trailing zeros,
* `e`  — the exponent (`origExp`), an `Int`; Go `int` wrap-around (`wrap64`) is modelled where the
  Go code adds to `origExp` in the precision branch,
* `W`  — the number of bytes between `start` and `len(num)` (needed by print case 4).

By contract (dependency `parse/v2/strconv`): `ParseInt` (`parseExp`: optional sign, digits, overflow
beyond int64 rejected) and `LenInt` (`lenInt`: number of decimal digits of the absolute value).
-/
namespace Verif.Model.Num

/-! ## small helpers -/

/-- decimal digits of a natural number (Go: the digit loops writing `exp%10`) -/
def decStr (k : Nat) : List Char := Nat.toDigits 10 k
/-- `strconv.LenInt` -/
def lenInt (x : Int) : Nat := (Nat.toDigits 10 x.natAbs).length
/-- value of a digit string (`Nat.ofDigitChars 10 · 0`) -/
def natOf (l : List Char) : Nat := Nat.ofDigitChars 10 l 0

def dropZeros : List Char → List Char
  | '0' :: r => dropZeros r
  | l => l

/-- drop trailing occurrences of `c` -/
def dropTrail (c : Char) (l : List Char) : List Char := (l.reverse.dropWhile (· == c)).reverse

def incChar (c : Char) : Char := Char.ofNat (c.toNat + 1)

/-- Go `int` (64 bit) wrap-around -/
def wrap64 (x : Int) : Int := (x + 9223372036854775808) % 18446744073709551616 - 9223372036854775808

def maxInt : Int := 2^63 - 1
def minInt : Int := -(2^63)

/-- Number skips one `+` before calling `strconv.ParseInt` -/
def skipPlus : List Char → List Char
  | '+' :: r => r
  | l => l

/-- the optional sign read by `strconv.ParseInt` -/
def signSplit : List Char → Bool × List Char
  | '-' :: r => (true, r)
  | '+' :: r => (false, r)
  | l => (false, l)

/-- `strconv.ParseInt` preceded by Number's own skipping of one `+`:
    `none` when there are no digits or the value does not fit int64 -/
def parseExp (l : List Char) : Option Int :=
  let sd := signSplit (skipPlus l)
  let ds := sd.2.takeWhile Char.isDigit
  if ds.isEmpty then none else
  if sd.1 then (if natOf ds ≤ 2^63 then some (-(natOf ds : Int)) else none)
  else (if natOf ds < 2^63 then some (natOf ds : Int) else none)

def notE (c : Char) : Bool := c != 'e' && c != 'E'

/-- split at the LAST `.` (Number keeps scanning after a dot) -/
def splitLastDot : List Char → List Char × Option (List Char)
  | [] => ([], none)
  | c :: r =>
    match splitLastDot r with
    | (a, some b) => (c :: a, some b)
    | (a, none) => if c == '.' then ([], some a) else (c :: a, none)

/-- split at the FIRST `.` (Decimal breaks at the first dot) -/
def splitFirstDot : List Char → List Char × Option (List Char)
  | [] => ([], none)
  | c :: r =>
    if c == '.' then ([], some r) else
    match splitFirstDot r with
    | (a, b) => (c :: a, b)

/-- the trimmed mantissa `ip . fp` and exponent -/
structure Mant where
  ip : List Char
  fp : List Char
  e : Int
  deriving Repr, DecidableEq

/-- is the byte at index `i` at least `'5'` -/
def ge5At (l : List Char) (i : Nat) : Bool :=
  match l.drop i with
  | c :: _ => decide ('5' ≤ c)
  | [] => false

/-- the backwards loop of the precision branch over the retained digits after the first one:
    with a pending increment strip trailing nines and increment the digit before them, otherwise
    strip trailing zeros.  Returns the kept digits and whether the increment is still pending. -/
def incStrip (t : List Char) (inc : Bool) : List Char × Bool :=
  if inc then
    match (dropTrail '9' t).reverse with
    | [] => ([], true)
    | c :: r => ((incChar c :: r).reverse, false)
  else (dropTrail '0' t, false)

/-- result of the precision branch when only integer digits `h :: t` survive -/
def roundInt (h : Char) (t : List Char) (pend : Bool) (e : Int) : Mant :=
  if pend then
    if h == '9' then { ip := ['1'], fp := [], e := wrap64 (e + 1) }
    else { ip := [incChar h], fp := [], e := e }
  else { ip := h :: t, fp := [], e := e }

/-- precision branch when only `p` of the integer digits `h :: tl` are kept (`p ≤ |h :: tl|`);
    `inc` says whether the first dropped digit is at least `5` -/
def roundIp (h : Char) (tl : List Char) (p : Nat) (inc : Bool) (e : Int) : Mant :=
  let st := incStrip (((h :: tl).take p).drop 1) inc
  roundInt h st.1 st.2 (wrap64 (e + (((tl.length + 1 : Nat) : Int) - ((1 + st.1.length : Nat) : Int))))

/-- precision branch of `Number` on the trimmed mantissa, `0 < p` -/
def roundP (m : Mant) (p : Nat) : Mant :=
  match m.ip with
  | [] =>
    -- `.000ddd`
    let ds := dropZeros m.fp
    let lz := m.fp.length - ds.length
    if p < ds.length then
      let st := incStrip (m.fp.take (lz + p)) (ge5At ds p)
      if st.2 then { ip := ['1'], fp := [], e := m.e } else { ip := [], fp := st.1, e := m.e }
    else m
  | h :: tl =>
    let ni := tl.length + 1
    if m.fp.isEmpty then
      -- integer: do not turn 9 into 10, 99 into 100, 9e1 into 1e2
      if p < ni && decide (1 < wrap64 (((ni : Int) - (p : Int)) + m.e)) then
        roundIp h tl p (ge5At (h :: tl) p) m.e
      else m
    else if p < ni + m.fp.length then
      if p ≤ ni then
        roundIp h tl p (if p < ni then ge5At (h :: tl) p else ge5At m.fp 0) m.e
      else
        let st := incStrip (tl ++ m.fp.take (p - ni)) (ge5At m.fp (p - ni))
        if !st.2 && ni - 1 ≤ st.1.length then
          { ip := h :: st.1.take (ni - 1), fp := st.1.drop (ni - 1), e := m.e }
        else
          roundInt h st.1 st.2 (wrap64 (m.e + ((ni : Int) - ((1 + st.1.length : Nat) : Int))))
    else m

/-- the significant digits `ds` and `normExp` (before adding the exponent) of a trimmed mantissa:
    the value of the mantissa is `0.ds · 10^normExp` -/
def sigDigits (ip fp : List Char) : List Char × Int :=
  if ip.isEmpty then
    let ds := dropZeros fp
    (ds, -((fp.length - ds.length : Nat) : Int))
  else if fp.isEmpty then (dropTrail '0' ip, (ip.length : Int))
  else (ip ++ fp, (ip.length : Int))

def sgn (neg : Bool) (o : List Char) : List Char := if neg then '-' :: o else o

/-- the four print cases of `Number` for significant digits `ds` and `normExp0` (`sigDigits`).
    `W = len(num) - start`; `s` is returned on exponent overflow. -/
def printCase (s : List Char) (neg : Bool) (W : Nat) (ip fp : List Char) (origExp : Int)
    (ds : List Char) (normExp0 : Int) : List Char :=
  let n : Int := ds.length
  if (origExp < 0 && (normExp0 < minInt - origExp || normExp0 - n < minInt - origExp)) ||
     (0 < origExp && (maxInt - origExp < normExp0 || maxInt - origExp < normExp0 - n)) then s else
  let normExp := normExp0 + origExp
  let intExp := normExp - n
  let lenIntExp := lenInt intExp
  let lenNormExp := lenInt normExp
  if n ≤ normExp then
    -- case 1: integer with positive exponent or trailing zeros
    let z := (normExp - n).toNat
    sgn neg (ds ++ (if 3 ≤ z then 'e' :: decStr z else List.replicate z '0'))
  else if normExp < -3 && lenNormExp < lenIntExp && !fp.isEmpty then
    -- case 2: normalised fraction with negative exponent
    sgn neg ('.' :: ds ++ 'e' :: '-' :: decStr normExp.natAbs)
  else if -(lenIntExp : Int) - 1 ≤ normExp then
    -- case 3: no exponent
    if normExp < 0 then sgn neg ('.' :: List.replicate normExp.natAbs '0' ++ ds)
    else sgn neg (ds.take normExp.toNat ++ '.' :: ds.drop normExp.toNat)
  else
    -- case 4: integer with negative exponent if that fits into the buffer, else the original form
    let used : Int := if ip.isEmpty then n else if fp.isEmpty then n - 1 else n
    if used + 2 + (lenIntExp : Int) < (W : Int) then
      sgn neg (ds ++ 'e' :: '-' :: decStr intExp.natAbs)
    else
      let mm := if ip.isEmpty then (if fp.isEmpty then [] else '.' :: fp) else if fp.isEmpty then ds else ip ++ '.' :: fp
      sgn neg (mm ++ 'e' :: '-' :: decStr origExp.natAbs)

def printNum (s : List Char) (neg : Bool) (W : Nat) (m : Mant) : List Char :=
  printCase s neg W m.ip m.fp m.e (sigDigits m.ip m.fp).1 (sigDigits m.ip m.fp).2

/-- `origExp < MinInt+len(num)+1 || MaxInt-len(num)-1 < origExp`: the precision branch moves the exponent by
    up to `len(num)`; with a precision such a number is returned unchanged -/
def expNearEdge (e : Int) (len : Nat) : Bool :=
  decide (e < -9223372036854775808 + (len : Int) + 1) || decide (9223372036854775807 - (len : Int) - 1 < e)

/-- everything after the exponent has been parsed -/
def numberCore (s : List Char) (neg signed : Bool) (mant : List Char) (origExp : Int) (prec : Int) :
    List Char :=
  let sp := splitLastDot mant
  let hasDot := sp.2.isSome
  -- leading zeros are dropped while at least two mantissa bytes remain (`start < end-1`)
  let dropped := min (sp.1.length - (dropZeros sp.1).length) (mant.length - 1)
  let ip := sp.1.drop dropped
  let fp := dropTrail '0' (sp.2.getD [])
  if hasDot && fp.isEmpty && ip.isEmpty then ['0'] else
  if !hasDot && ip == ['0'] then ['0'] else
  if decide (0 < prec) && expNearEdge origExp s.length then s else
  let m0 : Mant := { ip := ip, fp := fp, e := origExp }
  let m := if 0 < prec then roundP m0 prec.toNat else m0
  printNum s neg (s.length - ((if signed then 1 else 0) + dropped)) m

/-- the exponent after the mantissa: none present means 0, otherwise `e`/`E` followed by `ParseInt` -/
def expOfRest : List Char → Option Int
  | [] => some 0
  | _ :: r => parseExp r

/-- `minify.Number(num, prec)` -/
def number (s : List Char) (prec : Int) : List Char :=
  if s.length ≤ 1 then s else
  let neg := s.head? == some '-'
  let signed := neg || s.head? == some '+'
  let body := if signed then s.drop 1 else s
  let mant := body.takeWhile notE
  match expOfRest (body.dropWhile notE) with
  | none => s
  | some origExp => numberCore s neg signed mant origExp prec

/-! ## Decimal -/

/-- carry into the integer digits after the first one, from the right: nines become zeros -/
def incTail (l : List Char) : List Char × Bool :=
  let nines := (l.reverse.takeWhile (· == '9')).length
  match l.reverse.dropWhile (· == '9') with
  | [] => (List.replicate nines '0', true)
  | c :: r => ((List.replicate nines '0' ++ incChar c :: r).reverse, false)

/-- increment an integer digit string (Decimal: `99` becomes `100`) -/
def incInt : List Char → List Char
  | [] => ['1']
  | c :: r =>
    match incTail r with
    | (r', true) => if c == '9' then '1' :: r' ++ ['0'] else incChar c :: r'
    | (r', false) => c :: r'

/-- precision branch of `Decimal` when the fraction is cut after `k` digits -/
def roundDAt (ip fp : List Char) (k : Nat) : List Char × List Char :=
  if k < fp.length then
    let st := incStrip (fp.take k) (ge5At fp k)
    if st.2 then (incInt ip, []) else (ip, st.1)
  else (ip, fp)

/-- precision branch of `Decimal` (only fraction digits are dropped), `0 < p`, `ip.length ≤ p` -/
def roundD (ip fp : List Char) (p : Nat) : List Char × List Char :=
  roundDAt ip fp ((if ip.isEmpty then fp.length - (dropZeros fp).length else 0) + p - ip.length)

/-- the precision step of `Decimal`: applied when `0 < prec` and the integer part has at most `prec` digits -/
def rndD (prec : Int) (ip fp : List Char) : List Char × List Char :=
  if 0 < prec && decide ((ip.length : Int) ≤ prec) then roundD ip fp prec.toNat else (ip, fp)

/-- `Decimal` after the sign has been split off -/
def decimalCore (neg : Bool) (body : List Char) (prec : Int) : List Char :=
  let sp := splitFirstDot body
  let hasDot := sp.2.isSome
  let dropped := min (sp.1.length - (dropZeros sp.1).length) (body.length - 1)
  let ip := sp.1.drop dropped
  let fp := dropTrail '0' (sp.2.getD [])
  if hasDot && fp.isEmpty && ip.isEmpty then ['0'] else
  if !hasDot && ip == ['0'] then ['0'] else
  let r := rndD prec ip fp
  sgn neg (r.1 ++ (if r.2.isEmpty then [] else '.' :: r.2))

/-- `minify.Decimal(num, prec)` -/
def decimal (s : List Char) (prec : Int) : List Char :=
  if s.length ≤ 1 then s else
  let neg := s.head? == some '-'
  let signed := neg || s.head? == some '+'
  decimalCore neg (if signed then s.drop 1 else s) prec

end Verif.Model.Num

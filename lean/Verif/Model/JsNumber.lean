/-!
# C01N — behavioural model of the numeric-literal rewriting of `/repo/js`

What `js.Minify` prints for one numeric literal token (precision 0), and how it prints a member access
after it.  Same input lexeme → same output bytes as the Go code:

* `js/js.go`  `minifyExpr`, `case *js.LiteralExpr` (token types Decimal, Integer, Binary, Octal,
  Hexadecimal) → `decimalNumber`, `binaryNumber`, `octalNumber`, `hexadecimalNumber` of `js/util.go`
  (`removeUnderscoresAndSuffix`, the size cut-offs `65 < len(b)`, `23 < len(b)`, `12 < len(b)` …);
* `minify.Number` of `/repo/common.go` at precision ≤ 0 on unsigned lexemes — a **private** compact copy
  (`JsNumberDec.number`; property C08 owns the full model of `Number`/`Decimal`);
* `case *js.DotExpr` / `case *js.IndexExpr`: the `isInteger` test on the previously written chunk before
  `m.write(dotBytes)` (a parenthesised literal takes the same path);
* `case *js.UnaryExpr` with `!` on a Decimal/Integer literal (`!123 => !1`);
* `isFalsy`/`isTruthy` of `js/util.go` on a numeric literal (`isZeroNumber`).

By contract (dependency `parse/v2/js` lexer, `consumeNumericToken`): the token type of a *valid* numeric
literal lexeme is determined by its first two characters and by the presence of `.`/`e`/`E`
(`tokOf`); lexemes `0` *digit* … are rejected ("legacy octal numbers are not supported") and `js.Minify`
returns an error.  By contract (`parse/v2/strconv`): `ParseInt` (`parseExp`), `LenInt` (`lenInt`).
-/
namespace Verif.Model.JsNumber

/-! ## private copy of `minify.Number` (precision ≤ 0, unsigned lexemes) -/
namespace JsNumberDec

/-- decimal digits of a natural number (the Go digit loops writing `exp%10`) -/
def decStr (k : Nat) : List Char := Nat.toDigits 10 k
/-- `strconv.LenInt` -/
def lenInt (x : Int) : Nat := (Nat.toDigits 10 x.natAbs).length
def natOf (l : List Char) : Nat := Nat.ofDigitChars 10 l 0

def dropZeros : List Char → List Char
  | '0' :: r => dropZeros r
  | l => l

def dropTrailZeros (l : List Char) : List Char := (dropZeros l.reverse).reverse

def maxInt : Int := 2^63 - 1
def minInt : Int := -(2^63)

def skipPlus : List Char → List Char
  | '+' :: r => r
  | l => l

def signSplit : List Char → Bool × List Char
  | '-' :: r => (true, r)
  | '+' :: r => (false, r)
  | l => (false, l)

/-- `strconv.ParseInt` preceded by Number's own skipping of one `+`:
    `none` when there are no digits or the value does not fit int64 -/
def parseExp (l : List Char) : Option Int :=
  let sd := signSplit (skipPlus l)
  let ds := sd.2.takeWhile Char.isDigit
  if ds.isEmpty then none else
  if sd.1 then (if natOf ds ≤ 2^63 then some (-(natOf ds : Int)) else none)
  else (if natOf ds < 2^63 then some (natOf ds : Int) else none)

def notE (c : Char) : Bool := c != 'e' && c != 'E'
def notDot (c : Char) : Bool := c != '.'

/-- the significant digits `ds` and the exponent `N0` with mantissa = `0.ds · 10^N0`; `lz` = zeros
    between the dot and the first significant digit (kind A: no integer digits) -/
structure Sig where
  ds : List Char
  N0 : Int
  lz : Nat

def sigDigits (ip fp : List Char) : Sig :=
  if ip.isEmpty then
    let ds := dropZeros fp
    { ds := ds, N0 := -((fp.length - ds.length : Nat) : Int), lz := fp.length - ds.length }
  else if fp.isEmpty then { ds := dropTrailZeros ip, N0 := ip.length, lz := 0 }
  else { ds := ip ++ fp, N0 := ip.length, lz := 0 }

/-- the print stage of `Number`: `orig` the whole input (returned on exponent overflow), `W` its length,
    `start0` the number of leading zeros skipped, `ip`/`fp` the trimmed integer/fraction digits (not both
    empty), `e` the parsed exponent -/
def printNum (orig : List Char) (W start0 : Nat) (ip fp : List Char) (e : Int) : List Char :=
  let sg := sigDigits ip fp
  let ds := sg.ds
  let n : Int := ds.length
  if (e < 0 && (sg.N0 < minInt - e || sg.N0 - n < minInt - e)) ||
     (0 < e && (maxInt - e < sg.N0 || maxInt - e < sg.N0 - n)) then orig else
  let normExp := sg.N0 + e
  let intExp := normExp - n
  let lenIntExp := lenInt intExp
  let lenNormExp := lenInt normExp
  if n ≤ normExp then
    -- case 1: integer with positive exponent or trailing zeros
    let z := (normExp - n).toNat
    ds ++ (if 3 ≤ z then 'e' :: decStr z else List.replicate z '0')
  else if normExp < -3 && lenNormExp < lenIntExp && !fp.isEmpty then
    -- case 2: normalised, `.ds e-k`
    '.' :: ds ++ 'e' :: '-' :: decStr normExp.natAbs
  else if -(lenIntExp : Int) - 1 ≤ normExp then
    -- case 3: no exponent
    if normExp < 0 then '.' :: List.replicate normExp.natAbs '0' ++ ds
    else ds.take normExp.toNat ++ '.' :: ds.drop normExp.toNat
  else
    -- case 4: integer with negative exponent, or the original mantissa with the original exponent
    let newEnd : Int :=
      (start0 : Int) + n + (if ip.isEmpty then 0 else if fp.isEmpty then -1 else 0) + 2 + lenIntExp
    if newEnd < W then ds ++ 'e' :: '-' :: decStr intExp.natAbs
    else
      let m := if ip.isEmpty then '.' :: List.replicate sg.lz '0' ++ ds
               else if fp.isEmpty then ds else ip ++ '.' :: fp
      m ++ 'e' :: '-' :: decStr e.natAbs

/-- `minify.Number(s, 0)` on an unsigned lexeme `d* [. d*] [(e|E) [+|-] d+]` -/
def number (s : List Char) : List Char :=
  if s.length ≤ 1 then s else
  let mant := s.takeWhile notE
  let expo : Option Int := match s.dropWhile notE with | [] => some 0 | _ :: r => parseExp r
  match expo with
  | none => s
  | some e =>
    let ipart := mant.takeWhile notDot
    let fpart := (mant.dropWhile notDot).drop 1
    let ip := dropZeros ipart
    let fp := dropTrailZeros fpart
    if ip.isEmpty && fp.isEmpty then ['0']
    else printNum s s.length (ipart.length - ip.length) ip fp e

end JsNumberDec

open JsNumberDec (number decStr)

/-! ## the four `…Number` helpers of `js/util.go` -/

/-- `removeUnderscoresAndSuffix` -/
def removeUnderscoresAndSuffix (b : List Char) : List Char × Bool :=
  let b := b.filter (· != '_')
  match b.getLast? with
  | some 'n' => (b.dropLast, true)
  | _ => (b, false)

def decimalNumber (b : List Char) : List Char :=
  let r := removeUnderscoresAndSuffix b
  if r.2 then r.1 ++ ['n'] else number r.1

/-- the Go digit arithmetic of the three conversion loops (`c - '0'`, `10 + c - 'A'`, `10 + c - 'a'`) -/
def goDigit (c : Char) : Nat :=
  if c ≤ '9' then c.toNat - 48 else if c ≤ 'F' then 10 + (c.toNat - 65) else 10 + (c.toNat - 97)

def foldBase (base : Nat) (ds : List Char) : Nat := ds.foldl (fun n c => n * base + goDigit c) 0

/-- common tail: print `n` in decimal, then `append(b, 'n')` or `minify.Number` -/
def finishRadix (n : Nat) (suffix : Bool) : List Char :=
  if suffix then decStr n ++ ['n'] else number (decStr n)

/-- the early exit of the three conversions: the notation is kept, separators removed, suffix restored -/
def keepRadix (r : List Char × Bool) : List Char := if r.2 then r.1 ++ ['n'] else r.1

/-- `binaryNumber`: more than 63 binary digits are left alone -/
def binaryNumber (b : List Char) : List Char :=
  let r := removeUnderscoresAndSuffix b
  if r.1.length ≤ 2 || 65 < r.1.length then keepRadix r else finishRadix (foldBase 2 (r.1.drop 2)) r.2

/-- `octalNumber`: more than 21 octal digits are left alone -/
def octalNumber (b : List Char) : List Char :=
  let r := removeUnderscoresAndSuffix b
  if r.1.length ≤ 2 || 23 < r.1.length then keepRadix r else finishRadix (foldBase 8 (r.1.drop 2)) r.2

/-- `hexadecimalNumber`: more than 10 hexadecimal digits, or 10 starting with `E`/`F`, are left alone
    (the decimal form would be longer) -/
def hexadecimalNumber (b : List Char) : List Char :=
  let r := removeUnderscoresAndSuffix b
  let c2 := (r.1.drop 2).headD '0'
  if r.1.length ≤ 2 || 12 < r.1.length ||
      (r.1.length == 12 && (('D' < c2 && c2 ≤ 'F') || 'd' < c2)) then keepRadix r
  else finishRadix (foldBase 16 (r.1.drop 2)) r.2

/-! ## token type (lexer by contract) and the literal printer -/

inductive Tok where
  | decimal | integer | binary | octal | hex | reject
  deriving Repr, DecidableEq

/-- token type the `parse/v2/js` lexer gives to a valid numeric literal lexeme; `reject`: the lexer
    returns "legacy octal numbers are not supported" -/
def tokOf (s : List Char) : Tok :=
  let dflt : Tok := if s.any (fun c => c == '.' || c == 'e' || c == 'E') then .decimal else .integer
  match s with
  | '0' :: c :: _ =>
    if c == 'x' || c == 'X' then .hex
    else if c == 'b' || c == 'B' then .binary
    else if c == 'o' || c == 'O' then .octal
    else if c.isDigit then .reject
    else dflt
  | _ => dflt

/-- `case *js.LiteralExpr` of `minifyExpr` for a token of type `t` -/
def printTok (t : Tok) (s : List Char) : List Char :=
  match t with
  | .decimal | .integer => decimalNumber s
  | .binary => binaryNumber s
  | .octal => octalNumber s
  | .hex => hexadecimalNumber s
  | .reject => s

/-- what the minifier prints for the literal `s` -/
def printNumLit (s : List Char) : List Char := printTok (tokOf s) s

/-- `js.Minify` on a program containing the literal: `none` = the lexer rejects it (error returned) -/
def minifyNumLit (s : List Char) : Option (List Char) :=
  if tokOf s = .reject then none else some (printNumLit s)

/-! ## member access after a number -/

/-- the `isInteger` loop of `case *js.DotExpr` / `*js.IndexExpr`: the last chunk written (`m.prev`)
    consists of decimal digits only -/
def isIntegerChunk (prev : List Char) : Bool :=
  match prev.getLast? with
  | some last => ('0' ≤ last && last ≤ '9') && prev.dropLast.all (fun c => !(c < '0' || '9' < c))
  | none => false

/-- the dots written between the previous chunk and the property name -/
def dotsAfter (prev : List Char) : List Char := if isIntegerChunk prev then ['.', '.'] else ['.']

/-- `<literal>.name` and `<literal>["name"]` (name an identifier): literal, dots, name -/
def memberDot (s name : List Char) : Option (List Char) :=
  (minifyNumLit s).map (fun t => t ++ dotsAfter t ++ name)

/-- `(<literal>).name` and `(<literal>)["name"]`: `case *js.GroupExpr` drops the parentheses of a literal,
    so the member access is printed exactly as without them -/
def groupDot (s name : List Char) : Option (List Char) := memberDot s name

/-! ## truthiness of a numeric literal (`isZeroNumber` of `js/util.go`) -/

/-- by contract (Go `strconv.ParseFloat(·, 64)` on a decimal lexeme without separators): the result is
    `0` exactly when the mathematical value `m·10^e` is at most `2^-1075` (half of the smallest
    denormal; the tie rounds to even, i.e. to 0).  `m`, `e` are read off the lexeme; exponent texts
    of any length are accepted (ParseFloat saturates instead of failing on underflow). -/
def parseFloatIsZero (s : List Char) : Bool :=
  let mant := s.takeWhile JsNumberDec.notE
  let ex : Int :=
    match s.dropWhile JsNumberDec.notE with
    | [] => 0
    | _ :: r =>
      let sd := JsNumberDec.signSplit r
      let v : Int := JsNumberDec.natOf (sd.2.takeWhile Char.isDigit)
      if sd.1 then -v else v
  let ip := mant.takeWhile JsNumberDec.notDot
  let fp := (mant.dropWhile JsNumberDec.notDot).drop 1
  let m := JsNumberDec.natOf (ip ++ fp)
  let e : Int := ex - fp.length
  if m == 0 then true else
  let dg : Int := (Nat.toDigits 10 m).length
  if e + dg < -330 then true
  else if -300 < e + dg then false
  else decide (m * 2 ^ 1075 ≤ 10 ^ (-e).toNat)

/-- the scan of `isZeroNumber`: `d` the whole literal, `decimal` = no radix prefix -/
def zeroScan (decimal : Bool) (d : List Char) : List Char → Bool
  | [] => true
  | c :: r =>
    if c == 'n' || (decimal && (c == 'e' || c == 'E')) then true
    else if c != '0' && c != '.' && c != '_' then
      (if decimal && d.getLast? != some 'n' then parseFloatIsZero (d.filter (· != '_')) else false)
    else zeroScan decimal d r

/-- `isZeroNumber`: the literal evaluates to `0` or `0n` -/
def isZeroNumber (d : List Char) : Bool :=
  match d with
  | '0' :: c :: r =>
    if c == 'x' || c == 'X' || c == 'b' || c == 'B' || c == 'o' || c == 'O' then zeroScan false d r
    else zeroScan true d d
  | _ => zeroScan true d d

/-- `!<literal>` (`case *js.UnaryExpr`, `!123 => !1`): for a Decimal/Integer token `!0` or `!1` by
    `isZeroNumber`; the other token types print `!` and the literal -/
def notLit (s : List Char) : Option (List Char) :=
  match tokOf s with
  | .reject => none
  | .decimal | .integer => some (if isZeroNumber s then ['!', '0'] else ['!', '1'])
  | _ => some ('!' :: printNumLit s)

/-- `isFalsy` of `js/util.go` on a numeric literal token -/
def falsyLit (s : List Char) : Bool := isZeroNumber s

end Verif.Model.JsNumber

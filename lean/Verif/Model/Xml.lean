import Verif.Gen.XmlTables
import Verif.Spec.XmlTok
/-!
# Behavioural model of `xml.Minify` (/repo/xml/xml.go) over the token stream of the dependency lexer

Core Lean only.  Bytes are `List Char` (Latin-1 embedding, see `Base/Bytes.lean`).

* `XTok` mirrors the token stream of `github.com/tdewolff/parse/v2/xml` (lexer **by contract**): for every
  token kind exactly the fields (`Data`, `Text`, `AttrVal`) that `xml.go` reads.
* `replEnt` / `replWsEnt` are behavioural models of the dependency functions `parse.ReplaceEntities` and
  `parse.ReplaceMultipleWhitespaceAndEntities`; `escapeAttrVal` / `escapeCDATAVal` of
  `parse/v2/xml.EscapeAttrVal` / `EscapeCDATAVal`.  They are not line-by-line mirrors (no in-place buffers),
  the correspondence run compares them with the real functions through `xml.Minify`.
* `emit o ts` is the list of tokens written by the loop of `xml.go` (look-ahead = the remaining list, the
  `omitSpace` flag is the state), `render` gives the bytes of a token, `xmlMinify o ts` the output bytes.

Modelled domain (`inDomain`): every token list produced by the lexer in which hexadecimal character
references have fewer than 16 significant digits (Go `int` overflow in `replaceEntities` is not modelled)
and no text token is empty (the lexer never produces one; Go would panic on `t.Data[0]`).
-/
namespace Verif.Model.Xml
open Verif.Gen
open Verif.Xml (XTok)

structure XmlOpts where
  keepWhitespace : Bool
  deriving DecidableEq, Repr

/-! ## character classes of the dependency (`parse.IsWhitespace`, `parse.IsNewline`) -/

/-- `parse.IsWhitespace`: space, LF, CR, TAB, FF -/
def isWs (c : Char) : Bool := c == ' ' || c == '\n' || c == '\t' || c == '\r' || c == Char.ofNat 12
/-- `parse.IsNewline` -/
def isNewline (c : Char) : Bool := c == '\n' || c == '\r'
def isDigit (c : Char) : Bool := '0' ≤ c && c ≤ '9'
def isHexDigit (c : Char) : Bool := isDigit c || ('a' ≤ c && c ≤ 'f') || ('A' ≤ c && c ≤ 'F')
def isAlnum (c : Char) : Bool := isDigit c || ('a' ≤ c && c ≤ 'z') || ('A' ≤ c && c ≤ 'Z')
/-- `parse.IsAllWhitespace` -/
def allWs (l : List Char) : Bool := l.all isWs

/-- value of a hexadecimal digit (only applied to hexadecimal digits) -/
def hexDigitVal (c : Char) : Nat :=
  if isDigit c then c.toNat - 48 else if 'a' ≤ c then c.toNat - 87 else c.toNat - 55

def decVal (ds : List Char) : Nat := ds.foldl (fun a c => a * 10 + (c.toNat - 48)) 0
def hexVal (ds : List Char) : Nat := ds.foldl (fun a c => a * 16 + hexDigitVal c) 0

/-- decimal digits of a number below 10000 (what `strconv.AppendInt` prints there), most significant first -/
def decDigits (n : Nat) : List Char :=
  let d (k : Nat) : Char := Char.ofNat (48 + k % 10)
  if n < 10 then [d n] else if n < 100 then [d (n / 10), d n]
  else if n < 1000 then [d (n / 100), d (n / 10), d n] else [d (n / 1000), d (n / 100), d (n / 10), d n]

/-! ## `parse.replaceEntities` (one reference) -/

/-- Tail of `replaceEntities` after the replacement bytes `rep` were determined: `src` is the reference as
written (`&…;`), `after` the bytes behind the semicolon.  `none` = leave the input unchanged. -/
def finishRef (rev : List (Char × List Char)) (src rep after : List Char) : Option (List Char) :=
  match rep with
  | [c] =>
    match rev.lookup c with
    | some q => if q == src then none else some q
    | none =>
      if c == '&' then
        match after with
        | k :: _ => if isAlnum k || k == '#' then none else some rep
        | [] => some rep
      else some rep
  | _ => some rep

/-- `replaceEntities(b, i, …)` with `b[i] == '&'`; `r` = bytes behind the `&` (the caller guarantees `3 ≤ r.length`).
Result: replacement bytes and the number of bytes of `r` they replace; `none` = unchanged. -/
def decodeRef (ents : List (List Char × List Char)) (rev : List (Char × List Char)) (r : List Char) :
    Option (List Char × Nat) :=
  match r with
  | '#' :: 'x' :: r2 =>
    let ds := r2.takeWhile isHexDigit
    let c := hexVal ds
    if ds.isEmpty || 10000 ≤ c then none else
    match r2.drop ds.length with
    | ';' :: after =>
      let rep := if c < 128 then [Char.ofNat c] else '&' :: '#' :: (decDigits c ++ [';'])
      (finishRef rev ('&' :: r.take (ds.length + 3)) rep after).map (fun q => (q, ds.length + 3))
    | _ => none
  | '#' :: r2 =>
    let ds := r2.takeWhile isDigit
    let c := decVal ds
    if ds.isEmpty || 128 ≤ c then none else
    match r2.drop ds.length with
    | ';' :: after =>
      (finishRef rev ('&' :: r.take (ds.length + 2)) [Char.ofNat c] after).map (fun q => (q, ds.length + 2))
    | _ => none
  | _ =>
    let nm := (r.take 32).takeWhile isAlnum
    if nm.isEmpty then none else
    match r.drop nm.length with
    | ';' :: after =>
      match ents.lookup nm with
      | some rep => (finishRef rev ('&' :: r.take (nm.length + 1)) rep after).map (fun q => (q, nm.length + 1))
      | none => none
    | _ => none

/-- Common scanner of `parse.ReplaceEntities` (`ws = false`) and `parse.ReplaceMultipleWhitespaceAndEntities`
(`ws = true`: every white space run becomes one byte, LF if the run contains LF or CR, else a space; decoded
bytes are not rescanned).  The `Nat` = number of leading bytes to drop (0 at the call). -/
def scan (ws : Bool) (ents : List (List Char × List Char)) (rev : List (Char × List Char)) :
    Nat → List Char → List Char
  | _, [] => []
  | skip + 1, _ :: r => scan ws ents rev skip r
  | 0, c :: r =>
    if ws && isWs c then
      (if isNewline c || (r.takeWhile isWs).any isNewline then '\n' else ' ') ::
        scan ws ents rev (r.takeWhile isWs).length r
    else if c == '&' && 3 ≤ r.length then
      match decodeRef ents rev r with
      | some (rep, n) => rep ++ scan ws ents rev n r
      | none => c :: scan ws ents rev 0 r
    else c :: scan ws ents rev 0 r

/-- `parse.ReplaceEntities(b, ents, rev)` -/
def replEnt (ents : List (List Char × List Char)) (rev : List (Char × List Char)) (b : List Char) : List Char :=
  scan false ents rev 0 b

/-- `parse.ReplaceMultipleWhitespaceAndEntities(b, ents, rev)` -/
def replWsEnt (ents : List (List Char × List Char)) (rev : List (Char × List Char)) (b : List Char) : List Char :=
  scan true ents rev 0 b

/-- text token data as rewritten by `xml.go` before trimming -/
def textRepl (d : List Char) : List Char := replWsEnt XmlTables.entities XmlTables.textRev d

/-! ## `xml.EscapeAttrVal`, `xml.EscapeCDATAVal` (dependency) -/

def escQuote (q : Char) (esc : List Char) : List Char → List Char
  | [] => []
  | c :: r => if c == q then esc ++ escQuote q esc r else c :: escQuote q esc r

def escapeAttrVal (b : List Char) : List Char :=
  let doubles := b.count '"'
  let singles := b.count '\''
  if doubles > singles then '\'' :: (escQuote '\'' ['&', '#', '3', '9', ';'] b ++ ['\''])
  else '"' :: (escQuote '"' ['&', '#', '3', '4', ';'] b ++ ['"'])

def escCData : List Char → List Char
  | [] => []
  | c :: r =>
    if c == '<' then '&' :: 'l' :: 't' :: ';' :: escCData r
    else if c == '&' then '&' :: 'a' :: 'm' :: 'p' :: ';' :: escCData r
    else c :: escCData r

/-- `EscapeCDATAVal`: `some text` when the section is replaced by escaped text (`useText`) -/
def escapeCDATAVal (b : List Char) : Option (List Char) :=
  if 3 * b.count '<' + 4 * b.count '&' > 12 then none else some (escCData b)

/-- the attribute value written by the `AttributeToken` branch -/
def attrOut (v : List Char) : List Char :=
  if v.length < 2 || v.head? != some '"' || v.getLast? != some '"' then v
  else escapeAttrVal (replEnt XmlTables.entities XmlTables.attrRev (v.drop 1).dropLast)

/-- the value of a pseudo-attribute inside a processing instruction (/repo 59fe76b): the data of a processing
instruction has no references, so `ReplaceEntities` is not applied; a `"…"` literal is still re-quoted -/
def attrOutPI (v : List Char) : List Char :=
  if v.length < 2 || v.head? != some '"' || v.getLast? != some '"' then v
  else escapeAttrVal ((v.drop 1).dropLast)

/-! ## the loop -/

def startsWs : List Char → Bool
  | c :: _ => isWs c
  | [] => false

def endsWs (l : List Char) : Bool :=
  match l.getLast? with
  | some c => isWs c
  | none => false

/-- the `Peek` loop of the text branch: `true` = the trailing whitespace of the current text is removed -/
def peekTrim (o : XmlOpts) : List XTok → Bool
  | [] => true
  | .text d :: _ => startsWs d
  | .cdata _ t :: _ => startsWs t
  | .startTag _ :: _ => !o.keepWhitespace
  | .endTag _ _ :: _ => !o.keepWhitespace
  | _ :: r => peekTrim o r

/-- end tag as written (`</name>`: whitespace before `>` removed) -/
def endTagOut (data name : List Char) : List Char :=
  if data.length > 3 + name.length then data.take (2 + name.length) ++ ['>'] else data

/-- Text branch: emitted data (possibly empty) and the new `omitSpace`. -/
def textStep (o : XmlOpts) (om : Bool) (d : List Char) (rest : List XTok) : List Char × Bool :=
  let d1 := textRepl d
  let d2 := if om && startsWs d1 then d1.drop 1 else d1
  if d2.isEmpty then ([], true)
  else if endsWs d2 then
    if peekTrim o rest then (d2.dropLast, false) else (d2, true)
  else (d2, false)

def emitText (d : List Char) (k : List XTok) : List XTok := if d.isEmpty then k else .text d :: k

/-- look-ahead of the `StartTagCloseToken` branch: number of following tokens swallowed when the element is
collapsed to `/>` (the end tag, and — unless white space is kept — a whitespace-only text before it) -/
def collapseSkip (o : XmlOpts) : List XTok → Option Nat
  | .endTag _ _ :: _ => some 1
  | .text d :: .endTag _ _ :: _ => if !o.keepWhitespace && allWs d then some 2 else none
  | _ => none

/-- `escapeCDEnd(b, n)` of `xml.go`, data part: a `>` that follows two `]` (`n` = number of `]` written just
before `b`) is written as `&gt;` -/
def escCD : Nat → List Char → List Char
  | _, [] => []
  | n, c :: r =>
    if c == ']' then c :: escCD (n + 1) r
    else if c == '>' && 2 ≤ n then '&' :: 'g' :: 't' :: ';' :: escCD 0 r
    else c :: escCD 0 r

/-- `escapeCDEnd(b, n)`, second result: number of `]` at the end of the data -/
def brAfter : Nat → List Char → Nat
  | n, [] => n
  | n, c :: r => if c == ']' then brAfter (n + 1) r else brAfter 0 r

/-- Tokens written by the loop of `xml.go`.  State: `om` = `omitSpace`, `br` = `brackets`, `pi` = `inPI`; the last
`Nat` = number of tokens already consumed by `tb.Shift()` in the empty-element branch (0 at the call). -/
def emitGo (o : XmlOpts) : Bool → Nat → Bool → Nat → List XTok → List XTok
  | _, _, _, _, [] => []
  | om, br, pi, skip + 1, _ :: r => emitGo o om br pi skip r
  | om, br, pi, 0, t :: r =>
    match t with
    | .cdata data txt =>
      if txt.isEmpty then emitGo o om br pi 0 r
      else
        match escapeCDATAVal txt with
        | some e => XTok.text (escCD br e) :: emitGo o (endsWs txt) (brAfter br e) pi 0 r
        | none => XTok.cdata data txt :: emitGo o (endsWs txt) 0 pi 0 r
    | .text d =>
      let s := textStep o om d r
      emitText (escCD br s.1) (emitGo o s.2 (brAfter br s.1) pi 0 r)
    | .comment _ => emitGo o om br pi 0 r
    | .startTag n => .startTag n :: emitGo o (if o.keepWhitespace then false else om) 0 pi 0 r
    | .endTag d n => .endTag (endTagOut d n) n :: emitGo o (if o.keepWhitespace then false else om) 0 pi 0 r
    | .startTagClose =>
      -- a `>` in the data of a processing instruction (the lexer reads it like a tag) ends `inPI`, no look-ahead
      if pi then .startTagClose :: emitGo o om 0 false 0 r
      else
        match collapseSkip o r with
        | some n => .startTagCloseVoid :: emitGo o om 0 pi n r
        | none => .startTagClose :: emitGo o om 0 pi 0 r
    | .attr n v => .attr n (if pi then attrOutPI v else attrOut v) :: emitGo o om 0 pi 0 r
    | .attrBare d n => (if pi then XTok.attrBare d n else XTok.attr n []) :: emitGo o om 0 pi 0 r
    | .startTagPI n => .startTagPI n :: emitGo o om 0 true 0 r
    | .startTagCloseVoid => .startTagCloseVoid :: emitGo o om 0 false 0 r
    | .startTagClosePI => .startTagClosePI :: emitGo o om 0 false 0 r
    | .doctype d => .doctype d :: emitGo o om 0 pi 0 r

def emit (o : XmlOpts) (om : Bool) (ts : List XTok) : List XTok := emitGo o om 0 false 0 ts

/-- bytes written for one token -/
def render : XTok → List Char
  | .startTag n => '<' :: n
  | .startTagPI n => '<' :: '?' :: n
  | .attr n v => ' ' :: (n ++ '=' :: v)
  | .attrBare d _ => d
  | .startTagClose => ['>']
  | .startTagCloseVoid => ['/', '>']
  | .startTagClosePI => ['?', '>']
  | .endTag d _ => d
  | .text d => d
  | .cdata d _ => d
  | .comment d => d
  | .doctype d => d

def renderAll (ts : List XTok) : List Char := ts.flatMap render

/-- Bytes written for the emitted tokens.  `pi` = `inPI` of the loop (recoverable from the emitted tokens: it is set
by `<?target`, cleared by `?>`, `>` and `/>`, all of which are emitted one to one): since /repo 59fe76b a `>` or `/>`
inside a processing instruction is written with a space in front of it. -/
def renderGo : Bool → List XTok → List Char
  | _, [] => []
  | pi, t :: r =>
    match t with
    | .startTagPI _ => render t ++ renderGo true r
    | .startTagClosePI => render t ++ renderGo false r
    | .startTagClose => (if pi then ' ' :: render t else render t) ++ renderGo false r
    | .startTagCloseVoid => (if pi then ' ' :: render t else render t) ++ renderGo false r
    | _ => render t ++ renderGo pi r

/-- output bytes of `xml.Minify` for the token stream `ts` -/
def xmlMinify (o : XmlOpts) (ts : List XTok) : List Char := renderGo false (emit o true ts)

/-- modelled domain -/
def refsInDomain : List Char → Bool
  | [] => true
  | '&' :: '#' :: 'x' :: r => ((r.takeWhile isHexDigit).dropWhile (· == '0')).length < 16 && refsInDomain r
  | _ :: r => refsInDomain r

def tokInDomain : XTok → Bool
  | .text d => !d.isEmpty && refsInDomain d
  | .attr _ v => refsInDomain v
  | _ => true

def inDomain (ts : List XTok) : Bool := ts.all tokInDomain

end Verif.Model.Xml

import Verif.Model.JsAst
/-!
# C01-B — behavioural model of the expression predicates and rewrites of `js/util.go`

`hasSideEffects`, `groupExpr`, `isUndefined`, `isFalsy/isTruthy`, `isBooleanExpr`, `isEqualExpr`, `finalExpr`,
`isTrue/isFalse`, `isUndefinedOrNullVar`, `toNullishExpr`, `optimizeBooleanExpr`, `optimizeUnaryExpr`,
`optimizeCondExpr`.  Each function makes the same decisions as the Go function of the same name on the fragment
(`JsAst.E`); in-place mutation of AST nodes becomes construction of new nodes (the parser's AST is a tree).
`none` results of `optCond` mean "outside the modelled fragment" (the optional-chaining rewrite).
-/
namespace Verif.Model.JsOpt
open Verif.Spec.JsSyntax Verif.Model.JsAst
open Verif.Spec.JsSyntax.E

/-- `hasSideEffects` (a `CommaExpr` falls out of the Go switch into the final `return true`) -/
def hasSideEffects : E → Bool
  | var _ => true
  | lit _ => false
  | call _ _ => true
  | group x => hasSideEffects x
  | opt _ _ => true   -- a member/call chain
  | dot _ _ => true
  | index _ _ => true
  | .cond c x y => hasSideEffects c || hasSideEffects x || hasSideEffects y
  | comma _ => true
  | unary op x =>
    if op == .delete || op == .preinc || op == .predec || op == .postinc || op == .postdec then true
    else hasSideEffects x
  | bin op x y =>
    if op.prec == opAssign then true
    else if op == .inOp || op == .instOf then true   -- may throw a TypeError
    else (!x.isVar && hasSideEffects x) || (!y.isVar && hasSideEffects y)

/-- `groupExpr(i, prec)` -/
def groupExpr (i : E) (p : Prec) : E :=
  if !i.isGroup && i.prec < p && (i.prec != opCoalesce || p != opBitOr) then group i else i

/-- `isUndefined` -/
def isUndefined (i : E) : Bool :=
  match i.inner with
  | var n => n == "undefined"
  | unary .void x => !hasSideEffects x
  | _ => false

/-- the tail of `isFalsy` after groups and `!` have been stripped -/
def falsyCore (i : E) (negated : Bool) : Option Bool :=
  match i with
  | lit .false => some (!negated)
  | lit .null => some (!negated)
  | lit (.str s) => if s == "" then some (!negated) else some negated
  | lit .true => some negated
  | lit (.num n) => if n == 0 then some (!negated) else some negated
  | var n => if n == "undefined" || n == "NaN" then some (!negated) else none
  | e => if isUndefined e then some (!negated) else none

def isFalsyAux : E → Bool → Option Bool
  | group x, neg => isFalsyAux x neg
  | unary .not x, neg => isFalsyAux x (!neg)
  | e, neg => falsyCore e neg

/-- `isFalsy`: `some true` = known falsy, `some false` = known truthy, `none` = unknown -/
def isFalsy (i : E) : Option Bool := isFalsyAux i false
/-- `isTruthy`: `some true` = known truthy -/
def isTruthy (i : E) : Option Bool := (isFalsy i).map (!·)

/-- `isBooleanExpr` -/
def isBooleanExpr : E → Bool
  | unary op _ => op == .not
  | bin op x y =>
    if op.prec == opAnd || op.prec == opOr then isBooleanExpr x && isBooleanExpr y
    else op.prec == opCompare || op.prec == opEquals
  | lit .true => true
  | lit .false => true
  | group x => isBooleanExpr x
  | _ => false

/-- `invertBooleanOp` (only applied to operators of precedence `OpEquals`) -/
def invertOp : BOp → BOp
  | .eq => .ne | .ne => .eq | .seq => .sne | .sne => .seq
  | o => o

/-- `isEqualExpr`: both are (possibly parenthesised) variables of the same name -/
def isEqualExpr (a b : E) : Bool :=
  match a.inner, b.inner with
  | var x, var y => x == y
  | _, _ => false

/-- `finalExpr`, the step through a comma list -/
def finalMid (i : E) : E :=
  match i with
  | comma l => (l.getLast?).getD i
  | e => e

/-- `finalExpr`, the step through an assignment -/
def finalCore (i : E) : E :=
  match i with
  | bin .assign x _ => x
  | e => e

/-- `finalExpr` -/
def finalExpr (i : E) : E := finalCore (finalMid i.inner)

/-- `isTrue` -/
def isTrue (i : E) : Bool :=
  match i.inner with
  | lit .true => true
  | unary .not x => isFalsy x == some true
  | _ => false

/-- `isFalse` -/
def isFalse (i : E) : Bool :=
  match i.inner with
  | lit l => l == .false
  | unary .not x => isTruthy x == some true
  | _ => false

/-- `isUndefinedOrNull` -/
def isUndefinedOrNull (i : E) : Bool :=
  match i.inner with
  | lit l => l == .null
  | e => isUndefined e

/-- `isNullLiteral` -/
def isNullLit (i : E) : Bool :=
  match i.inner with
  | lit l => l == .null
  | _ => false

def varName? : E → Option String
  | var n => some n
  | _ => none

/-- the second alternative of the test below: the variable is the right operand -/
def nullCmpVarR (x y : E) : Option String :=
  match varName? y with
  | some w => if isUndefinedOrNull x then some w else none
  | none => none

/-- one side of `a==null`: the variable compared with `null`/`undefined` -/
def nullCmpVar (x y : E) : Option String :=
  match varName? x with
  | some v => if isUndefinedOrNull y then some v else nullCmpVarR x y
  | none => nullCmpVarR x y

/-- the comparison operators accepted on the two sides of `||` (`isAnd = false`) resp. `&&` -/
def okNullOp (isAnd : Bool) (o : BOp) : Bool :=
  if isAnd then o == .ne || o == .sne else o == .eq || o == .seq

def isStrictEqOp (o : BOp) : Bool := o == .seq || o == .sne

/-- `a===null||a===undefined`: both comparisons test the same variable; with two strict comparisons both `null` and
    `undefined` must be tested -/
def nullPair (isAnd : Bool) (lop : BOp) (lx ly : E) (rop : BOp) (rx ry : E) : Option (String × Bool) :=
  if okNullOp isAnd lop && okNullOp isAnd rop then
    match nullCmpVar lx ly, nullCmpVar rx ry with
    | some v, some w =>
      if v == w && (!(isStrictEqOp lop && isStrictEqOp rop)
          || (isNullLit lx || isNullLit ly) != (isNullLit rx || isNullLit ry)) then some (v, isAnd) else none
    | _, _ => none
  else none

/-- `isUndefinedOrNullVar`: `some (v, not)` -/
def isUndefinedOrNullVar (i : E) : Option (String × Bool) :=
  match i.inner with
  | bin op x y =>
    if op == .lor || op == .land then
      match x.inner, y.inner with
      | bin lop lx ly, bin rop rx ry => nullPair (op == .land) lop lx ly rop rx ry
      | _, _ => none
    else if op == .eq || op == .ne then
      (nullCmpVar x y).map (fun v => (v, op == .ne))
    else none
  | _ => none

/-- base of a call/member chain and whether the chain is non-empty (for the optional-chaining rewrite) -/
def chainBase : E → E × Bool
  | call f _ => ((chainBase f).1, true)
  | dot x _ => ((chainBase x).1, true)
  | index x _ => ((chainBase x).1, true)
  | e => (e, false)

inductive Nullish where
  | no
  | unmodelled
  | yes (e : E)

/-- `toNullishExpr` on the parts of a conditional expression -/
def toNullish (c x y : E) : Nullish :=
  match isUndefinedOrNullVar c with
  | some (v, neg) =>
    let left := if neg then y else x
    let right := if neg then x else y
    if isEqualExpr (var v) right then
      .yes (bin .nullish (groupExpr right BOp.nullish.left) (groupExpr left BOp.nullish.right))
    else if isUndefined left then
      let cb := chainBase right
      if cb.2 && isEqualExpr (var v) cb.1 then
        -- `a==null?undefined:a.b.c` ⇒ `a?.b.c`: the `Optional` flag is set on the innermost link of the chain
        (if v == "undefined" || v == "NaN" then .unmodelled else .yes (opt v right))
      else .no
    else .no
  | none => .no

/-- `x` is directly an (in)equality comparison -/
def isEqOperand : E → Bool
  | bin o _ _ => o.prec == opEquals
  | _ => false

/-- the negated operand of the De Morgan rewrite: the comparison is inverted, anything else gets a `!` -/
def negOperand (x : E) (needsGroup : Bool) : E :=
  if isEqOperand x then (match x with | bin o a b => bin (invertOp o) a b | e => e)
  else unary .not (if needsGroup then group x else x)

/-- the new operator of `!(x op y)` -/
def dualOp (bop : BOp) : BOp := if bop == .land then .lor else .land

/-- savings of the De Morgan rewrite (the rewrite is done iff positive) -/
def deMorganScore (bop : BOp) (x y : E) (p : Prec) : Int :=
  let op := dualOp bop
  let precInside := op.prec
  let needsGroup := precInside < p && (precInside != opCoalesce || p != opBitOr)
  let score : Int := 3 - (if needsGroup then 2 else 0) - 2
  let score := score + (if isEqOperand x then 1 else 0) + (if isEqOperand y then 1 else 0)
  let needsGroupX := !isEqOperand x && bop.left ≤ x.prec && x.prec < opUnary
  let needsGroupY := !isEqOperand y && bop.right ≤ y.prec && y.prec < opUnary
  let score := score - (if needsGroupX then 2 else 0) - (if needsGroupY then 2 else 0)
  if op == .lor then
    score + (if x.prec == opOr then 2 else 0) + (if y.prec == opAnd then 2 else 0)
  else score

/-- the rewritten expression: `!(x&&y) → !x||!y`, `!(a==0||b) → a!=0&&!b` -/
def deMorganBuild (bop : BOp) (x y : E) (p : Prec) : E :=
  let op := dualOp bop
  let needsGroup := op.prec < p && (op.prec != opCoalesce || p != opBitOr)
  let needsGroupX := !isEqOperand x && bop.left ≤ x.prec && x.prec < opUnary
  let needsGroupY := !isEqOperand y && bop.right ≤ y.prec && y.prec < opUnary
  let r := bin op (negOperand x needsGroupX) (negOperand y needsGroupY)
  if needsGroup then group r else r

/-- the De Morgan branch of `optimizeUnaryExpr` for `!(x op y)`, `op ∈ {&&, ||}`; `none` = not rewritten -/
def deMorgan (bop : BOp) (x y : E) (p : Prec) : Option E :=
  if 0 < deMorganScore bop x y p then some (deMorganBuild bop x y p) else none

/-- strip `!` (toggling `invert`) and groups: the loop at the start of `optimizeUnaryExpr` -/
def stripNots : E → Bool → E × Bool
  | unary .not x, inv => stripNots x (!inv)
  | group x, inv => stripNots x inv
  | e, inv => (e, inv)

/-- `optimizeUnaryExpr` after the stripping loop: `e2` is the operand under the `!`s and groups, `invert` the parity,
    `orig` the unchanged expression -/
def optNotCore (e2 : E) (invert : Bool) (p : Prec) (orig : E) : E :=
  if !invert && isBooleanExpr e2 then groupExpr e2 p
  else match e2 with
    | bin bop a b =>
      if invert then
        if bop.prec == opEquals then groupExpr (bin (invertOp bop) a b) p
        else if bop == .land || bop == .lor then
          match deMorgan bop a b p with
          | some r => r
          | none => orig
        else orig
      else orig
    | _ => orig

/-- `optimizeUnaryExpr(&UnaryExpr{op, x}, prec)` -/
def optUnary (op : UOp) (x : E) (p : Prec) : E :=
  if op == .not then optNotCore (stripNots x true).1 (stripNots x true).2 p (unary op x)
  else unary op x

/-- `optimizeBooleanExpr(expr, invert, prec)` -/
def optBool (e : E) (invert : Bool) (p : Prec) : E :=
  if invert then
    match e with
    | bin op a b =>
      if op.prec == opEquals then bin (invertOp op) a b
      else optUnary .not (groupExpr e opUnary) p
    | _ => optUnary .not (groupExpr e opUnary) p
  else if isBooleanExpr e then groupExpr e p
  else unary .not (unary .not (groupExpr e opUnary))

/-- first step of `optimizeCondExpr`: `!!b?x:y → b?x:y` (b boolean), `!a?x:y → a?y:x` -/
def condNormalize (c x y : E) : E × E × E :=
  match c with
  | unary .not (unary .not z) => if isBooleanExpr z then (z, x, y) else (c, x, y)
  | unary .not z => (z, y, x)
  | _ => (c, x, y)

def lastD (l : List E) (d : E) : E := (l.getLast?).getD d

/-- guard of `c?x:y → c||y`: the final value of the condition is the variable `x` -/
def orSelfGuard (c x y : E) : Bool :=
  isEqualExpr (finalExpr c) x && ((finalExpr c).prec < opAssign || BOp.lor.left ≤ (finalExpr c).prec)
    && (y.prec < opAssign || BOp.lor.right ≤ y.prec)

/-- guard of `c?x:y → c&&x`: the final value of the condition is the variable `y` -/
def andSelfGuard (c x y : E) : Bool :=
  isEqualExpr (finalExpr c) y && ((finalExpr c).prec < opAssign || BOp.land.left ≤ (finalExpr c).prec)
    && (x.prec < opAssign || BOp.land.right ≤ x.prec)

/-- `c?f(a):f(b) → f(c?a:b)` -/
def callMerge (c x y : E) : Option E :=
  match x, y with
  | call fx [ax], call fy [ay] => if isEqualExpr fx fy then some (call fx [E.cond c ax ay]) else none
  | _, _ => none

/-- `a?(b?x:y):y → a&&b?x:y` -/
def nestedCond (c x y : E) : Option E :=
  match x with
  | .cond c2 x2 y2 =>
    if isEqualExpr y y2 then
      some (E.cond (bin .land (groupExpr c BOp.land.left) (groupExpr c2 BOp.land.right)) x2 y)
    else none
  | _ => none

/-- `(a,b)?c:d → a,b?c:d` at statement level -/
def commaCond (c x y : E) (p : Prec) : E :=
  if p ≤ opExpr then
    match c with
    | group (comma l) =>
      if opCoalesce ≤ (lastD l c).prec then comma (l.dropLast ++ [E.cond (lastD l c) x y])
      else E.cond c x y
    | _ => E.cond c x y
  else E.cond c x y

/-- the last part of `optimizeCondExpr`: boolean bodies, nested conditionals, comma conditions -/
def optCondTail (c x y : E) (p : Prec) : E :=
  let trueX := isTrue x
  let falseX := isFalse x
  let trueY := isTrue y
  let falseY := isFalse y
  if trueX && falseY || falseX && trueY then optBool c falseX p
  else if trueX || trueY then
    bin .lor (optBool c trueY BOp.lor.left) (groupExpr (if trueY then x else y) BOp.lor.right)
  else if falseX || falseY then
    bin .land (optBool c falseX BOp.land.left) (groupExpr (if falseX then y else x) BOp.land.right)
  else
    match nestedCond c x y with
    | some e => e
    | none => commaCond c x y p

/-- `optimizeCondExpr` after the normalisation of the condition.  `guarded = false` is the model of the Go code;
    with `guarded = true` the function is undefined (`none`) where the known finding K-C01-2 applies: call merging
    `c?f(a):f(b) → f(c?a:b)` below a condition that has side effects (the callee is then read before the condition
    is evaluated) -/
def optCondN (guarded : Bool) (ver2020 : Bool) (c x y : E) (p : Prec) : Option E :=
  match isTruthy c with
  | some true => some x
  | some false => some y
  | none =>
    if orSelfGuard c x y then some (bin .lor (groupExpr c BOp.lor.left) y)
    else if andSelfGuard c x y then some (bin .land (groupExpr c BOp.land.left) x)
    else if isEqualExpr x y then some (groupExpr (comma [c, x]) p)
    else
      match (if ver2020 then toNullish c x y else .no) with
      | .unmodelled => none
      | .yes e => some e
      | .no =>
        match callMerge c x y with
        | some e => if guarded && hasSideEffects c then none else some e
        | none => some (optCondTail c x y p)

/-- `optimizeCondExpr(&CondExpr{c, x, y}, prec)`; `ver2020 = m.o.minVersion(2020)`; `none` = outside the fragment -/
def optCond (guarded : Bool) (ver2020 : Bool) (c0 x0 y0 : E) (p : Prec) : Option E :=
  optCondN guarded ver2020 (condNormalize c0 x0 y0).1 (condNormalize c0 x0 y0).2.1 (condNormalize c0 x0 y0).2.2 p

/-- `condExpr(cond, x, y)` of util.go (used by the statement rewrites) -/
def condExprU (c x y : E) : E :=
  match c with
  | comma l =>
    comma (l.dropLast ++ [E.cond (groupExpr (lastD l c) opCoalesce) (groupExpr x opAssign) (groupExpr y opAssign)])
  | _ => E.cond (groupExpr c opCoalesce) (groupExpr x opAssign) (groupExpr y opAssign)

/-- `commaExpr(x, y)` of util.go -/
def commaItems (e : E) : List E :=
  match e with
  | comma (a :: t) => a :: t
  | e => [e]      -- (an empty comma list does not exist in a parsed tree; it is kept as an item)

def commaExprU (x y : E) : E := comma (commaItems x ++ commaItems y)

end Verif.Model.JsOpt

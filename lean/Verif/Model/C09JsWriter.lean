import Verif.Spec.C09JsLex
/-!
# C09 (JS) — model of the writer layer of js/js.go for all token kinds

`emitX ts` is what `(*jsMinifier).write` and its helpers put on the wire when the printer issues the tokens `ts`
one after the other: the token texts, separated by a space exactly where the Go code decides so.  The decisions are
those of js.go, expressed on the previous token (`m.prev`) and the token about to be written:

* `write`: a space if `needsSpace && IsIdentifierContinue(b)` or `spaceBefore == b[0]`.  `writeSpaceBeforeIdent` is
  called after every keyword that can be followed by an expression or a name, every other word–word adjacency is
  separated by an explicit `write(" ")` (`function f`, `class A`, `async function`, `import a from`, ` extends`,
  `static 0`, `break l`): together "a token ending in an identifier byte followed by a token starting with an
  identifier byte" (`wordWord`); `static` is also separated from a numeric key that starts with a dot.
* `writeSpaceBefore('+'|'-'|'/')` after the tokens `+`, `-`, `/`; `writeSpaceBefore('-')` after a `!` that follows `<`.
* `writeSpaceAfterIdent` before `in` / `instanceof` / `of`: also after a regular expression literal.
* `a-- >b`: a space before `>` when the previous token ends in `-`.
* `a< /script>/`: a space between `<` and a regular expression whose pattern starts with `script` in any case
  (`/script/`, `/SCRIPT>/`, `/scriptx/`; since /repo a80add2, before: only the exact prefix `/script>`).
* import / export clauses: `"a" as b`, `a as "b"` (the `as ` chunk carries its space).
* a kept `//!` comment is followed by a line feed.
* `import.meta in x`, `new.target instanceof y`: two spaces (`writeSpaceBeforeIdent` after the meta property and
  `writeSpaceAfterIdent` before the operator both fire).

Tokens are (kind, text) pairs; `comment` is the pseudo-token of a kept comment statement.
-/
namespace Verif.Model.C09JsWriter
open Verif.Spec.C09JsLex (Kind)

inductive XKind where
  | tok (k : Kind)
  | comment
deriving DecidableEq, Repr, Inhabited

structure XTok where
  kind : XKind
  text : List Char
deriving DecidableEq, Repr, Inhabited

/-- `js.IsIdentifierContinue` / `IsIdentifierEnd` on the first / last byte (bytes ≥ 0x80 belong to letters in all
    identifiers the parser accepts) -/
def isIdByte (c : Char) : Bool := c.isAlphanum || c == '_' || c == '$' || c == '\\' || c.toNat ≥ 128

structure XState where
  prev : Option XTok := none
  /-- the two tokens before `prev` -/
  prev2 : Option XTok := none
  prev3 : Option XTok := none
  spaceBefore : Option Char := none
deriving Inhabited

/-- ASCII lower case (`parse.EqualFold` against a lower-case target) -/
def lowerC (c : Char) : Char := if 'A' ≤ c && c ≤ 'Z' then Char.ofNat (c.toNat + 32) else c

def lastOf (t : Option XTok) : Option Char := t.bind (fun x => x.text.getLast?)

def isName (t : XTok) (s : String) : Bool := t.kind == .tok .name && t.text == s.toList
def isPunct (t : XTok) (s : String) : Bool := t.kind == .tok .punct && t.text == s.toList

/-- does the writer put a space between the previous token and `t`? -/
def spaceBetween (st : XState) (t : XTok) : Bool :=
  match st.prev with
  | none => false
  | some p =>
    let la := p.text.getLast?
    let fb := t.text.head?
    -- needsSpace / explicit spaces between two words
    (la.any isIdByte && fb.any isIdByte && p.kind != .comment)
    -- spaceBefore
    || (st.spaceBefore.isSome && st.spaceBefore == fb)
    -- writeSpaceAfterIdent after a regular expression
    || (p.kind == .tok .regex && (isName t "in" || isName t "instanceof" || isName t "of"))
    -- a-- >b
    || (isPunct t ">" && la == some '-')
    -- a< /script…/ (any case)
    || (t.kind == .tok .regex && la == some '<' && ((t.text.drop 1).take 6).map lowerC == "script".toList)
    -- static .5
    || (isName p "static" && t.kind == .tok .num)
    -- "a" as b, a as "b"
    || (isName t "as" && p.kind == .tok .str) || (isName p "as" && t.kind == .tok .str)

/-- `import.meta` / `new.target` call `writeSpaceBeforeIdent`; a following `in` / `instanceof` / `of` then gets the space
    of `writeSpaceAfterIdent` and the space of `write` -/
def metaBefore (st : XState) : Bool :=
  match st.prev, st.prev2, st.prev3 with
  | some a, some b, some c =>
    isPunct b "." && ((isName a "meta" && isName c "import") || (isName a "target" && isName c "new"))
  | _, _, _ => false

def writeX (st : XState) (t : XTok) : List Char × XState :=
  let sp := spaceBetween st t
  let sp2 := metaBefore st && (isName t "in" || isName t "instanceof" || isName t "of")
  let isLtNot := isPunct t "!" && lastOf st.prev == some '<'
  let out := (if sp then [' '] else []) ++ (if sp2 then [' '] else []) ++ t.text
    ++ (if t.kind == .comment && "//".toList.isPrefixOf t.text then ['\n'] else [])
  (out, { prev := some t, prev2 := st.prev, prev3 := st.prev2,
          spaceBefore := if isPunct t "+" then some '+' else if isPunct t "-" then some '-'
            else if isPunct t "/" then some '/' else if isLtNot then some '-' else none })

def emitFromX : XState → List XTok → List (List Char) → List (List Char)
  | _, [], acc => acc.reverse
  | st, t :: ts, acc => let r := writeX st t; emitFromX r.2 ts (r.1 :: acc)

/-- the bytes written for the tokens `ts` -/
def emitX (ts : List XTok) : List Char := (emitFromX {} ts []).flatten

end Verif.Model.C09JsWriter

import Verif.Model.Html
import Verif.Spec.C09HtmlIntended
/-!
# C09 / HTML — `run` of `Model/Html.lean`, instrumented

`walk` follows `run` step by step, cuts the output into the pieces of `Spec/C09HtmlIntended.lean` (one per input token; the
content of a raw-text element together with its end tag) and evaluates the decidable guard of
`html_output_retokenises_partial`.  It adds nothing to the behaviour of the model: the bytes are those of `run`
(`walk_sound`).  Core-only, so that the driver can evaluate the guard on the token streams of real documents
(`model.c09.html.walk`).
-/
namespace Verif.Model.C09HtmlWalk
open Verif.Spec.C09HtmlTok Verif.Spec.C09HtmlShape Verif.Spec.C09HtmlIntended Verif.Model.Html

inductive Phase where
  | data
  | rawStart (tag : List Char)                 -- right after the start tag of a raw-text element
  | rawBody (tag content : List Char)          -- its content has been written
  deriving Repr

def endTagBytesOf (name : List Char) : List Char := '<' :: '/' :: (name ++ ['>'])

/-- content of a raw-text element that the theorems cover: no appropriate end tag, and in a script no `<!--` -/
def rawContentOK (tag out : List Char) : Bool :=
  !hasEndTag tag out && (!(contentMode false tag == .script) || !hasInfix commentOpen out)

/-- start tags that the theorems cover: good names, no template attribute, content model data or raw text (not PLAINTEXT) -/
def startGuard (o : Opts) (ext : Ext) (name : List Char) (attrs : List Attr) : Bool :=
  goodTag name && !isForeignRoot name &&
  (contentMode false name == .data || (rawMode (contentMode false name) && goodRawTag name)) &&
  (match specialAttrsOpt o ext name (attrs.map AttrSt.ofAttr) with
   | .ok as0 => as0.all (fun x => (!x.keep || !x.a.tmpl) && goodName x.name)
   | .error _ => false)

def opener4 : List Char := ['<', '!', '-', '-']

/-- a comment token of the lexer: `<!--` text (`-->` | `--!>`), the text holds no closer -/
def commentShape (data text : List Char) : Bool :=
  (data == opener4 ++ text ++ ['-', '-', '>'] || data == opener4 ++ text ++ ['-', '-', '!', '>']) && !hasClose text

/-- in a script: no `<!--` (the escaped states; elsewhere nothing) -/
def scriptGuard (tag out : List Char) : Bool := !(contentMode false tag == .script) || !hasInfix commentOpen out

/-- guard, next phase and the pieces completed by one step that wrote `out` for the token `t` in the model state `st`.
    Since html.go enforces them (1557146, 3c66722), two clauses about what OTHER minifiers return are gone: the content
    written into script/style/iframe needs no check against the element's end tag when the token has the lexer's shape
    (`rawTextEndsAtEnd tag data`), and a kept comment needs no check when the token has the lexer's shape and does not
    start with `>` / `->`; the checks on the output remain as alternatives (for states the clause does not cover). -/
def classify (o : Opts) (ext : Ext) (st : St) (ph : Phase) (t : HTok) (out : List Char) : Bool × Phase × List Piece :=
  match ph, t with
  | .data, .text _ _ => (textSafe out, .data, [.data out])
  | .data, .comment d tx =>
    ((!st.dropEnd && commentShape d tx && !abruptStart tx) || goodComment out, .data, [.data out])
  | .data, .doctype => (out == "<!doctype html>".toList, .data, [.data out])
  | .data, .endTag name _ =>
    (out.isEmpty || (goodTag name && !isForeignRoot name && out == endTagBytesOf name), .data, [.data out])
  | .data, .startTag name attrs =>
    if out.isEmpty then (true, .data, [.data out])
    else (startGuard o ext name attrs, if rawMode (contentMode false name) then .rawStart name else .data, [.data out])
  | .rawStart tag, .text d tm =>
    (scriptGuard tag out &&
      ((st.rawTag == tag && !tm && !st.dropEnd && rawTextEndsAtEnd tag d) || !hasEndTag tag out), .rawBody tag out, [])
  | .rawStart tag, .endTag _ _ => (out == endTagBytesOf tag, .data, [.rawBody tag out])
  | .rawBody tag c, .endTag _ _ => (out == endTagBytesOf tag, .data, [.rawBody tag (c ++ out)])
  | ph, _ => (false, ph, [])

/-- follow `run`: (the guard holds on every step, the pieces) -/
def walk (o : Opts) (ext : Ext) (sub : Sub) : St → Phase → List HTok → Except String (Bool × List Piece)
  | _, .data, [] => .ok (true, [])
  | _, _, [] => .ok (false, [])          -- the output ends inside a raw-text element
  | st, ph, t :: rest =>
    match Verif.Model.Html.step o ext sub st t rest with
    | .error e => .error e
    | .ok (st', out) =>
      match walk o ext sub st' (classify o ext st ph t out).2.1 rest with
      | .error e => .error e
      | .ok (ok, ps) => .ok ((classify o ext st ph t out).1 && ok, (classify o ext st ph t out).2.2 ++ ps)

/-! ## the lexer contract as a decidable predicate -/

/-- an end tag token: `</name` white space `>` -/
def endTagShape (name data : List Char) : Bool :=
  goodTag name && (['<', '/'] ++ name).isPrefixOf data &&
    (match data.drop (2 + name.length) with
     | [] => false
     | r => r.getLast? == some '>' && r.dropLast.all Verif.Spec.HtmlAttr.isWs)

def attrShape (a : Attr) : Bool := !a.tmpl && goodName a.name

/-- **lexShape**: what the dependency lexer + TokenBuffer guarantee for the token stream of a document without template
    delimiters, svg and math (by contract; K-C09-HTML-1, 2, 5, 6, 7 are inputs on which the lexer itself deviates from the
    standard).  Tag and attribute names are good names; a text token holds no `<` that opens markup (its last byte may
    be `<` when markup follows: checked with the sentinel `< `); the text of a raw-text element directly follows the element's start tag, holds no
    appropriate end tag (script: and does not leave the tokenizer double-escaped — here: no `<!--`) and is followed by
    the element's end tag; comments and end tags have their shapes. `raw`: the raw-text element we are in, and whether its
    text has been seen. -/
def lexShapeFrom : Option (List Char × Bool) → List HTok → Bool
  | none, [] => true
  | some _, [] => false
  | none, .text d tm :: r => !tm && textSafe (d ++ ['<', ' ']) && lexShapeFrom none r
  | none, .comment d tx :: r => commentShape d tx && lexShapeFrom none r
  | none, .doctype :: r => lexShapeFrom none r
  | none, .endTag n d :: r => endTagShape n d && lexShapeFrom none r
  | none, .startTag n as :: r =>
    goodTag n && !isForeignRoot n && as.all attrShape &&
      (if rawMode (contentMode false n) then goodRawTag n && lexShapeFrom (some (n, false)) r
       else contentMode false n == .data && lexShapeFrom none r)
  | some (tag, false), .text d tm :: r => !tm && rawContentOK tag d && lexShapeFrom (some (tag, true)) r
  | some (tag, _), .endTag n d :: r => n == tag && endTagShape n d && lexShapeFrom none r
  | _, _ => false

def lexShape (toks : List HTok) : Bool := lexShapeFrom none toks

end Verif.Model.C09HtmlWalk

import Verif.Base.JsStrBase
/-!
# Behavioural model of `minifyString` and `replaceEscapes` (js/util.go) — C01E

The Go functions rewrite a string literal **in place** (read index `i`, write index `j`, pending segment
`start`); the bookkeeping only implements "output = what has been emitted so far ++ what is still to be
scanned", so the model is a left-to-right function on the *body* of the literal (the bytes between the quotes):

* `step q an c r` — one iteration of the Go loop at byte `c` with the rest of the body `r`:
  the bytes it emits, how many further bytes of `r` it consumes, and whether it wrote `\0`
  (Go: `nulEnd`; `an` = "this iteration starts right after a `\0`", Go: `afterNul`);
* `rep q body` — the loop (`replaceEscapes(b, q, 1, 1)`): fuel = length, every iteration consumes ≥ 1 byte;
* `escEnds` — the pass `escapeHTMLEnds` over the rewritten body;
* `chooseQuote`, `minifyString` — the counting loop and the quote selection.

Lookahead conditions of the Go code that may read the closing quote (`i+k < len(b)`) can never match it
(no test compares with a quote character), so the model looks at the body only.  The case "backslash is
the last byte of the body" cannot come out of the lexer; the model keeps the backslash there like the code.

Modelled call sites: `minifyString(data, allowTemplate)` (string literal expressions, property names,
import/export strings) and `replaceEscapes(tail, '`', 1, 1)` (a template literal without substitutions).
Not modelled: template head/middle pieces (`suffix = 2`), tagged templates (copied verbatim by js.go).
-/
namespace Verif.Model.JsString
open Verif.JsStrBase

/-- backslash and backtick (notations: the terms contain the numerals) -/
local notation "BSL" => (92 : Nat)
local notation "BT" => (96 : Nat)

/-- Go `utf8.EncodeRune` for a scalar value -/
def utf8Enc (n : Nat) : List Nat :=
  if n < 0x80 then [n]
  else if n < 0x800 then [0xC0 + n / 64, 0x80 + n % 64]
  else if n < 0x10000 then [0xE0 + n / 4096, 0x80 + n / 64 % 64, 0x80 + n % 64]
  else [0xF0 + n / 262144, 0x80 + n / 4096 % 64, 0x80 + n / 64 % 64, 0x80 + n % 64]

/-- lower-case hexadecimal digit (`"0123456789abcdef"[n]`) -/
def hexDigit (n : Nat) : Nat := if n < 10 then 48 + n else 87 + n

/-- second byte of the two-byte escape that writes the character `v` (`\n`, `\r`, or `\` + the character) -/
def escOf (v : Nat) : Nat := if v = 10 then c%'n' else if v = 13 then c%'r' else v

/-- length of the line terminator sequence at `e :: r1` as the line-continuation branch sees it (0: none) -/
def lcLen (e : Nat) (r1 : List Nat) : Nat :=
  if e = 10 then 1
  else if e = 13 then (if r1.head? = some 10 then 2 else 1)
  else if e = 0xE2 ∧ r1.head? = some 0x80 ∧ ((r1.drop 1).head? = some 0xA8 ∨ (r1.drop 1).head? = some 0xA9) then 3
  else 0

/-- result of one loop iteration: emitted bytes, further bytes of the rest consumed, `\0` written -/
abbrev Res := List Nat × Nat × Bool

/-- `\x..` branch; `r1` follows the `x` -/
def hexM (q : Nat) (an : Bool) (r1 : List Nat) : Res :=
  match r1 with
  | a :: b :: _ =>
    if isHex a ∧ a < c%'8' ∧ isHex b ∧ ¬ (a = c%'3' ∧ (b = c%'c' ∨ b = c%'C' ∨ (an ∧ b ≤ c%'9'))) ∧ ¬ (a = c%'0' ∧ b = c%'0') then
      let v := hexV a * 16 + hexV b
      if v = BSL ∨ v = q ∨ v = 13 ∨ (q ≠ BT ∧ v = 10) ∨ (q = BT ∧ v = c%'$') then ([BSL, escOf v], 3, false)
      else ([v], 3, false)
    else ([BSL, c%'x'], 1, false)
  | _ => ([BSL, c%'x'], 1, false)

/-- `\u....` / `\u{…}` branch; `r1` follows the `u` -/
def uniM (q : Nat) (an : Bool) (r1 : List Nat) : Res :=
  let keep : Res := ([BSL, c%'u'], 1, false)
  let braced := r1.head? = some c%'{'
  let body := if braced then r1.drop 1 else r1
  let ds := if braced then body.takeWhile isHex else (body.take 4).takeWhile isHex
  let bad := if braced then 6 < ds.length ∨ (body.drop ds.length).head? ≠ some c%'}' else ds.length ≠ 4
  if bad then keep else
  let num := hexNat ds
  if ds = [] ∨ 0x10FFFF ≤ num ∨ num = c%'<' ∨ (an ∧ c%'0' ≤ num ∧ num ≤ c%'9') then keep else
  let skip := 1 + ds.length + (if braced then 2 else 0)
  if num = 0 then ([BSL, c%'x', c%'0', c%'0'], skip, false)
  else if num = 13 then ([BSL, c%'r'], skip, false)
  else if num = 10 ∧ q ≠ BT then ([BSL, c%'n'], skip, false)
  else if 0xD800 ≤ num ∧ num ≤ 0xDFFF then keep
  else if num = BSL ∨ (num < 256 ∧ q = num) ∨ (q = BT ∧ num = c%'$') then (BSL :: utf8Enc num, skip, false)
  else (utf8Enc num, skip, false)

/-- the legacy octal escape whose first digit is `e`: value and number of digits (1–3) -/
def octParse (e : Nat) (r1 : List Nat) : Nat × Nat :=
  match r1 with
  | d2 :: r2 =>
    if isOct d2 then
      let n2 := (e - 48) * 8 + (d2 - 48)
      match r2 with
      | d3 :: _ => if n2 < 32 ∧ isOct d3 then (n2 * 8 + (d3 - 48), 3) else (n2, 2)
      | [] => (n2, 2)
    else (e - 48, 1)
  | [] => (e - 48, 1)

/-- legacy octal branch; `e` is the first digit, `r1` follows it -/
def octM (q : Nat) (an : Bool) (e : Nat) (r1 : List Nat) : Res :=
  let num := (octParse e r1).1
  let k := (octParse e r1).2
  if (num = c%'<' ∧ k = 2) ∨ (an ∧ c%'0' ≤ num ∧ num ≤ c%'9') then (BSL :: e :: r1.take (k - 1), k, false)
  else if num = c%'<' ∨ 0x80 ≤ num ∨ (num = 0 ∧ k = 3 ∧ (r1.drop 2).head?.any isDig) then
    ([BSL, c%'x', hexDigit (num / 16), hexDigit (num % 16)], 3, false)
  else if num = 0 then ([BSL, c%'0'], k, true)
  else if num = BSL ∨ num = q ∨ num = 13 ∨ (q ≠ BT ∧ num = 10) ∨ (q = BT ∧ num = c%'$') then ([BSL, escOf num], k, false)
  else ([num], k, false)

/-- the iteration at a backslash followed by `e :: r1` -/
def escM (q : Nat) (an : Bool) (e : Nat) (r1 : List Nat) : Res :=
  if e = q ∨ e = BSL ∨ e = c%'r' ∨ (q ≠ BT ∧ e = c%'n') ∨ (e = c%'0' ∧ ¬ r1.head?.any isOct) then
    ([BSL, e], 1, e = c%'0')
  else if an ∧ (e = 10 ∨ e = 13 ∨ e = 0xE2) then
    -- a line continuation after `\0` is kept (a digit may follow); a lone CR is written as LF
    if e = 13 then (if r1.head? = some 10 then ([BSL, 13, 10], 2, false) else ([BSL, 10], 1, false))
    else ([BSL, e], 1, false)
  else if 0 < lcLen e r1 then ([], lcLen e r1, false)
  else if e = c%'x' then hexM q an r1
  else if e = c%'u' then uniM q an r1
  else if isOct e then octM q an e r1
  else if q = BT ∧ e = c%'n' then ([10], 1, false)
  else if e = c%'t' then ([9], 1, false)
  else if e = c%'f' then ([12], 1, false)
  else if e = c%'v' then ([11], 1, false)
  else if e = c%'b' then ([8], 1, false)
  else ([], 0, false)

/-- a `$` in a backtick-quoted output must be escaped in front of `{` and in front of an escape sequence
    that may decode to `{` or vanish -/
def dollarDanger (r : List Nat) : Bool :=
  r.head? = some c%'{' ||
  (r.head? = some BSL && (r.drop 1).head?.any (fun y =>
    y = c%'{' || y = c%'x' || y = c%'u' || y = c%'1' || y = 10 || y = 13 || y = 0xE2))

/-- `parse.EqualFold(_, "x")` for one byte: equal, or an upper-case ASCII letter whose lower case is `x` -/
def foldEq (d x : Nat) : Bool := d = x || (65 ≤ d && d ≤ 90 && d + 32 = x)

/-- `parse.EqualFold(s, "/script")` -/
def foldScript (s : List Nat) : Bool :=
  match s with
  | [a, b, c, d, e, f, g] =>
    foldEq a c%'/' && foldEq b c%'s' && foldEq c c%'c' && foldEq d c%'r' && foldEq e c%'i' && foldEq f c%'p' && foldEq g c%'t'
  | _ => false

/-- one iteration of the loop of `replaceEscapes` at byte `c`, `r` = rest of the body -/
def step (q : Nat) (an : Bool) (c : Nat) (r : List Nat) : Res :=
  if c = BSL then
    match r with
    | [] => ([BSL], 0, false)
    | e :: r1 => escM q an e r1
  else if c = q ∨ (c = c%'$' ∧ q = BT ∧ dollarDanger r) then ([BSL, c], 0, false)
  else if c = 13 ∧ q = BT ∧ r.head? ≠ some 10 then ([10], 0, false)
  else if c = c%'<' ∧ 7 ≤ r.length then
    -- `</script` in any letter case, whatever follows (`parse.EqualFold` with `/script`)
    if r.head? = some BSL ∧ 8 ≤ r.length ∧ foldScript ((r.drop 1).take 7) then (c :: BSL :: (r.drop 1).take 7, 8, false)
    else if foldScript (r.take 7) then ([c, BSL, c%'/'], 1, false)
    else ([c], 0, false)
  else ([c], 0, false)

/-- `parse.EqualFold(s, "script")` -/
def foldScript6 (s : List Nat) : Bool :=
  match s with
  | [b, c, d, e, f, g] =>
    foldEq b c%'s' && foldEq c c%'c' && foldEq d c%'r' && foldEq e c%'i' && foldEq f c%'p' && foldEq g c%'t'
  | _ => false

/-- `escapeHTMLEnds(b, 1, 1)` on the body of `b` (the pass at the end of `replaceEscapes`, a80add2): a backslash is
    written after every `<` that is followed by `!--` or by `/script` (any letter case), however the text was formed.
    The scan goes on behind the inserted backslash. -/
def escEnds : List Nat → List Nat
  | [] => []
  | c :: r =>
    if c = c%'<' ∧ (r.take 3 = [c%'!', c%'-', c%'-'] ∨ (r.head? = some c%'/' ∧ 7 ≤ r.length ∧ foldScript6 ((r.drop 1).take 6))) then
      c :: BSL :: escEnds r
    else c :: escEnds r

def repF (q : Nat) : Nat → Bool → List Nat → List Nat
  | _, _, [] => []
  | 0, _, _ :: _ => []
  | f + 1, an, c :: r =>
    match step q an c r with
    | (o, k, nul) => o ++ repF q f nul (r.drop k)

/-- `replaceEscapes(b, q, 1, 1)` on the body of `b` -/
def rep (q : Nat) (body : List Nat) : List Nat := repF q body.length false body

/-! ## `minifyString`: the counting loop -/

/-- what the counting loop adds at body position `c :: r`:
    1 single quote, 2 double quote, 3 backtick, 4 newline, 5 `${`, 0 nothing -/
def kind (c : Nat) (r : List Nat) : Nat :=
  if c = c%'\'' then 1 else if c = c%'"' then 2 else if c = c%'`' then 3
  else if c = c%'$' ∧ r.head? = some c%'{' then 5
  else if c = BSL then
    match r with
    | [] => 0
    | e :: r1 =>
      if e = c%'n' then 4
      else if c%'1' ≤ e ∧ e ≤ c%'9' then
        match r1 with
        | x :: r2 =>
          if e = c%'1' ∧ x = c%'2' then 4
          else if e = c%'4' ∧ x = c%'2' then 2
          else if e = c%'4' ∧ x = c%'7' then 1
          else if e = c%'1' ∧ x = c%'4' ∧ r2.head? = some c%'0' then 3
          else 0
        | [] => 0
      else if e = c%'x' then
        match r1 with
        | a :: b :: _ =>
          if a = c%'0' ∧ (b = c%'a' ∨ b = c%'A') then 4
          else if a = c%'2' ∧ b = c%'2' then 2
          else if a = c%'2' ∧ b = c%'7' then 1
          else if a = c%'6' ∧ b = c%'0' then 3
          else 0
        | _ => 0
      else if e = c%'u' then
        match r1 with
        | 48 :: 48 :: x :: y :: _ =>
          if x = c%'0' ∧ (y = c%'a' ∨ y = c%'A') then 4
          else if x = c%'2' ∧ y = c%'2' then 2
          else if x = c%'2' ∧ y = c%'7' then 1
          else if x = c%'6' ∧ y = c%'0' then 3
          else 0
        | 123 :: r2 =>
          match r2.dropWhile (· = c%'0') with
          | x :: 125 :: _ => if x = c%'a' ∨ x = c%'A' then 4 else 0
          | x :: y :: 125 :: _ =>
            if x = c%'2' ∧ y = c%'2' then 2
            else if x = c%'2' ∧ y = c%'7' then 1
            else if x = c%'6' ∧ y = c%'0' then 3
            else 0
          | _ => 0
        | _ => 0
      else 0
  else 0

def cnt (k : Nat) : List Nat → Nat
  | [] => 0
  | c :: r => (if kind c r = k then 1 else 0) + cnt k r

/-- drop at most two leading `0` -/
def dropZeros2 (l : List Nat) : List Nat :=
  match l with
  | 48 :: 48 :: t => t
  | 48 :: t => t
  | t => t

/-- after `\0` (+ up to two more zeros): a raw 8/9 or an escape that leaves a digit behind the `\0` -/
def nulGate (r1 : List Nat) : Bool :=
  match dropZeros2 r1 with
  | x :: t1 =>
    x = c%'8' || x = c%'9' ||
    (x = BSL && match t1 with
      | y :: t2 => (c%'6' ≤ y && y ≤ c%'9') || (y = c%'0' && (t2.head? = some c%'6' || t2.head? = some c%'7'))
      | [] => false)
  | [] => false

/-- the counting loop switches `allowTemplate` off at this position: `\74`, or `\0` that stays in front of a digit -/
def gate (c : Nat) (r : List Nat) : Bool :=
  c = BSL && match r with
    | e :: r1 => (e = c%'7' && r1.head? = some c%'4') || (e = c%'0' && nulGate r1)
    | [] => false

def gated : List Nat → Bool
  | [] => false
  | c :: r => gate c r || gated r

/-- the quote `minifyString` picks for a body -/
def chooseQuote (allowTemplate : Bool) (body : List Nat) : Nat :=
  let s := cnt 1 body
  let d := cnt 2 body
  let quote := if d < s then c%'"' else if s < d then c%'\'' else c%'"'
  let quotes := if s < d then s else d
  if (allowTemplate && !gated body) ∧ cnt 3 body + cnt 5 body < quotes + cnt 4 body then BT else quote

/-- `minifyString(b, allowTemplate)`; `s` is the literal with its quotes -/
def minifyString (allowTemplate : Bool) (s : List Nat) : List Nat :=
  if s.length < 3 then [c%'"', c%'"'] else
  let body := (s.drop 1).dropLast
  let q := chooseQuote allowTemplate body
  q :: escEnds (rep q body) ++ [q]

/-- `replaceEscapes(tail, '`', 1, 1)` on a template literal without substitutions (`s` with its backticks) -/
def templateLit (s : List Nat) : List Nat :=
  if s.length < 2 then s else BT :: escEnds (rep BT ((s.drop 1).dropLast)) ++ [BT]

end Verif.Model.JsString

/-!
# C10 — look-ahead token buffer (`html/buffer.go`, `svg/buffer.go`, `xml/buffer.go`)

The three files contain the same `Peek`/`Shift` algorithm over a growable slice with a read position.
This is an *index-faithful* model: every slice expression of the Go code (`buf[:d]`, `buf[:p]`,
`z.buf[:1][0]`, `&z.buf[pos]`) is a checked access that yields `none` where Go would panic.

Lexer contract (dependency `parse/v2`): the token stream is a sequence of tokens followed by a
*sticky* error token (every `Next()` after the first `ErrorToken` returns `ErrorToken` again).
A token is identified by its index in that stream, all error tokens being identified with the
index `E` of the first one: the token at stream position `n` is `min n E`.
-/
namespace Verif.Model.TokenBuffer

structure TB where
  buf : List Nat        -- token ids held in z.buf (len = buf.length)
  pos : Nat             -- z.pos
  cap : Nat             -- cap(z.buf)
  consumed : Nat        -- number of lexer.Next() calls so far
  deriving Repr, DecidableEq

/-- `NewTokenBuffer`: `make([]Token, 0, 8)` -/
def init : TB := { buf := [], pos := 0, cap := 8, consumed := 0 }

def lexTok (E n : Nat) : Nat := min n E

/-- the read loop of `Peek`: read up to `n` tokens starting at stream position `c`, stop after an error token -/
def readUpTo (E : Nat) : Nat → Nat → List Nat
  | _, 0 => []
  | c, n + 1 => if lexTok E c = E then [E] else lexTok E c :: readUpTo E (c + 1) n

/-- `Peek(i)`; `none` = the Go code would panic (index/slice out of range) -/
def peek (E : Nat) (b : TB) (i : Nat) : Option (TB × Nat) :=
  let p0 := i + b.pos
  let len := b.buf.length
  if p0 < len then
    (b.buf[p0]?).map (fun t => (b, t))
  else if 0 < len ∧ b.buf[len - 1]? = some E then
    some (b, E)
  else
    let c := b.cap
    let d := len - b.pos
    let p := i + 1
    let cap' := if 2 * p > c then 2 * c + p else c
    -- copy(buf[:d], z.buf[z.pos:]) ; buf = buf[:p]
    if d ≤ cap' ∧ p ≤ cap' ∧ b.pos ≤ len then
      let new := readUpTo E b.consumed (p - d)
      let buf' := b.buf.drop b.pos ++ new
      let stopped := new.getLast? = some E
      let idx := if stopped then buf'.length - 1 else i
      (buf'[idx]?).map (fun t => ({ buf := buf', pos := 0, cap := cap', consumed := b.consumed + new.length }, t))
    else none

/-- `Shift()` -/
def shift (E : Nat) (b : TB) : Option (TB × Nat) :=
  if b.pos ≥ b.buf.length then
    -- t := &z.buf[:1][0]; z.read(t)
    if 1 ≤ b.cap then
      let t := lexTok E b.consumed
      some ({ b with buf := (if 0 < b.buf.length then b.buf.set 0 t else b.buf), consumed := b.consumed + 1 }, t)
    else none
  else
    (b.buf[b.pos]?).map (fun t => ({ b with pos := b.pos + 1 }, t))

/-- stream position of the next token `Shift` will return -/
def next (b : TB) : Nat := b.consumed - (b.buf.length - b.pos)

/-- representation invariant -/
structure Inv (E : Nat) (b : TB) : Prop where
  pos_le : b.pos ≤ b.buf.length
  len_le : b.buf.length ≤ b.cap
  cap_pos : 1 ≤ b.cap
  cons_ge : b.buf.length - b.pos ≤ b.consumed
  /-- unread entries are the consecutive stream tokens ending at `consumed` -/
  live : ∀ j, b.pos ≤ j → j < b.buf.length → b.buf[j]? = some (lexTok E (b.consumed - (b.buf.length - j)))
  /-- already shifted entries are tokens of earlier stream positions -/
  stale : ∀ j, j < b.pos → j < b.buf.length → ∃ n, n < next b ∧ b.buf[j]? = some (lexTok E n)

end Verif.Model.TokenBuffer

import Verif.Base.Pack
import Verif.Gen.XmlTables
import Verif.Gen.ShortenColorHex
import Verif.Gen.ShortenColorName
import Verif.Gen.SvgColorAttrs
import Verif.Model.Xml
import Verif.Model.DataURI
import Verif.Spec.SvgDocTok
/-!
# C05B — behavioural model of the document loop of `svg.Minify` (/repo/svg/svg.go, /repo/svg/buffer.go)

Core Lean only.  Input: the token stream of the dependency lexer (`Verif.SvgDoc.STok`, by contract).
Output: the tokens written by the loop (`emit`), their bytes (`svgMinify`).

Parameters (`Env`), all opaque for the theorems of `Props/C05B.lean`:
* `sub mime inline payload` — `m.MinifyMimetype(mime, …, payload, {"inline":"1"}?)`; `none` = `ErrNotExist`
  (payload written unchanged).  Any other error aborts `Minify`: outside the modelled domain.
* `path` — `PathData.ShortenPathData` (model `Verif.Model.SvgPath`, property C05, other builder).
* `num` — `minify.Number(·, Precision = 0)` (property C08; the driver plugs in `Verif.Model.SvgNum.number`).

The loop is modelled in two stages so that the harness can ask which payloads go to `sub` / `path`:
`plan` (everything `svg.go` decides itself) produces finished tokens and *holes*; `fill` closes the holes.

Reused models of dependency functions (owned by C06, `Model/Xml.lean`): `scan` = `parse.ReplaceMultipleWhitespaceAndEntities`,
`escapeAttrVal`, `escapeCDATAVal`; `Verif.Model.DataURI.mediatype` = `minify.Mediatype` (C18).
Hash comparisons (`t.Hash == Svg` …) are comparisons of names: `ToHash` is a perfect hash with verification.

Not modelled (see docs/C05B.md): `sub` outputs longer than their input inside
CDATA (the real code appends into the lexer buffer), errors of `sub`, lexer errors other than EOF.
-/
namespace Verif.Model.SvgDoc
open Verif Verif.Gen Verif.SvgDoc
open Verif.Model.Xml (isWs isNewline isDigit replWsEnt escapeAttrVal escapeCDATAVal allWs)

structure SvgOpts where
  keepComments : Bool
  inline : Bool
  deriving DecidableEq, Repr

structure Env where
  sub : List Char → Bool → List Char → Option (List Char)
  path : List Char → List Char
  num : List Char → List Char

/-! ## small dependency functions -/

/-- `parse.TrimWhitespace` -/
def trimWs (l : List Char) : List Char := ((l.dropWhile isWs).reverse.dropWhile isWs).reverse

/-- `parse.ReplaceMultipleWhitespace`: every white space run becomes one byte (LF if the run contains LF or CR,
else a space).  The `Nat` = number of leading bytes to drop (0 at the call). -/
def collapseWs : Nat → List Char → List Char
  | _, [] => []
  | k + 1, _ :: r => collapseWs k r
  | 0, c :: r =>
    if isWs c then
      (if isNewline c || (r.takeWhile isWs).any isNewline then '\n' else ' ') ::
        collapseWs (r.takeWhile isWs).length r
    else c :: collapseWs 0 r

def isLetter (c : Char) : Bool := ('a' ≤ c && c ≤ 'z') || ('A' ≤ c && c ≤ 'Z')
/-- `parse.ToLower` on one byte -/
def lower (c : Char) : Char := if 'A' ≤ c && c ≤ 'Z' then Char.ofNat (c.toNat + 32) else c

/-- exponent part of `parse.Number`: length of `[eE][+-]?digit+` at the start of `r` (0 = none) -/
def expLen (r : List Char) : Nat :=
  match r with
  | e :: r' =>
    if e == 'e' || e == 'E' then
      let (j, r'') : Nat × List Char := match r' with
        | '+' :: t => (1, t)
        | '-' :: t => (1, t)
        | t => (0, t)
      let es := r''.takeWhile isDigit
      if es.isEmpty then 0 else 1 + j + es.length
    else 0
  | [] => 0

/-- `parse.Number(b)`: length of the number lexeme at the start of `b` (0 = none; `1.` yields 1) -/
def numLen (b : List Char) : Nat :=
  let (i0, r0) : Nat × List Char := match b with
    | '+' :: t => (1, t)
    | '-' :: t => (1, t)
    | _ => (0, b)
  let ds := r0.takeWhile isDigit
  let r1 := r0.dropWhile isDigit
  match r1 with
  | '.' :: r2 =>
    let fs := r2.takeWhile isDigit
    if !fs.isEmpty then i0 + ds.length + 1 + fs.length + expLen (r2.dropWhile isDigit)
    else if !ds.isEmpty then i0 + ds.length
    else 0
  | _ => if ds.isEmpty then 0 else i0 + ds.length + expLen r1

/-- `parse.Dimension(b)`: length of the number and of the unit (`%` or ASCII letters) -/
def dimension (b : List Char) : Nat × Nat :=
  let n := numLen b
  if n == 0 then (0, 0) else
  match b.drop n with
  | [] => (n, 0)
  | c :: r =>
    if c == '%' then (n, 1)
    else if isLetter c then (n, 1 + (r.takeWhile isLetter).length)
    else (n, 0)

/-- `(*Minifier).shortenDimension(b)`: rewritten dimension and the number of bytes of `b` it stands for
(0 = `b` does not start with a number; then `b` itself is returned).  A zero loses its unit, `px` is dropped,
a unit of two or more letters is lower-cased. -/
def shortenDim (num : List Char → List Char) (b : List Char) : List Char × Nat :=
  let nm := dimension b
  if nm.1 == 0 then (b, 0) else
  let unit := (b.drop nm.1).take nm.2
  let x := num (b.take nm.1)
  if x == ['0'] then (x, nm.1 + nm.2)
  else if unit == ['p', 'x'] then (x, nm.1 + nm.2)
  else (x ++ (if nm.2 > 1 then unit.map lower else unit), nm.1 + nm.2)

/-- the `viewBox` branch: at most four dimensions separated by one space or comma each; whatever follows the
fourth is dropped; at the first position that is not a separator / not a number the rest is copied.
First argument: dimensions still to read; second: at the first dimension (no separator expected). -/
def viewBoxGo (num : List Char → List Char) : Nat → Bool → List Char → List Char
  | 0, _, _ => []
  | k + 1, first, v =>
    if first then
      let d := shortenDim num v
      if d.2 > 0 then d.1 ++ viewBoxGo num k false (v.drop d.2) else v
    else
      match v with
      | [] => []
      | c :: r =>
        if c == ' ' || c == ',' then
          let d := shortenDim num r
          if d.2 > 0 then ' ' :: (d.1 ++ viewBoxGo num k false (r.drop d.2)) else ' ' :: r
        else v

def viewBox (num : List Char → List Char) (v : List Char) : List Char := viewBoxGo num 4 true v

/-! ## colour tables of `/repo/css/table.go` (regenerated) -/

def hexTable : List (List Char × List Char) := ShortenColorHex.table.map fun r => (unpackChars r.1, unpackChars r.2)
def nameTable : List (List Char × List Char) := ShortenColorName.table.map fun r => (unpackChars r.1, unpackChars r.2)
def colorAttrs : List (List Char) := SvgColorAttrs.table.map unpackChars

/-- `parse.EqualFold(s, target)` for a lower-case target -/
def equalFold (s target : List Char) : Bool := s.length == target.length && s.map lower == target

/-- guard of the colour branch: `len(val) > 0 && (len(val) < 5 || !EqualFold(val[:4], "url("))` -/
def colorApplies (v : List Char) : Bool :=
  !v.isEmpty && (v.length < 5 || !equalFold (v.take 4) ['u', 'r', 'l', '('])

/-- the colour branch: `#rrggbb` ↦ keyword (table) or `#rgb`; keyword ↦ hex (table); exact-case lookups -/
def colorVal (v : List Char) : List Char :=
  match v with
  | '#' :: _ =>
    match hexTable.lookup v with
    | some name => name
    | none =>
      match v with
      | ['#', a, b, c, d, e, f] => if a == b && c == d && e == f then ['#', a, c, e] else v
      | _ => v
  | _ =>
    match nameTable.lookup v with
    | some hex => hex
    | none => v

/-! ## `buffer.go`: attribute value preprocessing -/

/-- `TokenBuffer.read`: a value of at least two bytes that starts with a quote loses its first and last byte,
white space runs are collapsed, references decoded (`xml.EntitiesMap` / `xml.AttrRevEntitiesMap`), the result
trimmed.  An unquoted value is used as it is; an attribute without `=` has the empty value. -/
def prepVal : Option (List Char) → List Char
  | none => []
  | some v =>
    match v with
    | q :: r =>
      if !r.isEmpty && (q == '"' || q == '\'') then
        trimWs (replWsEnt XmlTables.entities XmlTables.attrRev r.dropLast)
      else v
    | [] => []

/-! ## names -/

def nSvg : List Char := ['s', 'v', 'g']
def nStyle : List Char := ['s', 't', 'y', 'l', 'e']
def nMetadata : List Char := ['m', 'e', 't', 'a', 'd', 'a', 't', 'a']
def nDefs : List Char := ['d', 'e', 'f', 's']
def nForeignObject : List Char := ['f', 'o', 'r', 'e', 'i', 'g', 'n', 'O', 'b', 'j', 'e', 'c', 't']
def cssMime : List Char := ['t', 'e', 'x', 't', '/', 'c', 's', 's']

/-- the bytes before the first `:` if there is one -/
def prefixOf (n : List Char) : Option (List Char) :=
  if n.contains ':' then some (n.takeWhile (· != ':')) else none

/-- `textAttrs`: text-valued attributes -/
def textAttrs : List (List Char) :=
  [['l', 'a', 'n', 'g'], ['u', 'n', 'i', 'c', 'o', 'd', 'e'], ['g', 'l', 'y', 'p', 'h', '-', 'n', 'a', 'm', 'e'], ['r', 'e', 's', 'u', 'l', 't'],
   ['i', 'n'], ['i', 'n', '2'], ['n', 'a', 'm', 'e'],
   ['s', 'y', 's', 't', 'e', 'm', 'L', 'a', 'n', 'g', 'u', 'a', 'g', 'e'], ['t', 'i', 't', 'l', 'e']]

/-- `isNameAttr`: values that are identifiers / references / text, never lengths -/
def isNameAttr (n : List Char) : Bool :=
  n == ['h', 'r', 'e', 'f'] || n == ['f', 'o', 'n', 't', '-', 'f', 'a', 'm', 'i', 'l', 'y'] || n == ['i', 'd'] ||
  n == ['c', 'l', 'a', 's', 's'] || n.contains ':' ||
  n.take 5 == ['d', 'a', 't', 'a', '-'] || n.take 5 == ['a', 'r', 'i', 'a', '-'] || textAttrs.contains n

/-- the default-valued attributes that are dropped (`val` after the dimension rewrite; `mime` = `defaultStyleType`) -/
def isDefaultAttr (o : SvgOpts) (tag mime n val : List Char) : Bool :=
  (tag == nSvg &&
    ((o.inline && n == ['x', 'm', 'l', 'n', 's']) ||
     (n == ['v', 'e', 'r', 's', 'i', 'o', 'n'] && val == ['1', '.', '1']) ||
     (n == ['x'] && val == ['0']) ||
     (n == ['y'] && val == ['0']) ||
     (n == ['p', 'r', 'e', 's', 'e', 'r', 'v', 'e', 'A', 's', 'p', 'e', 'c', 't', 'R', 'a', 't', 'i', 'o'] && val == ['x', 'M', 'i', 'd', 'Y', 'M', 'i', 'd', ' ', 'm', 'e', 'e', 't']) ||
     (n == ['b', 'a', 's', 'e', 'P', 'r', 'o', 'f', 'i', 'l', 'e'] && val == ['n', 'o', 'n', 'e']) ||
     (n == ['c', 'o', 'n', 't', 'e', 'n', 't', 'S', 'c', 'r', 'i', 'p', 't', 'T', 'y', 'p', 'e'] && val == ['a', 'p', 'p', 'l', 'i', 'c', 'a', 't', 'i', 'o', 'n', '/', 'e', 'c', 'm', 'a', 's', 'c', 'r', 'i', 'p', 't']) ||
     (n == ['c', 'o', 'n', 't', 'e', 'n', 't', 'S', 't', 'y', 'l', 'e', 'T', 'y', 'p', 'e'] && val == cssMime))) ||
  (tag == nStyle && n == ['t', 'y', 'p', 'e'] && val == cssMime && mime == cssMime)

/-- attributes in a namespace other than `xlink:` / `xml:` (and other than `xmlns:xlink`) are dropped -/
def isForeignAttr (n : List Char) : Bool :=
  match prefixOf n with
  | some p => p != ['x', 'l', 'i', 'n', 'k'] && p != ['x', 'm', 'l'] && n != ['x', 'm', 'l', 'n', 's', ':', 'x', 'l', 'i', 'n', 'k']
  | none => false

/-- start tag name as written: the `svg:` prefix is removed -/
def stripSvg (n : List Char) : List Char :=
  if prefixOf n == some nSvg then n.drop 4 else n

/-! ## the loop -/

/-- planned output: a finished token, or a hole for `sub` / `path` -/
inductive PTok
  | tok (t : STok)
  | textTok (data : List Char)
  | cdataTok (data text : List Char)
  | styleText (mime payload : List Char)
  | styleCData (mime data text : List Char)
  | styleAttr (name mime payload : List Char)
  | pathAttr (name payload : List Char)
  deriving DecidableEq, Repr

/-- an attribute as written: ` name=value` -/
def mkAttr (n v : List Char) : STok := .attr (' ' :: (n ++ '=' :: v)) n (some v)

/-- second half of the CDATA branch: `EscapeCDATAVal`; a section that becomes text is collapsed and trimmed and
written through `escapeCDEnd` (`br` = number of `]` at the end of what was written so far, `bracketWriter.n`) -/
def cdataOutAt (br : Nat) (data text : List Char) : STok :=
  match escapeCDATAVal text with
  | some e => .text (Verif.Model.Xml.escCD br (trimWs (collapseWs 0 e)))
  | none => .cdata data text

/-- the same without the `]]>` guard (shape only: used by the structural lemmas) -/
def cdataOut (data text : List Char) : STok :=
  match escapeCDATAVal text with
  | some e => .text (trimWs (collapseWs 0 e))
  | none => .cdata data text

structure St where
  /-- `tag`: Text of the last start tag, `[]` (hash 0) after an end tag or `/>` -/
  tag : List Char
  /-- `defaultStyleType` -/
  mime : List Char
  deriving DecidableEq, Repr

/-- the value after `buffer.go` and the dimension rewrite (`val` at the default-attribute test) -/
def attrVal1 (num : List Char → List Char) (n : List Char) (v : Option (List Char)) : List Char :=
  let val0 := prepVal v
  let nm := dimension val0
  if nm.1 + nm.2 == val0.length && n != ['v', 'e', 'r', 's', 'i', 'o', 'n'] && !isNameAttr n
    then (shortenDim num val0).1 else val0

/-- the rest of the `AttributeToken` branch for the value `val1` -/
def attrEmit (num : List Char → List Char) (o : SvgOpts) (st : St) (n val1 : List Char) : List PTok × List Char :=
  if isDefaultAttr o st.tag st.mime n val1 then ([], st.mime)
  else if isForeignAttr n then ([], st.mime)
  else if st.tag == nSvg && n == ['c', 'o', 'n', 't', 'e', 'n', 't', 'S', 't', 'y', 'l', 'e', 'T', 'y', 'p', 'e'] then
    let m := Verif.Model.DataURI.mediatype val1
    ([.tok (mkAttr n (escapeAttrVal m))], m)
  else if n == nStyle then ([.styleAttr n st.mime val1], st.mime)
  else if n == ['d'] then ([.pathAttr n val1], st.mime)
  else if n == ['v', 'i', 'e', 'w', 'B', 'o', 'x'] then ([.tok (mkAttr n (escapeAttrVal (viewBox num val1)))], st.mime)
  else if colorAttrs.contains n && colorApplies val1 then ([.tok (mkAttr n (escapeAttrVal (colorVal val1)))], st.mime)
  else ([.tok (mkAttr n (escapeAttrVal val1))], st.mime)

/-- the `AttributeToken` branch: what is written (nothing = attribute dropped) and the new `defaultStyleType` -/
def attrStep (num : List Char → List Char) (o : SvgOpts) (st : St) (n : List Char) (v : Option (List Char)) :
    List PTok × List Char := attrEmit num o st n (attrVal1 num n v)

/-- `skipTag`: number of tokens consumed after the start tag (through the matching end tag or `/>`) -/
def skipLen : Nat → List STok → Nat
  | _, [] => 0
  | lv, t :: r =>
    match t with
    | .endTag _ _ => if lv == 0 then 1 else 1 + skipLen (lv - 1) r
    | .startTagCloseVoid => if lv == 0 then 1 else 1 + skipLen (lv - 1) r
    | .startTag _ => 1 + skipLen (lv + 1) r
    | _ => 1 + skipLen lv r

/-- the `StartTagPIToken` branch: tokens consumed through `?>` — or through a `>` / `/>` token: a `>` in the data of the
processing instruction ended it for the lexer (/repo 59fe76b) -/
def piLen : List STok → Nat
  | [] => 0
  | .startTagClosePI :: _ => 1
  | .startTagClose :: _ => 1
  | .startTagCloseVoid :: _ => 1
  | _ :: r => 1 + piLen r

/-- a token of a kept processing instruction as written: verbatim, a `>` / `/>` token with a space in front -/
def piOut : STok → List STok
  | .startTagClose => [.text [' '], .startTagClose]
  | .startTagCloseVoid => [.text [' '], .startTagCloseVoid]
  | t => [t]

/-- `printTag(w, tb, ForeignObject)`: number of tokens copied verbatim (`level`, `inStartTag`) -/
def printLen : Nat → Bool → List STok → Nat
  | _, _, [] => 0
  | lv, ins, t :: r =>
    match t with
    | .startTag n =>
      if n == nForeignObject then 1 + printLen (lv + 1) true r else 1 + printLen lv false r
    | .startTagCloseVoid =>
      if ins then (if lv == 0 then 0 else 1 + printLen (lv - 1) ins r) else 1 + printLen lv ins r
    | .endTag _ n =>
      if n == nForeignObject then (if lv == 0 then 0 else 1 + printLen (lv - 1) ins r) else 1 + printLen lv ins r
    | _ => 1 + printLen lv ins r

/-- which start tags are skipped together with their content: `metadata`, every prefixed element except `svg:`,
and `defs` when the token after the next one is `/>` (`tb.Peek(1)`) -/
def skipStart (n : List Char) (r : List STok) : Bool :=
  if n == nMetadata then true
  else match prefixOf n with
    | some p => p != nSvg
    | none => n == nDefs && r[1]? == some .startTagCloseVoid

/-- look-ahead of the `StartTagCloseToken` branch: tokens swallowed when the element is collapsed to `/>` -/
def collapseSkip : List STok → Option Nat
  | .endTag _ _ :: _ => some 1
  | .text d :: .endTag _ _ :: _ => if allWs d then some 2 else none
  | _ => none

/-- end tag as written: white space before `>` removed, `svg:` prefix removed -/
def endData (d n : List Char) : List Char :=
  let d1 := if d.length > 3 + n.length then d.take (2 + n.length) ++ ['>'] else d
  if n.take 4 == ['s', 'v', 'g', ':'] then d1.take 2 ++ d1.drop 6 else d1

def endName (n : List Char) : List Char := if n.take 4 == ['s', 'v', 'g', ':'] then n.drop 4 else n

/-- The loop of `svg.go`.  The `Nat` = number of tokens already consumed by look-ahead code (`skipTag`,
`printTag`, the PI loop, the empty-element branch); 0 at the call. -/
def plan (num : List Char → List Char) (o : SvgOpts) : St → Nat → List STok → List PTok
  | _, _, [] => []
  | st, k + 1, _ :: r => plan num o st k r
  | st, 0, t :: r =>
    match t with
    | .comment _ => (if o.keepComments then [PTok.tok t] else []) ++ plan num o st 0 r
    | .doctype _ tx => (if (trimWs tx).getLast? == some ']' then [PTok.tok t] else []) ++ plan num o st 0 r
    | .text d =>
      let d1 := trimWs (replWsEnt XmlTables.entities XmlTables.textRev d)
      (if st.tag == nStyle && !d1.isEmpty then PTok.styleText st.mime d1 else PTok.textTok d1) ::
        plan num o st 0 r
    | .cdata d tx =>
      (if st.tag == nStyle then PTok.styleCData st.mime d tx else PTok.cdataTok d tx) :: plan num o st 0 r
    | .startTagPI n =>
      if n == ['x', 'm', 'l'] then plan num o st (piLen r) r
      else PTok.tok t :: (((r.take (piLen r)).flatMap piOut).map PTok.tok ++ plan num o st (piLen r) r)
    | .startTagClosePI => plan num o st 0 r
    | .startTag n =>
      if skipStart n r then plan num o { st with tag := n } (skipLen 0 r) r
      else PTok.tok (.startTag (stripSvg n)) :: plan num o { st with tag := n } 0 r
    | .attr _ n v =>
      let a := attrStep num o st n v
      a.1 ++ plan num o { st with mime := a.2 } 0 r
    | .startTagClose =>
      match collapseSkip r with
      | some k => PTok.tok .startTagCloseVoid :: plan num o { st with tag := [] } k r
      | none =>
        if st.tag == nForeignObject then
          let p := printLen 0 false r
          PTok.tok .startTagClose :: ((r.take p).map PTok.tok ++ plan num o st p r)
        else PTok.tok .startTagClose :: plan num o st 0 r
    | .startTagCloseVoid => PTok.tok t :: plan num o { st with tag := [] } 0 r
    | .endTag d n => PTok.tok (.endTag (endData d n) (endName n)) :: plan num o { st with tag := [] } 0 r

def cdataOpen : List Char := ['<', '!', '[', 'C', 'D', 'A', 'T', 'A', '[']
def cdataEnd : List Char := [']', ']', '>']

def isHexD (c : Char) : Bool := isDigit c || ('a' ≤ c && c ≤ 'f') || ('A' ≤ c && c ≤ 'F')
def isNameStart (c : Char) : Bool := isLetter c || c == '_' || c == ':' || 128 ≤ c.toNat
def isNameCh (c : Char) : Bool :=
  isLetter c || isDigit c || c == '.' || c == '-' || c == '_' || c == ':' || 128 ≤ c.toNat

/-- `isCharData`, one reference: `r` = the bytes behind `&`; number of bytes of `r` up to and including the `;` -/
def refLen (r : List Char) : Option Nat :=
  match r with
  | '#' :: 'x' :: r2 =>
    let ds := r2.takeWhile isHexD
    if ds.isEmpty then none else
    match r2.drop ds.length with
    | ';' :: _ => some (ds.length + 3)
    | _ => none
  | '#' :: r2 =>
    let ds := r2.takeWhile isDigit
    if ds.isEmpty then none else
    match r2.drop ds.length with
    | ';' :: _ => some (ds.length + 2)
    | _ => none
  | c :: r2 =>
    if isNameStart c then
      let nm := r2.takeWhile isNameCh
      match r2.drop nm.length with
      | ';' :: _ => some (nm.length + 2)
      | _ => none
    else none
  | [] => none

/-- `isCharData(b)` (/repo d582c28): no `<`, every `&` starts a complete character or entity reference.
The `Nat` = bytes still to skip (0 at the call). -/
def isCharDataGo : Nat → List Char → Bool
  | _, [] => true
  | k + 1, _ :: r => isCharDataGo k r
  | 0, c :: r =>
    if c == '<' then false
    else if c == '&' then
      match refLen r with
      | some n => isCharDataGo n r
      | none => false
    else isCharDataGo 0 r

def isCharData (b : List Char) : Bool := isCharDataGo 0 b

/-- the byte string contains `]]>` -/
def hasCdataEnd : List Char → Bool
  | [] => false
  | c :: r => (match c :: r with | ']' :: ']' :: '>' :: _ => true | _ => false) || hasCdataEnd r

/-- style element text / style attribute: the result of `sub` is used only when it is still character data -/
def styleData (e : Env) (mime : List Char) (inl : Bool) (p : List Char) : List Char :=
  match e.sub mime inl p with
  | some out => if isCharData out then out else p
  | none => p

/-- style CDATA: the result of `sub` is used only when it does not contain `]]>`; `(Data, Text)` of the section -/
def styleSection (e : Env) (mime d tx : List Char) : List Char × List Char :=
  match e.sub mime false tx with
  | some out => if hasCdataEnd out then (d, tx) else (cdataOpen ++ out ++ cdataEnd, out)
  | none => (d, tx)

/-- closing the holes, shape only (no `]]>` guard): which token is written; used by the structural lemmas, the
element / attribute events of `emit` are those of `(plan …).map (fill e)` (`Proofs.SvgDoc.evsOut_emit`) -/
def fill (e : Env) : PTok → STok
  | .tok t => t
  | .textTok d => .text d
  | .cdataTok d tx => cdataOut d tx
  | .styleText mime p => .text (styleData e mime false p)
  | .styleCData mime d tx => cdataOut (styleSection e mime d tx).1 (styleSection e mime d tx).2
  | .styleAttr n mime p => mkAttr n (escapeAttrVal (styleData e mime true p))
  | .pathAttr n p => mkAttr n (escapeAttrVal (e.path p))

/-- a request to a parameter: kind (`0` style element text, `1` style CDATA, `2` style attribute, `3` path),
mime type, payload -/
abbrev Req := Nat × List Char × List Char

/-- `escapeCDEnd(b, n)` (same function as in `xml.go`, model owned by C06) -/
def escCD := Verif.Model.Xml.escCD
/-- number of `]` at the end of `pre ++ b` when `pre` ends with `n` of them (`bracketWriter.Write`) -/
def brAfter := Verif.Model.Xml.brAfter

/-- closing one hole when `br` brackets `]` end the output written so far: the token written and the request made.
Every character data token (text token, style text after the sub-minifier, CDATA section written as text) is written
through `escapeCDEnd(·, bw.n)` as the last step. -/
def fillAt (e : Env) (br : Nat) : PTok → STok × Option Req
  | .tok t => (t, none)
  | .textTok d => (.text (escCD br d), none)
  | .cdataTok d tx => (cdataOutAt br d tx, none)
  | .styleText mime p => (.text (escCD br (styleData e mime false p)), some (0, mime, p))
  | .styleCData mime d tx => (cdataOutAt br (styleSection e mime d tx).1 (styleSection e mime d tx).2, some (1, mime, tx))
  | .styleAttr n mime p => (mkAttr n (escapeAttrVal (styleData e mime true p)), some (2, mime, p))
  | .pathAttr n p => (mkAttr n (escapeAttrVal (e.path p)), some (3, [], p))

/-- closing the holes from left to right; the bracket count follows the bytes written (`bracketWriter`),
including the results of `sub` -/
def fillGo (e : Env) : Nat → List PTok → List (STok × Option Req)
  | _, [] => []
  | br, p :: r => fillAt e br p :: fillGo e (brAfter br (fillAt e br p).1.render) r

def st0 : St := { tag := [], mime := cssMime }

/-- tokens written by `svg.Minify` for the token stream `ts` -/
def emit (e : Env) (o : SvgOpts) (ts : List STok) : List STok :=
  (fillGo e 0 (plan e.num o st0 0 ts)).map (·.1)

/-- output bytes of `svg.Minify` -/
def svgMinify (e : Env) (o : SvgOpts) (ts : List STok) : List Char := (emit e o ts).flatMap STok.render

/-- the same with the parameters spelled out -/
def svgMinify' (o : SvgOpts) (sub : List Char → Bool → List Char → Option (List Char))
    (path num : List Char → List Char) (ts : List STok) : List Char := svgMinify ⟨sub, path, num⟩ o ts

/-- the requests made to the parameters while the output is written with `e` (a payload of style element text
depends, through the bracket count, on what earlier requests returned: the harness iterates to a fixed point) -/
def requests (e : Env) (o : SvgOpts) (ts : List STok) : List Req :=
  (fillGo e 0 (plan e.num o st0 0 ts)).filterMap (·.2)

/-! ## modelled domain -/

/-- former K-C05B-1 trigger on one attribute token (`buffer.go` rewrote the value in place, corrupting `Data`; fixed in /repo 3169ca3) -/
def attrRewritten : STok → Bool
  | .attr _ _ (some (q :: r)) =>
    !r.isEmpty && (q == '"' || q == '\'') && replWsEnt XmlTables.entities XmlTables.attrRev r.dropLast != r.dropLast
  | _ => false

/-- the tokens copied verbatim by `printTag` (same traversal as `plan`; state = `tag`) -/
def printed : List Char → Nat → List STok → List STok
  | _, _, [] => []
  | tag, k + 1, _ :: r => printed tag k r
  | tag, 0, t :: r =>
    match t with
    | .startTagPI _ => printed tag (piLen r) r
    | .startTag n => if skipStart n r then printed n (skipLen 0 r) r else printed n 0 r
    | .startTagClose =>
      match collapseSkip r with
      | some k => printed [] k r
      | none =>
        if tag == nForeignObject then
          let p := printLen 0 false r
          r.take p ++ printed tag p r
        else printed tag 0 r
    | .startTagCloseVoid => printed [] 0 r
    | .endTag _ _ => printed [] 0 r
    | _ => printed tag 0 r

/-- trigger of K-C05B-1: an attribute whose value `buffer.go` rewrites is copied by `printTag` -/
def trigForeignAttr (ts : List STok) : Bool := (printed [] 0 ts).any attrRewritten

end Verif.Model.SvgDoc

import Verif.Spec.JsDeclSem
import Verif.Model.JsPrint
/-!
# C01D — behavioural model of the declaration handling of the JS minifier (`KeepVarNames = true`)

Code: `/repo/js/vars.go` (`hasDefines`, `bindingVars`, `addDefinition`, `mergeVarDecls`, `mergeVarDeclExprStmt`,
`countHoistLength`, `isShadowed`, `hoistVars`), `/repo/js/stmtlist.go` (`optimizeStmt`, `optimizeStmtList`),
`/repo/js/js.go` (`minifyStmt`, `minifyVarDecl`, `minifyBlockAsStmt`, `minifyFuncDecl`, `minifyParams`).

Input: the parser's tree (`Spec.JsDeclSem.DS`) with the scope-analysis annotations `Ann` of the dependency
`parse/v2/js` (by contract).  Three phases, as in the Go code:

* `hoistBody` = `hoistVars` on one function body / the program: the `var` declarations of the function in the order
  of `Scope.VarDecls` (`collect`), the score of each, the best one, `isShadowed`, the others turned into
  `DeclKind.hoisted` (`TokenType = ErrorToken`) and their new names prepended / appended to the best one;
* `optList` / `optStmt` = `optimizeStmtList` / `optimizeStmt` (expression merging, `if` rewriting, else removal, and the
  declaration merges: adjacent declarations, `var a;a=5`, `a=5;var b`, into the head of a `for`);
* `printS` = `minifyStmt` (declaration list sorting of `minifyVarDecl`, `onlyDefines`, braces of a loop body, unused
  parameters); expressions are printed by the C01 model `JsPrint.minGen` after the translation `toE`.

`none` = outside the modelled fragment (listed at `Guard`).
-/
namespace Verif.Model.JsHoist
open Verif.Spec.JsDeclSem Verif.Model.JsAst
open Verif.Spec.JsSyntax (E BOp UOp Lit)
open Verif.Spec.JsGrammar (Tok)

/-! ## expressions -/

def toBOp : BinOp → BOp
  | .add => .add | .sub => .sub | .lt => .lt | .seq => .seq | .land => .land | .lor => .lor

/-- declaration items with an initialiser -/
def defines (items : List DE) : List DE :=
  items.filter (fun i => match i with | .assign _ _ _ => true | _ => false)

def hasDefines (items : List DE) : Bool :=
  items.any (fun i => match i with | .assign _ _ _ => true | _ => false)

mutual
/-- translation to the expression type of the C01 printer -/
def toE : DE → E
  | .num n => .lit (.num n)
  | .undef => .unary .void (.lit (.num 0))
  | .var x _ => .var x
  | .assign x _ e => .bin .assign (.var x) (toE e)
  | .postinc x _ => .unary .postinc (.var x)
  | .call f a => .call (toE f) (toEL a)
  | .bin op a b => .bin (toBOp op) (toE a) (toE b)
  | .not e => .unary .not (toE e)
  | .typeof e => .unary .typeof (toE e)
  | .cond c a b => .cond (toE c) (toE a) (toE b)
  | .comma l => .comma (toEL l)
  | .group e => .group (toE e)
  | .hdecl items => .comma (toDefs items)
def toEL : List DE → List E
  | [] => []
  | a :: t => toE a :: toEL t
/-- a hoisted declaration in expression position prints its items with an initialiser (`onlyDefines`) -/
def toDefs : List DE → List E
  | [] => []
  | .assign x a e :: t => toE (.assign x a e) :: toDefs t
  | _ :: t => toDefs t
end

/-- `exprPrec` -/
def prec : DE → Prec
  | .num _ => opPrimary
  | .var _ _ => opPrimary
  | .undef => UOp.void.prec
  | .assign _ _ _ => opAssign
  | .postinc _ _ => UOp.postinc.prec
  | .call _ _ => opCall
  | .bin op _ _ => (toBOp op).prec
  | .not _ => UOp.not.prec
  | .typeof _ => UOp.typeof.prec
  | .cond _ _ _ => opAssign
  | .comma _ => opExpr
  | .group e => prec e
  | .hdecl _ => opExpr

def isGroup : DE → Bool
  | .group _ => true
  | _ => false

/-- `groupExpr` -/
def groupExpr (i : DE) (p : Prec) : DE :=
  if !isGroup i && prec i < p && !(prec i == opCoalesce && p == opBitOr) then .group i else i

/-- `commaExpr` -/
def commaItems : DE → List DE
  | .comma (a :: t) => a :: t
  | e => [e]

def commaExpr (x y : DE) : DE := .comma (commaItems x ++ commaItems y)

def lastD (l : List DE) (d : DE) : DE := (l.getLast?).getD d

/-- `condExpr` -/
def condExpr (c x y : DE) : DE :=
  match c with
  | .comma l =>
    .comma (l.dropLast ++ [.cond (groupExpr (lastD l c) opCoalesce) (groupExpr x opAssign) (groupExpr y opAssign)])
  | _ => .cond (groupExpr c opCoalesce) (groupExpr x opAssign) (groupExpr y opAssign)

def isVarE : DE → Bool
  | .var _ _ => true
  | _ => false

mutual
/-- `hasSideEffects` -/
def hasSideEffects : DE → Bool
  | .num _ => false
  | .undef => false
  | .var _ _ => true
  | .assign _ _ _ => true
  | .postinc _ _ => true
  | .call _ _ => true
  | .bin _ a b => (!isVarE a && hasSideEffects a) || (!isVarE b && hasSideEffects b)
  | .not e => hasSideEffects e
  | .typeof e => hasSideEffects e
  | .cond c a b => hasSideEffects c || hasSideEffects a || hasSideEffects b
  | .comma l => hasSideEffectsL l
  | .group e => hasSideEffects e
  | .hdecl _ => true
def hasSideEffectsL : List DE → Bool
  | [] => false
  | a :: t => hasSideEffects a || hasSideEffectsL t
end

def inner : DE → DE
  | .group e => inner e
  | e => e

/-- `isUndefined` (`void <pure>`; the global `undefined` is outside the fragment) -/
def isUndefined (i : DE) : Bool :=
  match inner i with
  | .undef => true
  | _ => false

/-! ## phase 1: `hoistVars` -/

/-- what `hoistVars` reads of one `var` declaration of `Scope.VarDecls` -/
structure DeclInfo where
  items : List DE
  inFor : Bool
  /-- names declared by let / const / catch in the scopes from `decl.Scope` up to the function scope (after the
      `InFor` adjustment of `isShadowed`), one list per scope -/
  lexPath : List (List String)
deriving Repr, Inhabited

mutual
/-- the `var` declarations in the order of `Scope.Func.VarDecls`; `path` = names declared by the enclosing block
    scopes below the function scope (`Scope.Declared`), innermost first -/
def collectS (path : List (List String)) : DS → List DeclInfo
  | .decl .var items => [⟨items, false, path⟩]
  | .ifS _ t e => collectS path t ++ collectS path e
  | .block l => collectL (lexNamesL l :: path) l
  | .forS w i _ _ b =>
    match i with
    | .decl .var items => ⟨items, true, path⟩ :: collectL ((lexNamesL b) :: path) b
    | .empty =>
      -- the parser adds an empty `var` declaration after the body; for `while` its scope is the enclosing one,
      -- of which `isShadowed` skips the innermost block
      collectL (lexNamesL b :: path) b ++ [⟨[], true, if w then path.drop 1 else path⟩]
    | _ => collectL (((lexDeclsS i).map (·.1) ++ lexNamesL b) :: path) b
  | .tryS b x _ cb => collectL (lexNamesL b :: path) b ++ collectL ((x :: lexNamesL cb) :: path) cb
  | _ => []
def collectL (path : List (List String)) : List DS → List DeclInfo
  | [] => []
  | s :: t => collectS path s ++ collectL path t
end

/-- `countHoistLength` with `KeepVarNames` -/
def hoistLen (x : String) : Nat := x.length + 1

/-- the score of `hoistVars` for one declaration (simple names: `nArrays = nObjects = 0`) -/
def score (d : DeclInfo) : Int :=
  let defs := (defines d.items).filterMap itemName
  (3 : Int) - ((defs.map hoistLen).sum : Nat) + 1 - (if defs.isEmpty && d.inFor then 1 else 0)

/-- the index selected by the loop `if score < scores[best] { best = i }` -/
def bestIdx (scores : List Int) : Nat :=
  (scores.zipIdx.foldl (fun (acc : Nat × Int) (p : Int × Nat) => if p.1 < acc.2 then (p.2, p.1) else acc)
    (0, scores.headD 0)).1

/-- `isShadowed decl target` -/
def isShadowed (d target : DeclInfo) : Bool :=
  (itemNames d.items).any (fun x => target.lexPath.any (fun sc => sc.contains x))

/-- the decisions of `hoistVars` for the declarations `ds` of one function: index of the best declaration, the
    `hoist` flags, and the new item list of the best one -/
structure Plan where
  best : Nat
  hoist : List Bool
  bestItems : List DE
deriving Repr, Inhabited

/-- names added by one hoisted declaration: those not yet declared by the target (`orig`) -/
def newNames (orig : List String) : List DE → List String × List String
  | [] => ([], orig)
  | it :: t =>
    match itemName it with
    | some x =>
      if orig.contains x then newNames orig t
      else let r := newNames (orig ++ [x]) t; (x :: r.1, r.2)
    | none => newNames orig t

/-- the loop over the declarations: `pre` = bare items prepended so far, `post` = appended -/
def planLoop (best : Nat) (target : DeclInfo) :
    List (DeclInfo × Bool × Nat) → List String → List String → List String → List Bool × List String × List String
  | [], _, pre, post => ([], pre, post)
  | (d, h, i) :: t, orig, pre, post =>
    let h1 := h && !isShadowed d target
    if h1 then
      let nn := newNames orig d.items
      let r := if i < best then planLoop best target t nn.2 (pre ++ nn.1) post
               else planLoop best target t nn.2 pre (post ++ nn.1)
      (true :: r.1, r.2)
    else
      let r := planLoop best target t orig pre post
      (false :: r.1, r.2)

def bare (x : String) : DE := .var x { decl := 1 }

def plan (ds : List DeclInfo) : Option Plan :=
  if ds.length ≤ 1 then none else
  let scores := ds.map score
  let best := bestIdx scores
  let target := ds.getD best default
  let flags := scores.zipIdx.map (fun p => decide (0 ≤ p.1) && p.2 != best)
  let r := planLoop best target ((ds.zip flags).zipIdx.map (fun p => (p.1.1, p.1.2, p.2)))
    (itemNames target.items) [] []
  some ⟨best, r.1, r.2.1.map bare ++ target.items ++ r.2.2.map bare⟩

mutual
/-- rewrite the `var` declarations of a function body according to the plan; the counter is the index in
    `Scope.VarDecls` (same traversal as `collectS`) -/
def applyS (p : Plan) : DS → Nat → DS × Nat
  | .decl .var items, n =>
    (if n == p.best then .decl .var p.bestItems
     else if p.hoist.getD n false then .decl .hoisted items else .decl .var items, n + 1)
  | .ifS c t e, n =>
    let r1 := applyS p t n
    let r2 := applyS p e r1.2
    (.ifS c r1.1 r2.1, r2.2)
  | .block l, n => let r := applyL p l n; (.block r.1, r.2)
  | .forS w i c po b, n =>
    match i with
    | .decl .var items =>
      let i' : DS := if n == p.best then .decl .var p.bestItems
        else if p.hoist.getD n false then .decl .hoisted items else .decl .var items
      let r := applyL p b (n + 1)
      (.forS w i' c po r.1, r.2)
    | .empty =>
      let r := applyL p b n
      let i' : DS := if r.2 == p.best then (if p.bestItems.isEmpty then .empty else .decl .var p.bestItems) else .empty
      (.forS w i' c po r.1, r.2 + 1)
    | _ => let r := applyL p b n; (.forS w i c po r.1, r.2)
  | .tryS b x a cb, n =>
    let r1 := applyL p b n
    let r2 := applyL p cb r1.2
    (.tryS r1.1 x a r2.1, r2.2)
  | s, n => (s, n)
def applyL (p : Plan) : List DS → Nat → List DS × Nat
  | [], n => ([], n)
  | s :: t, n =>
    let r1 := applyS p s n
    let r2 := applyL p t r1.2
    (r1.1 :: r2.1, r2.2)
end

/-- `hoistVars` on the body of a function (or the program) -/
def hoistBody (body : List DS) : List DS :=
  match plan (collectL [] body) with
  | none => body
  | some p => (applyL p body 0).1

/-! ## phase 2: `optimizeStmt` / `optimizeStmtList` -/

inductive BlockType where
  | default | function | iteration
deriving DecidableEq, Repr

mutual
def isEmptyStmt : DS → Bool
  | .empty => true
  | .absent => true
  | .block l => isEmptyList l
  | _ => false
def isEmptyList : List DS → Bool
  | [] => true
  | s :: t => isEmptyStmt s && isEmptyList t
end

def isFlowStmt : DS → Bool
  | .ret _ => true
  | .throw _ => true
  | _ => false

mutual
def lastStmt : DS → DS
  | .block l => lastStmtL l (.block l)
  | s => s
def lastStmtL : List DS → DS → DS
  | [], d => d
  | [s], _ => lastStmt s
  | _ :: y :: t, d => lastStmtL (y :: t) d
end

def isEmptyNode : DS → Bool
  | .empty => true
  | _ => false

def splitLast {α : Type} : List α → Option (List α × α)
  | [] => none
  | [a] => some ([], a)
  | a :: b :: t => match splitLast (b :: t) with
    | some (i, l) => some (a :: i, l)
    | none => none

/-- remove the first item without initialiser named `x` (`addDefinition`, first loop) -/
def removeBare (x : String) : List DE → Option (List DE)
  | [] => none
  | .var y a :: t => if y == x then some t else (removeBare x t).map (fun r => .var y a :: r)
  | i :: t => (removeBare x t).map (fun r => i :: r)

/-- `addDefinition(decl, binding, value, forward)`; `risk` = names that have an item without initialiser in another
    declaration of the function where the second loop of `addDefinition` could find them (outside the model) -/
def addDefinition (risk : List String) (k : DeclKind) (items : List DE) (it : DE) (forward : Bool) : Option (List DE) :=
  match itemName it with
  | none => none
  | some x =>
    let isDef := match it with | .assign _ _ _ => true | _ => false
    let base : Option (List DE) :=
      if k == .hoisted then some items else
      match removeBare x items with
      | some r => some r
      | none => if isDef && risk.contains x then none else some items
    base.map (fun b => if forward then it :: b else b ++ [it])

/-- `mergeVarDecls(dst, src, forward)` -/
def mergeVarDecls (risk : List String) (k : DeclKind) (dst src : List DE) (forward : Bool) : Option (List DE) :=
  (if forward then src.reverse else src).foldl
    (fun acc it => acc.bind (fun d => addDefinition risk k d it forward)) (some dst)

/-- an item of a comma list that `mergeVarDeclExprStmt` takes: a hoisted declaration, or an assignment to a variable
    whose `Var` object has `Decl == VariableDecl` -/
def mergeItem (risk : List String) (k : DeclKind) (dst : List DE) (it : DE) (forward : Bool) : Option (Option (List DE)) :=
  match it with
  | .hdecl src => some (mergeVarDecls risk k dst src forward)
  | .assign x a e => if a.decl == 1 then some (addDefinition risk k dst (.assign x a e) forward) else none
  | _ => none

/-- the loop of `mergeVarDeclExprStmt` over a comma list (already in the order of iteration); result: new
    destination and the items not merged (in the order of iteration) -/
def mergeCommaLoop (risk : List String) (k : DeclKind) (forward : Bool) : List DE → List DE → Option (List DE × List DE)
  | dst, [] => some (dst, [])
  | dst, it :: t =>
    match mergeItem risk k dst it forward with
    | none => some (dst, it :: t)
    | some none => none
    | some (some d) => mergeCommaLoop risk k forward d t

/-- `mergeVarDeclExprStmt(decl, exprStmt, forward)`: `none` = outside the model; otherwise the new item list of the
    declaration and what is left of the expression statement (`none` = it was merged completely) -/
def mergeVarDeclExpr (risk : List String) (k : DeclKind) (dst : List DE) (v : DE) (forward : Bool) :
    Option (List DE × Option DE) :=
  match v with
  | .hdecl src => (mergeVarDecls risk k dst src forward).map (fun d => (d, none))
  | .comma l =>
    (mergeCommaLoop risk k forward dst (if forward then l.reverse else l)).map (fun r =>
      if r.2.isEmpty then (r.1, none) else (r.1, some (.comma (if forward then r.2.reverse else r.2))))
  | .assign x a e =>
    if a.decl == 1 then (addDefinition risk k dst (.assign x a e) forward).map (fun d => (d, none))
    else some (dst, some v)
  | _ => some (dst, some v)

/-- merging into the statement `s2` of the expression statement `left` that precedes it; `none` = no merge,
    `some none` = outside the model, `some (some l)` = the statements that replace both -/
def mergeExprLeft (risk : List String) (left : DE) (s2 : DS) : Option (Option (List DS)) :=
  match s2 with
  | .expr r => some (some [.expr (commaExpr left r)])
  | .ret (some v) => some (some [.ret (some (commaExpr left v))])
  | .throw v => some (some [.throw (commaExpr left v)])
  | .ifS c t e => some (some [.ifS (commaExpr left c) t e])
  | .forS w i c p b =>
    (match i with
     | .empty => some (some [.forS w (.expr left) c p b])
     | .decl k [] => if k == .var || k == .hoisted then some (some [.forS w (.expr left) c p b]) else none
     | .decl k items =>
       if k == .var || k == .hoisted then
         some ((mergeVarDeclExpr risk k items left true).map (fun r =>
           match r.2 with
           | none => [.forS w (.decl k r.1) c p b]
           | some rest => [.expr rest, .forS w (.decl k r.1) c p b]))
       else none
     | _ => none)
  | .decl .var items =>
    some ((mergeVarDeclExpr risk .var items left true).map (fun r =>
      match r.2 with
      | none => [.decl .var r.1]
      | some rest => [.expr rest, .decl .var r.1]))
  | _ => none

/-- merging into `s2` of the declaration `left` that precedes it -/
def mergeDeclLeft (risk : List String) (k : DeclKind) (items : List DE) (s2 : DS) : Option (Option (List DS)) :=
  match s2 with
  | .decl k2 items2 => if k == k2 then some (some [.decl k (items ++ items2)]) else
      none
  | .expr v =>
    if k == .var then
      some ((mergeVarDeclExpr risk .var items v false).map (fun r =>
        match r.2 with
        | none => [.decl .var r.1]
        | some rest => [.decl .var r.1, .expr rest]))
    else none
  | .forS w i c p b =>
    if k == .var then
      (match i with
       | .empty => some (some [.forS w (.decl .var items) c p b])
       | .decl k2 items2 =>
         if k2 == .hoisted && !hasDefines items2 then some (some [.forS w (.decl .var items) c p b])
         else if k2 == .var || k2 == .hoisted then
           some ((mergeVarDecls risk .var items items2 false).map (fun d => [.forS w (.decl .var d) c p b]))
         else none
       | _ => none)
    else none
  | _ => none

/-- one round of the `MergeIfReturnThrow` label -/
def mergeIfStep (prev cur : DS) : Option (DS × Bool) :=
  match prev with
  | .ifS c t e =>
    if isEmptyStmt t != isEmptyStmt e then
      match cur with
      | .ret none =>
        (match t, e with
         | .ret none, _ => some (.expr c, false)
         | _, .ret none => some (.expr c, false)
         | _, _ => none)
      | .ret (some v) =>
        (match t, e with
         | .ret (some l), _ => some (.ret (some (condExpr c l v)), true)
         | _, .ret (some l) => some (.ret (some (condExpr c v l)), true)
         | _, _ => none)
      | .throw v =>
        (match t, e with
         | .throw l, _ => some (.throw (condExpr c l v), true)
         | _, .throw l => some (.throw (condExpr c v l), true)
         | _, _ => none)
      | _ => none
    else none
  | _ => none

def mergeIfRet : Nat → List DS → List DS
  | 0, acc => acc
  | fuel + 1, acc =>
    match splitLast acc with
    | none => acc
    | some (init, cur) =>
      match splitLast init with
      | none => acc
      | some (init2, prev) =>
        match mergeIfStep prev cur with
        | none => acc
        | some (s, true) => mergeIfRet fuel (init2 ++ [s])
        | some (s, false) => init2 ++ [s, cur]

/-- removal of a superfluous final `return` in a function body -/
def trimReturn (acc : List DS) : List DS :=
  match splitLast acc with
  | some (init, .ret none) => init
  | some (init, .ret (some v)) =>
    if isUndefined v then init
    else match v with
      | .comma l =>
        if isUndefined (lastD l v) then
          (match l with
           | [a, _] => init ++ [.expr a]
           | _ => init ++ [.ret (some (.comma l.dropLast))])
        else acc
      | _ => acc
  | _ => acc

def swapNotFlow (c : DE) (t e : DS) : DE × DS × DS :=
  match c with
  | .not x => if isFlowStmt (lastStmt e) then (x, e, t) else (c, t, e)
  | _ => (c, t, e)

def blockItems : DS → List DS
  | .block l => l
  | s => [s]

/-- `declaresKeptNames` with `KeepVarNames`: the block declares let / const names -/
def declaresKeptNames : DS → Bool
  | .block l => !(lexNamesL l).isEmpty
  | _ => false

def elseRemoval (s0 : DS) (rest0 : List DS) : DS × List DS :=
  match s0 with
  | .ifS c t e =>
    if !isEmptyStmt e then
      let sw := swapNotFlow c t e
      if isFlowStmt (lastStmt sw.2.1) && !declaresKeptNames sw.2.2 then
        (.ifS sw.1 sw.2.1 .absent, blockItems sw.2.2 ++ rest0)
      else (.ifS sw.1 sw.2.1 sw.2.2, rest0)
    else (s0, rest0)
  | _ => (s0, rest0)

/-- the merges of the `if 0 < i` block of `optimizeStmtList`: `none` = outside the model -/
def mergeAcc (risk : List String) (acc : List DS) (s2 : DS) : Option (List DS) :=
  match splitLast acc with
  | some (init, .expr left) =>
    (match mergeExprLeft risk left s2 with
     | none => some (acc ++ [s2])
     | some none => none
     | some (some l) => some (init ++ l))
  | some (init, .decl k items) =>
    (match mergeDeclLeft risk k items s2 with
     | none => some (acc ++ [s2])
     | some none => none
     | some (some l) => some (init ++ l))
  | _ => some (acc ++ [s2])

def optIfCore (c : DE) (t e : DS) : DS :=
  let hasIf := !isEmptyStmt t
  let hasElse := !isEmptyStmt e
  if !hasIf && !hasElse then
    if hasSideEffects c then .expr c else .empty
  else if hasIf && !hasElse then
    match t with
    | .expr v =>
      (match c with
       | .not x => .expr (.bin .lor (groupExpr x BOp.lor.left) (groupExpr v BOp.lor.right))
       | _ => .expr (.bin .land (groupExpr c BOp.land.left) (groupExpr v BOp.land.right)))
    | .ifS c2 t2 e2 =>
      if isEmptyStmt e2 then
        .ifS (.bin .land (groupExpr c BOp.land.left) (groupExpr c2 BOp.land.right)) t2 e
      else .ifS c t e
    | _ => .ifS c t e
  else if !hasIf && hasElse then
    match e with
    | .expr v => .expr (.bin .lor (groupExpr c BOp.lor.left) (groupExpr v BOp.lor.right))
    | _ => .ifS c t e
  else
    match t, e with
    | .expr xv, .expr yv => .expr (condExpr c xv yv)
    | .ret none, .ret none => .ret (some (commaExpr c .undef))
    | .ret (some a), .ret (some b) => .ret (some (condExpr c a b))
    | .throw a, .throw b => .throw (condExpr c a b)
    | _, _ => .ifS c t e

def optIf (c : DE) (t1 e1 : DS) : DS :=
  match c with
  | .not x => if !isEmptyStmt e1 then optIfCore x e1 t1 else optIfCore c t1 e1
  | _ => optIfCore c t1 e1

def isLexDecl : DS → Bool
  | .decl .let_ _ => true
  | .decl .const_ _ => true
  | _ => false

mutual
/-- `optimizeStmt`; `none` = outside the model (a block that only holds a let / const declaration) -/
def optStmt (risk : List String) : Nat → DS → Option DS
  | 0, _ => none
  | fuel + 1, s =>
    match s with
    | .ifS c t0 e0 =>
      (match optStmt risk fuel t0, optStmt risk fuel e0 with
       | some t1, some e1 => some (optIf c t1 e1)
       | _, _ => none)
    | .decl .hoisted items => some (if hasDefines items then .expr (.hdecl items) else .empty)
    | .block l =>
      (match optList risk fuel l .default with
       | none => none
       | some [] => some .empty
       | some [s1] => if isLexDecl s1 then none else optStmt risk fuel s1
       | some l' => some (.block l'))
    | s => some s

def optLoop (risk : List String) : Nat → List DS → List DS → Option (List DS)
  | 0, _, _ => none
  | fuel + 1, acc, pending =>
    match pending with
    | [] => some acc
    | s0 :: rest0 =>
      let r := elseRemoval s0 rest0
      match optStmt risk fuel r.1 with
      | none => none
      | some s2 =>
        if isEmptyNode s2 then optLoop risk fuel acc (r.2.dropWhile isEmptyNode)
        else
          match mergeAcc risk acc s2 with
          | none => none
          | some acc1 => optLoop risk fuel (mergeIfRet (acc1.length + 1) acc1) r.2

def optList (risk : List String) : Nat → List DS → BlockType → Option (List DS)
  | 0, _, _ => none
  | fuel + 1, l, bt =>
    (optLoop risk fuel [] l).map (fun acc => if bt == .function then trimReturn acc else acc)
end

mutual
def sizeE : DE → Nat
  | .assign _ _ e => 1 + sizeE e
  | .call f a => 1 + sizeE f + sizeEL a
  | .bin _ a b => 1 + sizeE a + sizeE b
  | .not e => 1 + sizeE e
  | .typeof e => 1 + sizeE e
  | .cond c a b => 1 + sizeE c + sizeE a + sizeE b
  | .comma l => 1 + sizeEL l
  | .group e => 1 + sizeE e
  | .hdecl l => 1 + sizeEL l
  | _ => 1
def sizeEL : List DE → Nat
  | [] => 0
  | a :: t => sizeE a + sizeEL t
end

def sizeOE : Option DE → Nat
  | none => 0
  | some e => sizeE e

mutual
def sizeS : DS → Nat
  | .expr e => 1 + sizeE e
  | .decl _ items => 1 + sizeEL items
  | .ifS c t e => 1 + sizeE c + sizeS t + sizeS e
  | .block l => 1 + sizeSL l
  | .forS _ i c p b => 2 + sizeS i + sizeOE c + sizeOE p + sizeSL b
  | .ret e => 1 + sizeOE e
  | .throw e => 1 + sizeE e
  | .tryS b _ _ cb => 3 + sizeSL b + sizeSL cb
  | .fn _ _ ps body => 2 + ps.length + sizeSL body
  | .empty => 1
  | .absent => 1
def sizeSL : List DS → Nat
  | [] => 0
  | s :: t => sizeS s + sizeSL t
end

/-! ## phase 3: `minifyStmt` -/

/-- `renamer.identOrder` (character frequency order, `useAlphabetVarNames = false`) -/
def identStart : List Char := "etnsoiarclduhmfpgvbjy_wOxCEkASMFTzDNLRPHIBV$WUKqYGXQZJ".toList

def identOrder (c : Char) : Nat := if identStart.contains c then identStart.idxOf c else 0

/-- the comparison function of the `sort.SliceStable` in `minifyVarDecl` (`j` is never the first element when the
    binding is not a plain variable; plain variables only) -/
def declLess (a b : DE) : Bool :=
  match a, b with
  | .var x _, .var y _ =>
    (match x.toList, y.toList with
     | [c], [d] => identOrder c < identOrder d
     | _, _ => false)
  | .var _ _, _ => true
  | _, _ => false

/-- insertion of `x` at the end of the sorted prefix `l` (given reversed): the inner loop of `insertionSort` -/
def insertRev (x : DE) : List DE → List DE
  | [] => [x]
  | p :: t => if declLess x p then p :: insertRev x t else x :: p :: t

/-- `sort.SliceStable` for at most 20 elements is an insertion sort -/
def sortDecl (l : List DE) : List DE := (l.foldl (fun acc x => insertRev x acc) []).reverse

mutual
/-- number of occurrences in expressions of the variable object `rid` (through links) -/
def occE (rid : Nat) : DE → Nat
  | .var _ a => if a.root == rid then 1 else 0
  | .assign _ a e => (if a.root == rid then 1 else 0) + occE rid e
  | .postinc _ a => if a.root == rid then 1 else 0
  | .call f a => occE rid f + occEL rid a
  | .bin _ a b => occE rid a + occE rid b
  | .not e => occE rid e
  | .typeof e => occE rid e
  | .cond c a b => occE rid c + occE rid a + occE rid b
  | .comma l => occEL rid l
  | .group e => occE rid e
  | .hdecl l => occEL rid l
  | _ => 0
def occEL (rid : Nat) : List DE → Nat
  | [] => 0
  | a :: t => occE rid a + occEL rid t
end

def occOE (rid : Nat) : Option DE → Nat
  | none => 0
  | some e => occE rid e

/-- occurrences in the initialisers of declaration items (the declared names themselves do not count) -/
def occItems (rid : Nat) : List DE → Nat
  | [] => 0
  | .assign _ _ e :: t => occE rid e + occItems rid t
  | _ :: t => occItems rid t

mutual
def occS (rid : Nat) : DS → Nat
  | .expr e => occE rid e
  | .decl _ items => occItems rid items
  | .ifS c t e => occE rid c + occS rid t + occS rid e
  | .block l => occSL rid l
  | .forS _ i c p b => occS rid i + occOE rid c + occOE rid p + occSL rid b
  | .ret e => occOE rid e
  | .throw e => occE rid e
  | .tryS b _ _ cb => occSL rid b + occSL rid cb
  | .fn _ _ _ body => occSL rid body
  | _ => 0
def occSL (rid : Nat) : List DS → Nat
  | [] => 0
  | s :: t => occS rid s + occSL rid t
end

/-- `minifyParams(params, removeUnused = true)`; `none`: a trailing parameter that is only redeclared (`Uses` is not
    modelled) -/
def keptParams (ps : List (String × Ann)) (body : List DS) : Option (List String) :=
  let used := fun (p : String × Ann) => decide (0 < occSL p.2.rid body)
  let kept := (ps.reverse.dropWhile (fun p => !used p)).reverse
  let dropped := ps.drop kept.length
  if dropped.any (fun p => (varNamesL body).contains p.1) then none else some (kept.map (·.1))

def sepToks (sep : Tok) : List (List Tok) → List Tok
  | [] => []
  | [x] => x
  | x :: y :: t => x ++ sep :: sepToks sep (y :: t)

/-- expression printing: the C01 model of `minifyExpr` -/
def printE (e : DE) (p : Prec) : Option (List Tok) :=
  (JsPrint.minGen (JsPrint.optNode false true) (8 * JsPrint.size (toE e) + 64) (toE e) p).map JsPrint.flat

/-- `minifyBindingElement` of a declaration item -/
def printItem : DE → Option (List Tok)
  | .var x _ => some [.ident x]
  | .assign x _ e => (printE e opAssign).map (fun t => [Tok.ident x, Tok.p "="] ++ t)
  | _ => none

def printItems (l : List DE) : Option (List Tok) := (JsPrint.mapO printItem l).map (sepToks (.p ","))

def kindWord : DeclKind → String
  | .var => "var" | .let_ => "let" | .const_ => "const" | .hoisted => ""

/-- `minifyVarDecl(decl, onlyDefines)`; empty list: nothing is written -/
def printDecl (k : DeclKind) (items : List DE) : Option (List Tok) :=
  if items.isEmpty then some [] else
  if k == .hoisted then printItems (defines items) else
  if 20 < items.length then none else
  (printItems (if k == .var then sortDecl items else items)).map (fun t => Tok.kw (kindWord k) :: t)

/-- the risk set (see `addDefinition`) of a function body after `hoistVars` -/
def bareOf (items : List DE) : List String :=
  items.filterMap (fun i => match i with | .var x _ => some x | _ => none)

mutual
def varDeclsS : DS → List (List DE)
  | .decl .var items => [items]
  | .ifS _ t e => varDeclsS t ++ varDeclsS e
  | .block l => varDeclsL l
  | .forS _ i _ _ b =>
    (match i with
     | .decl .var items => [items]
     | .decl .hoisted items => [items]
     | _ => []) ++ varDeclsL b
  | .tryS b _ _ cb => varDeclsL b ++ varDeclsL cb
  | _ => []
def varDeclsL : List DS → List (List DE)
  | [] => []
  | s :: t => varDeclsS s ++ varDeclsL t
end

def riskOf (body : List DS) : List String :=
  let ds := varDeclsL body
  if ds.length ≤ 1 then [] else (ds.map bareOf).flatten

mutual
/-- `endsInIf` (re-runs `optimizeStmt` on an `if` without else) -/
def endsInIf (risk : List String) : Nat → DS → Bool
  | 0, _ => false
  | fuel + 1, s =>
    match s with
    | .ifS c t e =>
      if isEmptyStmt e then
        (match optStmt risk (4 * sizeS s + 16) (.ifS c t e) with | some (.ifS _ _ _) => true | _ => false)
      else endsInIf risk fuel e
    | .block l => (match l.getLast? with | some s1 => endsInIf risk fuel s1 | none => false)
    | .forS _ _ _ _ b => (match b.getLast? with | some s1 => endsInIf risk fuel s1 | none => false)
    | _ => false
end

mutual
/-- `minifyStmt`: tokens written and the value of `needsSemicolon` afterwards -/
def printS (risk : List String) : Nat → DS → Option (List Tok × Bool)
  | 0, _ => none
  | fuel + 1, s =>
    match s with
    | .expr e => (printE e opExpr).map (fun t => (t, true))
    | .decl k items => if k == .hoisted then none else (printDecl k items).map (fun t => (t, true))
    | .ret none => some ([.kw "return"], true)
    | .ret (some e) => (printE e opExpr).map (fun t => ([Tok.kw "return"] ++ t, true))
    | .throw e => (printE e opExpr).map (fun t => ([Tok.kw "throw"] ++ t, true))
    | .block l => (printL risk fuel l false).map (fun t => ([Tok.p "{"] ++ t ++ [Tok.p "}"], false))
    | .empty => some ([], false)
    | .absent => some ([], false)
    | .fn name _ ps body =>
      let hb := hoistBody body
      let risk' := riskOf hb
      (match optList risk' (4 * sizeSL hb + 16) hb .function, keptParams ps body with
       | some body', some ps' =>
         (printL risk' fuel body' false).map (fun t =>
           ([Tok.kw "function", Tok.ident name, Tok.p "("] ++ sepToks (Tok.p ",") (ps'.map (fun p => [Tok.ident p]))
             ++ [Tok.p ")", Tok.p "{"] ++ t ++ [Tok.p "}"], false))
       | _, _ => none)
    | .tryS b x a cb =>
      (match optList risk (4 * sizeSL b + 16) b .default, optList risk (4 * sizeSL cb + 16) cb .default with
       | some b', some cb' =>
         (match printL risk fuel b' false, printL risk fuel cb' false with
          | some tb, some tc =>
            let bind := if 0 < occSL a.rid cb then [Tok.p "(", Tok.ident x, Tok.p ")"] else []
            some ([Tok.kw "try", Tok.p "{"] ++ tb ++ [Tok.p "}", Tok.kw "catch"] ++ bind ++ [Tok.p "{"] ++ tc
              ++ [Tok.p "}"], false)
          | _, _ => none)
       | _, _ => none)
    | .forS _ i c p b =>
      (match optList risk (4 * sizeSL b + 16) b .iteration with
       | none => none
       | some b' =>
         let ti : Option (List Tok) := match i with
           | .empty => some []
           | .expr e => printE e opLHS
           | .decl k items => printDecl k items
           | _ => none
         let tc : Option (List Tok) := match c with | none => some [] | some e => printE e opExpr
         let tp : Option (List Tok) := match p with | none => some [] | some e => printE e opExpr
         let hasLex := b'.any isLexDecl || (match b' with | [.fn _ _ _ _] => true | _ => false)
         let tb : Option (List Tok × Bool) :=
           if 1 < b'.length || hasLex then (printL risk fuel b' false).map (fun t => ([Tok.p "{"] ++ t ++ [Tok.p "}"], false))
           else match b' with
             | [s1] => printS risk fuel s1
             | _ => some ([Tok.p ";"], false)
         match ti, tc, tp, tb with
         | some ti, some tc, some tp, some tb =>
           some ([Tok.kw "for", Tok.p "("] ++ ti ++ [Tok.p ";"] ++ tc ++ [Tok.p ";"] ++ tp ++ [Tok.p ")"] ++ tb.1, tb.2)
         | _, _, _, _ => none)
    | .ifS c t e =>
      let hasIf := !isEmptyStmt t
      let hasElse := !isEmptyStmt e
      if !hasIf && !hasElse then some ([], false)
      else
        match printE c opExpr with
        | none => none
        | some ct =>
          let head := [Tok.kw "if", Tok.p "("] ++ ct ++ [Tok.p ")"]
          let body : Option (List Tok × Bool) :=
            if !hasIf then some ([], true)
            else if hasElse && endsInIf risk (sizeS t + 1) t then
              (printS risk fuel t).map (fun r => ([Tok.p "{"] ++ r.1 ++ [Tok.p "}"], false))
            else printS risk fuel t
          match body with
          | none => none
          | some (bt, pend1) =>
            if hasElse then
              match printS risk fuel e with
              | none => none
              | some (et, pend2) =>
                some (head ++ bt ++ (if pend1 then [Tok.p ";"] else []) ++ [Tok.kw "else"] ++ et, pend2)
            else some (head ++ bt, pend1)

def printL (risk : List String) : Nat → List DS → Bool → Option (List Tok)
  | _, [], _ => some []
  | 0, _ :: _, _ => none
  | fuel + 1, s :: rest, pending =>
    match printS risk fuel s with
    | none => none
    | some (ts, pend) =>
      match printL risk fuel rest pend with
      | none => none
      | some r => some ((if pending && !ts.isEmpty then [Tok.p ";"] else []) ++ ts ++ r)
end

/-- the program after `hoistVars` and `optimizeStmtList` (top level only; nested function bodies are transformed when
    they are printed) -/
def transformTop (prog : List DS) : Option (List DS) :=
  let hb := hoistBody prog
  optList (riskOf hb) (4 * sizeSL hb + 16) hb .function

/-- the tokens `(*js.Minifier{KeepVarNames: true}).Minify` writes for a program of the fragment -/
def jsTokens (prog : List DS) : Option (List Tok) :=
  let hb := hoistBody prog
  match optList (riskOf hb) (4 * sizeSL hb + 16) hb .function with
  | none => none
  | some l => printL (riskOf hb) (4 * sizeSL l + 16) l false

def jsMinify (prog : List DS) : Option (List Char) := (jsTokens prog).map JsPrint.emit

end Verif.Model.JsHoist

import Verif.Spec.JsDeclSem
import Verif.Model.JsPrint
import Verif.Gen.JsHoistFacts
/-!
# C01D — behavioural model of the declaration handling of the JS minifier (`KeepVarNames = true`)

Code: `/repo/js/vars.go` (`hasDefines`, `bindingVars`, `addDefinition`, `mergeVarDecls`, `mergeVarDeclExprStmt`,
`countHoistLength`, `isShadowed`, `hoistVars`), `/repo/js/stmtlist.go` (`optimizeStmt`, `optimizeStmtList`),
`/repo/js/js.go` (`minifyStmt`, `minifyVarDecl`, `minifyBlockAsStmt`, `minifyFuncDecl`, `minifyParams`).

Input: the parser's tree (`Spec.JsDeclSem.DS`) with the scope-analysis annotations `Ann` of the dependency
`parse/v2/js` (by contract).  Three phases, as in the Go code:

* `hoistBody` = `hoistVars` on one function body / the program: the `var` declarations of the function in the order
  of `Scope.VarDecls` (`collect`), the score of each, the best one, `isShadowed`, the others turned into
  `DeclKind.hoisted` (`TokenType = ErrorToken`) and their new names prepended / appended to the best one;
* `optList` / `optStmt` = `optimizeStmtList` / `optimizeStmt` (expression merging, `if` rewriting, else removal, and the
  declaration merges: adjacent declarations, `var a;a=5`, `a=5;var b`, into the head of a `for`);
* `printS` = `minifyStmt` (declaration list sorting of `minifyVarDecl`, `onlyDefines`, braces of a loop body, unused
  parameters); expressions are printed by the C01 model `JsPrint.minGen` after the translation `toE`.

`none` = outside the modelled fragment (listed at `Guard`).
-/
namespace Verif.Model.JsHoist
open Verif.Spec.JsDeclSem Verif.Model.JsAst
open Verif.Spec.JsSyntax (E BOp UOp Lit)
open Verif.Spec.JsGrammar (Tok)
open Verif.Gen.JsHoistFacts

/-! ## expressions -/

def toBOp : BinOp → BOp
  | .add => .add | .sub => .sub | .lt => .lt | .seq => .seq | .land => .land | .lor => .lor

/-- declaration items with an initialiser -/
def defines (items : List DE) : List DE :=
  items.filter (fun i => match i with | .assign _ _ _ => true | _ => false)

def hasDefines (items : List DE) : Bool :=
  items.any (fun i => match i with | .assign _ _ _ => true | _ => false)

mutual
/-- translation to the expression type of the C01 printer -/
def toE : DE → E
  | .num n => .lit (.num n)
  | .undef => .unary .void (.lit (.num 0))
  | .var x _ => .var x
  | .assign x _ e => .bin .assign (.var x) (toE e)
  | .postinc x _ => .unary .postinc (.var x)
  | .call f a => .call (toE f) (toEL a)
  | .bin op a b => .bin (toBOp op) (toE a) (toE b)
  | .not e => .unary .not (toE e)
  | .typeof e => .unary .typeof (toE e)
  | .cond c a b => .cond (toE c) (toE a) (toE b)
  | .comma l => .comma (toEL l)
  | .group e => .group (toE e)
  | .hdecl items => .comma (toDefs items)
def toEL : List DE → List E
  | [] => []
  | a :: t => toE a :: toEL t
/-- a hoisted declaration in expression position prints its items with an initialiser (`onlyDefines`) -/
def toDefs : List DE → List E
  | [] => []
  | .assign x a e :: t => toE (.assign x a e) :: toDefs t
  | _ :: t => toDefs t
end

/-- `exprPrec` -/
def prec : DE → Prec
  | .num _ => opPrimary
  | .var _ _ => opPrimary
  | .undef => UOp.void.prec
  | .assign _ _ _ => opAssign
  | .postinc _ _ => UOp.postinc.prec
  | .call _ _ => opCall
  | .bin op _ _ => (toBOp op).prec
  | .not _ => UOp.not.prec
  | .typeof _ => UOp.typeof.prec
  | .cond _ _ _ => opAssign
  | .comma _ => opExpr
  | .group e => prec e
  | .hdecl _ => opExpr

def isGroup : DE → Bool
  | .group _ => true
  | _ => false

/-- `groupExpr` -/
def groupExpr (i : DE) (p : Prec) : DE :=
  if !isGroup i && prec i < p && !(prec i == opCoalesce && p == opBitOr) then .group i else i

/-- `commaExpr` -/
def commaItems : DE → List DE
  | .comma (a :: t) => a :: t
  | e => [e]

def commaExpr (x y : DE) : DE := .comma (commaItems x ++ commaItems y)

def lastD (l : List DE) (d : DE) : DE := (l.getLast?).getD d

/-- `condExpr` -/
def condExpr (c x y : DE) : DE :=
  match c with
  | .comma l =>
    .comma (l.dropLast ++ [.cond (groupExpr (lastD l c) opCoalesce) (groupExpr x opAssign) (groupExpr y opAssign)])
  | _ => .cond (groupExpr c opCoalesce) (groupExpr x opAssign) (groupExpr y opAssign)

def isVarE : DE → Bool
  | .var _ _ => true
  | _ => false

/-- `hasSideEffects` -/
def hasSideEffects : DE → Bool
  | .num _ => false
  | .undef => false
  | .var _ _ => true
  | .assign _ _ _ => true
  | .postinc _ _ => true
  | .call _ _ => true
  | .bin _ a b => (!isVarE a && hasSideEffects a) || (!isVarE b && hasSideEffects b)
  | .not e => hasSideEffects e
  | .typeof e => hasSideEffects e
  | .cond c a b => hasSideEffects c || hasSideEffects a || hasSideEffects b
  | .comma _ => true        -- the Go case has no `return false` after its loop
  | .group e => hasSideEffects e
  | .hdecl _ => true

def inner : DE → DE
  | .group e => inner e
  | e => e

/-- `isUndefined` (`void <pure>`; the global `undefined` is outside the fragment) -/
def isUndefined (i : DE) : Bool :=
  match inner i with
  | .undef => true
  | _ => false

/-! ## phase 1: `hoistVars` -/

/-- what `hoistVars` reads of one `var` declaration of `Scope.VarDecls` -/
structure DeclInfo where
  items : List DE
  inFor : Bool
  /-- names declared by let / const / catch in the scopes from `decl.Scope` up to the function scope (after the
      `InFor` adjustment of `isShadowed`), one list per scope -/
  lexPath : List (List String)
  /-- the names of the scope that `isShadowed` skips although the declaration is not in the head of a loop of that
      scope: the empty declaration that the parser makes for a `while` loop belongs to the enclosing scope (K-C01D-1) -/
  skipped : List String := []
deriving Repr, Inhabited

mutual
/-- the `var` declarations in the order of `Scope.Func.VarDecls`; `path` = names declared by the enclosing block
    scopes below the function scope (`Scope.Declared`), innermost first; `kw` = `isShadowed` knows about `while` loops
    (`Gen.JsHoistFacts.isShadowedKnowsWhile`) -/
def collectS (kw : Bool) (path : List (List String)) : DS → List DeclInfo
  | .decl .var items => [⟨items, false, path, []⟩]
  | .ifS _ t e => collectS kw path t ++ collectS kw path e
  | .block l => collectL kw (lexNamesL l :: path) l
  | .forS w i _ _ b =>
    match i with
    | .decl .var items => ⟨items, true, path, []⟩ :: collectL kw ((lexNamesL b) :: path) b
    | .empty =>
      -- the parser adds an empty `var` declaration after the body; for `while` its scope is the enclosing one,
      -- of which `isShadowed` skips the innermost block (unless repaired)
      collectL kw (lexNamesL b :: path) b ++
        [⟨[], true, if w && !kw then path.drop 1 else path, if w && !kw then path.headD [] else []⟩]
    | _ => collectL kw (((lexDeclsS i).map (·.1) ++ lexNamesL b) :: path) b
  | .tryS b x _ cb => collectL kw (lexNamesL b :: path) b ++ collectL kw ((x :: lexNamesL cb) :: path) cb
  | _ => []
def collectL (kw : Bool) (path : List (List String)) : List DS → List DeclInfo
  | [] => []
  | s :: t => collectS kw path s ++ collectL kw path t
end

/-- `countHoistLength` with `KeepVarNames` -/
def hoistLen (x : String) : Nat := x.length + 1

/-- the score of `hoistVars` for one declaration (simple names: `nArrays = nObjects = 0`) -/
def score (d : DeclInfo) : Int :=
  let defs := (defines d.items).filterMap itemName
  (3 : Int) - ((defs.map hoistLen).sum : Nat) + 1 - (if defs.isEmpty && d.inFor then 1 else 0)

/-- the loop `if score < scores[best] { best = i }` from index `i` on; `b`, `bs` = best index so far and its score -/
def bestFrom : List Int → Nat → Nat → Int → Nat
  | [], _, b, _ => b
  | sc :: t, i, b, bs => if sc < bs then bestFrom t (i + 1) i sc else bestFrom t (i + 1) b bs

/-- the index selected by `hoistVars` -/
def bestIdx (scores : List Int) : Nat :=
  match scores with
  | [] => 0
  | s0 :: t => bestFrom t 1 0 s0

/-- `hoist[i]` before the `isShadowed` test: the score is not negative and it is not the best declaration -/
def flagsFrom (best : Nat) : List Int → Nat → List Bool
  | [], _ => []
  | sc :: t, i => (decide (0 ≤ sc) && i != best) :: flagsFrom best t (i + 1)

/-- `isShadowed decl target` -/
def isShadowed (d target : DeclInfo) : Bool :=
  (itemNames d.items).any (fun x => target.lexPath.any (fun sc => sc.contains x))

/-- the decisions of `hoistVars` for the declarations `ds` of one function: index of the best declaration, the
    `hoist` flags, and the new item list of the best one -/
structure Plan where
  best : Nat
  hoist : List Bool
  /-- names put in front of / behind the items of the best declaration -/
  pre : List String
  post : List String
deriving Repr, Inhabited

/-- names added by one hoisted declaration: those not yet declared by the target (`orig`) -/
def newNames (orig : List String) : List DE → List String × List String
  | [] => ([], orig)
  | it :: t =>
    match itemName it with
    | some x =>
      if orig.contains x then newNames orig t
      else let r := newNames (orig ++ [x]) t; (x :: r.1, r.2)
    | none => newNames orig t

/-- the loop over the declarations from index `i` on: `pre` = names prepended so far, `post` = appended -/
def planLoop (best : Nat) (target : DeclInfo) :
    List DeclInfo → List Bool → Nat → List String → List String → List String → List Bool × List String × List String
  | d :: ds, h :: hs, i, orig, pre, post =>
    let h1 := h && !isShadowed d target
    if h1 then
      let nn := newNames orig d.items
      let r := if i < best then planLoop best target ds hs (i + 1) nn.2 (pre ++ nn.1) post
               else planLoop best target ds hs (i + 1) nn.2 pre (post ++ nn.1)
      (true :: r.1, r.2)
    else
      let r := planLoop best target ds hs (i + 1) orig pre post
      (false :: r.1, r.2)
  | _, _, _, _, pre, post => ([], pre, post)

def bare (x : String) : DE := .var x { decl := 1 }

def plan (ds : List DeclInfo) : Option Plan :=
  if ds.length ≤ 1 then none else
  let scores := ds.map score
  let best := bestIdx scores
  let target := ds.getD best default
  let r := planLoop best target ds (flagsFrom best scores 0) 0 (itemNames target.items) [] []
  some ⟨best, r.1, r.2.1, r.2.2⟩

/-- the item list of the best declaration after hoisting -/
def Plan.bestItems (p : Plan) (items : List DE) : List DE := p.pre.map bare ++ items ++ p.post.map bare

/-- what `hoistVars` does to the declaration with index `n` and items `items` -/
def Plan.act (p : Plan) (n : Nat) (items : List DE) : DS :=
  if n == p.best then .decl .var (p.bestItems items)
  else if p.hoist.getD n false then .decl .hoisted items else .decl .var items

mutual
/-- rewrite the `var` declarations of a function body according to the plan; the counter is the index in
    `Scope.VarDecls` (same traversal as `collectS`) -/
def applyS (p : Plan) : DS → Nat → DS × Nat
  | .decl .var items, n => (p.act n items, n + 1)
  | .ifS c t e, n =>
    let r1 := applyS p t n
    let r2 := applyS p e r1.2
    (.ifS c r1.1 r2.1, r2.2)
  | .block l, n => let r := applyL p l n; (.block r.1, r.2)
  | .forS w i c po b, n =>
    match i with
    | .decl .var items =>
      let r := applyL p b (n + 1)
      (.forS w (p.act n items) c po r.1, r.2)
    | .empty =>
      let r := applyL p b n
      let i' : DS := if r.2 == p.best && !(p.bestItems []).isEmpty then .decl .var (p.bestItems []) else .empty
      (.forS w i' c po r.1, r.2 + 1)
    | _ => let r := applyL p b n; (.forS w i c po r.1, r.2)
  | .tryS b x a cb, n =>
    let r1 := applyL p b n
    let r2 := applyL p cb r1.2
    (.tryS r1.1 x a r2.1, r2.2)
  | s, n => (s, n)
def applyL (p : Plan) : List DS → Nat → List DS × Nat
  | [], n => ([], n)
  | s :: t, n =>
    let r1 := applyS p s n
    let r2 := applyL p t r1.2
    (r1.1 :: r2.1, r2.2)
end

/-- `hoistVars` on the body of a function (or the program) -/
def hoistBodyG (kw : Bool) (body : List DS) : List DS :=
  match plan (collectL kw [] body) with
  | none => body
  | some p => (applyL p body 0).1

/-- `hoistVars` as it is in /repo now -/
def hoistBody (body : List DS) : List DS := hoistBodyG isShadowedKnowsWhile body

mutual
/-- the name `x` occurs in an expression (as the visitor of `assignedByVar` sees `*js.Var` nodes) -/
def namedE (x : String) : DE → Bool
  | .var y _ => y == x
  | .assign y _ e => y == x || namedE x e
  | .postinc y _ => y == x
  | .call f a => namedE x f || namedEL x a
  | .bin _ a b => namedE x a || namedE x b
  | .not e => namedE x e
  | .typeof e => namedE x e
  | .cond c a b => namedE x c || namedE x a || namedE x b
  | .comma l => namedEL x l
  | .group e => namedE x e
  | .hdecl l => namedEL x l
  | _ => false
def namedEL (x : String) : List DE → Bool
  | [] => false
  | a :: t => namedE x a || namedEL x t
end

def namedOE (x : String) : Option DE → Bool
  | none => false
  | some e => namedE x e

/-- (declared, assigned, used) of the visitor on the items of one `var` declaration: the bindings are not uses, the
    initialisers are walked -/
def visitItems (x : String) : List DE → Bool × Bool × Bool
  | [] => (false, false, false)
  | .var y _ :: t => let r := visitItems x t; (y == x || r.1, r.2.1, r.2.2)
  | .assign y _ e :: t => let r := visitItems x t; (y == x || r.1, y == x || r.2.1, namedE x e || r.2.2)
  | _ :: t => visitItems x t

def or3 (a b : Bool × Bool × Bool) : Bool × Bool × Bool := (a.1 || b.1, a.2.1 || b.2.1, a.2.2 || b.2.2)

mutual
/-- the visitor of `assignedByVar` below a statement, not into nested functions -/
def visitS (x : String) : DS → Bool × Bool × Bool
  | .expr e => (false, false, namedE x e)
  | .decl k items =>
    if k == .var || k == .hoisted then visitItems x items
    else (false, false, items.any (fun i => match i with
      | .var y _ => y == x
      | .assign y _ e => y == x || namedE x e
      | _ => false))
  | .ifS c t e => or3 (false, false, namedE x c) (or3 (visitS x t) (visitS x e))
  | .block l => visitL x l
  | .forS _ i c p b => or3 (visitS x i) (or3 (false, false, namedOE x c || namedOE x p) (visitL x b))
  | .ret e => (false, false, namedOE x e)
  | .throw e => (false, false, namedE x e)
  | .tryS b y _ cb => or3 (visitL x b) (or3 (false, false, y == x) (visitL x cb))
  | _ => (false, false, false)
def visitL (x : String) : List DS → Bool × Bool × Bool
  | [] => (false, false, false)
  | s :: t => or3 (visitS x s) (visitL x t)
end

/-- `assignedByVar(block, name)` of docs/C01D-fix-2.patch: the catch block redeclares the name with `var` and either
    initialises it or uses the name -/
def assignsVarL (x : String) (cb : List DS) : Bool :=
  let r := visitL x cb
  r.1 && (r.2.1 || r.2.2)

/-- trigger of the open known finding K-C01D-1 on one function body: the declaration that receives the hoisted names is
    the empty head of a `while` loop standing in a block, and one of the hoisted names is declared with let / const in
    that block -/
def d1BodyG (kw : Bool) (body : List DS) : Bool :=
  let ds := collectL kw [] body
  match plan ds with
  | none => false
  | some p =>
    let target := ds.getD p.best default
    (ds.zip p.hoist).any (fun dh => dh.2 && (itemNames dh.1.items).any (fun x => target.skipped.contains x))

def d1Body (body : List DS) : Bool := d1BodyG isShadowedKnowsWhile body

mutual
def d1S : DS → Bool
  | .ifS _ t e => d1S t || d1S e
  | .block l => d1L l
  | .forS _ _ _ _ b => d1L b
  | .tryS b _ _ cb => d1L b || d1L cb
  | .fn _ _ _ body => d1Body body || d1L body
  | _ => false
def d1L : List DS → Bool
  | [] => false
  | s :: t => d1S s || d1L t
end

/-- guard of K-C01D-1 on a whole program -/
def d1Trigger (prog : List DS) : Bool := d1Body prog || d1L prog

mutual
/-- assignments (anywhere in an expression) whose target is annotated `VariableDecl` but is not in `own` -/
def foreignE (own : List String) : DE → Bool
  | .assign x a e => (a.decl == 1 && !own.contains x) || foreignE own e
  | .call f a => foreignE own f || foreignEL own a
  | .bin _ a b => foreignE own a || foreignE own b
  | .not e => foreignE own e
  | .typeof e => foreignE own e
  | .cond c a b => foreignE own c || foreignE own a || foreignE own b
  | .comma l => foreignEL own l
  | .group e => foreignE own e
  | .hdecl l => foreignEL own l
  | _ => false
def foreignEL (own : List String) : List DE → Bool
  | [] => false
  | a :: t => foreignE own a || foreignEL own t
end

def foreignOE (own : List String) : Option DE → Bool
  | none => false
  | some e => foreignE own e

mutual
/-- the scope-analysis annotations break their contract: inside some function an assignment target is marked as a
    `var` variable (`Decl == VariableDecl`) although the function does not declare that name with `var` — the `Var`
    object is the one of an enclosing function whose `var` comes later in the source (guard of K-C01D-4) -/
def foreignS (own : List String) : DS → Bool
  | .expr e => foreignE own e
  | .decl _ items => foreignEL own items
  | .ifS c t e => foreignE own c || foreignS own t || foreignS own e
  | .block l => foreignL own l
  | .forS _ i c p b => foreignS own i || foreignOE own c || foreignOE own p || foreignL own b
  | .ret e => foreignOE own e
  | .throw e => foreignE own e
  | .tryS b _ _ cb => foreignL own b || foreignL own cb
  | .fn _ _ _ body => foreignL (varNamesL body) body
  | _ => false
def foreignL (own : List String) : List DS → Bool
  | [] => false
  | s :: t => foreignS own s || foreignL own t
end

def d4Trigger (prog : List DS) : Bool := !mergeChecksOwnFunction && foreignL (varNamesL prog) prog

mutual
def mentionsVar : DE → Bool
  | .var _ _ => true
  | .assign _ _ _ => true
  | .postinc _ _ => true
  | .call f a => mentionsVar f || mentionsVarL a
  | .bin _ a b => mentionsVar a || mentionsVar b
  | .not e => mentionsVar e
  | .typeof e => mentionsVar e
  | .cond c a b => mentionsVar c || mentionsVar a || mentionsVar b
  | .comma l => mentionsVarL l
  | .group e => mentionsVar e
  | .hdecl l => mentionsVarL l
  | _ => false
def mentionsVarL : List DE → Bool
  | [] => false
  | a :: t => mentionsVar a || mentionsVarL t
end

mutual
/-- a statement that can disappear entirely -/
def vanishes : DS → Bool
  | .empty => true
  | .absent => true
  | .block l => vanishesL l
  | .decl _ items => items.all (fun i => match i with
      | .var _ _ => true
      | .assign _ _ e => !hasSideEffects e
      | _ => false)
  | _ => false
def vanishesL : List DS → Bool
  | [] => true
  | s :: t => vanishes s && vanishesL t
end

/-- a let / const declaration whose names are not mentioned in `rest` and that has an initialiser which reads variables
    but counts as free of side effects: `optimizeStmt` drops it when it ends up alone in its block -/
def lexDrop (rest : List DS) : DS → Bool
  | .decl k items =>
    (k == .let_ || k == .const_) &&
      items.any (fun i => match i with | .assign _ _ e => !hasSideEffects e && mentionsVar e | _ => false) &&
      (itemNames items).all (fun y => !(visitL y rest).2.2)
  | _ => false

def lexDropIn : List DS → List DS → Bool
  | _, [] => false
  | pre, s :: t => lexDrop (pre ++ t) s || lexDropIn (pre ++ [s]) t

mutual
/-- guard of the open finding K-C01-3 of C01 (`hasSideEffects` treats a binary operator over plain variables as pure):
    an `if` whose branches can disappear and whose condition reads variables but counts as free of side effects, or a
    let / const declaration of a block that is dropped with such an initialiser -/
def k3S : DS → Bool
  | .ifS c t e => (!hasSideEffects c && mentionsVar c && vanishes t && vanishes e) || k3S t || k3S e
  | .block l => lexDropIn [] l || k3L l
  | .forS _ _ _ _ b => lexDropIn [] b || k3L b
  | .tryS b _ _ cb => lexDropIn [] b || lexDropIn [] cb || k3L b || k3L cb
  | .fn _ _ _ body => k3L body
  | _ => false
def k3L : List DS → Bool
  | [] => false
  | s :: t => k3S s || k3L t
end

/-- the open known finding whose guard a program satisfies -/
def knownTrigger (prog : List DS) : String :=
  if d1Trigger prog then "K-C01D-1" else if d4Trigger prog then "K-C01D-4" else if k3L prog then "K-C01-3" else "-"

/-! ## the declarations of one function as a store

`addDefinition` searches *all* declarations of `Scope.Func.VarDecls` for the item it replaces, so the statement phase
works on references: a `var` declaration node of the function under work is `.decl .var [.num did]` (`declRef`), a
hoisted declaration in expression position `.hdecl [.num did]`, and the item lists live in the store. -/

structure VD where
  kind : DeclKind
  items : List DE
  live : Bool := true     -- still in `Scope.VarDecls`
deriving Repr, Inhabited

abbrev Store := List VD
/-- the state is the store; the reader holds the `var` names of the function under work (`Scope.Func.Declared`) -/
abbrev SM := ReaderT (List String) (StateT Store Option)

def declRef (did : Nat) : DS := .decl .var [.num did]
def hdeclRef (did : Nat) : DE := .hdecl [.num did]

def refOf : List DE → Option Nat
  | [.num n] => some n
  | _ => none

mutual
/-- replace the `var` declarations of a function body by references, numbered like `collectS` -/
def refS : DS → Nat → DS × Nat
  | .decl .var _, n => (declRef n, n + 1)
  | .ifS c t e, n =>
    let r1 := refS t n
    let r2 := refS e r1.2
    (.ifS c r1.1 r2.1, r2.2)
  | .block l, n => let r := refL l n; (.block r.1, r.2)
  | .forS w i c po b, n =>
    match i with
    | .decl .var _ => let r := refL b (n + 1); (.forS w (declRef n) c po r.1, r.2)
    | .empty => let r := refL b n; (.forS w (declRef r.2) c po r.1, r.2 + 1)
    | _ => let r := refL b n; (.forS w i c po r.1, r.2)
  | .tryS b x a cb, n =>
    let r1 := refL b n
    let r2 := refL cb r1.2
    (.tryS r1.1 x a r2.1, r2.2)
  | s, n => (s, n)
def refL : List DS → Nat → List DS × Nat
  | [], n => ([], n)
  | s :: t, n =>
    let r1 := refS s n
    let r2 := refL t r1.2
    (r1.1 :: r2.1, r2.2)
end

/-- the store after `hoistVars` -/
def hoistStore (ds : List DeclInfo) : Store :=
  match plan ds with
  | none => ds.map (fun d => ⟨.var, d.items, true⟩)
  | some p => ds.zipIdx.map (fun di =>
      if di.2 == p.best then ⟨.var, p.bestItems di.1.items, true⟩
      else if p.hoist.getD di.2 false then ⟨.hoisted, di.1.items, true⟩ else ⟨.var, di.1.items, true⟩)

mutual
/-- the tree that a store and a tree of references stand for -/
def readS (st : Store) : DS → DS
  | .decl k items =>
    (match refOf items with
     | some d => (match st[d]? with | some v => .decl v.kind v.items | none => .decl k items)
     | none => .decl k items)
  | .ifS c t e => .ifS c (readS st t) (readS st e)
  | .block l => .block (readL st l)
  | .forS w i c p b =>
    let i' : DS := match i with
      | .decl k items =>
        (match refOf items with
         | some d => (match st[d]? with
           | some v => if v.items.isEmpty then .empty else .decl v.kind v.items
           | none => i)
         | none => .decl k items)
      | _ => i
    .forS w i' c p (readL st b)
  | .tryS b x a cb => .tryS (readL st b) x a (readL st cb)
  | s => s
def readL (st : Store) : List DS → List DS
  | [] => []
  | s :: t => readS st s :: readL st t
end

/-! ## phase 2: `optimizeStmt` / `optimizeStmtList` -/

inductive BlockType where
  | default | function | iteration
deriving DecidableEq, Repr

mutual
def isEmptyStmt : DS → Bool
  | .empty => true
  | .absent => true
  | .block l => isEmptyList l
  | _ => false
def isEmptyList : List DS → Bool
  | [] => true
  | s :: t => isEmptyStmt s && isEmptyList t
end

def isFlowStmt : DS → Bool
  | .ret _ => true
  | .throw _ => true
  | _ => false

mutual
def lastStmt : DS → DS
  | .block l => lastStmtL l (.block l)
  | s => s
def lastStmtL : List DS → DS → DS
  | [], d => d
  | [s], _ => lastStmt s
  | _ :: y :: t, d => lastStmtL (y :: t) d
end

def isEmptyNode : DS → Bool
  | .empty => true
  | _ => false

def splitLast {α : Type} : List α → Option (List α × α)
  | [] => none
  | [a] => some ([], a)
  | a :: b :: t => match splitLast (b :: t) with
    | some (i, l) => some (a :: i, l)
    | none => none

def isDefine : DE → Bool
  | .assign _ _ _ => true
  | _ => false

/-- remove the first item without initialiser named `x` -/
def removeBare (x : String) : List DE → Option (List DE)
  | [] => none
  | .var y a :: t => if y == x then some t else (removeBare x t).map (fun r => .var y a :: r)
  | i :: t => (removeBare x t).map (fun r => i :: r)

/-- `addDefinition(decl, binding, value, forward)` on the item list of the destination alone (the search through
    the other declarations is `crossRemove`) -/
def addDefinition (k : DeclKind) (items : List DE) (it : DE) (forward : Bool) : List DE :=
  let base : List DE :=
    if k == .hoisted then items else
    match itemName it with
    | some x => (removeBare x items).getD items
    | none => items
  if forward then it :: base else base ++ [it]

/-- `mergeVarDecls(dst, src, forward)` without the search through other declarations -/
def mergeVarDecls (k : DeclKind) (dst src : List DE) (forward : Bool) : List DE :=
  (if forward then src.reverse else src).foldl (fun d it => addDefinition k d it forward) dst

def getVD (d : Nat) : SM VD := do
  let st ← get
  match st[d]? with
  | some v => pure v
  | none => failure

def setItems (d : Nat) (items : List DE) : SM Unit :=
  modify (fun st => st.modify d (fun v => { v with items := items }))

def findBareIdx (x : String) : Store → Nat → Option Nat
  | [], _ => none
  | v :: t, i => if v.live && (removeBare x v.items).isSome then some i else findBareIdx x t (i + 1)

/-- the second loop of `addDefinition`: the item without initialiser is in another declaration of the function -/
def crossRemove (x : String) : SM Unit := do
  let st ← get
  match findBareIdx x st 0 with
  | some i =>
    match st[i]? with
    | some v => setItems i ((removeBare x v.items).getD v.items)
    | none => pure ()
  | none => pure ()

def addDefS (dst : Nat) (it : DE) (forward : Bool) : SM Unit := do
  match itemName it with
  | none => failure
  | some x =>
    let v ← getVD dst
    if v.kind != .hoisted then
      match removeBare x v.items with
      | some r => setItems dst r
      | none => if isDefine it then crossRemove x else pure ()
    let v ← getVD dst
    setItems dst (if forward then it :: v.items else v.items ++ [it])

def mergeLoop (dst src : Nat) (forward : Bool) : Nat → Nat → SM Unit
  | 0, _ => failure
  | fuel + 1, j => do
    let v ← getVD src
    match v.items[j]? with
    | none => pure ()
    | some it =>
      addDefS dst it forward
      mergeLoop dst src forward fuel (j + 1)

/-- the test of the assignment target in `mergeVarDeclExprStmt`: its `Var` object has `Decl == VariableDecl` and (since
    7a74d62, `Gen.JsHoistFacts.mergeChecksOwnFunction`) it is declared in the function of the declaration
    (`declaredInFunc`; `own` = the `var` names of that function) -/
def mergeAllowed (own : List String) (a : Ann) (x : String) : Bool :=
  a.decl == 1 && (!mergeChecksOwnFunction || own.contains x)

/-- `mergeVarDecls(dst, src, forward)` -/
def mergeDeclsS (dst src : Nat) (forward : Bool) : SM Unit := do
  let v ← getVD src
  if forward then setItems src v.items.reverse
  mergeLoop dst src forward (v.items.length + 1) 0
  setItems src []

/-- the loop of `mergeVarDeclExprStmt` over a comma list (in the order of iteration); returns the items not merged -/
def mergeCommaS (dst : Nat) (forward : Bool) : List DE → SM (List DE)
  | [] => pure []
  | it :: t =>
    match it with
    | .hdecl items =>
      (match refOf items with
       | some src => do mergeDeclsS dst src forward; mergeCommaS dst forward t
       | none => failure)
    | .assign x a e =>
      do
        let own ← read
        if mergeAllowed own a x then do
          addDefS dst (.assign x a e) forward; mergeCommaS dst forward t
        else pure (it :: t)
    | _ => pure (it :: t)

/-- `mergeVarDeclExprStmt(decl, exprStmt, forward)`: what is left of the expression (`none` = merged completely) -/
def mergeDeclExprS (dst : Nat) (v : DE) (forward : Bool) : SM (Option DE) :=
  match v with
  | .hdecl items =>
    (match refOf items with
     | some src => do mergeDeclsS dst src forward; pure none
     | none => failure)
  | .comma l => do
    let rest ← mergeCommaS dst forward (if forward then l.reverse else l)
    pure (if rest.isEmpty then none else some (.comma (if forward then rest.reverse else rest)))
  | .assign x a e =>
    do
      let own ← read
      if mergeAllowed own a x then do
        addDefS dst (.assign x a e) forward; pure none
      else pure (some v)
  | _ => pure (some v)

/-- merging into `s2` of the expression statement `left` that precedes it: `none` = nothing merged -/
def mergeExprLeftS (left : DE) (s2 : DS) : SM (Option (List DS)) :=
  match s2 with
  | .expr r => pure (some [.expr (commaExpr left r)])
  | .ret (some v) => pure (some [.ret (some (commaExpr left v))])
  | .throw v => pure (some [.throw (commaExpr left v)])
  | .ifS c t e => pure (some [.ifS (commaExpr left c) t e])
  | .forS w i c p b =>
    (match i with
     | .decl _ items =>
       (match refOf items with
        | some d => do
          let v ← getVD d
          if v.items.isEmpty then
            -- `forStmt.Init = left.Value`: a hoisted declaration stays a declaration node
            (match left with
             | .hdecl litems => if (refOf litems).isSome then pure (some [.forS w (.decl .var litems) c p b])
                                else pure (some [.forS w (.expr left) c p b])
             | _ => pure (some [.forS w (.expr left) c p b]))
          else do
            let rest ← mergeDeclExprS d left true
            match rest with
            | none => pure (some [s2])
            | some r => pure (some [.expr r, s2])
        | none => pure none)
     | _ => pure none)
  | .decl _ items =>
    (match refOf items with
     | some d => do
       let rest ← mergeDeclExprS d left true
       match rest with
       | none => pure (some [s2])
       | some r => pure (some [.expr r, s2])
     | none => pure none)
  | _ => pure none

/-- merging into `s2` of the declaration `left` (kind `k`, items / reference `litems`) that precedes it -/
def mergeDeclLeftS (k : DeclKind) (litems : List DE) (s2 : DS) : SM (Option (List DS)) :=
  match refOf litems with
  | none =>
    -- let / const: only adjacent declarations of the same kind
    (match s2 with
     | .decl k2 items2 => if k == k2 && (refOf items2).isNone then pure (some [.decl k (litems ++ items2)]) else pure none
     | _ => pure none)
  | some dl =>
    match s2 with
    | .decl _ items2 =>
      (match refOf items2 with
       | some dr => do
         let l ← getVD dl
         let r ← getVD dr
         setItems dr (l.items ++ r.items)
         modify (fun st => st.modify dl (fun v => { v with live := false }))
         pure (some [s2])
       | none => pure none)
    | .expr v => do
      let rest ← mergeDeclExprS dl v false
      match rest with
      | none => pure (some [.decl k litems])
      | some r => pure (some [.decl k litems, .expr r])
    | .forS w i c p b =>
      (match i with
       | .decl _ items2 =>
         (match refOf items2 with
          | some d2 => do
            let v2 ← getVD d2
            if v2.kind == .hoisted && !hasDefines v2.items then pure (some [.forS w (.decl k litems) c p b])
            else do
              mergeDeclsS dl d2 false
              modify (fun st => st.modify d2 (fun v => { v with kind := .var }))
              pure (some [.forS w (.decl k litems) c p b])
          | none => pure none)
       | _ => pure none)
    | _ => pure none

/-- one round of the `MergeIfReturnThrow` label -/
def mergeIfStep (prev cur : DS) : Option (DS × Bool) :=
  match prev with
  | .ifS c t e =>
    if isEmptyStmt t != isEmptyStmt e then
      match cur with
      | .ret none =>
        (match t, e with
         | .ret none, _ => some (.expr c, false)
         | _, .ret none => some (.expr c, false)
         | _, _ => none)
      | .ret (some v) =>
        (match t, e with
         | .ret (some l), _ => some (.ret (some (condExpr c l v)), true)
         | _, .ret (some l) => some (.ret (some (condExpr c v l)), true)
         | _, _ => none)
      | .throw v =>
        (match t, e with
         | .throw l, _ => some (.throw (condExpr c l v), true)
         | _, .throw l => some (.throw (condExpr c v l), true)
         | _, _ => none)
      | _ => none
    else none
  | _ => none

def mergeIfRet : Nat → List DS → List DS
  | 0, acc => acc
  | fuel + 1, acc =>
    match splitLast acc with
    | none => acc
    | some (init, cur) =>
      match splitLast init with
      | none => acc
      | some (init2, prev) =>
        match mergeIfStep prev cur with
        | none => acc
        | some (s, true) => mergeIfRet fuel (init2 ++ [s])
        | some (s, false) => init2 ++ [s, cur]

/-- removal of a superfluous final `return` in a function body -/
def trimReturn (acc : List DS) : List DS :=
  match splitLast acc with
  | some (init, .ret none) => init
  | some (init, .ret (some v)) =>
    if isUndefined v then init
    else match v with
      | .comma l =>
        if isUndefined (lastD l v) then
          (match l with
           | [a, _] => init ++ [.expr a]
           | _ => init ++ [.ret (some (.comma l.dropLast))])
        else acc
      | _ => acc
  | _ => acc

def swapNotFlow (c : DE) (t e : DS) : DE × DS × DS :=
  match c with
  | .not x => if isFlowStmt (lastStmt e) then (x, e, t) else (c, t, e)
  | _ => (c, t, e)

def blockItems : DS → List DS
  | .block l => l
  | s => [s]

/-- `declaresKeptNames` with `KeepVarNames`: the block declares let / const names -/
def declaresKeptNames : DS → Bool
  | .block l => !(lexNamesL l).isEmpty
  | _ => false

def elseRemoval (s0 : DS) (rest0 : List DS) : DS × List DS :=
  match s0 with
  | .ifS c t e =>
    if !isEmptyStmt e then
      let sw := swapNotFlow c t e
      if isFlowStmt (lastStmt sw.2.1) && !declaresKeptNames sw.2.2 then
        (.ifS sw.1 sw.2.1 .absent, blockItems sw.2.2 ++ rest0)
      else (.ifS sw.1 sw.2.1 sw.2.2, rest0)
    else (s0, rest0)
  | _ => (s0, rest0)

/-- the merges of the `if 0 < i` block of `optimizeStmtList` -/
def mergeAccS (acc : List DS) (s2 : DS) : SM (List DS) :=
  match splitLast acc with
  | some (init, .expr left) => do
    match ← mergeExprLeftS left s2 with
    | none => pure (acc ++ [s2])
    | some l => pure (init ++ l)
  | some (init, .decl k items) => do
    match ← mergeDeclLeftS k items s2 with
    | none => pure (acc ++ [s2])
    | some l => pure (init ++ l)
  | _ => pure (acc ++ [s2])

def optIfCore (c : DE) (t e : DS) : DS :=
  let hasIf := !isEmptyStmt t
  let hasElse := !isEmptyStmt e
  if !hasIf && !hasElse then
    if hasSideEffects c then .expr c else .empty
  else if hasIf && !hasElse then
    match t with
    | .expr v =>
      (match c with
       | .not x => .expr (.bin .lor (groupExpr x BOp.lor.left) (groupExpr v BOp.lor.right))
       | _ => .expr (.bin .land (groupExpr c BOp.land.left) (groupExpr v BOp.land.right)))
    | .ifS c2 t2 e2 =>
      if isEmptyStmt e2 then
        .ifS (.bin .land (groupExpr c BOp.land.left) (groupExpr c2 BOp.land.right)) t2 e
      else .ifS c t e
    | _ => .ifS c t e
  else if !hasIf && hasElse then
    match e with
    | .expr v => .expr (.bin .lor (groupExpr c BOp.lor.left) (groupExpr v BOp.lor.right))
    | _ => .ifS c t e
  else
    match t, e with
    | .expr xv, .expr yv => .expr (condExpr c xv yv)
    | .ret none, .ret none => .ret (some (commaExpr c .undef))
    | .ret (some a), .ret (some b) => .ret (some (condExpr c a b))
    | .throw a, .throw b => .throw (condExpr c a b)
    | _, _ => .ifS c t e

def optIf (c : DE) (t1 e1 : DS) : DS :=
  match c with
  | .not x => if !isEmptyStmt e1 then optIfCore x e1 t1 else optIfCore c t1 e1
  | _ => optIfCore c t1 e1

def isLexDecl : DS → Bool
  | .decl .let_ _ => true
  | .decl .const_ _ => true
  | _ => false

/-- what the `IfStmt` node itself looks like after `optimizeStmt` (the Go code mutates the node and returns a possibly
    different statement; `endsInIf` throws the returned one away) -/
def optIfNode (c : DE) (t1 e1 : DS) : DS :=
  let sw : DE × DS × DS := match c with
    | .not x => if !isEmptyStmt e1 then (x, e1, t1) else (c, t1, e1)
    | _ => (c, t1, e1)
  let c' := sw.1
  let t := sw.2.1
  let e := sw.2.2
  if !isEmptyStmt t && isEmptyStmt e then
    match t with
    | .ifS c2 t2 e2 =>
      if isEmptyStmt e2 then .ifS (.bin .land (groupExpr c' BOp.land.left) (groupExpr c2 BOp.land.right)) t2 e
      else .ifS c' t e
    | _ => .ifS c' t e
  else .ifS c' t e

mutual
/-- `optimizeStmt`; failure = outside the model (a block that only holds a let / const declaration) -/
def optStmt : Nat → DS → SM DS
  | 0, _ => failure
  | fuel + 1, s =>
    match s with
    | .ifS c t0 e0 => do
      let t1 ← optStmt fuel t0
      let e1 ← optStmt fuel e0
      pure (optIf c t1 e1)
    | .decl k items =>
      (match refOf items with
       | some d => do
         let v ← getVD d
         if v.kind == .hoisted then
           pure (if hasDefines v.items then .expr (hdeclRef d) else .empty)
         else pure s
       | none => pure (.decl k items))
    | .block l => do
      let l' ← optList fuel l .default
      match l' with
      | [] => pure .empty
      | [s1] => if isLexDecl s1 then failure else optStmt fuel s1
      | _ => pure (.block l')
    | s => pure s

def optLoop : Nat → List DS → List DS → SM (List DS)
  | 0, _, _ => failure
  | fuel + 1, acc, pending =>
    match pending with
    | [] => pure acc
    | s0 :: rest0 => do
      let r := elseRemoval s0 rest0
      let s2 ← optStmt fuel r.1
      if isEmptyNode s2 then optLoop fuel acc (r.2.dropWhile isEmptyNode)
      else do
        let acc1 ← mergeAccS acc s2
        optLoop fuel (mergeIfRet (acc1.length + 1) acc1) r.2

def optList : Nat → List DS → BlockType → SM (List DS)
  | 0, _, _ => failure
  | fuel + 1, l, bt => do
    let acc ← optLoop fuel [] l
    pure (if bt == .function then trimReturn acc else acc)
end

mutual
def sizeE : DE → Nat
  | .assign _ _ e => 1 + sizeE e
  | .call f a => 1 + sizeE f + sizeEL a
  | .bin _ a b => 1 + sizeE a + sizeE b
  | .not e => 1 + sizeE e
  | .typeof e => 1 + sizeE e
  | .cond c a b => 1 + sizeE c + sizeE a + sizeE b
  | .comma l => 1 + sizeEL l
  | .group e => 1 + sizeE e
  | .hdecl l => 1 + sizeEL l
  | _ => 1
def sizeEL : List DE → Nat
  | [] => 0
  | a :: t => sizeE a + sizeEL t
end

def sizeOE : Option DE → Nat
  | none => 0
  | some e => sizeE e

mutual
def sizeS : DS → Nat
  | .expr e => 1 + sizeE e
  | .decl _ items => 1 + sizeEL items
  | .ifS c t e => 1 + sizeE c + sizeS t + sizeS e
  | .block l => 1 + sizeSL l
  | .forS _ i c p b => 2 + sizeS i + sizeOE c + sizeOE p + sizeSL b
  | .ret e => 1 + sizeOE e
  | .throw e => 1 + sizeE e
  | .tryS b _ _ cb => 3 + sizeSL b + sizeSL cb
  | .fn _ _ ps body => 2 + ps.length + sizeSL body
  | .empty => 1
  | .absent => 1
def sizeSL : List DS → Nat
  | [] => 0
  | s :: t => sizeS s + sizeSL t
end

/-! ## phase 3: `minifyStmt` -/

/-- `renamer.identOrder` (character frequency order, `useAlphabetVarNames = false`) -/
def identStart : List Char := "etnsoiarclduhmfpgvbjy_wOxCEkASMFTzDNLRPHIBV$WUKqYGXQZJ".toList

def identOrder (c : Char) : Nat := if identStart.contains c then identStart.idxOf c else 0

/-- the comparison function of the `sort.SliceStable` in `minifyVarDecl` (plain variables only) -/
def declLess (a b : DE) : Bool :=
  match a, b with
  | .var x _, .var y _ =>
    (match x.toList, y.toList with
     | [c], [d] => identOrder c < identOrder d
     | _, _ => false)
  | .var _ _, _ => true
  | _, _ => false

/-- insertion of `x` at the end of the sorted prefix `l` (given reversed): the inner loop of `insertionSort` -/
def insertRev (x : DE) : List DE → List DE
  | [] => [x]
  | p :: t => if declLess x p then p :: insertRev x t else x :: p :: t

/-- `sort.SliceStable` for at most 20 elements is an insertion sort -/
def sortDecl (l : List DE) : List DE := (l.foldl (fun acc x => insertRev x acc) []).reverse

mutual
/-- number of occurrences in expressions of the variable object `rid` (through links) -/
def occE (rid : Nat) : DE → Nat
  | .var _ a => if a.root == rid then 1 else 0
  | .assign _ a e => (if a.root == rid then 1 else 0) + occE rid e
  | .postinc _ a => if a.root == rid then 1 else 0
  | .call f a => occE rid f + occEL rid a
  | .bin _ a b => occE rid a + occE rid b
  | .not e => occE rid e
  | .typeof e => occE rid e
  | .cond c a b => occE rid c + occE rid a + occE rid b
  | .comma l => occEL rid l
  | .group e => occE rid e
  | .hdecl l => occEL rid l
  | _ => 0
def occEL (rid : Nat) : List DE → Nat
  | [] => 0
  | a :: t => occE rid a + occEL rid t
end

def occOE (rid : Nat) : Option DE → Nat
  | none => 0
  | some e => occE rid e

/-- occurrences in the initialisers of declaration items (the declared names themselves do not count) -/
def occItems (rid : Nat) : List DE → Nat
  | [] => 0
  | .assign _ _ e :: t => occE rid e + occItems rid t
  | _ :: t => occItems rid t

mutual
def occS (rid : Nat) : DS → Nat
  | .expr e => occE rid e
  | .decl _ items => occItems rid items
  | .ifS c t e => occE rid c + occS rid t + occS rid e
  | .block l => occSL rid l
  | .forS _ i c p b => occS rid i + occOE rid c + occOE rid p + occSL rid b
  | .ret e => occOE rid e
  | .throw e => occE rid e
  | .tryS b _ _ cb => occSL rid b + occSL rid cb
  | .fn _ _ _ body => occSL rid body
  | _ => 0
def occSL (rid : Nat) : List DS → Nat
  | [] => 0
  | s :: t => occS rid s + occSL rid t
end

/-- `minifyParams(params, removeUnused = true)`; `none`: a trailing parameter that is only redeclared (`Uses` is not
    modelled) -/
def keptParams (ps : List (String × Ann)) (body : List DS) : Option (List String) :=
  let used := fun (p : String × Ann) => decide (0 < occSL p.2.rid body)   -- `body` is the parsed body (no references)
  let kept := (ps.reverse.dropWhile (fun p => !used p)).reverse
  let dropped := ps.drop kept.length
  if dropped.any (fun p => (varNamesL body).contains p.1) then none else some (kept.map (·.1))

def sepToks (sep : Tok) : List (List Tok) → List Tok
  | [] => []
  | [x] => x
  | x :: y :: t => x ++ sep :: sepToks sep (y :: t)

mutual
/-- replace the references to hoisted declarations inside an expression by their items -/
def resolveE (st : Store) : DE → DE
  | .assign x a e => .assign x a (resolveE st e)
  | .call f a => .call (resolveE st f) (resolveEL st a)
  | .bin op a b => .bin op (resolveE st a) (resolveE st b)
  | .not e => .not (resolveE st e)
  | .typeof e => .typeof (resolveE st e)
  | .cond c a b => .cond (resolveE st c) (resolveE st a) (resolveE st b)
  | .comma l => .comma (resolveEL st l)
  | .group e => .group (resolveE st e)
  | .hdecl items =>
    (match refOf items with
     | some d => (match st[d]? with | some v => .hdecl v.items | none => .hdecl items)
     | none => .hdecl items)
  | e => e
def resolveEL (st : Store) : List DE → List DE
  | [] => []
  | a :: t => resolveE st a :: resolveEL st t
end

/-- expression printing: the C01 model of `minifyExpr` -/
def printE (e0 : DE) (p : Prec) : SM (List Tok) := do
  let st ← get
  let e := resolveE st e0
  match (JsPrint.minGen (JsPrint.optNode false true) (8 * JsPrint.size (toE e) + 64) (toE e) p).map JsPrint.flat with
  | some t => pure t
  | none => failure

/-- `minifyBindingElement` of a declaration item -/
def printItem : DE → SM (List Tok)
  | .var x _ => pure [.ident x]
  | .assign x _ e => do
    let t ← printE e opAssign
    pure ([Tok.ident x, Tok.p "="] ++ t)
  | _ => failure

def printItems : List DE → SM (List (List Tok))
  | [] => pure []
  | a :: t => do
    let x ← printItem a
    let r ← printItems t
    pure (x :: r)

def kindWord : DeclKind → String
  | .var => "var" | .let_ => "let" | .const_ => "const" | .hoisted => ""

/-- `minifyVarDecl(decl, onlyDefines)`; empty list: nothing is written -/
def printDecl (k0 : DeclKind) (items0 : List DE) : SM (List Tok) := do
  let (k, items) ← (match refOf items0 with
    | some d => do let v ← getVD d; pure (v.kind, v.items)
    | none => pure (k0, items0) : SM (DeclKind × List DE))
  if items.isEmpty then pure [] else
  if k == .hoisted then do
    let ts ← printItems (defines items)
    pure (sepToks (.p ",") ts)
  else if 20 < items.length then failure
  else do
    let ts ← printItems (if k == .var then sortDecl items else items)
    pure (Tok.kw (kindWord k) :: sepToks (.p ",") ts)

/-- the body of a nested function (or the program) as references with its own store -/
def enterBody (body : List DS) : List DS × Store :=
  ((refL body 0).1, hoistStore (collectL isShadowedKnowsWhile [] body))

mutual
/-- `endsInIf`: re-runs `optimizeStmt` on an `if` without else, which mutates that node; the statement as it is
    afterwards is returned too -/
def endsInIf : Nat → DS → SM (Bool × DS)
  | 0, s => pure (false, s)
  | fuel + 1, s =>
    match s with
    | .ifS c t e =>
      if isEmptyStmt e then do
        let f := 4 * sizeS s + 16
        let t1 ← optStmt f t
        let e1 ← optStmt f e
        let r := optIf c t1 e1
        pure ((match r with | .ifS _ _ _ => true | _ => false), optIfNode c t1 e1)
      else do
        let r ← endsInIf fuel e
        pure (r.1, .ifS c t r.2)
    | .block l =>
      (match splitLast l with
       | some (init, s1) => do let r ← endsInIf fuel s1; pure (r.1, .block (init ++ [r.2]))
       | none => pure (false, s))
    | .forS w i c p b => do
      -- (repaired code: the body is optimized first, statements at its end may disappear)
      let b1 ← (if endsInIfOptimizesLoops then optList (4 * sizeSL b + 16) b .iteration else pure b : SM (List DS))
      match splitLast b1 with
      | some (init, s1) => do let r ← endsInIf fuel s1; pure (r.1, .forS w i c p (init ++ [r.2]))
      | none => pure (false, .forS w i c p b1)
    | _ => pure (false, s)
end

mutual
/-- `assignedByVar(stmt.Catch, v.Data)` for the catch parameter with identity `rid` somewhere in the program -/
def assignedByVarInS (x : String) (rid : Nat) : DS → Bool
  | .ifS _ t e => assignedByVarInS x rid t || assignedByVarInS x rid e
  | .block l => assignedByVarIn x rid l
  | .forS _ _ _ _ b => assignedByVarIn x rid b
  | .tryS b y a cb => (a.rid == rid && y == x && assignsVarL x cb) || assignedByVarIn x rid b || assignedByVarIn x rid cb
  | .fn _ _ _ body => assignedByVarIn x rid body
  | _ => false
def assignedByVarIn (x : String) (rid : Nat) : List DS → Bool
  | [] => false
  | s :: t => assignedByVarInS x rid s || assignedByVarIn x rid t
end

mutual
/-- `minifyStmt`: tokens written and the value of `needsSemicolon` afterwards -/
def printS (orig : List DS) : Nat → DS → SM (List Tok × Bool)
  | 0, _ => failure
  | fuel + 1, s =>
    match s with
    | .expr e => do let t ← printE e opExpr; pure (t, true)
    | .decl k items => do let t ← printDecl k items; pure (t, true)
    | .ret none => pure ([.kw "return"], true)
    | .ret (some e) => do let t ← printE e opExpr; pure ([Tok.kw "return"] ++ t, true)
    | .throw e => do let t ← printE e opExpr; pure ([Tok.kw "throw"] ++ t, true)
    | .block l => do let t ← printL orig fuel l false; pure ([Tok.p "{"] ++ t ++ [Tok.p "}"], false)
    | .empty => pure ([], false)
    | .absent => pure ([], false)
    | .fn name _ ps body =>
      let eb := enterBody body
      let sub : SM (List Tok) := do
        let body' ← optList (4 * sizeSL body + 16) eb.1 .function
        printL orig fuel body' false
      (match (sub.run (varNamesL body)).run eb.2, keptParams ps body with
       | some (t, _), some ps' =>
         pure ([Tok.kw "function", Tok.ident name, Tok.p "("] ++ sepToks (Tok.p ",") (ps'.map (fun p => [Tok.ident p]))
           ++ [Tok.p ")", Tok.p "{"] ++ t ++ [Tok.p "}"], false)
       | _, _ => failure)
    | .tryS b x a cb => do
      let b' ← optList (4 * sizeSL b + 16) b .default
      let tb ← printL orig fuel b' false
      let cb' ← optList (4 * sizeSL cb + 16) cb .default
      let tc ← printL orig fuel cb' false
      let keep := decide (0 < occSL a.rid orig) || (catchKeepsAssignedByVar && assignedByVarIn x a.rid orig)
      let bind := if keep then [Tok.p "(", Tok.ident x, Tok.p ")"] else []
      pure ([Tok.kw "try", Tok.p "{"] ++ tb ++ [Tok.p "}", Tok.kw "catch"] ++ bind ++ [Tok.p "{"] ++ tc ++ [Tok.p "}"], false)
    | .forS _ i c p b => do
      let b' ← optList (4 * sizeSL b + 16) b .iteration
      let ti ← (match i with
        | .empty => pure []
        | .expr e => printE e opLHS
        | .decl k items => printDecl k items
        | _ => failure : SM (List Tok))
      let tc ← (match c with | none => pure [] | some e => printE e opExpr : SM (List Tok))
      let tp ← (match p with | none => pure [] | some e => printE e opExpr : SM (List Tok))
      let hasLex := b'.any isLexDecl || (match b' with | [.fn _ _ _ _] => true | _ => false)
      let st ← get
      -- (repaired code) a body that is one `var` declaration which lost all its items
      let emptyDecl : Bool := emptyDeclBodyWritesSemicolon && (match b' with
        | [.decl _ items] => (match refOf items with
          | some d => (match st[d]? with | some v => v.items.isEmpty | none => false)
          | none => false)
        | _ => false)
      let tb ← (if 1 < b'.length || hasLex then do
            let t ← printL orig fuel b' false
            pure ([Tok.p "{"] ++ t ++ [Tok.p "}"], false)
          else if emptyDecl then pure ([Tok.p ";"], false)
          else match b' with
            | [s1] => printS orig fuel s1
            | _ => pure ([Tok.p ";"], false) : SM (List Tok × Bool))
      pure ([Tok.kw "for", Tok.p "("] ++ ti ++ [Tok.p ";"] ++ tc ++ [Tok.p ";"] ++ tp ++ [Tok.p ")"] ++ tb.1, tb.2)
    | .ifS c t e =>
      let hasIf := !isEmptyStmt t
      let hasElse := !isEmptyStmt e
      if !hasIf && !hasElse then pure ([], false)
      else do
        let ct ← printE c opExpr
        let head := [Tok.kw "if", Tok.p "("] ++ ct ++ [Tok.p ")"]
        let body ← (if !hasIf then pure ([], true)
          else do
            let ends ← (if hasElse then endsInIf (sizeS t + 1) t else pure (false, t))
            if ends.1 then do
              let r ← printS orig fuel ends.2
              pure ([Tok.p "{"] ++ r.1 ++ [Tok.p "}"], false)
            else printS orig fuel ends.2 : SM (List Tok × Bool))
        if hasElse then do
          let r ← printS orig fuel e
          pure (head ++ body.1 ++ (if body.2 then [Tok.p ";"] else []) ++ [Tok.kw "else"] ++ r.1, r.2)
        else pure (head ++ body.1, body.2)

def printL (orig : List DS) : Nat → List DS → Bool → SM (List Tok)
  | _, [], _ => pure []
  | 0, _ :: _, _ => failure
  | fuel + 1, s :: rest, pending => do
    let r ← printS orig fuel s
    let t ← printL orig fuel rest r.2
    pure ((if pending then [Tok.p ";"] else []) ++ r.1 ++ t)
end

/-- the tokens `(*js.Minifier{KeepVarNames: true}).Minify` writes for a program of the fragment -/
def jsTokens (prog : List DS) : Option (List Tok) :=
  let eb := enterBody prog
  let sub : SM (List Tok) := do
    let l ← optList (4 * sizeSL prog + 16) eb.1 .function
    printL prog (4 * sizeSL prog + 64) l false
  ((sub.run (varNamesL prog)).run eb.2).map (·.1)

def jsMinify (prog : List DS) : Option (List Char) := (jsTokens prog).map JsPrint.emit

/-- consistency of the two presentations of `hoistVars`: the store and the references read back give `hoistBody` -/
def hoistConsistent (body : List DS) : Bool :=
  let eb := enterBody body
  toString (repr (readL eb.2 eb.1)) == toString (repr (hoistBody body))   -- (both use `isShadowedKnowsWhile`)

mutual
def hoistConsistentS : DS → Bool
  | .ifS _ t e => hoistConsistentS t && hoistConsistentS e
  | .block l => hoistConsistentL l
  | .forS _ _ _ _ b => hoistConsistentL b
  | .tryS b _ _ cb => hoistConsistentL b && hoistConsistentL cb
  | .fn _ _ _ body => hoistConsistent body && hoistConsistentL body
  | _ => true
def hoistConsistentL : List DS → Bool
  | [] => true
  | s :: t => hoistConsistentS s && hoistConsistentL t
end

/-- checked by the driver on every program it prints (not proved) -/
def hoistConsistentAll (prog : List DS) : Bool := hoistConsistent prog && hoistConsistentL prog

end Verif.Model.JsHoist

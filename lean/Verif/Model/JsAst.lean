import Verif.Gen.JsPrecTables
import Verif.Spec.JsSyntax
/-!
# C01 — precedences of the JavaScript fragment as the Go code sees them

The syntax (`E`, `S`, operators) is `Verif.Spec.JsSyntax`.  The numeric precedences and the five precedence maps come from the regenerated `Gen.JsPrecTables`.
-/
namespace Verif.Model.JsAst
open Verif.Gen

open Verif.Spec.JsSyntax

abbrev Prec := Nat

/-- numeric value of a `js.OpPrec` constant: its index in the dependency's iota order -/
def precOf (name : String) : Prec := JsPrecTables.opPrecOrder.idxOf name

def opExpr : Prec := precOf "OpExpr"
def opAssign : Prec := precOf "OpAssign"
def opCoalesce : Prec := precOf "OpCoalesce"
def opOr : Prec := precOf "OpOr"
def opAnd : Prec := precOf "OpAnd"
def opBitOr : Prec := precOf "OpBitOr"
def opBitXor : Prec := precOf "OpBitXor"
def opBitAnd : Prec := precOf "OpBitAnd"
def opEquals : Prec := precOf "OpEquals"
def opCompare : Prec := precOf "OpCompare"
def opShift : Prec := precOf "OpShift"
def opAdd : Prec := precOf "OpAdd"
def opMul : Prec := precOf "OpMul"
def opExp : Prec := precOf "OpExp"
def opUnary : Prec := precOf "OpUnary"
def opUpdate : Prec := precOf "OpUpdate"
def opLHS : Prec := precOf "OpLHS"
def opCall : Prec := precOf "OpCall"
def opNew : Prec := precOf "OpNew"
def opMember : Prec := precOf "OpMember"
def opPrimary : Prec := precOf "OpPrimary"

/-- Go map lookup: a missing key yields the zero value `OpExpr` (= 0) -/
def lookupPrec (m : List (String × Nat)) (k : String) : Prec :=
  match m.lookup k with
  | some v => v
  | none => 0

/-- identifiers that trigger rewrites outside the modelled fragment (or are not plain variables) -/
def unmodelledNames : List String :=
  ["NaN", "Infinity", "Math", "Number", "isNaN", "let", "async", "await", "yield", "arguments", "eval",
   "this", "super", "new", "of", "get", "set", "static"]

end Verif.Model.JsAst

/-! the Go precedence maps as functions of the operators, and `exprPrec` -/
namespace Verif.Spec.JsSyntax
open Verif.Gen Verif.Model.JsAst

/-- `unaryPrecMap[op]`: precedence required of the operand -/
def UOp.argPrec (o : UOp) : Prec := lookupPrec JsPrecTables.unaryPrecMap o.tok
/-- `unaryOpPrecMap[op]`: precedence of the unary expression itself -/
def UOp.prec (o : UOp) : Prec := lookupPrec JsPrecTables.unaryOpPrecMap o.tok
/-- `binaryLeftPrecMap[op]` -/
def BOp.left (o : BOp) : Prec := lookupPrec JsPrecTables.binaryLeftPrecMap o.tok
/-- `binaryRightPrecMap[op]` -/
def BOp.right (o : BOp) : Prec := lookupPrec JsPrecTables.binaryRightPrecMap o.tok
/-- `binaryOpPrecMap[op]` -/
def BOp.prec (o : BOp) : Prec := lookupPrec JsPrecTables.binaryOpPrecMap o.tok

namespace E

/-- the parser's `precLeft` after having parsed `e` as the left part of a suffix (a parenthesised expression counts
    as primary) — decides the `Prec` field stored in `DotExpr`/`IndexExpr` -/
def memberPrec : E → Prec
  | var _ => opMember
  | lit _ => opMember
  | group _ => opMember
  | dot x _ => memberPrec x
  | index x _ => memberPrec x
  | opt _ e => memberPrec e   -- the `Optional` flag does not change the stored `Prec`
  | _ => opCall

/-- `exprPrec` of js/util.go -/
def prec : E → Prec
  | var _ => opPrimary
  | lit _ => opPrimary
  | unary op _ => op.prec
  | bin op _ _ => op.prec
  | cond _ _ _ => opAssign
  | comma _ => opExpr
  | call _ _ => opCall
  | dot x _ => memberPrec x
  | index x _ => memberPrec x
  | group x => prec x
  | opt _ e => prec e

end E

end Verif.Spec.JsSyntax

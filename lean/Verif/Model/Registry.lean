import Verif.Base.Bytes
/-!
# C15 — registry and media-type dispatch (`minify.go` `Add*`, `Match`, `Minify`, `MinifyMimetype`)

Behavioural model.  A registry is built by a *history* of registrations; a query is a media type
string.  Regular-expression semantics are not modelled: the pattern/mimetype match relation enters as
an oracle `pm : Pid → Bool` (for the fixed mimetype of the query) computed by Go's `regexp`.

`splitMediatype` is a behavioural model of the dependency function `parse.Mediatype`
(parse/v2 common.go), including its quirks: only leading *spaces* are skipped, the first three bytes
are never inspected for a separator, a space that is not followed by `;` ends the media type without
parameters.
-/
namespace Verif.Model.Registry
open Verif

/-- registration operations; `id` identifies the registered minifier, `pid` the compiled pattern -/
inductive RegOp where
  | addLit (mt : Bytes) (id : Nat)      -- Add, AddFunc, AddCmd
  | addPat (pid : Nat) (id : Nat)       -- AddRegexp, AddFuncRegexp, AddCmdRegexp
  deriving Repr, DecidableEq

/-- the registry: Go's `literal` map as an association list without duplicate keys (latest binding
    first), `pattern` slice in registration order -/
structure Reg where
  lits : List (Bytes × Nat) := []
  pats : List (Nat × Nat) := []
  deriving Repr

def Reg.empty : Reg := {}

def apply (r : Reg) : RegOp → Reg
  | .addLit mt id => { r with lits := (mt, id) :: r.lits.filter (fun e => e.1 != mt) }
  | .addPat pid id => { r with pats := r.pats ++ [(pid, id)] }

def build (h : List RegOp) : Reg := h.foldl apply Reg.empty

/-- `MinifyMimetype` / `Match`: literal lookup first, then first matching pattern in order -/
def lookup (r : Reg) (pm : Nat → Bool) (mt : Bytes) : Option Nat :=
  match r.lits.lookup mt with
  | some id => some id
  | none => (r.pats.find? (fun p => pm p.1)).map (·.2)

/-- which entry `Match` names: literal mimetype, the pattern (by pid), or nothing -/
inductive Matched where
  | lit (id : Nat) | pat (pid : Nat) (id : Nat) | none
  deriving Repr, DecidableEq

def matchEntry (r : Reg) (pm : Nat → Bool) (mt : Bytes) : Matched :=
  match r.lits.lookup mt with
  | some id => .lit id
  | none => match r.pats.find? (fun p => pm p.1) with
    | some p => .pat p.1 p.2
    | none => .none

/-! ## the 10-line reference specification of the documented rules -/

def lastLit (h : List RegOp) (mt : Bytes) : Option Nat :=
  h.reverse.findSome? (fun op => match op with
    | .addLit m id => if m == mt then some id else none
    | _ => none)

def firstPat (h : List RegOp) (pm : Nat → Bool) : Option Nat :=
  h.findSome? (fun op => match op with
    | .addPat p id => if pm p then some id else none
    | _ => none)

/-- "served by the minifier registered literally for the type if there is one (the latest
    registration wins), otherwise by the first-registered pattern that matches, otherwise none" -/
def specDispatch (h : List RegOp) (pm : Nat → Bool) (mt : Bytes) : Option Nat :=
  match lastLit h mt with
  | some id => some id
  | none => firstPat h pm

/-! ## `parse.Mediatype` -/

def dropSpaces (l : List Char) : List Char := l.dropWhile (· == ' ')

def isKeyChar (c : Char) : Bool := c != '=' && c != ';' && c != ' '
def isValChar (c : Char) : Bool := c != ';' && c != ' '

/-- parameters after a `;` (the `PARAM:` loop); fuel bounds the number of parameters -/
def params : Nat → List Char → List (List Char × List Char)
  | 0, _ => []
  | fuel + 1, t =>
    let t := dropSpaces t
    let key := t.takeWhile isKeyChar
    let t := dropSpaces (t.dropWhile isKeyChar)
    let (val, t) : List Char × List Char := match t with
      | '=' :: u =>
        let u := dropSpaces u
        (u.takeWhile isValChar, u.dropWhile isValChar)
      | _ => ([], t)
    let t := dropSpaces t
    (key, val) :: (match t with
      | ';' :: u => params fuel u
      | _ => [])

def isSep (c : Char) : Bool := c == ';' || c == ' '

/-- model of `parse.Mediatype`: (mimetype, parameters if a parameter section was recognised) -/
def splitMediatype (b : List Char) : List Char × Option (List (List Char × List Char)) :=
  let b := dropSpaces b
  let pre := b.take 3
  let rest := b.drop 3
  let head := rest.takeWhile (fun c => !isSep c)
  match rest.dropWhile (fun c => !isSep c) with
  | [] => (b, none)
  | ';' :: t => (pre ++ head, some (params (t.length + 1) t))
  | _ :: t =>
    match dropSpaces t with
    | ';' :: u => (pre ++ head, some (params (u.length + 1) u))
    | _ => (pre ++ head, none)

/-- Go map semantics of the parameter list: a later duplicate key overwrites an earlier one -/
def toMap : List (List Char × List Char) → List (List Char × List Char)
  | [] => []
  | (k, v) :: r => if r.any (fun e => e.1 == k) then toMap r else (k, v) :: toMap r

/-- the whole public call `m.Minify(mediatype, …)`: which minifier runs and with which parameters -/
structure Call where
  id : Option Nat
  mimetype : List Char
  params : List (List Char × List Char)

def minifyCall (r : Reg) (pmOf : List Char → Nat → Bool) (mediatype : List Char) : Call :=
  let (mt, ps) := splitMediatype mediatype
  { id := lookup r (pmOf mt) (charsToBytes mt), mimetype := mt, params := toMap (ps.getD []) }

def matchCall (r : Reg) (pmOf : List Char → Nat → Bool) (mediatype : List Char) : Matched × List Char × List (List Char × List Char) :=
  let (mt, ps) := splitMediatype mediatype
  (matchEntry r (pmOf mt) (charsToBytes mt), mt, toMap (ps.getD []))

def Matched.id? : Matched → Option Nat
  | .lit id => some id
  | .pat _ id => some id
  | .none => Option.none

end Verif.Model.Registry

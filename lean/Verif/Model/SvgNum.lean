/-!
# Private compact copy of the validated behavioural model of `minify.Number` (DESIGN.md Appendix B)
# and a model of `strconv.AppendFloat(f, 'g', -1, 64)` on exactly representable values

Used by the SVG path model so that `Model.SvgPath.shorten` is a closed function of the input string.
The C08 property owns `minify.Number`; the C05 theorems only use its *contract* (value preserved,
output shape), see `Props/C05.lean`, `NumContract`.  This copy is tied to `/repo` by the C05
correspondence (every printed coordinate goes through it) and by a direct `model.c05.number` sweep.
Core only.
-/
namespace Verif.Model.SvgNum

def isDig (c : Char) : Bool := '0' ≤ c && c ≤ '9'
def lenInt (x : Int) : Nat := (toString x.natAbs).length
def decStr (k : Nat) : List Char := (toString k).toList

def dropZeros : List Char → List Char
  | '0' :: r => dropZeros r
  | l => l
def dropTrailZeros (l : List Char) : List Char := (dropZeros l.reverse).reverse

/-- model of parse/v2 `strconv.ParseInt` (after the optional `+` that `Number` strips itself):
    optional sign, digits; none on no digits or int64 overflow -/
def parseExp (l : List Char) : Option Int :=
  let l := match l with | '+' :: r => r | _ => l
  let (neg, ds) := match l with | '-' :: r => (true, r) | '+' :: r => (false, r) | _ => (false, l)
  let ds := ds.takeWhile isDig
  if ds.isEmpty then none else
  let n : Nat := ds.foldl (fun a c => a * 10 + (c.toNat - 48)) 0
  if neg then (if n ≤ 2^63 then some (-(n : Int)) else none)
  else (if n < 2^63 then some (n : Int) else none)

def maxInt : Int := 2^63 - 1
def minInt : Int := -(2^63)

def incChar (c : Char) : Char := Char.ofNat (c.toNat + 1)
def dropTrail (c : Char) (l : List Char) : List Char := (l.reverse.dropWhile (· == c)).reverse

/-- carry / strip over the digits after the first position; returns (kept digits, inc still pending) -/
def incStrip (t : List Char) (inc : Bool) : List Char × Bool :=
  if inc then
    let k := dropTrail '9' t
    match k.reverse with
    | [] => ([], true)
    | c :: r => ((incChar c :: r).reverse, false)
  else (dropTrail '0' t, false)

structure Mant where
  ip : List Char
  fp : List Char
  origExp : Int

/-- precision rounding of `Number` on the trimmed mantissa (ip, fp), 0 < p -/
def roundP (m : Mant) (p : Nat) : Mant :=
  let ip := m.ip; let fp := m.fp; let ni := ip.length
  if ip.isEmpty then
    let ds := dropZeros fp
    let lz := fp.length - ds.length
    if p < ds.length then
      let inc := decide ('5' ≤ ds[p]!)
      let (t, pend) := incStrip (fp.take (lz + p)) inc
      if pend then { ip := ['1'], fp := [], origExp := m.origExp } else { m with fp := t }
    else m
  else if fp.isEmpty then
    if p < ni && 1 < (ni : Int) - p + m.origExp then
      let inc := decide ('5' ≤ ip[p]!)
      let (t, pend) := incStrip ((ip.take p).drop 1) inc
      let e := m.origExp + ((ni : Int) - (1 + t.length))
      if pend then
        if ip.head! == '9' then { ip := ['1'], fp := [], origExp := e + 1 }
        else { ip := [incChar ip.head!], fp := [], origExp := e }
      else { ip := ip.head! :: t, fp := [], origExp := e }
    else m
  else
    let n := ni + fp.length
    if p < n then
      if p ≤ ni then
        let inc := if p < ni then decide ('5' ≤ ip[p]!) else decide ('5' ≤ fp[0]!)
        let (t, pend) := incStrip ((ip.take p).drop 1) inc
        let e := m.origExp + ((ni : Int) - (1 + t.length))
        if pend then
          if ip.head! == '9' then { ip := ['1'], fp := [], origExp := e + 1 }
          else { ip := [incChar ip.head!], fp := [], origExp := e }
        else { ip := ip.head! :: t, fp := [], origExp := e }
      else
        let inc := decide ('5' ≤ fp[p - ni]!)
        let tail := ip.drop 1 ++ fp.take (p - ni)
        let (t, pend) := incStrip tail inc
        if !pend && t.length ≥ ni - 1 then
          { ip := ip.head! :: t.take (ni - 1), fp := t.drop (ni - 1), origExp := m.origExp }
        else
          let e := m.origExp + ((ni : Int) - (1 + t.length))
          if pend then
            if ip.head! == '9' then { ip := ['1'], fp := [], origExp := e + 1 }
            else { ip := [incChar ip.head!], fp := [], origExp := e }
          else { ip := ip.head! :: t, fp := [], origExp := e }
    else m

/-- behavioural model of `minify.Number(s, prec)` on inputs of the number grammar -/
def number (s : List Char) (prec : Int := 0) : List Char :=
  if s.length ≤ 1 then s else
  let neg := s.head! == '-'
  let signed := s.head! == '-' || s.head! == '+'
  let body := if signed then s.tail else s
  let mant := body.takeWhile (fun c => c != 'e' && c != 'E')
  let rest := body.dropWhile (fun c => c != 'e' && c != 'E')
  let expo : Option Int := match rest with | [] => some 0 | _ :: r => parseExp r
  match expo with
  | none => s
  | some origExp =>
  let ipart := mant.takeWhile (· != '.')
  let hasDot := mant.any (· == '.')
  let fpart := (mant.dropWhile (· != '.')).drop 1
  let mlen := mant.length
  let ipz := dropZeros ipart
  let maxDrop := mlen - 1
  let dropped := min (ipart.length - ipz.length) maxDrop
  let ip := ipart.drop dropped
  let start0 := (if signed then 1 else 0) + dropped
  let fp := dropTrailZeros fpart
  let sgn (o : List Char) := if neg then '-' :: o else o
  if hasDot && fp.isEmpty && ip.isEmpty then ['0'] else
  if (!hasDot || !fp.isEmpty) && (ip ++ (if hasDot then '.' :: fpart else [])).length == 1 && ip == ['0'] then ['0'] else
  let r : Mant := if 0 < prec then roundP { ip := ip, fp := fp, origExp := origExp } prec.toNat else { ip := ip, fp := fp, origExp := origExp }
  let ip := r.ip; let fp := r.fp; let origExp := r.origExp
  let isInt := fp.isEmpty
  let (ds, normExp0, kindA, lz) : List Char × Int × Bool × Nat :=
    if ip.isEmpty then
      let z := fp.length - (dropZeros fp).length
      (dropZeros fp, -(z : Int), true, z)
    else if isInt then
      (dropTrailZeros ip, (ip.length : Int), false, 0)
    else (ip ++ fp, (ip.length : Int), false, 0)
  let n : Int := ds.length
  if (origExp < 0 && (normExp0 < minInt - origExp || normExp0 - n < minInt - origExp)) ||
     (0 < origExp && (maxInt - origExp < normExp0 || maxInt - origExp < normExp0 - n)) then s else
  let normExp := normExp0 + origExp
  let intExp := normExp - n
  let lenIntExp := lenInt intExp
  let lenNormExp := lenInt normExp
  let hasFrac := !isInt
  if n ≤ normExp then
    let z := (normExp - n).toNat
    sgn (ds ++ (if 3 ≤ z then 'e' :: decStr z else List.replicate z '0'))
  else if normExp < -3 && lenNormExp < lenIntExp && hasFrac then
    sgn ('.' :: ds ++ 'e' :: '-' :: decStr normExp.natAbs)
  else if -(lenIntExp : Int) - 1 ≤ normExp then
    if normExp < 0 then sgn ('.' :: List.replicate normExp.natAbs '0' ++ ds)
    else sgn (ds.take normExp.toNat ++ '.' :: ds.drop normExp.toNat)
  else
    let endIdx : Int := start0 + (if kindA then 1 + lz + ds.length else if isInt then ds.length else ds.length + 1)
    let newEnd : Int := (if kindA then (start0 : Int) + n else endIdx - 1) + 2 + lenIntExp
    if newEnd < s.length then
      sgn (ds ++ 'e' :: '-' :: decStr intExp.natAbs)
    else
      let m := if kindA then '.' :: List.replicate lz '0' ++ ds else if isInt then ds else ip ++ '.' :: fp
      sgn (m ++ 'e' :: '-' :: decStr origExp.natAbs)

/-! ## `strconv.AppendFloat(f, 'g', -1, 64)` for a float64 whose exact value is the terminating decimal `q`
    with at most 15 significant digits (then the shortest round-trip digits are the digits of `q`) -/

/-- smallest `k ≤ fuel` with `den ∣ 10^k` -/
def decScale (den : Nat) : Nat → Nat → Option Nat
  | 0, _ => none
  | fuel + 1, k => if (10 ^ k) % den == 0 then some k else decScale den fuel (k + 1)

def twoDigits (e : Nat) : List Char :=
  if e < 10 then '0' :: decStr e else decStr e

/-- Go `%g` with shortest digits: `%e` form iff the decimal exponent is `< -4` or `≥ 21`…
    for `strconv` (not `fmt`) the threshold is 6 digits: `exp < -4 || exp >= 6` -/
def fmtG (q : Rat) : List Char :=
  if q == 0 then ['0'] else
  match decScale q.den 1100 0 with
  | none => ['?']
  | some k =>
    let nAbs : Nat := q.num.natAbs * (10 ^ k / q.den)
    let all := decStr nAbs
    let ds := dropTrailZeros all
    let nd := ds.length
    let dp : Int := (all.length : Int) - k
    let sgn (o : List Char) := if q.num < 0 then '-' :: o else o
    let exp := dp - 1
    if exp < -4 || 6 ≤ exp then
      let mant := if nd > 1 then ds.head! :: '.' :: ds.tail else [ds.head!]
      sgn (mant ++ 'e' :: (if exp < 0 then '-' else '+') :: twoDigits exp.natAbs)
    else
      let ipart := if 0 < dp then ds.take dp.toNat ++ List.replicate (dp.toNat - nd) '0' else ['0']
      let fpart : List Char :=
        if (nd : Int) - dp > 0 then
          '.' :: (if dp < 0 then List.replicate dp.natAbs '0' ++ ds else ds.drop dp.toNat)
        else []
      sgn (ipart ++ fpart)

end Verif.Model.SvgNum

import Verif.Base.Bytes
/-!
# C10 — the `Bytes` / `String` convenience wrappers (`minify.go`)

The minifiers rewrite token data **in place** inside the buffer they are given.  A minifier is therefore
modelled as an arbitrary function from its input buffer to (the buffer's final content, result), and the
wrapper as the choice of which buffer it hands over: a private copy or the caller's own slice.
-/
namespace Verif.Model.Api
open Verif

inductive InputMode where
  | copy    -- parse.Copy(v) / append([]byte(nil), v...)
  | conv    -- []byte(v) where v is a string: always a fresh copy
  | alias   -- the caller's slice itself
  deriving DecidableEq, Repr

def InputMode.ofString (s : String) : Option InputMode :=
  if s == "copy" then some .copy else if s == "conv" then some .conv else if s == "alias" then some .alias else none

/-- what a minifier run does: final content of the buffer it was given, and output or error -/
structure Run where
  bufAfter : Bytes
  result : Except String Bytes

/-- observable outcome of `m.Bytes(mediatype, v)` -/
structure Outcome where
  returned : Bytes          -- first return value
  err : Option String
  callerAfter : Bytes       -- content of the caller's slice after the call

def bytesCall (mode : InputMode) (retOrig : Bool) (f : Bytes → Run) (v : Bytes) : Outcome :=
  let r := f v
  let callerAfter := match mode with
    | .alias => r.bufAfter      -- the minifier worked on the caller's memory
    | _ => v
  match r.result with
  | .ok out => { returned := out, err := none, callerAfter := callerAfter }
  | .error e =>
    -- `return v, err`: the slice header of the caller's data, whose content is `callerAfter`
    { returned := if retOrig then callerAfter else r.bufAfter, err := some e, callerAfter := callerAfter }

end Verif.Model.Api

import Verif.Model.JsPrint
/-!
# C01-C — behavioural model of `optimizeStmt` / `optimizeStmtList` (js/stmtlist.go) and of `minifyStmt`

The Go loop over `list` with read index `i` and write index `j` becomes a left-to-right pass over a pending
list with an accumulator of kept statements (`left = list[i-1]` is always the last kept statement).
Fuel bounds the recursion (`optimizeStmtList` splices else-bodies into the list it is iterating over).
-/
namespace Verif.Model.JsStmt
open Verif.Spec.JsSyntax Verif.Spec.JsGrammar Verif.Model.JsAst Verif.Model.JsOpt Verif.Model.JsPrint
open Verif.Spec.JsSyntax.E Verif.Spec.JsSyntax.S

inductive BlockType where
  | default | function | iteration
deriving DecidableEq, Repr

mutual
/-- `isEmptyStmt` -/
def isEmptyStmt : S → Bool
  | .empty => true
  | .absent => true
  | .block l => isEmptyList l
  | _ => false
def isEmptyList : List S → Bool
  | [] => true
  | s :: t => isEmptyStmt s && isEmptyList t
end

/-- `isFlowStmt` (return / throw; break / continue are outside the fragment) -/
def isFlowStmt : S → Bool
  | .ret _ => true
  | .throw _ => true
  | _ => false

mutual
/-- `lastStmt` -/
def lastStmt : S → S
  | .block l => lastStmtL l (.block l)
  | s => s
def lastStmtL : List S → S → S
  | [], d => d
  | [s], _ => lastStmt s
  | _ :: y :: t, d => lastStmtL (y :: t) d
end

def isEmptyNode : S → Bool
  | .empty => true
  | _ => false

/-- merging of an expression statement `left` into the following statement (the `if 0 < i` block) -/
def mergeLeft (left : E) (s : S) : Option S :=
  match s with
  | .expr r => some (.expr (commaExprU left r))
  | .ret (some v) => some (.ret (some (commaExprU left v)))
  | .throw v => some (.throw (commaExprU left v))
  | .ifS c t e => some (.ifS (commaExprU left c) t e)
  | _ => none

def splitLast {α : Type} : List α → Option (List α × α)
  | [] => none
  | [a] => some ([], a)
  | a :: b :: t => match splitLast (b :: t) with
    | some (i, l) => some (a :: i, l)
    | none => none

/-- one round of the `MergeIfReturnThrow` label: `some acc'` if a merge happened and the label is re-entered -/
def mergeIfStep (prev cur : S) : Option (S × Bool) :=
  match prev with
  | .ifS c t e =>
    if isEmptyStmt t != isEmptyStmt e then
      match cur with
      | .ret none =>
        (match t, e with
         | .ret none, _ => some (.expr c, false)
         | _, .ret none => some (.expr c, false)
         | _, _ => none)
      | .ret (some v) =>
        (match t, e with
         | .ret (some l), _ => some (.ret (some (condExprU c l v)), true)
         | _, .ret (some l) => some (.ret (some (condExprU c v l)), true)
         | _, _ => none)
      | .throw v =>
        (match t, e with
         | .throw l, _ => some (.throw (condExprU c l v), true)
         | _, .throw l => some (.throw (condExprU c v l), true)
         | _, _ => none)
      | _ => none
    else none
  | _ => none

/-- the `MergeIfReturnThrow` loop on the kept statements (the last one is `list[j]`) -/
def mergeIfRet : Nat → List S → List S
  | 0, acc => acc
  | fuel + 1, acc =>
    match splitLast acc with
    | none => acc
    | some (init, cur) =>
      match splitLast init with
      | none => acc
      | some (init2, prev) =>
        match mergeIfStep prev cur with
        | none => acc
        | some (s, true) => mergeIfRet fuel (init2 ++ [s])       -- list[j-1] = merged; j--; goto
        | some (s, false) => init2 ++ [s, cur]                   -- list[j-1] = ExprStmt{cond}

/-- removal of a superfluous final `return` in a function body -/
def trimReturn (acc : List S) : List S :=
  match splitLast acc with
  | some (init, .ret none) => init
  | some (init, .ret (some v)) =>
    if isUndefined v then init
    else match v with
      | comma l =>
        if isUndefined (lastD l v) then
          (match l with
           | [a, _] => init ++ [.expr a]
           | _ => init ++ [.ret (some (comma l.dropLast))])
        else acc
      | _ => acc
  | _ => acc

/-- `if(!a)b;else c → if(a)c;else b` when `c` ends in a flow statement -/
def swapNotFlow (c : E) (t e : S) : E × S × S :=
  match c with
  | unary .not x => if isFlowStmt (lastStmt e) then (x, e, t) else (c, t, e)
  | _ => (c, t, e)

/-- the statements of an else branch that is put behind its `if` -/
def blockItems : S → List S
  | .block l => l
  | s => [s]

/-- if the body of an `if` ends in a flow statement (return, throw) the else branch is removed and its statements are
    put behind the `if` -/
def elseRemoval (s0 : S) (rest0 : List S) : S × List S :=
  match s0 with
  | .ifS c t e =>
    if !isEmptyStmt e then
      if isFlowStmt (lastStmt (swapNotFlow c t e).2.1) then
        (.ifS (swapNotFlow c t e).1 (swapNotFlow c t e).2.1 .absent, blockItems (swapNotFlow c t e).2.2 ++ rest0)
      else (.ifS (swapNotFlow c t e).1 (swapNotFlow c t e).2.1 (swapNotFlow c t e).2.2, rest0)
    else (s0, rest0)
  | _ => (s0, rest0)

/-- merge expression statements with expression, return, throw and if statements -/
def mergeAcc (acc : List S) (s2 : S) : List S :=
  match splitLast acc with
  | some (init, .expr left) =>
    (match mergeLeft left s2 with
     | some s => init ++ [s]
     | none => acc ++ [s2])
  | _ => acc ++ [s2]

/-- `optimizeStmt` on an `if` whose condition is not a negation to be swapped: `t`, `e` are the optimised branches -/
def optIfCore (c : E) (t e : S) : S :=
  let hasIf := !isEmptyStmt t
  let hasElse := !isEmptyStmt e
  if !hasIf && !hasElse then
    if hasSideEffects c then .expr c else .empty
  else if hasIf && !hasElse then
    match t with
    | .expr v =>
      (match c with
       | unary .not x => .expr (bin .lor (groupExpr x BOp.lor.left) (groupExpr v BOp.lor.right))
       | _ => .expr (bin .land (groupExpr c BOp.land.left) (groupExpr v BOp.land.right)))
    | .ifS c2 t2 e2 =>
      if isEmptyStmt e2 then
        .ifS (bin .land (groupExpr c BOp.land.left) (groupExpr c2 BOp.land.right)) t2 e
      else .ifS c t e
    | _ => .ifS c t e
  else if !hasIf && hasElse then
    match e with
    | .expr v => .expr (bin .lor (groupExpr c BOp.lor.left) (groupExpr v BOp.lor.right))
    | _ => .ifS c t e
  else
    match t, e with
    | .expr xv, .expr yv => .expr (condExprU c xv yv)
    | .ret none, .ret none => .ret (some (commaExprU c (unary .void (lit (.num 0)))))
    | .ret (some a), .ret (some b) => .ret (some (condExprU c a b))
    | .throw a, .throw b => .throw (condExprU c a b)
    | _, _ => .ifS c t e

/-- `optimizeStmt` on an `if` with optimised branches: `if(!a)b;else c → if(a)c;else b` first -/
def optIf (c : E) (t1 e1 : S) : S :=
  match c with
  | unary .not x => if !isEmptyStmt e1 then optIfCore x e1 t1 else optIfCore c t1 e1
  | _ => optIfCore c t1 e1

mutual
/-- `optimizeStmt` -/
def optStmt : Nat → S → S
  | 0, s => s
  | fuel + 1, s =>
    match s with
    | .ifS c t0 e0 => optIf c (optStmt fuel t0) (optStmt fuel e0)
    | .block l =>
      let l' := optStmtList fuel l .default
      (match l' with
       | [] => .empty
       | [s1] => optStmt fuel s1
       | _ => .block l')
    | s => s

/-- the main loop of `optimizeStmtList`: `acc` = kept statements, second list = statements still to read -/
def optLoop : Nat → List S → List S → List S
  | 0, acc, pending => acc ++ pending
  | fuel + 1, acc, pending =>
    match pending with
    | [] => acc
    | s0 :: rest0 =>
      let r := elseRemoval s0 rest0
      let s2 := optStmt fuel r.1
      if isEmptyNode s2 then optLoop fuel acc (r.2.dropWhile isEmptyNode)
      else
        let acc1 := mergeAcc acc s2
        optLoop fuel (mergeIfRet (acc1.length + 1) acc1) r.2

/-- `optimizeStmtList` -/
def optStmtList : Nat → List S → BlockType → List S
  | 0, l, _ => l
  | fuel + 1, l, bt =>
    let acc := optLoop fuel [] l
    if bt == .function then trimReturn acc else acc
end

mutual
def sizeS : S → Nat
  | .expr e => 1 + size e
  | .ifS c t e => 1 + size c + sizeS t + sizeS e
  | .ret none => 1
  | .ret (some e) => 1 + size e
  | .throw e => 1 + size e
  | .block l => 1 + sizeSL l
  | .fn _ _ b => 2 + sizeSL b
  | .empty => 1
  | .absent => 1
def sizeSL : List S → Nat
  | [] => 0
  | s :: t => sizeS s + sizeSL t
end

/-! ## `minifyStmt` -/

/-- `endsInIf` (re-runs `optimizeStmt` on an `if` without else, as the Go code does) -/
def endsInIf : Nat → S → Bool
  | 0, _ => false
  | fuel + 1, s =>
    match s with
    | .ifS c t e =>
      if isEmptyStmt e then (match optStmt (sizeS s + 1) (.ifS c t e) with | .ifS _ _ _ => true | _ => false)
      else endsInIf fuel e
    | .block l => (match l.getLast? with | some s1 => endsInIf fuel s1 | none => false)
    | _ => false

mutual
def mentions (n : String) : E → Bool
  | var m => m == n
  | lit _ => false
  | unary _ x => mentions n x
  | bin _ x y => mentions n x || mentions n y
  | .cond c x y => mentions n c || mentions n x || mentions n y
  | comma l => mentionsL n l
  | call f a => mentions n f || mentionsL n a
  | dot x _ => mentions n x
  | index x y => mentions n x || mentions n y
  | group x => mentions n x
  | opt a e => a == n || mentions n e
def mentionsL (n : String) : List E → Bool
  | [] => false
  | a :: t => mentions n a || mentionsL n t
end

mutual
def mentionsS (n : String) : S → Bool
  | .expr e => mentions n e
  | .ifS c t e => mentions n c || mentionsS n t || mentionsS n e
  | .ret none => false
  | .ret (some e) => mentions n e
  | .throw e => mentions n e
  | .block l => mentionsSL n l
  | .fn _ _ b => mentionsSL n b
  | .empty => false
  | .absent => false
def mentionsSL (n : String) : List S → Bool
  | [] => false
  | s :: t => mentionsS n s || mentionsSL n t
end

/-- `minifyParams(params, removeUnused = true)`: unused parameters are removed from the end -/
def keptParams (ps : List String) (body : List S) : List String :=
  (ps.reverse.dropWhile (fun p => !mentionsSL p body)).reverse

def sepToks (sep : Tok) : List Tok → List Tok
  | [] => []
  | [x] => [x]
  | x :: y :: t => x :: sep :: sepToks sep (y :: t)

structure Opts where
  ver2020 : Bool := true
  /-- `true`: undefined (`none`) on inputs under an open known finding (K-C01-1, K-C01-2) -/
  guarded : Bool := false

/-- trigger of the open known finding K-C01-1: a function body ends in `return a,b,…,undefined` with at least three
    items; `trimReturn` then drops the `undefined` and the function returns the value before it -/
def k1Trigger (acc : List S) : Bool :=
  match splitLast acc with
  | some (_, .ret (some v)) =>
    !isUndefined v && (match v with
      | comma l => isUndefined (lastD l v) && decide (3 ≤ l.length)
      | _ => false)
  | _ => false

mutual
/-- `minifyStmt`: tokens written and the value of `needsSemicolon` afterwards (it is false on entry) -/
def printS (o : Opts) : Nat → S → Option (List Tok × Bool)
  | 0, _ => none
  | fuel + 1, s =>
    let ef := fun (e : E) => (minGen (optNode o.guarded o.ver2020) (8 * size e + 64) e opExpr).map flat
    match s with
    | .expr e => (ef e).map (fun t => (t, true))
    | .ret none => some ([.kw "return"], true)
    | .ret (some e) => (ef e).map (fun t => ([Tok.kw "return"] ++ t, true))
    | .throw e => (ef e).map (fun t => ([Tok.kw "throw"] ++ t, true))
    | .block l => (printL o fuel l false).map (fun t => ([Tok.p "{"] ++ t ++ [Tok.p "}"], false))
    | .empty => some ([], false)
    | .absent => some ([], false)
    | .fn name ps body =>
      -- `minifyFuncDecl`: hoistVars is a no-op without `var`; the body is optimised as a function block
      let body' := optStmtList (4 * sizeSL body + 16) body .function
      if o.guarded && k1Trigger (optLoop (4 * sizeSL body + 15) [] body) then none else
      (printL o fuel body' false).map (fun t =>
        ([Tok.kw "function", Tok.ident name, Tok.p "("] ++ sepToks (Tok.p ",") ((keptParams ps body).map Tok.ident)
          ++ [Tok.p ")", Tok.p "{"] ++ t ++ [Tok.p "}"], false))
    | .ifS c t e =>
      let hasIf := !isEmptyStmt t
      let hasElse := !isEmptyStmt e
      if !hasIf && !hasElse then some ([], false)
      else
        match ef c with
        | none => none
        | some ct =>
          let head := [Tok.kw "if", Tok.p "("] ++ ct ++ [Tok.p ")"]
          let body : Option (List Tok × Bool) :=
            if !hasIf then some ([], true)
            else if hasElse && endsInIf (sizeS t + 1) t then
              (printS o fuel t).map (fun r => ([Tok.p "{"] ++ r.1 ++ [Tok.p "}"], false))
            else printS o fuel t
          match body with
          | none => none
          | some (bt, pend1) =>
            if hasElse then
              match printS o fuel e with
              | none => none
              | some (et, pend2) =>
                some (head ++ bt ++ (if pend1 then [Tok.p ";"] else []) ++ [Tok.kw "else"] ++ et, pend2)
            else some (head ++ bt, pend1)

/-- a statement list: `writeSemicolon` before every item -/
def printL (o : Opts) : Nat → List S → Bool → Option (List Tok)
  | _, [], _ => some []
  | 0, _ :: _, _ => none
  | fuel + 1, s :: rest, pending =>
    match printS o fuel s with
    | none => none
    | some (ts, pend) =>
      match printL o fuel rest pend with
      | none => none
      | some r => some ((if pending then [Tok.p ";"] else []) ++ ts ++ r)
end

/-- the tokens `(*js.Minifier).Minify` writes for a program of the fragment (`KeepVarNames`) -/
def jsTokens (o : Opts) (prog : List S) : Option (List Tok) :=
  let n := 4 * sizeSL prog + 16
  let l := optStmtList n prog .function
  if o.guarded && k1Trigger (optLoop (n - 1) [] prog) then none else
  printL o n l false

/-- model of `(*js.Minifier).Minify` on a program of the fragment (`KeepVarNames`), as source characters -/
def jsMinify (o : Opts) (prog : List S) : Option (List Char) := (jsTokens o prog).map emit

end Verif.Model.JsStmt

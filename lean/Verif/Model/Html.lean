import Verif.Model.HtmlAttr
import Verif.Model.Registry
/-!
# C03 — behavioural model of the token loop of `html/html.go` (`(*Minifier).Minify`)

Input: the token stream of the dependency lexer (`parse/v2/html`, by contract), as read by
`html/buffer.go` (`TokenBuffer.read`: quotes stripped from `AttrVal`, hash and traits looked up), with the
attribute / start-tag-close tokens of a start tag grouped under it.  Output: the bytes written.

Calls that leave the HTML layer are parameters:
* `sub`  — `m.MinifyMimetype(mimetype, …, params)` for embedded CSS/JS/SVG/MathML/HTML (C11): `none` models
           `ErrNotExist` (payload passes through unchanged);
* `ext`  — results of other properties' functions on the values at hand (`minify.Mediatype`: C18,
           `minify.DataURI`: C18, viewport number shortening through `minify.Number`: C08, the recursive call on
           the inside of a conditional comment), supplied by the harness from the real functions; a missing
           entry makes the model fail (`Except.error`), the case is then outside the modelled domain.

`m.URL` is `nil` (no scheme stripping), template delimiters are not configured; lexer errors other than EOF
are outside the model.
-/
namespace Verif.Model.Html
open Verif.Gen Verif.Model.HtmlAttr

structure Opts where
  keepComments : Bool := false
  keepSpecialComments : Bool := false     -- `KeepSpecialComments || KeepConditionalComments`
  keepDefaultAttrVals : Bool := false
  keepDocumentTags : Bool := false
  keepEndTags : Bool := false
  keepQuotes : Bool := false
  keepWhitespace : Bool := false
  deriving Repr, DecidableEq

/-- an `AttributeToken` as seen by html.go -/
structure Attr where
  name : List Char          -- `Text` (lower-cased by the lexer)
  val : List Char           -- `AttrVal`, delimiting quotes stripped by `TokenBuffer.read`
  data : List Char          -- `Data` (leading whitespace, name, `=`, raw value)
  tmpl : Bool := false      -- `HasTemplate`
  deriving Repr, DecidableEq

inductive HTok where
  | text (data : List Char) (tmpl : Bool)
  | startTag (name : List Char) (attrs : List Attr)   -- `Data` is `<` ++ name
  | endTag (name : List Char) (data : List Char)      -- `Text` (trailing whitespace trimmed), `Data`
  | comment (data : List Char) (text : List Char)
  | doctype
  | svg (data : List Char)
  | math (data : List Char)
  | template (data : List Char)
  deriving Repr, DecidableEq

/-! ## traits (regenerated tables) -/

def s (x : String) : List Char := x.toList

def tagTraits (name : List Char) : Nat := (C03Tables.tagMap.lookup name).getD 0
def attrTraits (name : List Char) : Nat := (C03Tables.attrMap.lookup name).getD 0
def has (traits bit : Nat) : Bool := traits / bit % 2 = 1

def isBlock (name : List Char) : Bool := has (tagTraits name) C03Tables.blockTag
def isObject (name : List Char) : Bool := has (tagTraits name) C03Tables.objectTag

/-- the name as `Hash` comparisons see it: `ToHash` answers 0 for names outside its table -/
def hashOf (name : List Char) : List Char := if C03Tables.hashNames.contains name then name else []

/-- `t.Hash == X` for a known constant `X` -/
def hashIs (name : List Char) (x : String) : Bool := name == s x

def isAllWhitespace (b : List Char) : Bool := b.all isWhitespace

def toLower (b : List Char) : List Char :=
  b.map (fun c => if 65 ≤ c.toNat && c.toNat ≤ 90 then Char.ofNat (c.toNat + 32) else c)

/-- `parse.EqualFold(s, targetLower)` -/
def equalFold (b : List Char) (target : String) : Bool := b.length = target.length && toLower b == s target
/-- `parse.EqualFold(s[:n], targetLower)` where `n = len(targetLower) ≤ len(s)` was checked -/
def hasPrefixFold (b : List Char) (target : String) : Bool :=
  target.length ≤ b.length && toLower (b.take target.length) == s target

/-! ## external results -/

/-- sub-minifier: `some f` = a minifier is registered for every media type and answers `f mimetype inline payload`;
    `none` = `ErrNotExist` -/
abbrev Sub := Option (List Char → Bool → List Char → List Char)

def callSub (sub : Sub) (mime : List Char) (inline : Bool) (payload : List Char) : List Char :=
  match sub with
  | some f => f mime inline payload
  | none => payload

/-- results of `minify.Mediatype`, `minify.DataURI`, viewport shortening, conditional-comment recursion:
    (kind, input, output) -/
abbrev Ext := List (List Char × List Char × List Char)

def callExt (ext : Ext) (kind : String) (input : List Char) : Except String (List Char) :=
  match ext.find? (fun e => e.1 == s kind && e.2.1 == input) with
  | some e => .ok e.2.2
  | none => .error ("ext missing: " ++ kind)

/-! ## look-ahead -/

/-- text branch, trim-right: is the trailing whitespace of the current text token removed? -/
def trimRight (keepWs : Bool) : List HTok → Bool
  | [] => true
  | .text d _ :: r => if isAllWhitespace d then trimRight keepWs r else false
  | .template _ :: _ => false
  | .startTag n _ :: _ => !keepWs && isBlock n
  | .svg _ :: _ => false
  | .math _ :: _ => false
  | .endTag n _ :: r =>
    if hashIs n "q" then false     -- the closing quotation mark is generated content
    else if keepWs then false else if isBlock n then true else trimRight keepWs r
  | .comment _ _ :: r => trimRight keepWs r
  | .doctype :: r => trimRight keepWs r

/-- `</p>` look-ahead: the next token that is not an all-whitespace text token decides -/
def omitPEnd : List HTok → Bool
  | [] => true
  | .text d _ :: r => if isAllWhitespace d then omitPEnd r else false
  | .endTag n _ :: _ => tagTraits n != 0 && !has (tagTraits n) C03Tables.keepPTag
  | .startTag n _ :: _ => has (tagTraits n) C03Tables.omitPTag
  | _ :: _ => false

/-- `</optgroup>` look-ahead: skip every text token and comment; omit at the end of the input, before an end tag
    other than `</option>`, or before another `<optgroup>` -/
def omitOptgroupEnd : List HTok → Bool
  | [] => true
  | .text _ _ :: r => omitOptgroupEnd r
  | .comment _ _ :: r => omitOptgroupEnd r
  | .endTag n _ :: _ => !hashIs n "option"
  | .startTag n _ :: _ => hashIs n "optgroup"
  | _ :: _ => false

def alwaysOmitEnd : List String :=
  ["thead", "tbody", "tfoot", "tr", "th", "td", "option", "dd", "dt", "li", "rb", "rt", "rtc", "rp"]

/-- the start tags before which the end tag of `h` is inferred again -/
def closesBefore (h next : List Char) : Bool :=
  if hashIs h "li" then hashIs next "li"
  else if hashIs h "dt" || hashIs h "dd" then hashIs next "dt" || hashIs next "dd"
  else if hashIs h "rb" || hashIs h "rt" || hashIs h "rtc" || hashIs h "rp" then
    hashIs next "rb" || hashIs next "rt" || hashIs next "rtc" || hashIs next "rp"
  else if hashIs h "option" then hashIs next "option" || hashIs next "optgroup"
  else if hashIs h "thead" || hashIs h "tbody" || hashIs h "tfoot" then
    hashIs next "tbody" || hashIs next "tfoot" || hashIs next "thead"
  else if hashIs h "tr" then hashIs next "tr"
  else if hashIs h "td" || hashIs h "th" then hashIs next "td" || hashIs next "th"
  else false

/-- `endTagOmittable(tb, h)`: the next token that is not whitespace text or a comment (for `option`: not any
    text or template token) is an end tag, the end of the input, or a start tag that closes `h` -/
def endTagOmittable (h : List Char) : List HTok → Bool
  | [] => true
  | .text d _ :: r => if isAllWhitespace d || hashIs h "option" then endTagOmittable h r else false
  | .comment _ _ :: r => endTagOmittable h r
  | .template _ :: r => if hashIs h "option" then endTagOmittable h r else false
  | .endTag _ _ :: _ => true
  | .startTag n _ :: _ => closesBefore h n
  | _ :: _ => false

def omitEndTag (o : Opts) (name : List Char) (rest : List HTok) : Bool :=
  !o.keepEndTags &&
  ((alwaysOmitEnd.any (hashIs name) && endTagOmittable name rest) ||
   (hashIs name "p" && omitPEnd rest) ||
   (hashIs name "optgroup" && omitOptgroupEnd rest))

/-- html/head/body (unless KeepDocumentTags) and colgroup tags without attributes are not written -/
def isDroppedTag (o : Opts) (name : List Char) : Bool :=
  (!o.keepDocumentTags && (hashIs name "html" || hashIs name "head" || hashIs name "body")) || hashIs name "colgroup"

def headBound : List String := ["script", "style", "link", "meta", "template", "noscript", "base", "title"]

/-- an attribute-less `body` start tag is written after all when the next token that is not whitespace text or a
    comment is a start tag that the parser would put into `head` -/
def keepBody : List HTok → Bool
  | [] => false
  | .text d _ :: r => if isAllWhitespace d then keepBody r else false
  | .comment _ _ :: r => keepBody r
  | .startTag n _ :: _ => headBound.any (hashIs n)
  | _ :: _ => false

/-! ## attributes -/

/-- state of an attribute during the special-casing pass: `keep = false` ⇔ `attr.Text = nil` -/
structure AttrSt where
  a : Attr
  keep : Bool := true
  name : List Char      -- `Text` (may be rewritten: content → charset)
  hash : List Char      -- as seen by `attr.Hash` comparisons
  val : List Char       -- `AttrVal`
  deriving Repr

def AttrSt.ofAttr (a : Attr) : AttrSt := { a := a, name := a.name, hash := hashOf a.name, val := a.val }

/-- `tb.Attributes(h)`: index of the last attribute with hash `h` -/
def lastIdx (as : List AttrSt) (h : String) : Option Nat :=
  let idx := (List.range as.length).filter (fun i => match as[i]? with | some x => x.hash == s h | none => false)
  idx.getLast?

def modifyAt (as : List AttrSt) (i : Nat) (f : AttrSt → AttrSt) : List AttrSt :=
  as.mapIdx (fun j x => if j = i then f x else x)

def replaceAll (b pat rep : List Char) : Nat → List Char
  | 0 => b
  | fuel + 1 =>
    match b with
    | [] => []
    | c :: r =>
      if pat.isPrefixOf b && !pat.isEmpty then rep ++ replaceAll (b.drop pat.length) pat rep fuel
      else c :: replaceAll r pat rep fuel

/-- viewport `content`: a space is removed at the start, at the end, before `,` `;` `=` or another space, and
    after a `,` `;` `=` that was written -/
def viewportSpaces : (first : Bool) → (prevOut : Option Char) → List Char → List Char
  | _, _, [] => []
  | first, prev, c :: r =>
    let sep (x : Char) : Bool := x = ',' || x = ';' || x = '='
    if c = ' ' && (first || r.isEmpty || (match r.head? with | some n => sep n || n = ' ' | none => false) ||
        (match prev with | some p => sep p | none => false)) then viewportSpaces false prev r
    else c :: viewportSpaces false (some c) r

def isTextLike (typ : List Char) : Bool :=
  ["text", "search", "tel", "url", "email", "password", "number"].any (equalFold typ)

/-- special cases for `meta`, `script`, `input`, `a` before the attributes are written -/
def specialAttrs (ext : Ext) (tag : List Char) (as : List AttrSt) : Except String (List AttrSt) :=
  if hashIs tag "meta" then
    match lastIdx as "content" with
    | none => .ok as
    | some ci => do
      let mut as := as
      match lastIdx as "http-equiv" with
      | some hi =>
        let hv := trimWhitespace ((as[hi]?.map (·.val)).getD [])
        as := modifyAt as hi (fun x => { x with val := hv })
        if (lastIdx as "charset").isNone && equalFold hv "content-type" then
          let cv ← callExt ext "mediatype" ((as[ci]?.map (·.val)).getD [])
          as := modifyAt as ci (fun x => { x with val := cv })
          if cv == s "text/html;charset=utf-8" then
            as := modifyAt as hi (fun x => { x with keep := false })
            as := modifyAt as ci (fun x => { x with name := s "charset", hash := s "charset", val := s "utf-8" })
      | none => pure ()
      match lastIdx as "name" with
      | some ni =>
        let nv := trimWhitespace ((as[ni]?.map (·.val)).getD [])
        as := modifyAt as ni (fun x => { x with val := nv })
        let cv := (as[ci]?.map (·.val)).getD []
        if equalFold nv "keywords" then
          as := modifyAt as ci (fun x => { x with val := replaceAll cv (s ", ") (s ",") (cv.length + 1) })
        else if equalFold nv "viewport" then
          let cv1 := viewportSpaces true none cv
          let cv2 ← callExt ext "viewport" cv1
          as := modifyAt as ci (fun x => { x with val := cv2 })
      | none => pure ()
      .ok as
  else if hashIs tag "script" then
    match lastIdx as "src", lastIdx as "charset" with
    | some _, some ci => .ok (modifyAt as ci (fun x => { x with keep := false }))
    | _, _ => .ok as
  else if hashIs tag "input" then
    match lastIdx as "type", lastIdx as "value" with
    | some ti, some vi =>
      let isRadio := equalFold ((as[ti]?.map (·.val)).getD []) "radio"
      let vv := (as[vi]?.map (·.val)).getD []
      if (isTextLike ((as[ti]?.map (·.val)).getD []) && vv.isEmpty) || (isRadio && equalFold vv "on") then
        .ok (modifyAt as vi (fun x => { x with keep := false }))
      else .ok as
    | _, _ => .ok as
  else if hashIs tag "a" then
    match lastIdx as "id", lastIdx as "name" with
    | some ii, some ni =>
      if (as[ii]?.map (·.val)) == (as[ni]?.map (·.val)) then .ok (modifyAt as ni (fun x => { x with keep := false }))
      else .ok as
    | _, _ => .ok as
  else .ok as


/-- the special attribute handling under the options: the `input` case is part of the default-value
removal, `else if t.Hash == Input && !o.KeepDefaultAttrVals` -/
def specialAttrsOpt (o : Opts) (ext : Ext) (tag : List Char) (as : List AttrSt) : Except String (List AttrSt) :=
  if hashIs tag "input" && o.keepDefaultAttrVals then .ok as else specialAttrs ext tag as

def isXmlAttr (hash : List Char) : Bool :=
  ["vocab", "typeof", "property", "resource", "prefix", "content", "about", "rev", "datatype", "inlist"].any (hashIs hash)

/-- is the (processed) value the default for this attribute on this tag? -/
def isDefaultAttr (tag hash val : List Char) : Bool :=
  (hashIs hash "type" &&
    ((hashIs tag "script" && C03Tables.jsMimetypes.contains (toLower val)) ||
     (hashIs tag "style" && equalFold val "text/css") ||
     (hashIs tag "link" && equalFold val "text/css") ||
     (hashIs tag "input" && equalFold val "text") ||
     (hashIs tag "button" && equalFold val "submit"))) ||
  (hashIs hash "method" && equalFold val "get") ||
  (hashIs hash "enctype" && equalFold val "application/x-www-form-urlencoded") ||
  (hashIs hash "colspan" && val == s "one") ||
  (hashIs hash "rowspan" && val == s "one") ||
  (hashIs hash "shape" && equalFold val "rect") ||
  (hashIs hash "span" && val == s "one") ||
  (hashIs hash "media" && hashIs tag "style" && equalFold val "all")

def origQuote (data : List Char) : Quote :=
  match data.getLast? with
  | some '\'' => .single
  | some '"' => .double
  | _ => .none

/-- URL attribute: lower-case an `http:` / `https:` scheme, hand `data:` URLs to `minify.DataURI` -/
def urlVal (ext : Ext) (val : List Char) : Except String (List Char) :=
  if 5 < val.length then
    if hasPrefixFold val "http" then
      match val.drop 4 with
      | c4 :: c5 :: _ =>
        if c4 = ':' then .ok (toLower (val.take 4) ++ val.drop 4)
        else if (c4 = 's' || c4 = 'S') && c5 = ':' then .ok (toLower (val.take 5) ++ val.drop 5)
        else .ok val
      | _ => .ok val
    else if hasPrefixFold val "data:" then callExt ext "datauri" val
    else .ok val
  else .ok val

def isRefChar (c : Char) : Bool := isAlnum c || c = '#' || c = ';' || c = '='

/-- `hasReferenceGlue(b)`: an `&`, then only reference characters, then directly `&#`, `&num;`, `&semi;` or
    `&equals;`.  `inRun` = we are behind an `&` and have seen reference characters only. -/
def hasGlueFrom : Bool → List Char → Bool
  | _, [] => false
  | inRun, c :: r =>
    if c = '&' then
      (inRun && (match r with
        | [] => false
        | d :: _ => d = '#' || (s "num;").isPrefixOf r || (s "semi;").isPrefixOf r || (s "equals;").isPrefixOf r)) ||
      hasGlueFrom true r
    else hasGlueFrom (inRun && isRefChar c) r

def hasReferenceGlue (b : List Char) : Bool := hasGlueFrom false b

/-- `parse.ReplaceMultipleWhitespace` -/
def collapseWs : Bool → List Char → List Char
  | _, [] => []
  | inWs, c :: r =>
    if isWhitespace c then
      if inWs then collapseWs true r else (if runHasNewline (c :: r) then '\n' else ' ') :: collapseWs true r
    else c :: collapseWs false r

/-- entity replacement and whitespace handling of an attribute value -/
def attrVal0 (trim : Bool) (val : List Char) : List Char :=
  if hasReferenceGlue val then (if trim then trimWhitespace (collapseWs false val) else val)
  else if trim then trimWhitespace (replaceWsEntities C03Tables.entitiesMap C03Tables.attrRevEntitiesMap val)
  else replaceEntities C03Tables.entitiesMap C03Tables.attrRevEntitiesMap val

/-- one attribute of the write loop: bytes written, and the new `rawTagMediatype` if this is the `type`
    attribute of a raw-text element -/
def writeAttr (o : Opts) (ext : Ext) (sub : Sub) (tag : List Char) (rawTag : List Char) (x : AttrSt) :
    Except String (List Char × Option (List Char)) :=
  if !x.keep then .ok ([], none)
  else if x.a.tmpl then .ok (x.a.data, none)
  else do
    let tr := attrTraits x.a.name   -- traits were looked up when the token was read (before any renaming)
    let val0 := attrVal0 (has tr C03Tables.trimAttr) x.val
    let finish (val : List Char) (mt : Option (List Char)) : Except String (List Char × Option (List Char)) :=
      .ok (' ' :: x.name ++
        (if !val.isEmpty && !has tr C03Tables.booleanAttr then
          '=' :: escapeAttrVal val (origQuote x.a.data) (o.keepQuotes || isXmlAttr x.hash)
         else []), mt)
    if tagTraits tag = 0 then finish val0 none
    else
      if val0.isEmpty && (hashIs x.hash "class" || hashIs x.hash "dir" || hashIs x.hash "id" || hashIs x.hash "name" ||
          (hashIs x.hash "action" && hashIs tag "form")) then .ok ([], none)
      else do
        let mt := if !rawTag.isEmpty && hashIs x.hash "type" then some val0 else none
        let val1 ←
          if hashIs x.hash "enctype" || hashIs x.hash "formenctype" || hashIs x.hash "accept" ||
             (hashIs x.hash "type" && (["a", "link", "embed", "object", "source", "script"].any (hashIs tag)))
          then callExt ext "mediatype" val0 else .ok val0
        if !o.keepDefaultAttrVals && isDefaultAttr tag x.hash val1 then .ok ([], mt)
        else if hashIs x.hash "style" then
          let v := callSub sub (s "text/css") true (trimWhitespace val1)
          if v.isEmpty then .ok ([], mt) else finish v mt
        else if 2 < x.name.length && x.name.take 2 == s "on" then
          let v0 := trimWhitespace val1
          let v1 := if 11 ≤ v0.length && hasPrefixFold v0 "javascript:" then v0.drop 11 else v0
          let v := callSub sub (s "application/javascript") true v1
          if v.isEmpty then .ok ([], mt) else finish v mt
        else if has tr C03Tables.urlAttr then do
          let v ← urlVal ext (trimWhitespace val1)
          finish v mt
        else finish val1 mt

def writeAttrs (o : Opts) (ext : Ext) (sub : Sub) (tag rawTag : List Char) :
    List AttrSt → Option (List Char) → Except String (List Char × Option (List Char))
  | [], mt => .ok ([], mt)
  | x :: xs, mt => do
    let (out, mt1) ← writeAttr o ext sub tag rawTag x
    let (outs, mt2) ← writeAttrs o ext sub tag rawTag xs (match mt1 with | some m => some m | none => mt)
    .ok (out ++ outs, mt2)

/-! ## the loop -/

structure St where
  omitSpace : Bool := true
  inPre : Bool := false
  rawTag : List Char := []                 -- `rawTagHash` (as a name; [] = 0)
  rawMediatype : List Char := []           -- `rawTagMediatype`
  dropText : Bool := false                 -- the next token is skipped if it is a text token without template
  dropEnd : Bool := false                  -- the next token (the end tag of an empty script/style) is skipped
  afterPre : Nat := 0                      -- `afterPreStart`: 1 right after `<pre>`, 2 and a comment was passed since
  docOpen : List (List Char) := []         -- `writtenDocTags` (KeepEndTags): html/head/body/colgroup start tags written, not closed yet
  deriving Repr

def isSpecialComment (text : List Char) : Bool :=
  6 < text.length && ((s "[if ").isPrefixOf text || (s "[endif]").isSuffixOf text || (s "[endif]--").isSuffixOf text)

/-- `bytes.Contains(l, p)` -/
def bytesContain (p : List Char) : List Char → Bool
  | [] => p.isEmpty
  | c :: r => p.isPrefixOf (c :: r) || bytesContain p r

def commentOut (o : Opts) (ext : Ext) (data text : List Char) : Except String (List Char) :=
  if o.keepComments then .ok data
  else if o.keepSpecialComments then
    if isSpecialComment text then
      if (s "<!--[if ").isPrefixOf data && (s "<![endif]-->").isSuffixOf data then
        let begin := (data.takeWhile (· != '>')).length + 1     -- IndexByte(data, '>') + 1 ('>' exists: suffix)
        let endp := data.length - 12
        if begin < endp then do
          let inner ← callExt ext "html" ((data.take endp).drop begin)
          -- the minified content would end the comment (`--&gt;` in an attribute value): the original stays
          if bytesContain (s "-->") inner || bytesContain (s "--!>") inner then .ok data
          else .ok (data.take begin ++ inner ++ data.drop endp)
        else .ok data
      else .ok data
    else if 1 < text.length && text.head? = some '#' then .ok data
    else .ok []
  else .ok []

def endTagBytes (name data : List Char) : List Char :=
  if 3 + name.length < data.length then data.take (2 + name.length) ++ ['>'] else data

/-- mimetype handed to the sub-minifier for the content of a raw-text element -/
def rawMime (rawTag rawMediatype : List Char) : List Char :=
  if hashIs rawTag "iframe" then s "text/html"
  else if !rawMediatype.isEmpty then (Verif.Model.Registry.splitMediatype rawMediatype).1
  else if hashIs rawTag "script" then s "application/javascript"
  else s "text/css"

/-! ### `rawTextEndsAtEnd`: the lexer's scan of a raw text element (`parse/html` `shiftRawText`, no template delimiters)

`rawEnd name mode skip pos l`: the offset at which the raw text of element `name` ends when the lexer reads `l`
(`pos` = offset of the head of `l`; the whole length at the end of the input).  `mode` 0: plain; 1: script, after
`<!--`; 2: script, after `<!--` … `<script`.  The lexer jumps over `</` + letters and `<` + letters after looking at
them; none of those bytes is `<` or `-`, so visiting them one at a time is the same.  Only the jumps over `!--` and
`->` matter (`<!-->` does not leave the escaped state): `skip`. -/

def rawLetter (c : Char) : Bool := ('a' ≤ c && c ≤ 'z') || ('A' ≤ c && c ≤ 'Z')

def rawLower (c : Char) : Char := if 'A' ≤ c && c ≤ 'Z' then Char.ofNat (c.toNat + 32) else c

/-- the letters at the head of `l`, lower-cased, are `name`: `ToHash(ToLower(letters)) == h` -/
def wordIs (name : List Char) (l : List Char) : Bool := (l.takeWhile rawLetter).map rawLower == name

def rawEnd (name : List Char) : Nat → Nat → Nat → List Char → Nat
  | _, _, pos, [] => pos
  | mode, skip + 1, pos, _ :: r => rawEnd name mode skip (pos + 1) r
  | 0, 0, pos, c :: r =>
    if c = '<' then
      if headIs (· = '/') r then
        if wordIs name (r.drop 1) then pos else rawEnd name 0 0 (pos + 1) r
      else if name = s "script" && (s "!--").isPrefixOf r then rawEnd name 1 3 (pos + 1) r
      else rawEnd name 0 0 (pos + 1) r
    else rawEnd name 0 0 (pos + 1) r
  | mode + 1, 0, pos, c :: r =>
    if c = '-' && (s "->").isPrefixOf r then rawEnd name 0 2 (pos + 1) r
    else if c = '<' then
      if headIs (· = '/') r then
        if wordIs (s "script") (r.drop 1) then
          if mode = 0 then pos else rawEnd name 1 0 (pos + 1) r
        else rawEnd name (mode + 1) 0 (pos + 1) r
      else if wordIs (s "script") r then rawEnd name 2 0 (pos + 1) r
      else rawEnd name (mode + 1) 0 (pos + 1) r
    else rawEnd name (mode + 1) 0 (pos + 1) r

/-- `rawTextEndsAtEnd(h, b)`: `<name>` + b + `</name>` is read back by the lexer as start tag, one text token that
    is exactly `b` (none when `b` is empty), end tag -/
def rawTextEndsAtEnd (name b : List Char) : Bool :=
  rawEnd name 0 0 0 (b ++ '<' :: '/' :: name ++ ['>']) == b.length

/-- content of a script/style/iframe element: the result of the sub-minifier is used only when it is read back as
    the content of the element; without a sub-minifier (`ErrNotExist`) and otherwise the original bytes stay -/
def rawTextOut (sub : Sub) (rawTag rawMediatype data : List Char) : List Char :=
  match sub with
  | none => data
  | some f =>
    let r := f (rawMime rawTag rawMediatype) false data
    if rawTextEndsAtEnd rawTag r then r else data

def updOmitSpace (o : Opts) (name : List Char) (cur : Bool) : Bool :=
  if o.keepWhitespace || isObject name then false
  else if isBlock name then true
  else cur

/-- whitespace collapsing and reference replacement of an ordinary text token -/
def textCollapsed (data : List Char) : List Char :=
  -- `<&#98;>` is the text `<b>`: decoding the reference would make it a tag
  if hasReferenceGlue data || bytesContain ['<', '&'] data then collapseWs false data
  else replaceWsEntities C03Tables.entitiesMap C03Tables.textRevEntitiesMap data

/-- the ordinary text branch: collapse whitespace and replace references, trim left if the pending-space flag is
    set, trim right by look-ahead; result: new pending-space flag and the bytes written -/
def textNormal (keepWs omitSpace : Bool) (data : List Char) (rest : List HTok) : Bool × List Char :=
  let d := textCollapsed data
  let d1 := if omitSpace && headIs isWhitespace d then d.drop 1 else d
  match d1.getLast? with
  | none => (true, [])
  | some l =>
    if isWhitespace l then
      if trimRight keepWs rest then (false, d1.dropLast) else (true, d1)
    else (false, d1)

/-- the end-tag branch (`st0`: state with the skip flag already cleared) -/
def endStep (o : Opts) (st0 : St) (name data : List Char) (rest : List HTok) : St × List Char :=
  let st1 := { st0 with rawTag := [] }
  let st2 := if hashIs name "pre" then { st1 with inPre := false } else st1
  -- with KeepEndTags the end tag of html/head/body/colgroup stays when its start tag was written
  let keepEnd := o.keepEndTags && isDroppedTag o name && st0.docOpen.contains name
  let st3 := { st2 with docOpen := if keepEnd then st0.docOpen.erase name else st0.docOpen }
  if isDroppedTag o name && !keepEnd then (st3, [])
  else
    let dt := hashIs name "option" || hashIs name "optgroup"
    if omitEndTag o name rest then
      -- the omitted end tag of an object-like element still ends it
      ({ st3 with omitSpace := if isObject name then false else st3.omitSpace, dropText := dt }, [])
    else ({ st3 with omitSpace := updOmitSpace o name st3.omitSpace, dropText := dt }, endTagBytes name data)

/-- `<script></script>` / `<style></style>` without attributes: both tags are skipped -/
def emptyRawElement (name : List Char) (attrs : List Attr) (rest : List HTok) : Bool :=
  has (tagTraits name) C03Tables.rawTag && attrs.isEmpty && (hashIs name "script" || hashIs name "style") &&
  (match rest with | .endTag _ _ :: _ => true | _ => false)

/-- start tag, state before anything is written: raw-text element bookkeeping and `inPre` -/
def startPre (st0 : St) (name : List Char) (attrs : List Attr) : St :=
  let isRaw := has (tagTraits name) C03Tables.rawTag
  let raw1 := if isRaw then name else []
  let raw2 := if isRaw && !attrs.isEmpty && hashIs name "style" &&
                 attrs.any (fun a => hashOf a.name == s "amp-boilerplate") then [] else raw1
  let st2 := { st0 with rawTag := raw2, rawMediatype := if isRaw then [] else st0.rawMediatype }
  if hashIs name "pre" then { st2 with inPre := true, afterPre := 1 } else st2

/-- start tag, state after the tag was written (`mt`: value of a `type` attribute of a raw-text element) -/
def startPost (o : Opts) (st3 : St) (name : List Char) (rest : List HTok) (mt : Option (List Char)) : St :=
  let st4 := { st3 with omitSpace := updOmitSpace o name st3.omitSpace,
                        docOpen := if o.keepEndTags && isDroppedTag o name then name :: st3.docOpen else st3.docOpen }
  let st5 := match mt with | some m => { st4 with rawMediatype := m } | none => st4
  let st6 := { st5 with dropText := hashIs name "select" || hashIs name "optgroup" }
  -- the look at the next token happens after a text token was skipped (select/optgroup)
  let rest' := if st6.dropText then (match rest with | .text _ false :: r => r | _ => rest) else rest
  let sameEnd := match rest' with | .endTag n _ :: _ => hashOf n == hashOf name | _ => false
  if tagTraits name = C03Tables.normalTag && sameEnd then { st6 with omitSpace := false } else st6

def step (o : Opts) (ext : Ext) (sub : Sub) (st : St) (t : HTok) (rest : List HTok) :
    Except String (St × List Char) :=
  if st.dropEnd then .ok ({ st with dropEnd := false }, [])   -- `tb.Shift()` twice: StartTagClose and the end tag
  else
  let st0 := { st with dropText := false, afterPre := 0 }
  match t with
  | .doctype => .ok (st0, s "<!doctype html>")
  | .comment data text => do
    let out ← commentOut o ext data text
    -- only a comment that really disappears can put the newline of the text right behind `<pre>`
    .ok ({ st0 with afterPre := if 0 < st.afterPre && out.isEmpty then 2 else 0 }, out)
  | .svg data => .ok ({ st0 with omitSpace := false }, callSub sub (s "image/svg+xml") true data)
  | .math data => .ok ({ st0 with omitSpace := false }, callSub sub (s "application/mathml+xml") false data)
  | .template data => .ok ({ st0 with omitSpace := false }, data)
  | .text data tmpl =>
    if st.dropText && !tmpl then .ok (st0, [])
    else if !st.rawTag.isEmpty && !tmpl then
      if hashIs st.rawTag "style" || hashIs st.rawTag "script" || hashIs st.rawTag "iframe" then
        .ok (st0, rawTextOut sub st.rawTag st.rawMediatype data)
      else .ok (st0, data)
    else if st.inPre then
      -- a newline directly after `<pre>` would be dropped by the parser once the comment in between is gone
      .ok (st0, if st.afterPre = 2 && headIs (fun c => c = '\n' || c = '\r') data then '\n' :: data else data)
    else
      let r := textNormal o.keepWhitespace st.omitSpace data rest
      .ok ({ st0 with omitSpace := r.1 }, r.2)
  | .endTag name data => .ok (endStep o st0 name data rest)
  | .startTag name attrs =>
    if emptyRawElement name attrs rest then .ok ({ st0 with rawTag := [], dropEnd := true }, [])
    else
      let st3 := startPre st0 name attrs
      if attrs.isEmpty && !(hashIs name "body" && keepBody rest) && isDroppedTag o name then .ok (st3, [])
      else do
        let as0 ← specialAttrsOpt o ext name (attrs.map AttrSt.ofAttr)
        let (aout, mt) ← writeAttrs o ext sub name st3.rawTag as0 none
        .ok (startPost o st3 name rest mt, '<' :: name ++ aout ++ ['>'])

def run (o : Opts) (ext : Ext) (sub : Sub) : St → List HTok → Except String (List Char)
  | _, [] => .ok []
  | st, t :: rest => do
    let (st', out) ← step o ext sub st t rest
    let outs ← run o ext sub st' rest
    .ok (out ++ outs)

/-- `(*Minifier).Minify` on a token stream -/
def htmlMinify (o : Opts) (ext : Ext) (sub : Sub) (toks : List HTok) : Except String (List Char) :=
  run o ext sub {} toks

end Verif.Model.Html

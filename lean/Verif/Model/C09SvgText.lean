import Verif.Model.Xml
/-!
# C09 (SVG documents) — behavioural model of the pieces of `/repo/svg/svg.go` that write character data, CDATA
sections and attribute values

Core Lean only; bytes are `List Char` (Latin-1).  The document loop of `svg.go` is not modelled here (branch c05b);
these are the per-token writers, with the state they depend on made explicit:

* `bwWrite` — `bracketWriter.Write`: the counter `bw.n` after a write (every byte that reaches the output goes
  through it: tags, attributes, text, the output of sub-minifiers, `printTag`), `bwTotal` — after a sequence of writes.
* `svgTextData` / `svgText` — the `TextToken` branch: `ReplaceMultipleWhitespaceAndEntities` with the XML tables
  (`Model.Xml.textRepl`), `TrimWhitespace`, `escapeCDEnd(·, bw.n)` (`Model.Xml.escCD`, the same function as in
  `xml.go`); inside a `style` element (since /repo d582c28) the sub-minifier `f` runs on a copy BEFORE `escapeCDEnd` and
  its result is used only if `isCharData` accepts it (`f` is an arbitrary function; `none` = `minify.ErrNotExist`).
* `svgCData` — the `CDATAToken` branch: inside `style` the text is replaced by the sub-minifier's output between
  `<![CDATA[` and `]]>` unless that output contains `]]>` (d582c28); then `EscapeCDATAVal` decides: text (white space collapsed and trimmed, `escapeCDEnd`)
  or the section as it is.
* `svgAttrPre` — `TokenBuffer.read` of `svg/buffer.go` for a quoted attribute value; `svgAttrWrite` — the bytes
  written for the (possibly rewritten) value: `xml.EscapeAttrVal`; `svgStyleAttr` — the `style` attribute: the
  sub-minifier's result is used only if `isCharData` accepts it.
* `isCharData` — the function of that name in `svg.go`: no `<`, every `&` starts `&name;`, `&#digits;` or `&#xhex;`.
-/
namespace Verif.Model.C09SvgText
open Verif.Gen
open Verif.Model.Xml

/-- `parse.TrimWhitespace`, right side -/
def trimEnd : List Char → List Char
  | [] => []
  | c :: r => if isWs c && r.all isWs then [] else c :: trimEnd r

/-- `parse.TrimWhitespace` -/
def trimWs (l : List Char) : List Char := trimEnd (l.dropWhile isWs)

/-- `parse.ReplaceMultipleWhitespace`: every white space run becomes one byte, LF if the run contains LF or CR, else
a space (`inRun` = the previous byte belonged to a run that was already written) -/
def collapseWs : Bool → List Char → List Char
  | _, [] => []
  | inRun, c :: r =>
    if isWs c then
      if inRun then collapseWs true r
      else (if isNewline c || (r.takeWhile isWs).any isNewline then '\n' else ' ') :: collapseWs true r
    else c :: collapseWs false r

/-- number of `]` at the end of `b` -/
def trailingBr (b : List Char) : Nat := (b.reverse.takeWhile (· == ']')).length

/-- `bracketWriter.Write(b)`: the new value of `bw.n` -/
def bwWrite (n : Nat) (b : List Char) : Nat :=
  if trailingBr b == b.length then n + b.length else trailingBr b

/-- `bw.n` after a sequence of writes -/
def bwTotal (n : Nat) (ws : List (List Char)) : Nat := ws.foldl bwWrite n

/-- `svg.go isCharData`, the bytes behind a `&`: length of the reference (with its `;`) when it is complete -/
def refLen (r : List Char) : Option Nat :=
  match r with
  | '#' :: 'x' :: r2 =>
    let ds := r2.takeWhile isHexDigit
    if ds.isEmpty then none else
    match r2.drop ds.length with
    | ';' :: _ => some (ds.length + 3)
    | _ => none
  | '#' :: r2 =>
    let ds := r2.takeWhile isDigit
    if ds.isEmpty then none else
    match r2.drop ds.length with
    | ';' :: _ => some (ds.length + 2)
    | _ => none
  | _ =>
    let nm := r.takeWhile refNameChar
    match nm with
    | [] => none
    | c :: _ =>
      if !refNameStart c then none else
      match r.drop nm.length with
      | ';' :: _ => some (nm.length + 1)
      | _ => none
where
  refNameStart (c : Char) : Bool := ('a' ≤ c && c ≤ 'z') || ('A' ≤ c && c ≤ 'Z') || c == '_' || c == ':' || 128 ≤ c.toNat
  refNameChar (c : Char) : Bool :=
    ('a' ≤ c && c ≤ 'z') || ('A' ≤ c && c ≤ 'Z') || c == '_' || c == ':' || 128 ≤ c.toNat || isDigit c || c == '-' || c == '.'

/-- `svg.go isCharData` (first argument: bytes still to skip, 0 at the call) -/
def isCharDataGo : Nat → List Char → Bool
  | _, [] => true
  | k + 1, _ :: r => isCharDataGo k r
  | 0, c :: r =>
    if c == '<' then false
    else if c == '&' then
      match refLen r with
      | some n => isCharDataGo n r
      | none => false
    else isCharDataGo 0 r

def isCharData (b : List Char) : Bool := isCharDataGo 0 b

/-- the sub-minifier's result where the host accepts it, else the data it was given -/
def subChecked (f : List Char → Option (List Char)) (x : List Char) : List Char :=
  match f x with
  | some m => if isCharData m then m else x
  | none => x

/-- `TextToken` branch before the sub-minifier: entities and white space replaced, trimmed -/
def svgTextPre (d : List Char) : List Char := trimWs (textRepl d)

/-- `TextToken` branch outside `style`: `n` = `bw.n` -/
def svgTextData (n : Nat) (d : List Char) : List Char := escCD n (svgTextPre d)

/-- bytes written by the `TextToken` branch -/
def svgText (style : Bool) (f : List Char → Option (List Char)) (n : Nat) (d : List Char) : List Char :=
  let t := svgTextPre d
  escCD n (if style && !t.isEmpty then subChecked f t else t)

def cdOpen : List Char := ['<', '!', '[', 'C', 'D', 'A', 'T', 'A', '[']
def cdClose : List Char := [']', ']', '>']

/-- `CDATAToken` branch, first part: data and text after the sub-minifier ran (inside `style`; a result that contains
`]]>` is not used) -/
def svgCDataSub (style : Bool) (f : List Char → Option (List Char)) (data txt : List Char) : List Char × List Char :=
  if style then
    match f txt with
    | some m => if hasCdEndB m then (data, txt) else (cdOpen ++ m ++ cdClose, m)
    | none => (data, txt)
  else (data, txt)
where
  /-- `bytes.Contains(·, "]]>")` -/
  hasCdEndB : List Char → Bool
    | [] => false
    | c :: r => (match c :: r with | ']' :: ']' :: '>' :: _ => true | _ => false) || hasCdEndB r

/-- text written when `EscapeCDATAVal` chooses text -/
def svgCDataText (n : Nat) (e : List Char) : List Char := escCD n (trimWs (collapseWs false e))

/-- bytes written by the `CDATAToken` branch -/
def svgCData (style : Bool) (f : List Char → Option (List Char)) (n : Nat) (data txt : List Char) : List Char :=
  let p := svgCDataSub style f data txt
  match escapeCDATAVal p.2 with
  | some e => svgCDataText n e
  | none => p.1

/-- `TokenBuffer.read` (svg/buffer.go) on the content of a quoted attribute value -/
def svgAttrPre (body : List Char) : List Char := trimWs (replWsEnt XmlTables.entities XmlTables.attrRev body)

/-- bytes written for an attribute value `v` (after the value rewrites of the attribute branch) -/
def svgAttrWrite (v : List Char) : List Char := escapeAttrVal v

/-- bytes written for a quoted `style` attribute value with content `body` (`f` = the inline CSS sub-minifier) -/
def svgStyleAttr (f : List Char → Option (List Char)) (body : List Char) : List Char :=
  svgAttrWrite (subChecked f (svgAttrPre body))

end Verif.Model.C09SvgText

import Verif.Model.Xml
/-!
# C09 (SVG documents) — behavioural model of the pieces of `/repo/svg/svg.go` that write character data, CDATA
sections and attribute values

Core Lean only; bytes are `List Char` (Latin-1).  The document loop of `svg.go` is not modelled here (branch c05b);
these are the per-token writers, with the state they depend on made explicit:

* `bwWrite` — `bracketWriter.Write`: the counter `bw.n` after a write (every byte that reaches the output goes
  through it: tags, attributes, text, the output of sub-minifiers, `printTag`), `bwTotal` — after a sequence of writes.
* `svgTextData` / `svgText` — the `TextToken` branch: `ReplaceMultipleWhitespaceAndEntities` with the XML tables
  (`Model.Xml.textRepl`), `TrimWhitespace`, `escapeCDEnd(·, bw.n)` (`Model.Xml.escCD`, the same function as in
  `xml.go`), then — inside a `style` element — the sub-minifier `f` (dependency **by contract**: an arbitrary
  function; `none` = `minify.ErrNotExist`, the data is written as it is).
* `svgCData` — the `CDATAToken` branch: inside `style` the text is replaced by the sub-minifier's output between
  `<![CDATA[` and `]]>`; then `EscapeCDATAVal` decides: text (white space collapsed and trimmed, `escapeCDEnd`)
  or the section as it is.
* `svgAttrPre` — `TokenBuffer.read` of `svg/buffer.go` for a quoted attribute value; `svgAttrWrite` — the bytes
  written for the (possibly rewritten) value: `xml.EscapeAttrVal`.
-/
namespace Verif.Model.C09SvgText
open Verif.Gen
open Verif.Model.Xml

/-- `parse.TrimWhitespace`, right side -/
def trimEnd : List Char → List Char
  | [] => []
  | c :: r => if isWs c && r.all isWs then [] else c :: trimEnd r

/-- `parse.TrimWhitespace` -/
def trimWs (l : List Char) : List Char := trimEnd (l.dropWhile isWs)

/-- `parse.ReplaceMultipleWhitespace`: every white space run becomes one byte, LF if the run contains LF or CR, else
a space (`inRun` = the previous byte belonged to a run that was already written) -/
def collapseWs : Bool → List Char → List Char
  | _, [] => []
  | inRun, c :: r =>
    if isWs c then
      if inRun then collapseWs true r
      else (if isNewline c || (r.takeWhile isWs).any isNewline then '\n' else ' ') :: collapseWs true r
    else c :: collapseWs false r

/-- number of `]` at the end of `b` -/
def trailingBr (b : List Char) : Nat := (b.reverse.takeWhile (· == ']')).length

/-- `bracketWriter.Write(b)`: the new value of `bw.n` -/
def bwWrite (n : Nat) (b : List Char) : Nat :=
  if trailingBr b == b.length then n + b.length else trailingBr b

/-- `bw.n` after a sequence of writes -/
def bwTotal (n : Nat) (ws : List (List Char)) : Nat := ws.foldl bwWrite n

/-- `TextToken` branch up to `escapeCDEnd`: `n` = `bw.n` -/
def svgTextData (n : Nat) (d : List Char) : List Char := escCD n (trimWs (textRepl d))

/-- bytes written by the `TextToken` branch -/
def svgText (style : Bool) (f : List Char → Option (List Char)) (n : Nat) (d : List Char) : List Char :=
  let t := svgTextData n d
  if style && !t.isEmpty then (match f t with | some m => m | none => t) else t

def cdOpen : List Char := ['<', '!', '[', 'C', 'D', 'A', 'T', 'A', '[']
def cdClose : List Char := [']', ']', '>']

/-- `CDATAToken` branch, first part: data and text after the sub-minifier ran (inside `style`) -/
def svgCDataSub (style : Bool) (f : List Char → Option (List Char)) (data txt : List Char) : List Char × List Char :=
  if style then
    match f txt with
    | some m => (cdOpen ++ m ++ cdClose, m)
    | none => (data, txt)
  else (data, txt)

/-- text written when `EscapeCDATAVal` chooses text -/
def svgCDataText (n : Nat) (e : List Char) : List Char := escCD n (trimWs (collapseWs false e))

/-- bytes written by the `CDATAToken` branch -/
def svgCData (style : Bool) (f : List Char → Option (List Char)) (n : Nat) (data txt : List Char) : List Char :=
  let p := svgCDataSub style f data txt
  match escapeCDATAVal p.2 with
  | some e => svgCDataText n e
  | none => p.1

/-- `TokenBuffer.read` (svg/buffer.go) on the content of a quoted attribute value -/
def svgAttrPre (body : List Char) : List Char := trimWs (replWsEnt XmlTables.entities XmlTables.attrRev body)

/-- bytes written for an attribute value `v` (after the value rewrites of the attribute branch) -/
def svgAttrWrite (v : List Char) : List Char := escapeAttrVal v

end Verif.Model.C09SvgText

import Verif.Spec.Scope
import Verif.Gen.JsKeywords
import Verif.Gen.RenameSites
/-!
# C02 — the identifier renamer (`js/vars.go`: `newRenamer`, `getName`, `isReserved`, `renameScope`)

Behavioural model (core Lean only).

* `getName start cont index` — the `index`-th generated name.  Go: the 54 one-character names first, then
  for `n = 2, 3, …` blocks of `54·64^(n-1)` names; inside a block the residual index is written in mixed
  radix, **least significant digit first**: `name[0] = identStart[r % 54]`, then `name[i] =
  identContinue[(r / 54 / 64^(i-1)) % 64]`.  The model takes the radices from the lengths of the two
  alphabets (Go panics in `newRenamer` unless they are 54 and 64; `alphabets_lengths` below in Props).
* `isReserved kw und name` — `1 < len(name)` and a keyword, or equal to the (current) name of one of the
  scope's undeclared variables.
* `renameScope` — one call of `renamer.renameScope`: with renaming on, the declared variables receive, in the
  order in which they stand after the sort, the names `getName 0, 1, 2, …` skipping reserved ones.
  Go's `sort.Sort` is not stable; the permutation it applied (`order`, reported by the hook) is an *input*
  of the model and `validOrder` says which permutations a correct sort may produce.
* `renameForest` — the traversal: every scope is renamed when the printer enters it, parents before children,
  siblings in source order; `Var.Data` is shared, so the state is a naming `VarId → Name`.
* `computeFlags` — how `renamer.rename` is derived from `KeepVarNames` and the parser's `HasWith`.
* `printProp` — `minifyProperty` / `minifyBinding` for a shorthand property or object-pattern element.

Dependencies modelled by contract: scope analysis of `parse/v2/js` (`Spec.Scope.wfForest`), `sort.Sort`
(`validOrder`), the keyword table `js.Keywords` (regenerated: `Verif.Gen.JsKeywords`).
-/
namespace Verif.Model.Rename
open Verif.Spec.Scope

/-- the two alphabets and the reserved words of a `renamer` -/
structure Cfg where
  start : List Char
  cont : List Char
  keywords : List Name
  deriving Repr

/-- `useCharFreq = true` (what the public API always uses); alphabets and keywords are regenerated from the
    sources on every run (`Verif.Gen.RenameSites`, `Verif.Gen.JsKeywords`) -/
def freqCfg : Cfg :=
  { start := Verif.Gen.RenameSites.freqStart, cont := Verif.Gen.RenameSites.freqCont,
    keywords := Verif.Gen.JsKeywords.keywords }
/-- `useCharFreq = false` (`useAlphabetVarNames`, only settable from inside package `js`) -/
def alphaCfg : Cfg :=
  { start := Verif.Gen.RenameSites.alphaStart, cont := Verif.Gen.RenameSites.alphaCont,
    keywords := Verif.Gen.JsKeywords.keywords }

/-! ## getName -/

/-- `k` continue characters, least significant first -/
def contDigits (cont : List Char) : Nat → Nat → List Char
  | 0, _ => []
  | k + 1, x => cont.getD (x % cont.length) '?' :: contDigits cont k (x / cont.length)

/-- the name with `k` continue characters and residual index `r` -/
def encode (start cont : List Char) (k r : Nat) : Name :=
  start.getD (r % start.length) '?' :: contDigits cont k (r / start.length)

/-- skip the blocks of names that are too short: block `k` has `|start|·|cont|^k` names -/
def getNameAux (start cont : List Char) : Nat → Nat → Nat → Name
  | 0, k, index => encode start cont k index
  | fuel + 1, k, index =>
    if index < start.length * cont.length ^ k then encode start cont k index
    else getNameAux start cont fuel (k + 1) (index - start.length * cont.length ^ k)

def getName (start cont : List Char) (index : Nat) : Name :=
  getNameAux start cont (index + 1) 0 index

/-! ## isReserved -/

def isReserved (keywords undeclared : List Name) (name : Name) : Bool :=
  (decide (1 < name.length) && keywords.contains name) || undeclared.contains name

/-! ## renameScope -/

/-- first index `≥ i` whose name is not reserved (Go: the `for r.isReserved(…)` loop; the fuel
    `|keywords| + |undeclared| + 1` always suffices, see `nextFree_not_reserved`) -/
def nextFree (c : Cfg) (und : List Name) : Nat → Nat → Nat
  | 0, i => i
  | fuel + 1, i =>
    if isReserved c.keywords und (getName c.start c.cont i) then nextFree c und fuel (i + 1) else i

/-- indices handed out to `n` variables, starting the search at index `i` -/
def assignIdx (c : Cfg) (und : List Name) : Nat → Nat → List Nat
  | 0, _ => []
  | n + 1, i =>
    let j := nextFree c und (c.keywords.length + und.length + 1) i
    j :: assignIdx c und n (j + 1)

/-- the names handed out to `n` variables, in order -/
def newNames (c : Cfg) (und : List Name) (n : Nat) : List Name :=
  (assignIdx c und n 0).map (getName c.start c.cont)

/-- input of one `renameScope` call, as recorded by the hook -/
structure ScopeIn where
  declared : List (Name × Nat)   -- (name, uses) of `scope.Declared` before the call
  numArgs : Nat                  -- `scope.NumFuncArgs`
  undeclared : List Name         -- resolved current names of `scope.Undeclared`
  order : List Nat               -- position after the sort ↦ index before the call
  deriving Repr

def sortedDesc : List Nat → Bool
  | a :: b :: r => decide (b ≤ a) && sortedDesc (b :: r)
  | _ => true

/-- the permutations a correct `sort.Sort(VarsByUses(Declared[NumFuncArgs:]))` may produce: a permutation of
    the indices that fixes the arguments and lists the rest by descending use count (ties in any order) -/
def validOrder (uses : List Nat) (numArgs : Nat) (order : List Nat) : Bool :=
  order.length == uses.length
  && (List.range uses.length).all (fun k => order.contains k)
  && order.take numArgs == List.range (min numArgs uses.length)
  && sortedDesc ((order.drop numArgs).map (fun k => uses.getD k 0))

/-- `renameScope`: the list `scope.Declared` after the call as (index before the call, name after the call) -/
def renameScope (c : Cfg) (rename : Bool) (s : ScopeIn) : List (Nat × Name) :=
  if rename then s.order.zip (newNames c s.undeclared s.declared.length)
  else (List.range s.declared.length).zip (s.declared.map (·.1))

/-! ## the traversal -/

/-- update a naming from an association list (first binding wins) -/
def assign (ν : Naming) (pairs : List (VarId × Name)) : Naming :=
  fun v => match pairs.lookup v with
    | some n => n
    | none => ν v

/-- the bindings one `renameScope` call makes; `i.declared` is in hand-out order (after the sort) -/
def stepPairs (c : Cfg) (ν : Naming) (i : Info) : List (VarId × Name) :=
  if i.rename then i.declared.zip (newNames c (i.undeclared.map ν) i.declared.length) else []

/-- the renamer enters one scope -/
def step (c : Cfg) (ν : Naming) (i : Info) : Naming := assign ν (stepPairs c ν i)

/-- parents first, then the children, then the following siblings -/
def renameForest (c : Cfg) (ν : Naming) : Forest → Naming
  | .nil => ν
  | .node i ch sib => renameForest c (renameForest c (step c ν i) ch) sib

def renameTree (c : Cfg) (ν : Naming) (t : Tree) : Naming := renameForest c ν t.toForest

/-! ## the rename flag (`renamer.rename`)

Before anything is printed, `Minify` walks the AST (`withVisitor`, fix f7bc618): every function scope — and the
global scope — that encloses a function containing `with` is marked `HasWith` as well.  Then
`newRenamer(!o.KeepVarNames && !ast.Scope.HasWith, …)` sets the flag for the top level (fix ce69f48);
`minifyFuncDecl`, `minifyMethodDecl` and `minifyArrowFunc` set it to `!decl.Body.Scope.HasWith && !m.o.KeepVarNames`
for their body and restore it afterwards; every other scope inherits the current value. -/

/-- some function scope of the forest carries the parser's `HasWith` mark -/
def anyWith : Forest → Bool
  | .nil => false
  | .node i ch sib => (i.isFunc && i.hasWith) || anyWith ch || anyWith sib

def computeFlags (keep : Bool) (cur : Bool) : Forest → Forest
  | .nil => .nil
  | .node i ch sib =>
    let r := if i.isFunc then !(i.hasWith || anyWith ch) && !keep else cur
    .node { i with rename := r } (computeFlags keep r ch) (computeFlags keep cur sib)

/-- the global scope is never handed to `renameScope`; its children start with
    `!KeepVarNames && !(HasWith of the global scope after the pre-pass)` -/
def Tree.withFlags (keep : Bool) (t : Tree) : Tree :=
  { root := { t.root with rename := false },
    children := computeFlags keep (!keep && !(t.root.hasWith || anyWith t.children)) t.children }

/-! ## shorthand properties / object patterns -/

/-- `minifyProperty` (`{a}` in an object literal) and `minifyBinding` (`{a}` in a pattern) for a property
    whose value is a plain variable: `keyIsIdent` says the key is an identifier token, `key` its text,
    `value` the current (possibly new) name of the variable -/
def printProp (keyIsIdent : Bool) (key value : Name) : List Char :=
  if keyIsIdent && key == value then value else key ++ ':' :: value

/-- split at the first colon -/
def splitColon : List Char → List Char × Option (List Char)
  | [] => ([], none)
  | ch :: r =>
    if ch == ':' then ([], some r)
    else match splitColon r with
      | (k, v) => (ch :: k, v)

/-- reader used to state the property: splits `key:value`, a text without colon is a shorthand -/
def readProp (s : List Char) : Name × Name :=
  match splitColon s with
  | (k, some v) => (k, v)
  | (k, none) => (k, k)

end Verif.Model.Rename

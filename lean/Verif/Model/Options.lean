/-!
# C16 — options: the ECMAScript version gate (`js/js.go` `minVersion`) as a decision model

A *feature* is a piece of syntax with the edition that introduced it.  The minifier has a fixed set
of rewrites that can introduce a feature the input did not use; each is guarded by
`minVersion(edition)` (the property shorthand since 2252d4e, former K-C16-3).
`emits` says when the output uses a feature.
-/
namespace Verif.Model.Options

inductive Feature where
  | templateLiteral    -- ES2015: '…\n…' printed as `…` with raw newlines
  | propertyShorthand  -- ES2015: {a:a} printed as {a}
  | exponent           -- ES2016: Math.pow(a,b) printed as a**b
  | optionalCatch      -- ES2019: catch(e){…} with unused e printed as catch{…}
  | nullish            -- ES2020: a==null?b:a printed as a??b
  | optionalChain      -- ES2020: a==null?undefined:a.b printed as a?.b
  deriving DecidableEq, Repr

def Feature.since : Feature → Nat
  | .templateLiteral => 2015
  | .propertyShorthand => 2015
  | .exponent => 2016
  | .optionalCatch => 2019
  | .nullish => 2020
  | .optionalChain => 2020

/-- `(o *Minifier) minVersion(version)`: `o.Version == 0 || version <= o.Version` -/
def minVersion (target : Nat) (v : Nat) : Bool := target == 0 || v ≤ target

/-- the guard literal at the rewrite site of a feature (the regenerated facts `Gen.JsVersionGates` must show exactly
    these) -/
def guardOf : Feature → Nat
  | .templateLiteral => 2015
  | .propertyShorthand => 2015
  | .exponent => 2016
  | .optionalCatch => 2019
  | .nullish => 2020
  | .optionalChain => 2020

/-- does the rewrite that introduces `f` fire for this target? -/
def gatePasses (target : Nat) (f : Feature) : Bool := minVersion target (guardOf f)

/-- does the output use feature `f`?  Either the input already did (printed through), or the rewrite
    that introduces it is applicable and its guard passes -/
def emits (target : Nat) (f : Feature) (inputHas rewriteApplicable : Bool) : Bool :=
  inputHas || (rewriteApplicable && gatePasses target f)

end Verif.Model.Options

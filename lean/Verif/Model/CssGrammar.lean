import Verif.Spec.CssGrammarEv
/-!
# Behavioural model of the grammar walk of `/repo/css/css.go`

`minifyGrammar decl evs` = the bytes `(*cssMinifier).minifyGrammar` writes for the grammar-event stream `evs` that
`css.Parser.Next()` / `Values()` of the dependency deliver (**by contract**: the harness obtains the stream from the
real parser).  `decl prop values` stands for the bytes `minifyDeclaration` writes after `prop:` (models:
`Verif.Model.Css` and `Verif.Model.CssShorthand`; a parameter here, so that the theorems about the walk hold for
every declaration minifier).

* `walk` — the loop with its `semicolonQueued` state: end events write `}` and clear the queue, a parse error
  writes a queued `;`, then its tokens (a trailing `;` is queued instead of written), everything else writes a
  queued `;` first; at-rule statements, declarations and custom properties queue one.
* `selToks` — `minifySelectors`: identifiers outside attribute selectors are lower-cased unless they follow a `.`;
  inside `[…]` a string whose content `css.IsIdent` accepts is written without quotes, a one-letter identifier
  `i`/`I` is preceded by a space.
* `importURL` — the `@import url(x)` → `@import "x"` rewrite, index-faithful (single-character URLs included).
* `bangComment`, `customValue`, `collapseWs`, `trimWs` — comments and custom properties
  (`parse.ReplaceMultipleWhitespace`, `parse.TrimWhitespace` of the dependency, by behaviour).
-/
namespace Verif.Model.CssGrammar
open Verif.Spec.CssValue (TT Tok lower)
open Verif.Spec.CssGrammar

/-- `parse.IsWhitespace`: space, TAB, LF, FF, CR -/
def isWs (c : Char) : Bool := c == ' ' || c == '\t' || c == '\n' || c == '\r' || c == Char.ofNat 12
/-- `parse.IsNewline` -/
def isNewline (c : Char) : Bool := c == '\n' || c == '\r'

/-- `parse.TrimWhitespace` -/
def trimWs (b : List Char) : List Char := ((b.dropWhile isWs).reverse.dropWhile isWs).reverse

/-- `parse.ReplaceMultipleWhitespace`: every white-space run becomes one byte, LF if the run has LF or CR, else a
space.  The `Nat` = number of leading bytes to skip (0 at the call). -/
def collapseAux : Nat → List Char → List Char
  | _, [] => []
  | skip + 1, _ :: r => collapseAux skip r
  | 0, c :: r =>
    if isWs c then
      (if isNewline c || (r.takeWhile isWs).any isNewline then '\n' else ' ') ::
        collapseAux (r.takeWhile isWs).length r
    else c :: collapseAux 0 r

def collapseWs (b : List Char) : List Char := collapseAux 0 b

/-! ## `css.IsIdent` (dependency lexer: `consumeIdentToken`, `consumeEscape`) -/

def isHex (c : Char) : Bool := ('0' ≤ c && c ≤ '9') || ('a' ≤ c && c ≤ 'f') || ('A' ≤ c && c ≤ 'F')
def isNameStart (c : Char) : Bool := ('a' ≤ c && c ≤ 'z') || ('A' ≤ c && c ≤ 'Z') || c == '_' || c.toNat ≥ 0x80
def isNameChar (c : Char) : Bool := isNameStart c || ('0' ≤ c && c ≤ '9') || c == '-'

/-- `consumeEscape` on the bytes behind a backslash: `none` = not an escape (newline or end of input), else the rest.
Up to six hex digits and one white-space byte, or any other single byte (a UTF-8 sequence of a lead byte ≥ 0xC0 is
consumed whole; its continuation bytes are name bytes anyway). -/
def afterEscape (r : List Char) : Option (List Char) :=
  match r with
  | [] => none
  | c :: r' =>
    if c == '\n' || c == '\r' || c == Char.ofNat 12 then none
    else if isHex c then
      let hs := (r'.takeWhile isHex).take 5
      let r2 := r'.drop hs.length
      match r2 with
      | w :: r3 => if isWs w then some r3 else some r2
      | [] => some []
    else if c == Char.ofNat 0 && r'.isEmpty then none
    else some r'

/-- the loop of `consumeIdentToken` after the first code point: rest after the identifier -/
def identRest : Nat → List Char → List Char
  | 0, s => s
  | _ + 1, [] => []
  | fuel + 1, c :: r =>
    if isNameChar c then identRest fuel r
    else if c == '\\' then
      match afterEscape r with
      | some r' => identRest fuel r'
      | none => c :: r
    else c :: r

/-- `css.IsIdent` -/
def isIdent (b : List Char) : Bool :=
  let b' := match b with | '-' :: r => r | _ => b
  match b' with
  | [] => false
  | c :: r =>
    if isNameStart c then (identRest (r.length + 1) r).isEmpty
    else if c == '\\' then
      match afterEscape r with
      | some r' => (identRest (r'.length + 1) r').isEmpty
      | none => false
    else false

/-! ## minifySelectors -/

def wsTok : Tok := .mk .whitespace [' '] []

/-- the tokens `minifySelectors` writes for the selector tokens `ts` (`inAttr`, `isClass` = its two flags) -/
def selGo (inAttr isClass : Bool) : List Tok → List Tok
  | [] => []
  | t :: r =>
    if !inAttr then
      if t.tt == .ident then
        .mk .ident (if isClass then t.data else lower t.data) [] :: selGo false false r
      else if t.tt == .delim && t.data.head? == some '.' then t :: selGo false true r
      else if t.tt == .leftBracket then t :: selGo true isClass r
      else t :: selGo false isClass r
    else
      if t.tt == .string && 2 < t.data.length && isIdent ((t.data.drop 1).dropLast) then
        .mk .ident ((t.data.drop 1).dropLast) [] :: selGo true isClass r
      else if t.tt == .string && 2 < t.data.length then t :: selGo true isClass r
      else if t.tt == .rightBracket then t :: selGo false isClass r
      else if t.tt == .ident && t.data.length == 1 && (t.data.head? == some 'i' || t.data.head? == some 'I') then
        wsTok :: t :: selGo true isClass r
      else t :: selGo true isClass r

def selToks (ts : List Tok) : List Tok := selGo false false ts

def lexemes (ts : List Tok) : List Char := ts.flatMap (·.data)

/-- bytes written by `minifySelectors` -/
def selBytes (ts : List Tok) : List Char := lexemes (selToks ts)

/-! ## at-rule preludes -/

/-- the rewritten lexeme of the URL token of `@import url(…)` (`4 < len`, ends with `)`) -/
def importURL (url : List Char) : List Char :=
  let c4 := url.getD 4 ' '
  if c4 != '"' && c4 != '\'' then
    let inner := (url.drop 4).dropLast
    -- `a` stops at the first byte that is not white space (at the latest at the closing parenthesis),
    -- `b` walks back from the last byte of the content but not below `a`
    let lead := (inner.takeWhile isWs).length
    let content := inner.drop lead
    let trail := (content.reverse.takeWhile isWs).length
    let core := content.take (content.length - trail)
    -- a == b (one byte of content left) gives `""` like the empty URL
    if core.length ≤ 1 then ['"', '"'] else '"' :: core ++ ['"']
  else (url.drop 4).dropLast

/-- prelude tokens of an at-rule statement as written (`data` = lower-cased at-keyword) -/
def atPrelude (data : List Char) (vals : List Tok) : List Tok :=
  match vals with
  | [w, u] =>
    if data == "@import".toList && u.tt == .url && 4 < u.data.length && u.data.getLast? == some ')' then
      [w, .mk .url (importURL u.data) []]
    else vals
  | _ => vals

/-! ## comments, custom properties -/

/-- bytes written for a comment event -/
def commentBytes (data : List Char) : List Char :=
  if 5 < data.length && data.getD 1 ' ' == '*' && data.getD 2 ' ' == '!' then
    data.take 3 ++ trimWs (collapseWs ((data.drop 3).take (data.length - 5))) ++ data.drop (data.length - 2)
  else if 5 < data.length && (data.getD 2 ' ' == '#' || data.getD 2 ' ' == '@') then data
  else []

/-- value bytes written for a custom property -/
def customValue (raw : List Char) : List Char :=
  if !raw.isEmpty && (trimWs raw).isEmpty then [' '] else trimWs raw

/-! ## the walk -/

/-- the declaration minifier as a parameter: bytes after `prop:` -/
abbrev DeclFn := List Char → List Tok → List Char

/-- drop a final semicolon token -/
def dropSemi (vals : List Tok) : List Tok :=
  match vals.getLast? with
  | some t => if t.tt == .semicolon then vals.dropLast else vals
  | none => vals

def endsSemi (vals : List Tok) : Bool :=
  match vals.getLast? with
  | some t => t.tt == .semicolon
  | none => false

/-- does the event queue a semicolon? -/
def queues (e : Ev) : Bool := e.gt == .atRule || e.gt == .declaration || e.gt == .customProperty

/-- bytes written for an event that is neither an end nor an error event (without a queued `;`) -/
def evBytes (decl : DeclFn) (e : Ev) : List Char :=
  match e.gt with
  | .atRule => e.data ++ lexemes (atPrelude e.data e.vals)
  | .beginAtRule => e.data ++ lexemes e.vals ++ ['{']
  | .qualifiedRule => selBytes e.vals ++ [',']
  | .beginRuleset => selBytes e.vals ++ ['{']
  | .declaration => e.data ++ ':' :: decl e.data e.vals
  | .customProperty => e.data ++ ':' :: customValue ((e.vals.head?.map (·.data)).getD [])
  | .comment => commentBytes e.data
  | _ => e.data

/-- the loop of `minifyGrammar`; `q` = `semicolonQueued` -/
def walk (decl : DeclFn) : Bool → List Ev → List Char
  | _, [] => []
  | q, e :: r =>
    if e.gt == .error then
      (if q then [';'] else []) ++ lexemes (dropSemi e.vals) ++ walk decl (q || endsSemi e.vals) r
    else if e.isClose then '}' :: walk decl false r
    else (if q then [';'] else []) ++ evBytes decl e ++ walk decl (queues e) r

/-- `minifyGrammar` -/
def minifyGrammar (decl : DeclFn) (evs : List Ev) : List Char := walk decl false evs

end Verif.Model.CssGrammar

import Verif.Spec.CssGrammarEv
/-!
# Behavioural model of the grammar walk of `/repo/css/css.go`

`minifyGrammar decl evs` = the bytes `(*cssMinifier).minifyGrammar` writes for the grammar-event stream `evs` that
`css.Parser.Next()` / `Values()` of the dependency deliver (**by contract**: the harness obtains the stream from the
real parser).  `decl prop values` stands for the bytes `minifyDeclaration` writes after `prop:` (models:
`Verif.Model.Css` and `Verif.Model.CssShorthand`; a parameter here, so that the theorems about the walk hold for
every declaration minifier).

* `walk` — the loop with its `semicolonQueued` state: end events write `}` and clear the queue, a parse error
  writes a queued `;`, then its tokens (a trailing `;` is queued instead of written), everything else writes a
  queued `;` first; at-rule statements, declarations and custom properties queue one.
* `selToks` — `minifySelectors` (as of 71d92ee): identifiers outside attribute selectors are lower-cased unless they
  follow a `.`, precede a `|` (namespace prefix) or are arguments of a functional pseudo-class with case-sensitive
  arguments (`level`/`keepLevel`); inside `[…]` a string directly behind a matcher (b71a5f4) whose content `css.IsIdent` accepts and that has no
  backslash is written without quotes, an identifier directly behind an identifier or string is preceded by a space (0ab4bcb).
* `importURL` — the `@import url(x)` → `@import "x"` rewrite (as of addcaae).
* raw tokens (`<!--`, `-->`, the content of the block of an at-rule the parser does not know): written as they are;
  since 71288ab a space is written first when the parser skipped a comment between the previous raw token and this
  one (`Parser.Offset()` ≠ end of the previous token + length): the harness passes this as a non-empty `vals` of the
  token event (the code writes that space in front of a queued `;`, the model behind it: a raw token never follows a
  queued `;` without an event in between, and then there is no gap).
* `bangComment`, `customValue`, `collapseWs`, `trimWs` — comments and custom properties
  (`parse.ReplaceMultipleWhitespace`, `parse.TrimWhitespace` of the dependency, by behaviour).
-/
namespace Verif.Model.CssGrammar
open Verif.Spec.CssValue (TT Tok lower)
open Verif.Spec.CssGrammar

/-- `parse.IsWhitespace`: space, TAB, LF, FF, CR -/
def isWs (c : Char) : Bool := c == ' ' || c == '\t' || c == '\n' || c == '\r' || c == Char.ofNat 12
/-- `parse.IsNewline` -/
def isNewline (c : Char) : Bool := c == '\n' || c == '\r'

/-- `parse.TrimWhitespace` -/
def trimWs (b : List Char) : List Char := ((b.dropWhile isWs).reverse.dropWhile isWs).reverse

/-- `parse.ReplaceMultipleWhitespace`: every white-space run becomes one byte, LF if the run has LF or CR, else a
space.  The `Nat` = number of leading bytes to skip (0 at the call). -/
def collapseAux : Nat → List Char → List Char
  | _, [] => []
  | skip + 1, _ :: r => collapseAux skip r
  | 0, c :: r =>
    if isWs c then
      (if isNewline c || (r.takeWhile isWs).any isNewline then '\n' else ' ') ::
        collapseAux (r.takeWhile isWs).length r
    else c :: collapseAux 0 r

def collapseWs (b : List Char) : List Char := collapseAux 0 b

/-! ## `css.IsIdent` (dependency lexer: `consumeIdentToken`, `consumeEscape`) -/

def isHex (c : Char) : Bool := ('0' ≤ c && c ≤ '9') || ('a' ≤ c && c ≤ 'f') || ('A' ≤ c && c ≤ 'F')
def isNameStart (c : Char) : Bool := ('a' ≤ c && c ≤ 'z') || ('A' ≤ c && c ≤ 'Z') || c == '_' || c.toNat ≥ 0x80
def isNameChar (c : Char) : Bool := isNameStart c || ('0' ≤ c && c ≤ '9') || c == '-'

/-- `consumeEscape` on the bytes behind a backslash: `none` = not an escape (newline or end of input), else the rest.
Up to six hex digits and one white-space byte, or any other single byte (a UTF-8 sequence of a lead byte ≥ 0xC0 is
consumed whole; its continuation bytes are name bytes anyway). -/
def afterEscape (r : List Char) : Option (List Char) :=
  match r with
  | [] => none
  | c :: r' =>
    if c == '\n' || c == '\r' || c == Char.ofNat 12 then none
    else if isHex c then
      let hs := (r'.takeWhile isHex).take 5
      let r2 := r'.drop hs.length
      match r2 with
      | w :: r3 => if isWs w then some r3 else some r2
      | [] => some []
    else if c == Char.ofNat 0 && r'.isEmpty then none
    else some r'

/-- the loop of `consumeIdentToken` after the first code point: rest after the identifier -/
def identRest : Nat → List Char → List Char
  | 0, s => s
  | _ + 1, [] => []
  | fuel + 1, c :: r =>
    if isNameChar c then identRest fuel r
    else if c == '\\' then
      match afterEscape r with
      | some r' => identRest fuel r'
      | none => c :: r
    else c :: r

/-- `css.IsIdent` -/
def isIdent (b : List Char) : Bool :=
  let b' := match b with | '-' :: r => r | _ => b
  match b' with
  | [] => false
  | c :: r =>
    if isNameStart c then (identRest (r.length + 1) r).isEmpty
    else if c == '\\' then
      match afterEscape r with
      | some r' => (identRest (r'.length + 1) r').isEmpty
      | none => false
    else false

/-! ## minifySelectors -/

def wsTok : Tok := .mk .whitespace [' '] []

/-- `caseInsensitiveArgs`: the functional pseudo-classes / pseudo-elements whose arguments are selectors, An+B
formulas or case-insensitive keywords -/
def caseInsensitiveArgs : List (List Char) :=
  ["not", "is", "where", "matches", "has", "any", "-webkit-any", "-moz-any", "host", "host-context", "slotted",
   "cue", "cue-region", "current", "nth-child", "nth-last-child", "nth-of-type", "nth-last-of-type", "nth-col",
   "nth-last-col", "lang", "dir"].map String.toList

def isBar (t : Tok) : Bool := t.tt == .delim && t.data.head? == some '|'

structure SelSt where
  inAttr : Bool
  isClass : Bool
  level : Nat
  keepLevel : Nat
  /-- the previous token was a colon -/
  prevColon : Bool
  /-- the previous token was an identifier or a string (`values[i-1]`) -/
  prevIdStr : Bool
  /-- the previous token was an attribute matcher (`=`, `~=`, `|=`, `^=`, `$=`, `*=`) -/
  prevMatcher : Bool
  deriving Repr, DecidableEq

def SelSt.init : SelSt := ⟨false, false, 0, 0, false, false, false⟩

/-- the matcher test of `minifySelectors` (b71a5f4) -/
def isMatcherTok (t : Tok) : Bool :=
  (t.tt == .delim && t.data.head? == some '=') || t.tt == .includeMatch || t.tt == .dashMatch ||
  t.tt == .prefixMatch || t.tt == .suffixMatch || t.tt == .substringMatch

/-- the tokens `minifySelectors` writes for the selector tokens `ts` -/
def selGo (st : SelSt) : List Tok → List Tok
  | [] => []
  | t :: r =>
    let pc := t.tt == .colon
    let ps := t.tt == .ident || t.tt == .string
    let pm := isMatcherTok t
    if !st.inAttr then
      if t.tt == .ident then
        let isPrefix := match r with | n :: _ => isBar n | [] => false
        .mk .ident (if !st.isClass && !isPrefix && st.keepLevel == 0 then lower t.data else t.data) t.args ::
          selGo { st with isClass := false, prevColon := pc, prevIdStr := ps, prevMatcher := pm } r
      else if t.tt == .delim && t.data.head? == some '.' then t :: selGo { st with isClass := true, prevColon := pc, prevIdStr := ps, prevMatcher := pm } r
      else if t.tt == .leftBracket then t :: selGo { st with inAttr := true, prevColon := pc, prevIdStr := ps, prevMatcher := pm } r
      else if t.tt == .function then
        let keep := st.keepLevel == 0 && st.prevColon && !caseInsensitiveArgs.contains (lower t.data.dropLast)
        t :: selGo { st with level := st.level + 1, keepLevel := if keep then st.level + 1 else st.keepLevel, prevColon := pc, prevIdStr := ps, prevMatcher := pm } r
      else if t.tt == .leftParen then t :: selGo { st with level := st.level + 1, prevColon := pc, prevIdStr := ps, prevMatcher := pm } r
      else if t.tt == .rightParen then
        t :: selGo { st with keepLevel := if st.level == st.keepLevel then 0 else st.keepLevel,
                             level := st.level - 1, prevColon := pc, prevIdStr := ps, prevMatcher := pm } r
      else t :: selGo { st with prevColon := pc, prevIdStr := ps, prevMatcher := pm } r
    else
      if t.tt == .string && 2 < t.data.length && st.prevMatcher && isIdent ((t.data.drop 1).dropLast) && !((t.data.drop 1).dropLast).contains '\\' then
        .mk .ident ((t.data.drop 1).dropLast) [] :: selGo { st with prevColon := pc, prevIdStr := ps, prevMatcher := pm } r
      else if t.tt == .string && 2 < t.data.length then t :: selGo { st with prevColon := pc, prevIdStr := ps, prevMatcher := pm } r
      else if t.tt == .rightBracket then t :: selGo { st with inAttr := false, prevColon := pc, prevIdStr := ps, prevMatcher := pm } r
      else if t.tt == .ident && st.prevIdStr then
        wsTok :: t :: selGo { st with prevColon := pc, prevIdStr := ps, prevMatcher := pm } r
      else t :: selGo { st with prevColon := pc, prevIdStr := ps, prevMatcher := pm } r

def selToks (ts : List Tok) : List Tok := selGo SelSt.init ts

def lexemes (ts : List Tok) : List Char := ts.flatMap (·.data)

/-- bytes written by `minifySelectors` -/
def selBytes (ts : List Tok) : List Char := lexemes (selToks ts)

/-! ## at-rule preludes -/

/-- the rewritten lexeme of the URL token of `@import url(…)` (`4 < len`, ends with `)`): the content between the
parentheses without surrounding white space, as it is when it is a quoted string, else in double quotes -/
def importURL (url : List Char) : List Char :=
  let inner := (url.drop 4).dropLast
  let content := inner.dropWhile isWs
  let core := (content.reverse.dropWhile isWs).reverse
  match core with
  | q :: _ :: _ =>
    if (q == '"' || q == '\'') && core.getLast? == some q then core else '"' :: core ++ ['"']
  | _ => '"' :: core ++ ['"']

/-- prelude tokens of an at-rule statement as written (`data` = lower-cased at-keyword) -/
def atPrelude (data : List Char) (vals : List Tok) : List Tok :=
  match vals with
  | [w, u] =>
    if data == "@import".toList && u.tt == .url && 4 < u.data.length && u.data.getLast? == some ')' then
      [w, .mk .string (importURL u.data) []]
    else vals
  | _ => vals

/-! ## comments, custom properties -/

/-- bytes written for a comment event -/
def commentBytes (data : List Char) : List Char :=
  if 5 < data.length && data.getD 1 ' ' == '*' && data.getD 2 ' ' == '!' then
    data.take 3 ++ trimWs (collapseWs ((data.drop 3).take (data.length - 5))) ++ data.drop (data.length - 2)
  else if 5 < data.length && (data.getD 2 ' ' == '#' || data.getD 2 ' ' == '@') then data
  else []

/-- value bytes written for a custom property -/
def customValue (raw : List Char) : List Char :=
  if !raw.isEmpty && (trimWs raw).isEmpty then [' '] else trimWs raw

/-! ## the walk -/

/-- the declaration minifier as a parameter: bytes after `prop:` -/
abbrev DeclFn := List Char → List Tok → List Char

/-- drop a final semicolon token -/
def dropSemi (vals : List Tok) : List Tok :=
  match vals.getLast? with
  | some t => if t.tt == .semicolon then vals.dropLast else vals
  | none => vals

def endsSemi (vals : List Tok) : Bool :=
  match vals.getLast? with
  | some t => t.tt == .semicolon
  | none => false

/-- does the event queue a semicolon? -/
def queues (e : Ev) : Bool := e.gt == .atRule || e.gt == .declaration || e.gt == .customProperty

/-- bytes written for an event that is neither an end nor an error event (without a queued `;`) -/
def evBytes (decl : DeclFn) (e : Ev) : List Char :=
  match e.gt with
  | .atRule => e.data ++ lexemes (atPrelude e.data e.vals)
  | .beginAtRule => e.data ++ lexemes e.vals ++ ['{']
  | .qualifiedRule => selBytes e.vals ++ [',']
  | .beginRuleset => selBytes e.vals ++ ['{']
  | .declaration => e.data ++ ':' :: decl e.data e.vals
  | .customProperty => e.data ++ ':' :: customValue ((e.vals.head?.map (·.data)).getD [])
  | .comment => commentBytes e.data
  | .token => (if e.vals.isEmpty then [] else [' ']) ++ e.data
  | _ => e.data

/-- the loop of `minifyGrammar`; `q` = `semicolonQueued` -/
def walk (decl : DeclFn) : Bool → List Ev → List Char
  | _, [] => []
  | q, e :: r =>
    if e.gt == .error then
      (if q then [';'] else []) ++ lexemes (dropSemi e.vals) ++ walk decl (q || endsSemi e.vals) r
    else if e.isClose then '}' :: walk decl false r
    else (if q then [';'] else []) ++ evBytes decl e ++ walk decl (queues e) r

/-- `minifyGrammar` -/
def minifyGrammar (decl : DeclFn) (evs : List Ev) : List Char := walk decl false evs

end Verif.Model.CssGrammar

import Verif.Base.Bytes
import Verif.Gen.DataURITable
/-!
# C18 — `minify.DataURI` and `minify.Mediatype` (`/repo/common.go`)

Behavioural models over `List Char` (Latin-1 embedding of Go byte slices, `Base/Bytes.lean`).

Modelled **by contract** (dependency `github.com/tdewolff/parse/v2` `common.go`/`util.go`, Go `encoding/base64`):
`b64enc`/`b64dec` (`base64.StdEncoding.Encode/Decode`: standard alphabet, `=` padding, non-strict trailing
bits, CR/LF skipped anywhere), `encodeURL` (`parse.EncodeURL`), `decodeURL` (`parse.DecodeURL`, including its
`+` → space mapping), `parseDataURI` (`parse.DataURI`), `trimWs` (`parse.TrimWhitespace`), `equalFold`
(`parse.EqualFold` against a lower-case target), `toLower` (`parse.ToLower`).  The two tables
(`DataURIEncodingTable`, `whitespaceTable`) are regenerated from the dependency source on every run
(`Verif.Gen.DataURITable`).

Modelled from `/repo/common.go`: `dataURI` (the whole of `minify.DataURI`; the sub-minifier `m.Bytes` is the
parameter `sub`, `none` = no minifier registered or the minifier failed) and `mediatype`
(`minify.Mediatype`, including its `< 1024` rule in the code's buffer coordinates).
-/
namespace Verif.Model.DataURI
open Verif

/-! ## tables -/

/-- `parse.DataURIEncodingTable[c]` (regenerated) -/
def tbl (c : Char) : Bool := (Verif.Gen.DataURITable.encTable[c.toNat]?).getD true

/-- `parse.IsWhitespace`: space, `\t`, `\n`, `\f`, `\r` (checked against the regenerated table in Props) -/
def isWs (c : Char) : Bool := c = ' ' || c = '\t' || c = '\n' || c = '\x0c' || c = '\r'

/-- `parse.ToLower` on one byte -/
def toLower (c : Char) : Char := if 'A' ≤ c ∧ c ≤ 'Z' then Char.ofNat (c.toNat + 32) else c

/-- `parse.TrimWhitespace` -/
def trimWs (l : List Char) : List Char := ((l.dropWhile isWs).reverse.dropWhile isWs).reverse

/-- `parse.EqualFold(s, target)` for a target without upper-case letters -/
def equalFold (s target : List Char) : Bool := s.map toLower == target

/-! ## base64 (`encoding/base64.StdEncoding`) -/

def b64Char (n : Nat) : Char :=
  if n < 26 then Char.ofNat (65 + n)
  else if n < 52 then Char.ofNat (71 + n)
  else if n < 62 then Char.ofNat (n - 4)
  else if n = 62 then '+' else '/'

def b64Val (c : Char) : Option Nat :=
  if 'A' ≤ c ∧ c ≤ 'Z' then some (c.toNat - 65)
  else if 'a' ≤ c ∧ c ≤ 'z' then some (c.toNat - 71)
  else if '0' ≤ c ∧ c ≤ '9' then some (c.toNat + 4)
  else if c = '+' then some 62
  else if c = '/' then some 63
  else none

/-- `StdEncoding.Encode` -/
def b64enc : List Char → List Char
  | [] => []
  | [a] => [b64Char (a.toNat / 4), b64Char (a.toNat % 4 * 16), '=', '=']
  | [a, b] => [b64Char (a.toNat / 4), b64Char (a.toNat % 4 * 16 + b.toNat / 16), b64Char (b.toNat % 16 * 4), '=']
  | a :: b :: c :: r =>
    b64Char (a.toNat / 4) :: b64Char (a.toNat % 4 * 16 + b.toNat / 16) ::
      b64Char (b.toNat % 16 * 4 + c.toNat / 64) :: b64Char (c.toNat % 64) :: b64enc r

/-- `StdEncoding.EncodedLen` -/
def b64Len (n : Nat) : Nat := (n + 2) / 3 * 4

/-- decoding of a CR/LF-free string: full quanta, the last one possibly padded, nothing after padding;
    non-strict (unused trailing bits are ignored, as `StdEncoding` does) -/
def b64decCore : List Char → Option (List Char)
  | [] => some []
  | a :: b :: c :: d :: r =>
    if d = '=' then
      if r ≠ [] then none
      else if c = '=' then
        match b64Val a, b64Val b with
        | some x, some y => some [Char.ofNat (x * 4 + y / 16)]
        | _, _ => none
      else
        match b64Val a, b64Val b, b64Val c with
        | some x, some y, some z => some [Char.ofNat (x * 4 + y / 16), Char.ofNat (y % 16 * 16 + z / 4)]
        | _, _, _ => none
    else
      match b64Val a, b64Val b, b64Val c, b64Val d, b64decCore r with
      | some x, some y, some z, some w, some t =>
        some (Char.ofNat (x * 4 + y / 16) :: Char.ofNat (y % 16 * 16 + z / 4) :: Char.ofNat (z % 4 * 64 + w) :: t)
      | _, _, _, _, _ => none
  | _ => none

/-- `StdEncoding.Decode`: `\r` and `\n` are skipped wherever they occur -/
def b64dec (s : List Char) : Option (List Char) :=
  b64decCore (s.filter (fun c => !(c = '\n' || c = '\r')))

/-! ## percent-coding (`parse.EncodeURL`, `parse.DecodeURL`) -/

def hexUp (n : Nat) : Char := if n < 10 then Char.ofNat (48 + n) else Char.ofNat (55 + n)

/-- `parse.EncodeURL(b, table)`.  Exact for tables that do not escape the digits `0-9A-F` (the Go loop
    re-examines the two digits it has just inserted); that side condition is a `decide`d fact about the
    regenerated table (`Props.C18.tbl_hex_unescaped`). -/
def encodeURL (t : Char → Bool) : List Char → List Char
  | [] => []
  | c :: r =>
    if t c then '%' :: hexUp (c.toNat / 16) :: hexUp (c.toNat % 16) :: encodeURL t r
    else c :: encodeURL t r

/-- `parse.DecodeURL`: `%XX` (either hex case) decodes, any other `%` stays, **`+` becomes a space** -/
def decodeURL : List Char → List Char
  | [] => []
  | c :: a :: b :: r =>
    if c = '%' then
      match hexVal a, hexVal b with
      | some x, some y => Char.ofNat (x * 16 + y) :: decodeURL r
      | _, _ => c :: decodeURL (a :: b :: r)
    else (if c = '+' then ' ' else c) :: decodeURL (a :: b :: r)
  | c :: r => (if c = '+' then ' ' else c) :: decodeURL r   -- fewer than two bytes follow: no escape

/-! ## `parse.DataURI` -/

def base64Word : List Char := ['b', 'a', 's', 'e', '6', '4']
def textPlain : List Char := "text/plain".toList
def charsetAscii : List Char := "charset=us-ascii".toList

def isDelim (c : Char) : Bool := c = '=' || c = ';' || c = ','

/-- the `len(mediatype) == 0 || mediatype[0] == ';'` default -/
def finishMt (mt : List Char) : List Char :=
  match mt with
  | [] => textPlain
  | c :: _ => if c = ';' then textPlain else mt

/-- the scanning loop of `parse.DataURI` over the bytes after `data:`.
    `mt` = media type accumulated so far, `b64` = `inBase64`, `seg` = `dataURI[i:j]`, the bytes of the current
    segment.  Result: (mediatype, inBase64, raw data after the first comma).  After a `base64` segment the Go
    code sets `i = j` (not `j+1`), so the next segment *starts with the delimiter itself*. -/
def scan (mt : List Char) (b64 : Bool) (seg : List Char) : List Char → Option (List Char × Bool × List Char)
  | [] => none
  | c :: r =>
    if isDelim c then
      if c ≠ '=' ∧ trimWs seg = base64Word then
        if c = ',' then some (finishMt mt.dropLast, true, r)
        else scan mt.dropLast true [c] r
      else if c ≠ ',' then scan (mt ++ trimWs seg ++ [c]) b64 [] r
      else some (finishMt (mt ++ trimWs seg), b64, r)
    else scan mt b64 (seg ++ [c]) r

def dataPrefix : List Char := ['d', 'a', 't', 'a', ':']

/-- `parse.DataURI`: `none` = error (`ErrBadDataURI` or a base64 `CorruptInputError`) -/
def parseDataURI (u : List Char) : Option (List Char × List Char) :=
  if 5 < u.length ∧ u.take 5 = dataPrefix then
    match scan [] false [] (u.drop 5) with
    | none => none
    | some (mt, true, raw) => (b64dec raw).map (fun d => (mt, d))
    | some (mt, false, raw) => some (mt, decodeURL raw)
  else none

/-! ## `minify.DataURI` -/

/-- the `asciiLen` loop with its early `break` (acc starts at `len(data)`) -/
def asciiEst (t : Char → Bool) (b64 : Nat) : Nat → List Char → Nat
  | acc, [] => acc
  | acc, c :: r =>
    let acc' := if t c then acc + 2 else acc
    if b64 < acc' then acc' else asciiEst t b64 acc' r

/-- length of the percent-encoded form (no early exit) -/
def pctLen (t : Char → Bool) (d : List Char) : Nat := d.length + 2 * (d.filter t).length

def semiBase64 : List Char := ";base64".toList

def endOrSemi : List Char → Bool
  | [] => true
  | d :: _ => d = ';'

/-- strip a leading `text/plain` (case-insensitive) when the media type ends there or a `;` follows -/
def stripTextPlain (mt : List Char) : List Char :=
  if 10 ≤ mt.length ∧ equalFold (mt.take 10) textPlain ∧ endOrSemi (mt.drop 10) then mt.drop 10 else mt

/-- remove the first `;charset=us-ascii` (case-insensitive) that is followed by `;` or the end -/
def stripCharset : List Char → List Char
  | [] => []
  | c :: r =>
    if c = ';' ∧ 16 ≤ r.length ∧ equalFold (r.take 16) charsetAscii ∧ endOrSemi (r.drop 16) then r.drop 16
    else c :: stripCharset r

/-- the whole of `minify.DataURI(m, u)`; `sub mediatype data` is `m.Bytes(string(mediatype), data)`
    (`none`: `ErrNotExist` or a minifier error — the data is then used unchanged) -/
def dataURI (sub : List Char → List Char → Option (List Char)) (u : List Char) : List Char :=
  match parseDataURI u with
  | none => u
  | some (mt, data0) =>
    let data := (sub mt data0).getD data0
    let base64Len := 7 + b64Len data.length
    let asciiLen := asciiEst tbl base64Len data.length data
    if u.length < base64Len ∧ u.length < asciiLen then u
    else
      let mt1 := if base64Len < asciiLen then mt ++ semiBase64 else mt
      let payload := if base64Len < asciiLen then b64enc data else encodeURL tbl data
      dataPrefix ++ stripCharset (stripTextPlain mt1) ++ [','] ++ payload

/-! ## `minify.Mediatype`

The Go function compacts in place: `j` = bytes already moved to the front, `start` = first byte of the run not
yet moved.  Writing `V` for the *virtual output* (moved bytes followed by the pending run) and `δ` for the number
of whitespace bytes removed so far, the state is `(V, δ, L, inString, escaped)`, `L = lastString`.  When a string
closes the pending run is moved into place, so `lastString ≤ j ≤ start` and the call `ToLower(b[lastString:i])`
at the next opening quote lower-cases exactly the virtual positions `[L, |V|)` (plus a stale gap that is never read
again); the test `i - lastString < 1024` is `|V| + δ - L < 1024`.  Inside a string the byte after a backslash is
skipped. -/

structure MtState where
  v : List Char := []      -- virtual output, reversed
  len : Nat := 0           -- |v|
  delta : Nat := 0
  last : Nat := 0
  inStr : Bool := false
  esc : Bool := false

/-- lower-case the positions `[lo, hi)` of a reversed list of length `n` (position of the head is `n-1`) -/
def lowerRangeRev (lo hi : Nat) : Nat → List Char → List Char
  | _, [] => []
  | n, c :: r => (if lo ≤ n - 1 ∧ n - 1 < hi then toLower c else c) :: lowerRangeRev lo hi (n - 1) r

def mtStep (s : MtState) (c : Char) : MtState :=
  if s.esc then
    { s with v := c :: s.v, len := s.len + 1, esc := false }
  else if !s.inStr && isWs c then
    { s with delta := s.delta + 1 }
  else if c = '"' then
    if !s.inStr then
      -- opening quote: `if i-lastString < 1024 { ToLower(b[lastString:i]) }`, i = len + delta
      let v1 := if s.len + s.delta - s.last < 1024 then lowerRangeRev s.last s.len s.len s.v else s.v
      { s with v := c :: v1, len := s.len + 1, inStr := true }
    else
      { s with v := c :: s.v, len := s.len + 1, inStr := false, last := s.len + 1 }
  else if s.inStr && c = '\\' then
    { s with v := c :: s.v, len := s.len + 1, esc := true }
  else
    { s with v := c :: s.v, len := s.len + 1 }

/-- `minify.Mediatype(b)` -/
def mediatype (b : List Char) : List Char :=
  let s := b.foldl mtStep {}
  (lowerRangeRev s.last s.len s.len s.v).reverse

end Verif.Model.DataURI

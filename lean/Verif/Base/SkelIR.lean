/-!
# Skeleton IR

Types of the *regenerated* skeletons (DESIGN.md §2.2): the translator `harness/cmd/extract`
(`c14_exits.go`, `c12_skel.go`) re-reads `/repo` on every check run and emits values of these types
into `Verif/Gen/ExitPaths.lean` and `Verif/Gen/Wrappers.lean`.  The models `Model/IoFail.lean`
(C14) and `Model/Stream.lean` (C12) *interpret* these values; nothing here knows which value is
the "right" one.  Core only.
-/
namespace Verif.Skel

/-- atoms of the exit sequence of a package's `(*Minifier).Minify` (C14) -/
inductive XAtom
  /-- statement(s) without a `return`: may call `w.Write` any number of times, dropping the errors -/
  | work
  /-- `_, err := w.Write(nil)` on the writer parameter -/
  | probeWrite
  /-- `if err != nil { return err }` for the `err` of the directly preceding probe -/
  | returnIfErr
  /-- `if _, err := w.Write(x); err != nil { return err }` — an ordinary write whose error is returned -/
  | writeReturnIfErr
  /-- `if X.Err() == io.EOF { return nil }` -/
  | returnNilIfEOF
  /-- `if X.Err() != io.EOF { return X.Err() }` -/
  | returnLexErrIfNotEOF
  /-- `return X.Err()` -/
  | returnLexErr
  /-- `return nil` -/
  | returnNil
  /-- `ast, err := js.Parse(z, …)` -/
  | parse
  /-- `if err != nil { return err }` directly after `parse` -/
  | returnIfParseErr
  /-- return of a sub-minifier's error at a place where it is known to be non-nil -/
  | returnSubErr
  /-- anything the translator did not recognise (source text) -/
  | other (src : String)
  deriving DecidableEq, Repr

/-- facts about one package -/
structure ExitPkg where
  name : String
  /-- every statement list of `Minify` that contains a `return`, as atoms in source order -/
  exits : List (List XAtom)
  /-- number of `recover()` calls in the package's non-test files -/
  recovers : Nat
  /-- `x.Write(b)` calls used as statements (result dropped) / whose result is used (informational) -/
  droppedWrites : Nat
  usedWrites : Nat
  deriving Repr

/-- atoms of the wrapper functions of `minify.go` (C12): `Reader`, `Writer`, `writer.Close`,
    `responseWriter.Write/Close/WriteHeader`, `ResponseWriter`, `Middleware*`, `Bytes`, `String` -/
inductive WAtom
  /-- `pr, pw := io.Pipe()` -/
  | pipeNew
  /-- `z := &writer{pw, sync.WaitGroup{}, false, nil}` -/
  | mkWriter
  /-- `z.wg.Add(1)` -/
  | wgAdd
  /-- `go func() {` … `}()`: the atoms between `goBegin` and `goEnd` are the goroutine's body -/
  | goBegin
  | goEnd
  /-- `defer z.wg.Done()` / `z.wg.Done()` -/
  | deferWgDone
  | wgDone
  /-- `defer pr.Close()` / `pr.Close()` -/
  | deferPipeReaderClose
  | pipeReaderClose
  /-- `err := <minify>(…, dst, src, …)` as the init of an `if … err != nil`: `dst` ∈ {`w` the caller's
      writer, `pw` the pipe writer, `rw` the wrapped `http.ResponseWriter`}, `src` ∈ {`pr` the pipe
      reader, `r` the caller's reader} -/
  | callMinify (dst src : String)
  /-- `… { z.err = err }` (body of that `if`, no else) -/
  | storeErr
  /-- `… { pw.CloseWithError(err) } else { pw.Close() }` -/
  | closeWithErrorElseClose
  /-- `return z` -/
  | returnWriter
  /-- `return pr` -/
  | returnPipeReader
  /-- `if z.closed { return nil }` -/
  | returnNilIfClosed
  /-- `z.closed = true` -/
  | setClosed
  /-- `err := z.WriteCloser.Close()` (closes the pipe writer) -/
  | pipeWriterClose
  /-- `z.wg.Wait()` -/
  | wgWait
  /-- `if z.err == nil { return err }; return z.err` -/
  | returnStoredOrCloseErr
  /-- `if w.z == nil {` … `}` (first write of the response writer) -/
  | firstWriteBegin
  | firstWriteEnd
  /-- `if mediatype := w.ResponseWriter.Header().Get("Content-Type"); mediatype != "" { w.mediatype = mediatype }` -/
  | pickContentType
  /-- `if _, params, minifier := w.m.Match(w.mediatype); minifier != nil {` … `} else {` … `}` -/
  | matchBegin
  | matchElse
  | matchEnd
  /-- `w.z = z` -/
  | setZWriter
  /-- `w.z = w.ResponseWriter` -/
  | setZPassthrough
  /-- `return w.z.Write(b)` -/
  | returnZWrite
  /-- `if closer, ok := w.z.(interface{ Close() error }); ok { return closer.Close() }` -/
  | closeIfCloser
  /-- `return nil` -/
  | returnNil
  /-- `w.ResponseWriter.Header().Del("Content-Length")` -/
  | delContentLength
  /-- `w.ResponseWriter.WriteHeader(status)` -/
  | forwardWriteHeader
  /-- `mediatype := mime.TypeByExtension(path.Ext(r.RequestURI))` -/
  | mediatypeFromExt
  /-- `return &responseWriter{w, nil, m, mediatype}` -/
  | returnResponseWriter
  /-- `mw := m.ResponseWriter(w, r)` -/
  | mkResponseWriter
  /-- `next.ServeHTTP(mw, r)` -/
  | serveNext
  /-- `mw.Close()` -/
  | closeMw
  /-- `if err := mw.Close(); err != nil { errorFunc(w, r, err); return }` -/
  | closeMwReportErr
  /-- `return http.HandlerFunc(func(w, r) {` … `})` -/
  | handlerBegin
  | handlerEnd
  /-- `out := buffer.NewWriter(make([]byte, 0, len(v)))` -/
  | newOutBuffer
  /-- `if err := m.Minify(mediatype, out, buffer.NewReader(<v>)); err != nil { return v, err }`;
      `copied`: the reader is over `parse.Copy(v)` / `[]byte(v)` rather than `v` itself -/
  | minifyBufOrReturnInput (copied : Bool)
  /-- `return out.Bytes(), nil` / `return string(out.Bytes()), nil` -/
  | returnOut
  /-- anything the translator did not recognise (source text) -/
  | other (src : String)
  deriving DecidableEq, Repr

/-- the regenerated skeletons of `minify.go` -/
structure WSkel where
  reader : List WAtom
  writer : List WAtom
  writerClose : List WAtom
  rwWriteHeader : List WAtom
  rwWrite : List WAtom
  rwClose : List WAtom
  responseWriter : List WAtom
  middleware : List WAtom
  middlewareWithError : List WAtom
  bytes : List WAtom
  string : List WAtom
  deriving DecidableEq, Repr

/-- how a function uses its `io.Reader` parameter -/
inductive RUse
  /-- as the argument of `parse.NewInput(r)` -/
  | newInput
  /-- passed unchanged as the reader argument of a call whose result is returned directly -/
  | passOnReturn
  /-- passed unchanged to another call -/
  | passOn
  | other (src : String)
  deriving DecidableEq, Repr

structure InputUse where
  func : String
  uses : List RUse
  deriving DecidableEq, Repr

end Verif.Skel

/-!
# Skeleton IR

Types of the *regenerated* skeletons (DESIGN.md §2.2): the translator `harness/cmd/extract`
(`c14_exits.go`, `c12_skel.go`) re-reads `/repo` on every check run and emits values of these types
into `Verif/Gen/ExitPaths.lean` and `Verif/Gen/Wrappers.lean`.  The models `Model/IoFail.lean`
(C14) and `Model/Stream.lean` (C12) *interpret* these values; nothing here knows which value is
the "right" one.  Core only.
-/
namespace Verif.Skel

/-- atoms of the exit sequence of a package's `(*Minifier).Minify` (C14) -/
inductive XAtom
  /-- statement(s) without a `return`: may call `w.Write` any number of times, dropping the errors -/
  | work
  /-- `_, err := w.Write(nil)` on the writer parameter -/
  | probeWrite
  /-- `if err != nil { return err }` for the `err` of the directly preceding probe -/
  | returnIfErr
  /-- `if _, err := w.Write(x); err != nil { return err }` — an ordinary write whose error is returned -/
  | writeReturnIfErr
  /-- `if X.Err() == io.EOF { return nil }` -/
  | returnNilIfEOF
  /-- `if X.Err() != io.EOF { return X.Err() }` -/
  | returnLexErrIfNotEOF
  /-- `return X.Err()` -/
  | returnLexErr
  /-- `return nil` -/
  | returnNil
  /-- `ast, err := js.Parse(z, …)` -/
  | parse
  /-- `if err != nil { return err }` directly after `parse` -/
  | returnIfParseErr
  /-- return of a sub-minifier's error at a place where it is known to be non-nil -/
  | returnSubErr
  /-- anything the translator did not recognise (source text) -/
  | other (src : String)
  deriving DecidableEq, Repr

/-- facts about one package -/
structure ExitPkg where
  name : String
  /-- every statement list of `Minify` that contains a `return`, as atoms in source order -/
  exits : List (List XAtom)
  /-- number of `recover()` calls in the package's non-test files -/
  recovers : Nat
  /-- `x.Write(b)` calls used as statements (result dropped) / whose result is used (informational) -/
  droppedWrites : Nat
  usedWrites : Nat
  deriving Repr

end Verif.Skel

/-!
# Skeleton IR — where returned memory comes from (C12)

Types of the *regenerated* ownership facts of `(*M).Bytes` and `(*M).String` (`minify.go`): the
translator `harness/cmd/extract/c12_skel.go` re-reads `/repo` on every check run and emits a
`List RetFact` into `Verif/Gen/Wrappers.lean`.  `Model/Stream.lean` interprets these values (heap
model of histories of calls); nothing here knows which value is the "right" one.  Core only.
-/
namespace Verif.Skel

/-- where the output buffer `X` (the variable whose `X.Bytes()` is returned) comes from -/
inductive BufOrigin
  /-- allocated in this call by `X := buffer.NewWriter(make(…))` / `&bytes.Buffer{}` / `new(bytes.Buffer)` /
      `bytes.NewBuffer(…)` / `var X bytes.Buffer`, never re-assigned, and used only as the writer argument of
      `m.Minify`/`m.MinifyMimetype` and as the receiver of `Bytes/Len/String/Write*/Reset` (source text of the
      declaration) -/
  | freshLocal (decl : String)
  /-- anything else: a package-level variable, a `sync.Pool`, a struct field, a parameter, or a local
      that escapes (handed to another call, a `defer`, a closure, an assignment) — source text of the
      declaration or of the escaping use -/
  | shared (src : String)
  deriving DecidableEq, Repr

/-- result 0 of one `return` statement -/
inductive RetExpr
  /-- the input parameter `v` itself -/
  | input
  /-- `X.Bytes()`: a slice aliasing the output buffer -/
  | bufBytes
  /-- a copy of the output buffer's content made in the return expression: `string(X.Bytes())`,
      `X.String()`, `append([]byte(nil), X.Bytes()...)`, `parse.Copy(X.Bytes())`, `bytes.Clone(X.Bytes())` -/
  | copyOfBuf
  /-- anything the translator did not recognise (source text) -/
  | other (src : String)
  deriving DecidableEq, Repr

/-- the ownership facts of one function -/
structure RetFact where
  func : String
  buf : BufOrigin
  /-- result 0 of every `return` statement, in source order -/
  returns : List RetExpr
  deriving DecidableEq, Repr

end Verif.Skel

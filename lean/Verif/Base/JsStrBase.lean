/-!
# Digit helpers and the character-literal macro shared by the JS string literal spec and model (C01E)

Bytes are plain `Nat`s (< 256 for everything the driver builds).  `c%'x'` expands at parse time to the numeral of
the character's code point, so terms contain only `Nat` literals and `omega` / `decide` / `simp` work on them.
-/
namespace Verif.JsStrBase

/-- `c%'x'` is the `Nat` numeral of the character's code point -/
macro:max "c%" c:char : term => pure (Lean.Syntax.mkNumLit (toString c.getChar.toNat))

def isDig (c : Nat) : Bool := 48 ≤ c && c ≤ 57
def isOct (c : Nat) : Bool := 48 ≤ c && c ≤ 55
def isHex (c : Nat) : Bool := (48 ≤ c && c ≤ 57) || (97 ≤ c && c ≤ 102) || (65 ≤ c && c ≤ 70)

/-- value of a hexadecimal digit -/
def hexV (c : Nat) : Nat := if c ≤ 57 then c - 48 else if 97 ≤ c then c - 87 else c - 55

/-- value of a run of hexadecimal digits -/
def hexNat (l : List Nat) : Nat := l.foldl (fun a c => a * 16 + hexV c) 0

/-- the 8-byte text `/script>` -/
def scriptEnd : List Nat := [47, 115, 99, 114, 105, 112, 116, 62]

end Verif.JsStrBase

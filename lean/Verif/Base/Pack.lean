/-!
# Packed byte strings (kernel-cheap string keys for whole-table `decide`)

A byte string `b₀ b₁ … bₙ` (Latin-1 embedding, see `Base/Bytes.lean`) is *packed* into the natural number
`b₀·256ⁿ + … + bₙ` (big-endian base 256).  `pk! "abc"` is a term-level macro that expands **at elaboration
time** to that numeral, so that a table row `(pk! "AElig", pk! "&#198;")` is readable in the source and is a
pair of numerals for the kernel: comparing two keys is one GMP-accelerated `Nat.beq` (a `Char` literal costs the
kernel a validity decision every time it is looked at, a `String` literal a UTF-8 round trip — measured
20–40 ms per table lookup against < 1 ms packed).

`pack` is injective on strings without a leading NUL byte (none of the tables has one); the empty string is 0.
`unpack` / `unpackChars` give the bytes / Latin-1 characters back (used by the driver and by importers that
want `List Char` rows).  Core only.
-/
namespace Verif

/-- big-endian base-256 value of a list of code points < 256 -/
def pack (l : List Nat) : Nat := l.foldl (fun a c => a * 256 + c) 0

def unpackAux : Nat → Nat → List Nat → List Nat
  | 0, _, acc => acc
  | f + 1, n, acc => if n = 0 then acc else unpackAux f (n / 256) (n % 256 :: acc)

/-- the bytes of a packed string (`n.log2 / 8 + 1` ≥ number of bytes is enough fuel) -/
def unpack (n : Nat) : List Nat := unpackAux (n.log2 / 8 + 1) n []

def packChars (l : List Char) : Nat := pack (l.map Char.toNat)
def unpackChars (n : Nat) : List Char := (unpack n).map Char.ofNat

/-- number of bytes of a packed string -/
def packedLen (n : Nat) : Nat := if n = 0 then 0 else n.log2 / 8 + 1

open Lean in
/-- `pk! "text"`: the packed form of a Latin-1 string literal, as a numeral -/
macro "pk!" s:str : term => do
  let cs := s.getString.toList
  if cs.any (fun c => c.toNat ≥ 256) then
    Macro.throwErrorAt s "pk!: code point above 255"
  if cs.head? == some (Char.ofNat 0) then
    Macro.throwErrorAt s "pk!: leading NUL"
  return Syntax.mkNumLit (toString (cs.foldl (fun a c => a * 256 + c.toNat) 0))

end Verif

/-!
# Bytes

Core-only byte-string utilities shared by models, specs and the driver.

Go `[]byte` values are modelled as `List UInt8` (`Bytes`) or, where pattern matching on
character literals makes models and proofs much more readable, as `List Char` restricted to
code points < 256 (Latin-1 embedding: byte `b` ↔ `Char.ofNat b`).  Both embeddings are
bijections on bytes, so either is a faithful model of a Go byte slice.
-/

namespace Verif

abbrev Bytes := List UInt8

/-- Latin-1 embedding of a byte as a `Char`. -/
def byteToChar (b : UInt8) : Char := Char.ofNat b.toNat

/-- Inverse of `byteToChar` on code points < 256 (truncating above). -/
def charToByte (c : Char) : UInt8 := UInt8.ofNat c.toNat

def bytesToChars (b : Bytes) : List Char := b.map byteToChar
def charsToBytes (l : List Char) : Bytes := l.map charToByte

/-- ASCII / Latin-1 string literal to bytes (use only with code points < 256). -/
def strBytes (s : String) : Bytes := s.toList.map charToByte

def hexDigit (n : Nat) : Char :=
  if n < 10 then Char.ofNat (48 + n) else Char.ofNat (87 + n)

def hexVal (c : Char) : Option Nat :=
  if '0' ≤ c ∧ c ≤ '9' then some (c.toNat - 48)
  else if 'a' ≤ c ∧ c ≤ 'f' then some (c.toNat - 87)
  else if 'A' ≤ c ∧ c ≤ 'F' then some (c.toNat - 55)
  else none

def hexEncode (b : Bytes) : String :=
  String.ofList (b.foldr (fun x acc => hexDigit (x.toNat / 16) :: hexDigit (x.toNat % 16) :: acc) [])

def hexDecodeChars : List Char → Option Bytes
  | [] => some []
  | [_] => none
  | a :: b :: r =>
    match hexVal a, hexVal b, hexDecodeChars r with
    | some x, some y, some t => some (UInt8.ofNat (x * 16 + y) :: t)
    | _, _, _ => none

def hexDecode (s : String) : Option Bytes := hexDecodeChars s.toList

/-- decimal rendering of a natural as bytes -/
def natBytes (n : Nat) : Bytes := strBytes (toString n)

def intBytes (i : Int) : Bytes := strBytes (toString i)

/-- parse optional '-' followed by digits -/
def parseIntChars (l : List Char) : Option Int :=
  let (neg, ds) := match l with | '-' :: r => (true, r) | _ => (false, l)
  if ds.isEmpty || !ds.all (fun c => '0' ≤ c && c ≤ '9') then none else
  let n : Nat := ds.foldl (fun a c => a * 10 + (c.toNat - 48)) 0
  some (if neg then -(n : Int) else (n : Int))

end Verif

import Verif.Proofs.CssGrammar
import Verif.Proofs.CssSel
import Verif.Proofs.CssShorthand
import Verif.Proofs.CssBackground
import Verif.Model.CssShorthand
import Verif.Spec.CssGrammarSpec
/-!
# C04B — CSS minification preserves the cascade input: rule structure, selectors, preludes, `font` / `background`

Sub-check of property C04 (the declaration values are `Props/C04.lean`).  Property theorems only.
Model: `Verif.Model.CssGrammar` (`minifyGrammar`, `minifySelectors`, `@import`, comments, custom properties, raw tokens
of `/repo/css/css.go` over the grammar-event stream of the dependency parser) and `Verif.Model.CssShorthand` (`font`,
`background`).  Specification: `Verif.Spec.CssGrammarEv` (events, rule trees, serialisation), `Verif.Spec.CssSelSpec`
(selector normal form, specificity), `Verif.Spec.CssShorthandSpec`, `Verif.Spec.CssGrammarSpec` (`holds`).
Lemmas: `Verif.Proofs.CssGrammar`, `Verif.Proofs.CssSel`.

The declaration minifier is a parameter `decl` of the walk: every theorem about the walk holds for any `decl`.
-/
namespace Verif.Props.C04B
open Verif.Spec.CssValue (TT Tok lower)
open Verif.Spec.CssGrammar Verif.Spec.CssSel Verif.Model.CssGrammar
open Verif.Proofs.CssGrammar Verif.Proofs.CssSel

/-! ## rule structure -/

/-- **every event stream is the event stream of its rule tree**: the theorems below quantify over trees and
thereby cover every stream the parser can deliver (stray end events stay leaves, unclosed blocks stay open). -/
theorem every_stream_is_a_tree (evs : List Ev) : flatten (treeOf evs) = evs :=
  flatten_treeOf evs

/-- **structure_preserved**: for every well-formed rule tree (the event stream of a style sheet without parse
errors: blocks closed by their own end event) and every declaration minifier, the bytes written by the loop with
its `semicolonQueued` state are the compositional serialisation of *the same tree*: every rule, at-rule and
declaration once and in order, every block between its opening bytes and `}`, statements separated by exactly one
`;`, none after the last item of a block.  No rule is dropped — empty ones included. -/
theorem structure_preserved (decl : DeclFn) (t : List Node) (hwf : wfList t = true) :
    minifyGrammar decl (flatten t) = renderList (evBytes decl) t := by
  have := walk_list decl t hwf false []
  simpa [minifyGrammar, flatten, walk] using this

/-- the same inside any context: what precedes decides only whether a `;` is owed, what follows is written after -/
theorem structure_preserved_in_context (decl : DeclFn) (t : List Node) (hwf : wfList t = true) (q : Bool)
    (rest : List Ev) :
    walk decl q (flatten t ++ rest) =
      (if q && !t.isEmpty then [';'] else []) ++ (renderList (evBytes decl) t ++ walk decl (qAfter q t) rest) :=
  walk_list decl t hwf q rest

/-- **empty_rule_kept**: a rule without declarations is written as its selector and `{}` (the minifier removes no
rule; "removed only if empty" holds vacuously) -/
theorem empty_rule_kept (decl : DeclFn) (op cl : Ev) (ho : op.gt = .beginRuleset) (hc : cl.gt = .endRuleset) :
    minifyGrammar decl [op, cl] = selBytes op.vals ++ ['{', '}'] := by
  have hwf : wfList [Node.block op [] (some cl)] = true := by
    simp [wfList, Node.wf, Ev.isOpen, ho, hc]
  have := structure_preserved decl [Node.block op [] (some cl)] hwf
  simp only [flatten, flattenList, flattenNode, Option.toList, List.nil_append, List.append_nil] at this
  rw [this]
  simp [renderList, renderNode, evBytes, ho, Node.isStmt]

/-- **semicolon elision**: an end event writes `}` and nothing else, whatever was queued -/
theorem semicolon_elided (decl : DeclFn) (c : Ev) (h : c.isClose = true) (q : Bool) (rest : List Ev) :
    walk decl q (c :: rest) = '}' :: walk decl false rest :=
  walk_close decl c q rest h

/-- **error_passthrough**: the tokens of a parse error are written as they are (a final `;` is queued instead) -/
theorem error_passthrough (decl : DeclFn) (e : Ev) (h : e.gt = .error) (q : Bool) (rest : List Ev) :
    walk decl q (e :: rest) =
      (if q then [';'] else []) ++ lexemes (dropSemi e.vals) ++ walk decl (q || endsSemi e.vals) rest := by
  simp [walk, h]

/-- **prelude_verbatim**: the prelude of an at-rule block (media queries, `@supports` conditions, keyframe names, …)
is written token by token as the parser delivers it -/
theorem prelude_verbatim (decl : DeclFn) (e : Ev) (h : e.gt = .beginAtRule) :
    evBytes decl e = e.data ++ lexemes e.vals ++ ['{'] := by
  simp [evBytes, h]

/-- the same for at-rule statements other than `@import url(…)` -/
theorem prelude_statement_verbatim (decl : DeclFn) (e : Ev) (h : e.gt = .atRule)
    (hi : (e.data == "@import".toList) = false) :
    evBytes decl e = e.data ++ lexemes e.vals := by
  have : atPrelude e.data e.vals = e.vals := by
    unfold atPrelude
    split
    · rename_i heq
      rw [hi]
      simp [heq]
    · rfl
  simp [evBytes, h, this]

/-- `@import url(…)`: the string written is the content between the parentheses without surrounding white space —
as it is when it is a quoted string, in double quotes otherwise -/
theorem import_url_shape (url : List Char) :
    let core := ((((url.drop 4).dropLast).dropWhile isWs).reverse.dropWhile isWs).reverse
    importURL url = core ∨ importURL url = '"' :: core ++ ['"'] := by
  intro core
  unfold importURL
  simp only
  split
  · split
    · exact Or.inl rfl
    · exact Or.inr rfl
  · exact Or.inr rfl

example : importURL "url(x)".toList = "\"x\"".toList := by decide
example : importURL "url( \"x\" )".toList = "\"x\"".toList := by decide
example : importURL "url(  )".toList = "\"\"".toList := by decide
example : importURL "url('a b.css')".toList = "'a b.css'".toList := by decide

/-- **import_target_ok** (prelude equivalence of `@import`; guard `importGuard`: the lexeme ends in exactly one `)`, an
unquoted URL has no backslash, not a `data:` URI): the string written names the same resource as the `url(…)` read
(`Spec.CssGrammar.importTarget`: content without surrounding white space and quotes) -/
theorem import_target_ok (url : List Char) (h : importGuard url = true) :
    importTarget (.mk .string (importURL url) []) = importTarget (.mk .url url []) :=
  import_target url h

example : importGuard "url( foo.css )".toList = true ∧ importGuard "url(\"a b.css\")".toList = true ∧
    importGuard "url(x)".toList = true := by decide

/-! ## comments and custom properties -/

/-- **bang_comment_kept**: a comment `/*!…*/` with content is written as `/*!` + its content with white-space runs
collapsed and both ends trimmed + `*/` -/
theorem bang_comment_kept (body : List Char) (h : 0 < body.length) :
    commentBytes ('/' :: '*' :: '!' :: (body ++ ['*', '/'])) =
      '/' :: '*' :: '!' :: (trimWs (collapseWs body) ++ ['*', '/']) :=
  commentBytes_bang body h

/-- … and every byte of the content that is not white space is kept, in order -/
theorem bang_comment_content (body : List Char) : nonWs (trimWs (collapseWs body)) = nonWs body := by
  rw [trimWs_nonWs, collapseWs_nonWs]

example : commentBytes "/*! keep   me */".toList = "/*!keep me*/".toList := by decide
example : commentBytes "/* plain */".toList = [] := by decide

/-- **custom_property_raw**: the value of a custom property is written as it is, without the white space around it
(one space if nothing else is left) -/
theorem custom_property_raw (raw : List Char) :
    (customValue raw = [' '] ∧ raw.all isWs = true ∧ raw ≠ []) ∨
    ∃ pre post, pre.all isWs = true ∧ post.all isWs = true ∧ raw = pre ++ customValue raw ++ post := by
  unfold customValue
  by_cases h : (!raw.isEmpty && (trimWs raw).isEmpty) = true
  · left
    simp only [h, if_true, true_and]
    simp only [Bool.and_eq_true, Bool.not_eq_true', List.isEmpty_iff] at h
    obtain ⟨pre, post, h1, h2, h3⟩ := trimWs_decomp raw
    refine ⟨?_, by simpa using h.1⟩
    rw [h3, h.2]
    simp [h1, h2]
  · right
    simp only [h, Bool.false_eq_true, if_false]
    exact trimWs_decomp raw

/-! ## selectors -/

/-- **specificity_preserved** (full strength: every token list): the specificity of a selector (Selectors 4 §17:
ids, classes + attributes + pseudo-classes, types + pseudo-elements; `:is()/:not()/:has()` by their most specific
argument, `:where()` nothing) is never changed — identifiers are only respelled, and nothing but the content of
`[…]` is rewritten -/
theorem specificity_preserved (ts : List Tok) : specificity (selToks ts) = specificity ts := by
  unfold specificity
  rw [skel_selToks]

/-- **selector_equiv** (HTML documents; guard `selShape` = lexer/grammar shape of the tokens: a delimiter is one
byte, a `.` is followed by the class name, a string inside `[…]` is the value behind the matcher — see
`selector_equiv_full` for why the last one is needed): the tokens written have the normal form of the tokens read:
type selectors, pseudo-class / pseudo-element / function names, An+B keywords and `:lang()` / `:dir()` arguments up
to ASCII case; class names, ids, attribute names and values, namespace prefixes and the custom identifiers of
`::part()`, `:state()`, … exactly; an attribute value as identifier or as string; white space inside `[…]` ignored. -/
theorem selector_equiv_html (ts : List Tok) (h : selShape ts = true) :
    selNorm htmlCfg (selToks ts) = selNorm htmlCfg ts :=
  selNorm_selToks ts h

def tok (tt : TT) (s : String) : Tok := .mk tt s.toList []

/-- `A::part(Foo) svg|B[href="x" i]:NOT(.C)` -/
def exSel : List Tok :=
  [tok .ident "A", tok .colon ":", tok .colon ":", tok .function "part(", tok .ident "Foo", tok .rightParen ")",
   tok .whitespace " ", tok .ident "svg", tok .delim "|", tok .ident "B", tok .leftBracket "[", tok .ident "href",
   tok .delim "=", tok .string "\"x\"", tok .ident "i", tok .rightBracket "]", tok .colon ":", tok .function "NOT(",
   tok .delim ".", tok .ident "C", tok .rightParen ")"]

example : selShape exSel = true := by decide
example : lexemes (selToks exSel) = "a::part(Foo) svg|b[href=x i]:NOT(.C)".toList := by decide

/-- the statement for every cascade configuration and without the shape guard -/
def selector_equiv_full : Prop :=
  ∀ (cfg : Cfg) (ts : List Tok), selNorm cfg (selToks ts) = selNorm cfg ts

/-- it is false for documents with case-sensitive element names (known finding K-C04-14: `linearGradient{…}` in
stand-alone SVG) … -/
theorem selector_equiv_xml_counterexample :
    ¬ ∀ ts : List Tok, selShape ts = true → selNorm xmlCfg (selToks ts) = selNorm xmlCfg ts := fun h =>
  absurd (h [tok .ident "linearGradient"] (by decide)) (by decide)

/-- **attr_ident_separated** (separation inside `[…]`, where the parser drops all white space; since 0ab4bcb for
every identifier, not only `i`): an identifier directly behind an identifier or a string is written behind a
white-space token — whatever the rest of the state is -/
theorem attr_ident_separated (st : SelSt) (t : Tok) (r : List Tok) (hA : st.inAttr = true) (ht : t.tt = .ident)
    (hp : st.prevIdStr = true) :
    selGo st (t :: r) =
      Verif.Model.CssGrammar.wsTok :: t ::
        selGo { st with prevColon := false, prevIdStr := true, prevMatcher := false } r := by
  have hm : isMatcherTok t = false := by simp [isMatcherTok, ht]
  simp [selGo, hA, ht, hp, hm, show (TT.ident == TT.colon) = false from rfl]

/-- an attribute value is written without quotes only if it has no backslash: what is written is, byte for byte,
the content of the string (no escape is re-interpreted; K-C04B-4) -/
theorem attr_unquote_plain (st : SelSt) (t : Tok) (r : List Tok) (hA : st.inAttr = true) (ht : t.tt = .string)
    (hb : ((t.data.drop 1).dropLast).contains '\\' = true) :
    (selGo st (t :: r)).head? = some t := by
  have hb' : '\\' ∈ t.data.tail.dropLast := by simpa using hb
  by_cases hl : 2 < t.data.length <;> simp [selGo, hA, ht, hb', hl]

/-- **selector_sep_outside** (separation outside `[…]`, every token list): the tokens written outside attribute
selectors have, one by one, the kind (token class, delimiter character) of the tokens read — nothing is inserted,
removed or merged there, identifiers are only respelled … -/
theorem selector_sep_outside (ts : List Tok) : kindsOutside false (selToks ts) = kindsOutside false ts :=
  kindsOutside_selToks ts

/-- … hence the written tokens re-lex as themselves wherever the parser's tokens do: whether two adjacent tokens
must be kept apart (CSS Syntax 3 §9) depends on their kinds only -/
theorem selector_reparses (ts : List Tok) (h : sepFree (kindsOutside false ts) = true) :
    sepFree (kindsOutside false (selToks ts)) = true := by
  rw [selector_sep_outside]; exact h

example : sepFree (kindsOutside false exSel) = true ∧
    sepFree [kindOf (tok .ident "a"), kindOf (tok .ident "b")] = false := by decide

/-! ## `!important` -/

open Verif.Model.Css Verif.Model.CssShorthand in
/-- **important_preserved**: whenever `!important` is recognised at the end of a declaration it is written at the end
of the output, for every property and every value inside the model -/
theorem important_preserved (o : Opts) (prop : List Char) (comps : List Tok) (out : List Char)
    (h : minifyDeclarationB o prop comps = some out) (hi : (stripImportant comps).2 = true) :
    ∃ pre, out = pre ++ Verif.Model.Css.S "!important" := by
  unfold minifyDeclarationB at h
  by_cases he : comps.isEmpty = true
  · have : comps = [] := by simpa using he
    subst this
    simp [stripImportant] at hi
  · simp only [he, Bool.false_eq_true, if_false] at h
    rcases hs : stripImportant comps with ⟨c, imp⟩
    rw [hs] at h hi
    simp only at hi
    subst hi
    simp only at h
    split at h
    · split at h
      · simp at h
      · simp only [if_true, Option.some.injEq] at h
        exact ⟨_, h.symm⟩
    · split at h
      · simp at h
      · split at h
        · simp only [writeDeclaration, if_true, Option.some.injEq] at h
          exact ⟨_, h.symm⟩
        · split at h
          · simp at h
          · simp only [writeDeclaration, if_true, Option.some.injEq] at h
            exact ⟨_, h.symm⟩

/-! ## the `font` and `background` shorthands

Full statements (not proved: the correspondence run evaluates them on every generated and corpus value through
`spec.c04b.decl` / `spec.c04b.holds` on the real output; see docs/C04B.md).  The examples are closed instances. -/

open Verif.Model.Css Verif.Model.CssShorthand Verif.Spec.CssShorthand in
/-- every `font` value of the grammar of CSS Fonts 3 §3.7 keeps its component slots (`asWritten`: the tokens a user
agent reads from the bytes of an unquoted family) -/
def font_ok : Prop :=
  ∀ (vs out : List Tok), (fontDen vs).isSome = true → minifyFont vs = some out →
    fontDen (out.flatMap Verif.Spec.CssValue.asWritten) = fontDen vs

open Verif.Model.Css Verif.Model.CssShorthand Verif.Spec.CssShorthand in
open Verif.Model.Css Verif.Model.CssShorthand Verif.Spec.CssShorthand Verif.Proofs.CssShorthand in
/-- **font_ok** (partial; explicit decidable guard `fontGuard`: the family search of the code stops where the grammar
puts the size or the line-height; family tokens are commas, identifiers and quoted strings without backslash that are
no generic / CSS-wide keywords — K-C04-6 —; the IE quoting of a leading `-` does not apply): every `font` value of the
grammar is rewritten to a value with the same component slots — style, variant, weight, stretch, size, line-height
and the list of families -/
theorem font_ok_partial (vs : List Tok) (d : FontDen) (hden : fontDen vs = some d) (hg : fontGuard vs = true) :
    ∃ out, minifyFont vs = some out ∧ fontDen (out.flatMap Verif.Spec.CssValue.asWritten) = some d :=
  Verif.Proofs.CssShorthand.font_ok_partial vs d hden hg

open Verif.Model.Css Verif.Model.CssShorthand Verif.Spec.CssShorthand Verif.Proofs.CssShorthand in
/-- the unguarded statement is false: a quoted family that is a generic keyword loses its quotes (K-C04-6, pinned by
css_test.go) -/
theorem font_ok_counterexample : ¬ font_ok := fun h =>
  absurd (h [tok .dimension "12px", tok .string "\"serif\""] [tok .dimension "12px", .mk .string "serif".toList []]
    (by decide +kernel) (by decide +kernel)) (by decide +kernel)

open Verif.Model.Css Verif.Model.CssShorthand Verif.Spec.CssShorthand in
/-- every `background` value of the grammar of CSS Backgrounds 3 §3.10 keeps the component slots of every layer -/
def background_ok : Prop :=
  ∀ (vs : List Tok), (bgDen vs).isSome = true → bgInside vs = true → bgDen (minifyBackground vs) = bgDen vs

open Verif.Model.Css Verif.Model.CssShorthand Verif.Spec.CssShorthand in
/-- **font_pre_ok** (component theorem, every token list): the rewrite of the tokens in front of the font size —
`normal` removed, `bold` → `700`, `400` removed — keeps every component slot: whenever the tokens `pre` fill the
slots style / variant / weight / stretch consistently from the initial values (no slot twice, at most four tokens),
the rewritten tokens fill them with the same values -/
theorem font_pre_ok (pre : List Tok) (d0 r : FontDen) (hw : d0.weight = .abs 400)
    (h : fillPre pre d0 [] = some r) : fillPre (pre.filterMap fontPreTok) d0 [] = some r :=
  Verif.Proofs.CssShorthand.fillPre_fontPre pre d0 [] [] r (fun _ h => h) (Nat.le_refl _) (fun _ => hw) h

open Verif.Model.Css Verif.Model.CssShorthand Verif.Spec.CssShorthand in
example : let d0 : FontDen := ⟨"normal".toList, "normal".toList, .abs 400, "normal".toList, normalTok, normalTok, []⟩
    let pre := [tok .ident "Normal", tok .ident "italic", tok .ident "BOLD", tok .ident "normal"]
    (fillPre pre d0 []).isSome = true ∧ lexemes (pre.filterMap fontPreTok) = "italic700".toList := by decide +kernel

open Verif.Model.Css Verif.Model.CssShorthand Verif.Spec.CssShorthand Verif.Proofs.CssBackground in
/-- **background_ok** (partial; explicit decidable guard `bgLayerGuard` on every layer: no position / size component
and no slash, at most one repeat keyword — no pair to merge —, not both `padding-box` and `border-box` — no pair to
remove —, and the colour rewrite of the code keeps the component class and value of every token — `sTok`; for
colours that is `Props.C04.color_ok_partial` and the colour tables): every such `background` value, any number of
layers, keeps the component slots of every layer: image, repeat, attachment, origin, clip, colour; `none`, `scroll`,
`transparent`, `#0000` are removed because they are the initial values; a layer that becomes empty is written `0 0`
(the initial position).  The position / size / repeat-pair rewrites are those of the longhands (`Props.C04`:
`bg_position_ok`, `bg_size_ok`, `bg_repeat_ok`); their composition inside the shorthand is not proved (harness:
`spec.c04b.decl` on every generated value). -/
theorem background_ok_partial (vs : List Tok) (ds : List BgLayer)
    (hg : ∀ seg ∈ Verif.Spec.CssValue.splitCommas vs, bgLayerGuard seg = true) (hden : bgDen vs = some ds) :
    bgDen (minifyBackground vs) = some ds :=
  Verif.Proofs.CssBackground.background_ok_partial vs ds hg hden

/-- `url(x) scroll no-repeat content-box , NONE fixed #FF0000` -/
def exBg2 : List Tok :=
  [tok .url "url(x)", tok .ident "scroll", tok .ident "no-repeat", tok .ident "content-box", tok .comma ",",
   tok .ident "NONE", tok .ident "fixed", tok .hash "#FF0000"]

open Verif.Model.Css Verif.Model.CssShorthand Verif.Spec.CssShorthand Verif.Proofs.CssBackground in
example : (Verif.Spec.CssValue.splitCommas exBg2).all bgLayerGuard = true ∧ (bgDen exBg2).isSome = true ∧
    lexemes (minifyBackground exBg2) = "url(x)no-repeatcontent-box,fixedred".toList := by decide +kernel

/-- `normal bold 12px/normal "Times New Roman", serif` -/
def exFont : List Tok :=
  [tok .ident "normal", tok .ident "bold", tok .dimension "12px", tok .delim "/", tok .ident "normal",
   tok .string "\"Times New Roman\"", tok .comma ",", tok .ident "serif"]

open Verif.Model.Css Verif.Model.CssShorthand Verif.Spec.CssShorthand in
example : (minifyFont exFont).map lexemes = some "70012pxtimes new roman,serif".toList ∧
    (minifyFont exFont).map (fun o => fontDen (o.flatMap Verif.Spec.CssValue.asWritten)) = some (fontDen exFont) ∧
    (fontDen exFont).isSome = true := by decide +kernel

open Verif.Model.Css Verif.Model.CssShorthand Verif.Spec.CssShorthand Verif.Proofs.CssShorthand in
example : fontGuard exFont = true ∧ (fontDen exFont).isSome = true ∧
    fontGuard [tok .ident "italic", tok .number "400", tok .ident "medium", tok .delim "/", tok .number "1.5",
      tok .ident "Small", tok .ident "caps", tok .comma ",", tok .string "'Segoe UI'"] = true := by decide +kernel

/-- `url(x) 0 0/auto auto repeat repeat scroll padding-box border-box transparent` -/
def exBg : List Tok :=
  [tok .url "url(x)", tok .number "0", tok .number "0", tok .delim "/", tok .ident "auto", tok .ident "auto",
   tok .ident "repeat", tok .ident "repeat", tok .ident "scroll", tok .ident "padding-box", tok .ident "border-box",
   tok .ident "transparent"]

open Verif.Model.Css Verif.Model.CssShorthand Verif.Spec.CssShorthand in
example : lexemes (minifyBackground exBg) = "url(x)".toList ∧ bgDen (minifyBackground exBg) = bgDen exBg ∧
    (bgDen exBg).isSome = true := by decide +kernel

end Verif.Props.C04B

import Verif.Proofs.RenameTree
/-!
# C02 — JS identifier shortening is capture-free and leaves public names alone

Property theorems only.  Model: `Verif.Model.Rename` (`js/vars.go`), specification: `Verif.Spec.Scope`
(scope trees of `parse/v2/js`, by contract), regenerated facts: `Verif.Gen.JsKeywords`, `Verif.Gen.RenameSites`.
-/
namespace Verif.Props.C02
open Verif.Spec.Scope Verif.Model.Rename Verif.Proofs.Rename

/-! ## the alphabets of `newRenamer` (regenerated from `js/vars.go`) -/

/-- both alphabets are duplicate-free and have the lengths `identStartLen`, `identContinueLen` that `getName`
    and `getIndex` hard-code (otherwise `newRenamer` panics) -/
theorem alphabets_ok :
    CfgOk freqCfg ∧ CfgOk alphaCfg ∧
    freqCfg.start.length = Verif.Gen.RenameSites.identStartLen ∧
    freqCfg.cont.length = Verif.Gen.RenameSites.identContinueLen ∧
    alphaCfg.start.length = Verif.Gen.RenameSites.identStartLen ∧
    alphaCfg.cont.length = Verif.Gen.RenameSites.identContinueLen := by
  refine ⟨⟨?_, ?_, ?_, ?_⟩, ⟨?_, ?_, ?_, ?_⟩, ?_, ?_, ?_, ?_⟩ <;> decide

theorem freqCfg_ok : CfgOk freqCfg := alphabets_ok.1
theorem alphaCfg_ok : CfgOk alphaCfg := alphabets_ok.2.1

def isIdentStart (ch : Char) : Bool :=
  ('a' ≤ ch && ch ≤ 'z') || ('A' ≤ ch && ch ≤ 'Z') || ch == '_' || ch == '$'
def isIdentContinue (ch : Char) : Bool := isIdentStart ch || ('0' ≤ ch && ch ≤ '9')
/-- ECMAScript `IdentifierName` restricted to ASCII -/
def validIdent : Name → Bool
  | [] => false
  | h :: t => isIdentStart h && t.all isIdentContinue

/-- every character of the start alphabets may start an identifier, every character of the continue
    alphabets may continue one -/
theorem alphabets_ident_chars :
    freqCfg.start.all isIdentStart = true ∧ freqCfg.cont.all isIdentContinue = true ∧
    alphaCfg.start.all isIdentStart = true ∧ alphaCfg.cont.all isIdentContinue = true := by
  refine ⟨?_, ?_, ?_, ?_⟩ <;> decide

/-! ## getName -/

/-- different indices give different names (for any duplicate-free non-empty alphabets) -/
theorem getName_injective (c : Cfg) (ok : CfgOk c) (i j : Nat)
    (h : getName c.start c.cont i = getName c.start c.cont j) : i = j :=
  getName_inj c ok i j h

example : CfgOk freqCfg ∧ CfgOk alphaCfg := ⟨freqCfg_ok, alphaCfg_ok⟩

/-- a generated name is non-empty, its first character comes from the start alphabet and all others from
    the continue alphabet -/
theorem getName_ident (c : Cfg) (ok : CfgOk c) (i : Nat) :
    ∃ h t, getName c.start c.cont i = h :: t ∧ h ∈ c.start ∧ ∀ ch ∈ t, ch ∈ c.cont :=
  getName_shape c ok i

/-- hence, with the alphabets of `newRenamer`, every generated name is a syntactically valid identifier -/
theorem getName_valid (i : Nat) :
    validIdent (getName freqCfg.start freqCfg.cont i) = true ∧
    validIdent (getName alphaCfg.start alphaCfg.cont i) = true := by
  constructor
  · obtain ⟨h, t, e, hs, ht⟩ := getName_shape freqCfg freqCfg_ok i
    rw [e]
    simp only [validIdent, Bool.and_eq_true, List.all_eq_true]
    exact ⟨List.all_eq_true.1 alphabets_ident_chars.1 h hs,
      fun ch hc => List.all_eq_true.1 alphabets_ident_chars.2.1 ch (ht ch hc)⟩
  · obtain ⟨h, t, e, hs, ht⟩ := getName_shape alphaCfg alphaCfg_ok i
    rw [e]
    simp only [validIdent, Bool.and_eq_true, List.all_eq_true]
    exact ⟨List.all_eq_true.1 alphabets_ident_chars.2.2.1 h hs,
      fun ch hc => List.all_eq_true.1 alphabets_ident_chars.2.2.2 ch (ht ch hc)⟩

/-- the name has `k + 1` characters exactly for the indices of block `k` (size `54·64^k`) -/
theorem getName_length (c : Cfg) (ok : CfgOk c) (i : Nat) :
    ∃ k r, r < c.start.length * c.cont.length ^ k ∧ i = off c.start.length c.cont.length k + r ∧
      (getName c.start c.cont i).length = k + 1 := by
  obtain ⟨k, r, h1, h2, h3⟩ := getName_spec c.start c.cont ok.startPos ok.contPos i
  exact ⟨k, r, h1, h2, by rw [h3, encode_length]⟩

/-! ## one `renameScope` call -/

/-- the "there are no keywords that are one character long" shortcut of `isReserved` is sound for the
    regenerated keyword table -/
theorem keywords_long : ∀ k ∈ Verif.Gen.JsKeywords.keywords, 1 < k.length := by decide

/-- the `for r.isReserved(…)` loop terminates: at most `|keywords| + |undeclared|` names are skipped in a row -/
theorem skip_terminates (c : Cfg) (ok : CfgOk c) (und : List Name) (i : Nat) :
    isReserved c.keywords und
      (getName c.start c.cont (nextFree c und (c.keywords.length + und.length + 1) i)) = false :=
  nextFree_not_reserved c ok und i

/-- the names handed out by one call are pairwise distinct, one per declared variable, none equals the
    current name of an undeclared variable of the scope, and none of length ≥ 2 is a keyword -/
theorem renameScope_fresh (c : Cfg) (ok : CfgOk c) (s : ScopeIn) :
    let names := (renameScope c true s).map (·.2)
    (s.order.length = s.declared.length → names.length = s.declared.length) ∧ names.Nodup ∧
    ∀ n ∈ names, n ∉ s.undeclared ∧ (1 < n.length → n ∉ c.keywords) := by
  have hl := newNames_length c s.undeclared s.declared.length
  have hsub : ∀ n ∈ (s.order.zip (newNames c s.undeclared s.declared.length)).map (·.2),
      n ∈ newNames c s.undeclared s.declared.length := by
    intro n hn
    simp only [List.mem_map] at hn
    obtain ⟨p, hp, rfl⟩ := hn
    exact (List.of_mem_zip hp).2
  simp only [renameScope, if_true]
  refine ⟨?_, ?_, ?_⟩
  · intro ho
    simp [List.length_zip, ho, hl]
  · have : ((s.order.zip (newNames c s.undeclared s.declared.length)).map (·.2)).Sublist
        (newNames c s.undeclared s.declared.length) := by
      exact map_snd_zip_sublist _ _
    exact this.nodup (newNames_nodup c ok _ _)
  · intro n hn
    exact not_reserved_iff (newNames_free c ok _ _ n (hsub n hn))

/-- with the real keyword table no handed-out name is a keyword at all -/
theorem renameScope_no_keyword (s : ScopeIn) :
    ∀ n ∈ (renameScope freqCfg true s).map (·.2), n ∉ Verif.Gen.JsKeywords.keywords := by
  intro n hn hk
  have h1 := ((renameScope_fresh freqCfg freqCfg_ok s).2.2 n hn).2
  exact h1 (keywords_long n hk) hk

example : (renameScope freqCfg true
    { declared := [("x".toList, 1), ("y".toList, 3)], numArgs := 0, undeclared := ["e".toList, "n".toList],
      order := [1, 0] }) = [(1, "t".toList), (0, "s".toList)] := by decide

/-- the result of `sort.Sort` may be any permutation that `validOrder` accepts; each of them is a
    permutation of the indices, so every declared variable receives exactly one of the names -/
theorem validOrder_perm (uses : List Nat) (numArgs : Nat) (order : List Nat)
    (h : validOrder uses numArgs order = true) : order.Perm (List.range uses.length) := by
  simp only [validOrder, Bool.and_eq_true, beq_iff_eq, List.all_eq_true, List.contains_iff_mem] at h
  obtain ⟨⟨⟨hl, hall⟩, _⟩, _⟩ := h
  have hsub : List.range uses.length ⊆ order := fun k hk => hall k hk
  have := (List.subperm_of_subset List.nodup_range hsub).perm_of_length_le (by simp [hl])
  exact this.symm

/-- with any permutation a correct sort may have produced, every declared variable receives exactly one name -/
theorem renameScope_each_once (c : Cfg) (s : ScopeIn)
    (h : validOrder (s.declared.map (·.2)) s.numArgs s.order = true) :
    ((renameScope c true s).map (·.1)).Perm (List.range s.declared.length) := by
  have hp := validOrder_perm _ _ _ h
  have hl : s.order.length = s.declared.length := by simpa using hp.length_eq
  simp only [renameScope, if_true]
  rw [List.map_fst_zip (by rw [newNames_length, hl]; exact Nat.le_refl _)]
  simpa using hp

example : validOrder [1, 5, 2, 5] 1 [0, 3, 1, 2] = true ∧ validOrder [1, 5, 2, 5] 1 [0, 1, 3, 2] = true ∧
    validOrder [1, 5, 2, 5] 1 [1, 0, 3, 2] = false := by decide

/-- the names handed out do not depend on the order at all: position `p` after the sort always receives the
    same name, whatever valid permutation the unstable sort chose -/
theorem names_independent_of_order (c : Cfg) (s : ScopeIn) (order' : List Nat)
    (h : order'.length = s.order.length) :
    (renameScope c true { s with order := order' }).map (·.2) = (renameScope c true s).map (·.2) := by
  simp only [renameScope, if_true]
  rw [← List.unzip_snd, ← List.unzip_snd]
  apply List.ext_getElem
  · simp [List.length_zip, h]
  · intro n h1 h2
    simp

/-! ## the traversal: capture-freedom -/

/-- **Main theorem.**  Let `t` be a scope tree satisfying the contract of the scope analysis (`wfTree`), in which
    renaming is never switched off below a renamed scope (`flagsOk`), and whose un-renamed part is spelled
    consistently with the parser's resolution (`inputOk`).  After every scope has been renamed, parents first,
    every identifier occurrence resolves — by ECMAScript's innermost-binding-by-name rule under the *new*
    spelling — to exactly the declaration (or to the free name) the parser had resolved it to. -/
theorem capture_free_partial (c : Cfg) (ok : CfgOk c) (ν : Naming) (t : Tree)
    (hwf : wfTree t = true) (hflags : flagsOk t.toForest = true) (hin : inputOk ν t.toForest = true) :
    ∀ o ∈ t.toForest.occs,
      resolve (renameTree c ν t) o.1 (renameTree c ν t o.2) = resolveId o.1 o.2 := by
  simp only [wfTree, wfForest, Bool.and_eq_true, decide_eq_true_eq] at hwf
  have hcl : Closed t.toForest := by
    intro x hx
    simp only [Tree.toForest] at hx ⊢
    rw [mem_free_node] at hx
    have hx' : x ∈ Forest.freeScope t.root t.children := by
      rcases hx with hx | hx
      · exact hx
      · simp [Forest.free] at hx
    have hs := scopeOk_iff.1 ((all_node _ _ _ _).1 hwf.2).1
    rw [decls_node]
    simp only [Forest.decls, List.append_nil, List.mem_append, not_or]
    exact ⟨(mem_freeScope.1 hx').2, hs.2 x hx'⟩
  have hall := main c ok ν t.toForest ν true hwf.1 hwf.2 hcl (by simp) (fun _ => hflags)
    (fun _ _ _ => rfl) (fun _ => hin)
  intro o ho
  exact (resolve_ok (renameForest c ν t.toForest) t.toForest hall o ho).1

/-- the usual case — no `with`, no `KeepVarNames`: every scope except the global one is renamed -/
theorem capture_free (c : Cfg) (ok : CfgOk c) (ν : Naming) (t : Tree)
    (hwf : wfTree t = true) (hroot : t.root.rename = false) (hall : allRenamed t.children = true)
    (hin : inputOkScope ν t.root t.children = true) :
    ∀ o ∈ t.toForest.occs,
      resolve (renameTree c ν t) o.1 (renameTree c ν t o.2) = resolveId o.1 o.2 := by
  apply capture_free_partial c ok ν t hwf
  · have hf : ∀ f : Forest, allRenamed f = true → flagsOk f = true := by
      intro f
      induction f with
      | nil => intro _; rfl
      | node i ch sib ihc ihs =>
        intro h
        simp only [allRenamed, all_node] at h
        simp only [flagsOk, h.1, if_true, Bool.and_eq_true]
        exact ⟨h.2.1, ihs h.2.2⟩
    simp only [Tree.toForest, flagsOk, hroot, Bool.false_eq_true, if_false, Bool.and_true]
    exact hf _ hall
  · have hi : ∀ f : Forest, allRenamed f = true → inputOk ν f = true := by
      intro f
      induction f with
      | nil => intro _; rfl
      | node i ch sib ihc ihs =>
        intro h
        simp only [allRenamed, all_node] at h
        simp only [inputOk, all_node]
        exact ⟨by simp [inputOkScope, h.1], ihc h.2.1, ihs h.2.2⟩
    simp only [Tree.toForest, inputOk, all_node]
    exact ⟨hin, hi _ hall, rfl⟩

/-- **Main theorem for the trees js.go produces** (after the fixes ce69f48 / f7bc618): with the rename flags computed as
    `Minify` computes them (`Tree.withFlags`: `KeepVarNames`, `HasWith` propagated to every enclosing function and to
    the global scope) the guard `flagsOk` always holds, so renaming is capture-free for every well-formed tree, every
    option setting and every placement of `with` -/
theorem capture_free_js (c : Cfg) (ok : CfgOk c) (ν : Naming) (keep : Bool) (t : Tree)
    (hwf : wfTree (Tree.withFlags keep t) = true)
    (hin : inputOk ν (Tree.withFlags keep t).toForest = true) :
    ∀ o ∈ (Tree.withFlags keep t).toForest.occs,
      resolve (renameTree c ν (Tree.withFlags keep t)) o.1 (renameTree c ν (Tree.withFlags keep t) o.2) =
        resolveId o.1 o.2 := by
  apply capture_free_partial c ok ν _ hwf _ hin
  simp only [Tree.withFlags, Tree.toForest, flagsOk, Bool.false_eq_true, if_false, Bool.and_true]
  apply computeFlags_flagsOk
  intro h
  simp only [Bool.and_eq_true, Bool.not_eq_true', Bool.or_eq_false_iff] at h
  exact ⟨h.1, h.2.2⟩

/-- the flags `Minify` computes satisfy the guard of `capture_free_partial` -/
theorem flags_ok_js (keep : Bool) (t : Tree) : flagsOk (Tree.withFlags keep t).toForest = true := by
  simp only [Tree.withFlags, Tree.toForest, flagsOk, Bool.false_eq_true, if_false, Bool.and_true]
  apply computeFlags_flagsOk
  intro h
  simp only [Bool.and_eq_true, Bool.not_eq_true', Bool.or_eq_false_iff] at h
  exact ⟨h.1, h.2.2⟩

/-- the statement for arbitrary flags, without the guard -/
def capture_free_full : Prop :=
  ∀ (c : Cfg), CfgOk c → ∀ (ν : Naming) (t : Tree), wfTree t = true → inputOk ν t.toForest = true →
    ∀ o ∈ t.toForest.occs, resolve (renameTree c ν t) o.1 (renameTree c ν t o.2) = resolveId o.1 o.2

/-- the scope tree of
    `function g(){ let z=1; function f(o){ let e=2; with(o){ return z+e } } return f }`
    (variables: 0 `g`, 1 `z`, 2 `f`, 3 `o`, 4 `e`): `g` is renamed, `f` contains `with` and is not -/
def withRoot : Info := { declared := [0], undeclared := [], refs := [], rename := false }
def withG : Info := { declared := [1, 2], undeclared := [], refs := [2], rename := true, isFunc := true }
def withF : Info :=
  { declared := [3, 4], undeclared := [1], refs := [3, 1, 4], rename := false, isFunc := true, hasWith := true }
def withTree : Tree :=
  { root := withRoot, children := .node withG (.node withF .nil .nil) .nil }

def withNaming : Naming := fun v => (["g".toList, "z".toList, "f".toList, "o".toList, "e".toList]).getD v []

/-- the guard is necessary for arbitrary flags: with renaming switched off *below* a renamed scope the outer `z`
    becomes `e` and is captured by the inner function's own `e`.  These are the flags /repo computed before fix f7bc618
    (known finding K-C02-2, fixed); `flags_ok_js` shows the current computation never produces them -/
theorem capture_free_counterexample : ¬ capture_free_full := by
  intro h
  have := h freqCfg freqCfg_ok withNaming withTree (by decide) (by decide)
    ([withF, withG, withRoot], 1) (by decide)
  revert this
  decide

/-- the guard is satisfiable by a tree with shadowing, a free global spelled like the first generated name,
    and an un-renamed global scope -/
def sampleTree : Tree :=
  { root := { declared := [0], undeclared := [9], refs := [0, 9], rename := false },
    children :=
      .node { declared := [1, 2], undeclared := [0, 9], refs := [1, 0], rename := true, isFunc := true }
        (.node { declared := [3], undeclared := [1, 9], refs := [3, 1, 9], rename := true } .nil
          (.node { declared := [4, 5], undeclared := [2], refs := [4, 2, 5], rename := true } .nil .nil))
        .nil }
def sampleNaming : Naming := fun v =>
  (["f".toList, "x".toList, "y".toList, "x".toList, "y".toList, "x".toList, [], [], [], "e".toList]).getD v []

example : wfTree sampleTree = true ∧ flagsOk sampleTree.toForest = true ∧
    inputOk sampleNaming sampleTree.toForest = true ∧ sampleTree.toForest.occs.length = 10 ∧
    (List.range 6).map (renameTree freqCfg sampleNaming sampleTree) =
      ["f".toList, "t".toList, "n".toList, "n".toList, "e".toList, "t".toList] := by decide

/-! ## public names -/

/-- variables that no scope of the tree declares (free / global names) keep their spelling -/
theorem free_names_kept (c : Cfg) (ν : Naming) (t : Tree) (v : VarId) (h : v ∉ t.toForest.decls) :
    renameTree c ν t v = ν v :=
  renameForest_frame c t.toForest ν v h

/-- declarations of a scope that is not renamed keep their spelling; in particular (`Tree.withFlags`) the
    top-level declarations -/
theorem unrenamed_names_kept (c : Cfg) (ν : Naming) (t : Tree) (hnd : t.toForest.decls.Nodup) :
    ∀ v ∈ unrenamedDecls t.toForest, renameTree c ν t v = ν v :=
  unrenamed_kept c t.toForest ν hnd

theorem toplevel_names_kept (c : Cfg) (ν : Naming) (keep : Bool) (t : Tree)
    (hnd : (Tree.withFlags keep t).toForest.decls.Nodup) :
    ∀ v ∈ t.root.declared, renameTree c ν (Tree.withFlags keep t) v = ν v := by
  intro v hv
  apply unrenamed_kept c _ ν hnd
  simp [Tree.withFlags, Tree.toForest, unrenamedDecls, hv]

/-- the call sites of `renameScope` in `/repo/js` (regenerated; local names are canonicalised by the translator so that
    renaming a receiver, parameter or local variable does not change the transcript: `recv` = receiver, `arg0` = first
    parameter, `sw` = variable of the type switch, `as(T)` = result of a type assertion, `f#0` = first result of the call
    `f(…)`, `let(e)` = variable initialised with `e`, `each(e)` = range value over `e`): block, `for`, `for-in`, `for-of`, `switch`,
    `try` body / `catch` / `finally`, statement-or-block bodies, function declarations and expressions, methods,
    arrow functions, class static blocks (since fix 1b16362) — and nothing else -/
def expectedSites : List (String × String × String) := [
  ("minifyStmt", "*js.BlockStmt", "sw.Scope"),
  ("minifyStmt", "*js.ForStmt", "sw.Body.Scope"),
  ("minifyStmt", "*js.ForInStmt", "sw.Body.Scope"),
  ("minifyStmt", "*js.ForOfStmt", "sw.Body.Scope"),
  ("minifyStmt", "*js.SwitchStmt", "sw.Scope"),
  ("minifyStmt", "*js.TryStmt", "sw.Body.Scope"),
  ("minifyStmt", "*js.TryStmt", "sw.Catch.Scope"),
  ("minifyStmt", "*js.TryStmt", "sw.Finally.Scope"),
  ("minifyStmtOrBlock", "-", "as(*js.BlockStmt).Scope"),
  ("minifyFuncDecl", "-", "arg0.Body.Scope"),
  ("minifyFuncDecl", "-", "arg0.Body.Scope"),
  ("minifyMethodDecl", "-", "arg0.Body.Scope"),
  ("minifyArrowFunc", "-", "arg0.Body.Scope"),
  ("minifyClassDecl", "-", "each(arg0.List).StaticBlock.Scope")]

/-- **public names are kept (structural part).**  The global scope (`ast.Scope` / `ast.BlockStmt.Scope` in
    `Minify`) is never handed to `renameScope`: the regenerated list of call sites is the expected one, none of
    them lies in `Minify` and none has an argument rooted at the AST root; `renameScope` does nothing when the
    flag is off; the flag starts as `!o.KeepVarNames && !ast.Scope.HasWith` -/
theorem public_names_kept :
    Verif.Gen.RenameSites.sites = expectedSites ∧
    (Verif.Gen.RenameSites.sites.all fun s =>
      s.1 != "Minify" &&
      ["sw.Scope", "sw.Body.Scope", "sw.Catch.Scope", "sw.Finally.Scope", "as(*js.BlockStmt).Scope",
        "arg0.Body.Scope", "each(arg0.List).StaticBlock.Scope"].contains s.2.2) = true ∧
    Verif.Gen.RenameSites.guardFirst = true ∧
    Verif.Gen.RenameSites.newRenamerArgs =
      ["!recv.KeepVarNames && !js.Parse#0.Scope.HasWith", "!recv.useAlphabetVarNames"] := by
  refine ⟨?_, ?_, ?_, ?_⟩ <;> decide

/-- **every scope is complete when it is renamed.**  `optimizeStmtList` may move lexical declarations into the scope whose
    statement list it optimises (`Scope.Unscope` of a merged else block); the traversal model (`renameForest`) assumes that the
    `declared` list of a scope is final when the scope is handed to `renameScope` — a declaration arriving later would keep
    its original name, unchecked against the names already handed out.  Regenerated fact: at each of the 14 call sites the
    statement list of that scope is optimised *before* the `renameScope` call of the same function / case clause (the plain
    block statement has no optimisation of its own: its list was optimised with the enclosing list). -/
theorem optimize_before_rename :
    Verif.Gen.RenameSites.siteOrder =
      ["none", "before", "before", "before", "before", "before", "before", "before", "before", "before", "before",
        "before", "before", "before"] ∧
    Verif.Gen.RenameSites.siteOrder.length = Verif.Gen.RenameSites.sites.length ∧
    (Verif.Gen.RenameSites.siteOrder.all fun o => o != "after") = true ∧
    ((Verif.Gen.RenameSites.sites.zip Verif.Gen.RenameSites.siteOrder).all fun p =>
      p.2 == "before" || (p.1.2.1 == "*js.BlockStmt" && p.1.2.2 == "sw.Scope")) = true := by
  refine ⟨?_, ?_, ?_, ?_⟩ <;> decide

/-! ## KeepVarNames and `with` -/

/-- every write of `renamer.rename` is either the restore of the saved value or
    `!decl.Body.Scope.HasWith && !m.o.KeepVarNames` — what `computeFlags` models -/
theorem flag_writes :
    (Verif.Gen.RenameSites.flagWrites.all fun w =>
      ["minifyFuncDecl", "minifyMethodDecl", "minifyArrowFunc"].contains w.1 &&
      (w.2 == "!arg0.Body.Scope.HasWith && !recv.o.KeepVarNames" || w.2 == "let(recv.renamer.rename)")) = true ∧
    Verif.Gen.RenameSites.flagWrites.length = 6 := by
  refine ⟨?_, ?_⟩ <;> decide

/-- **`KeepVarNames`**: no scope is renamed, the naming does not change at all -/
theorem keep_identity (c : Cfg) (ν : Naming) (t : Tree) :
    renameTree c ν (Tree.withFlags true t) = ν := by
  apply noneRenamed_id
  simp only [Tree.withFlags, Tree.toForest, all_node, Bool.not_true, Bool.not_false]
  exact ⟨trivial, computeFlags_keep _, rfl⟩

/-- more generally: when the flag is off everywhere nothing changes -/
theorem rename_off_identity (c : Cfg) (ν : Naming) (t : Tree)
    (h : t.toForest.all (fun i _ => !i.rename) = true) : renameTree c ν t = ν :=
  noneRenamed_id c t.toForest ν h

/-- one call with the flag off returns the old names in the old order -/
theorem renameScope_off (c : Cfg) (s : ScopeIn) :
    (renameScope c false s).map (·.2) = s.declared.map (·.1) ∧
    (renameScope c false s).map (·.1) = List.range s.declared.length := by
  simp only [renameScope, Bool.false_eq_true, if_false]
  constructor
  · rw [← List.unzip_snd, List.unzip_zip (by simp)]
  · rw [← List.unzip_fst, List.unzip_zip (by simp)]

/-- **`with`**: a function scope that contains `with` or encloses a function that does gets the flag off, and so
    does every block scope of that function; the declarations of all these scopes keep their names
    (`unrenamed_names_kept`) -/
theorem with_disables (keep cur : Bool) (f : Forest) :
    (computeFlags keep cur f).all
      (fun i ch => !(i.isFunc && (i.hasWith || anyWith ch)) || (!i.rename && regionUnrenamed ch)) = true :=
  computeFlags_with keep f cur

/-- `with` anywhere in the program switches renaming off for the blocks of the global code -/
theorem with_disables_toplevel (keep : Bool) (t : Tree) (h : (t.root.hasWith || anyWith t.children) = true) :
    regionUnrenamed (Tree.withFlags keep t).children = true := by
  simp only [Tree.withFlags, h, Bool.not_true, Bool.and_false]
  exact computeFlags_region keep t.children

/-- the full reading of the property — *every name occurring in* a function that contains `with` is emitted
    unchanged — as a decidable predicate on a tree and two namings -/
def withRefsKept (ν ν' : Naming) (f : Forest) : Bool :=
  f.all (fun i ch => !(i.isFunc && i.hasWith) || (i.refs ++ ch.free).all (fun v => ν' v == ν v))

/-- the tree of K-C02-2 with the flags `Minify` computes now: nothing is renamed, every name of the `with` function stays -/
example : (Tree.withFlags false withTree).children =
      .node { withG with rename := false } (.node withF .nil .nil) .nil ∧
    withRefsKept withNaming (renameTree freqCfg withNaming (Tree.withFlags false withTree))
      (Tree.withFlags false withTree).toForest = true := by decide

/-! ## shorthand properties and object patterns -/

/-- `{a}` (object literal) / `{a}` (binding pattern) whose variable now is spelled `e` is printed `a:e`:
    the property key that is read or written stays the original one, the value is the variable -/
theorem shorthand_key_kept (key value : Name) (hk : ':' ∉ key) (isId : Bool) :
    readProp (printProp isId key value) = (key, value) := by
  unfold printProp
  split
  · rename_i h
    simp only [Bool.and_eq_true, beq_iff_eq] at h
    rw [← h.2]
    simp [readProp, splitColon_none key hk]
  · simp [readProp, splitColon_key key value hk]

example : printProp true "a".toList "e".toList = "a:e".toList ∧
    printProp true "a".toList "a".toList = "a".toList := by decide

end Verif.Props.C02

import Verif.Proofs.JsonParse
/-!
# C07 — JSON minification preserves the value

Property theorems only.  Specification: `Verif.Spec.Json` (RFC 8259 generatively: a valid text
denoting `v` is `render ws v` for a decoration `ws` and a well-formed `v`).  Model of
`/repo/json/json.go`: `Verif.Model.Json` (`events` = contract of the dependency parser,
`minifyEvents` = the loop of `Minify`, `minifyText` = both composed through the spec parser).
`minify.Number` is the parameter `num`; what is needed of it is stated as the hypotheses
`NumGrammar` (all precisions) and `NumValue` (precision ≤ 0), to be discharged by C08.
-/
namespace Verif.Props.C07
open Verif.Spec.Json Verif.Model.Json Verif.Proofs.Json Verif.Proofs.JsonParse

/-! ## (a) the loop on the event stream of a value -/

/-- For every well-formed value the loop of `json.go`, run on the parser's event stream, writes the
    whitespace-free text of the value with every number lexeme `s` replaced by `jsonNum o num s`:
    separators are re-inserted exactly where the grammar has them. -/
theorem minify_events (o : JsonOpts) (num : List Char → Int → List Char) (v : JV) (hw : wf v = true) :
    minifyEvents o num (events .value v) = compact (mapNum (jsonNum o num) v) := by
  have h := go_value o num v hw true .value []
  simpa [minifyEvents, minifyGo, sep_first] using h

/-! ## (b) numbers -/

/-- the identity satisfies the hypotheses on `num` (they are satisfiable) -/
theorem numId_ok (p : Int) : NumGrammar (fun s _ => s) p ∧ NumValue (fun s _ => s) p := by
  refine ⟨fun s hs => ⟨?_, Nat.le_refl _⟩, fun _ _ => rfl⟩
  unfold isJsonNumber at hs
  simp only [unsignedOk, Bool.and_eq_true] at hs
  simp [isMinNumber, unsignedMinOk, hs.1, hs.2]

/-- What `Minify` writes for a JSON number lexeme is again a JSON number lexeme (no `.5`, `-.5`),
    and it is longer than the lexeme only under the trigger `numGrows` (then by one byte). -/
theorem jsonNum_ok (o : JsonOpts) (num : List Char → Int → List Char)
    (hg : NumGrammar num o.precision) (s : List Char) (hs : isJsonNumber s = true) :
    isJsonNumber (jsonNum o num s) = true ∧
    (jsonNum o num s).length ≤ s.length + (if numGrows o num s = true then 1 else 0) := by
  unfold jsonNum numGrows
  cases hk : o.keepNumbers with
  | true => simp [hs]
  | false =>
    obtain ⟨h1, h2⟩ := hg s hs
    refine ⟨by simpa using repair_json _ h1, ?_⟩
    simp only [Bool.false_eq_true, if_false, Bool.not_false, Bool.true_and]
    rcases repair_cases (num s o.precision) with ⟨t, ht, hr⟩ | ⟨t, ht, hr⟩ | ⟨hr, hsd⟩
    · rw [hr, ht]; simp only [startsDot, List.length_cons, Bool.true_and, beq_iff_eq]
      rw [ht] at h2; simp only [List.length_cons] at h2
      split <;> omega
    · rw [hr, ht]; simp only [startsDot, List.length_cons, Bool.true_and, beq_iff_eq]
      rw [ht] at h2; simp only [List.length_cons] at h2
      split <;> omega
    · rw [hr, hsd]; simp; exact h2

/-- At precision ≤ 0 (hypothesis `NumValue`) the written number has the value of the lexeme. -/
theorem jsonNum_value (o : JsonOpts) (num : List Char → Int → List Char)
    (hg : NumGrammar num o.precision) (hv : NumValue num o.precision)
    (s : List Char) (hs : isJsonNumber s = true) :
    numVal (jsonNum o num s) = numVal s ∧ numEq s (jsonNum o num s) = true := by
  have h : numVal (jsonNum o num s) = numVal s := by
    unfold jsonNum
    cases o.keepNumbers with
    | true => rfl
    | false =>
      simp only [Bool.false_eq_true, if_false]
      rw [repair_val _ (hg s hs).1, hv s hs]
  exact ⟨h, numEq_of_val s _ hs h⟩

/-- `KeepNumbers`: every number lexeme is written unchanged — no hypothesis on `num`. -/
theorem jsonNum_keep (o : JsonOpts) (num : List Char → Int → List Char) (hk : o.keepNumbers = true)
    (s : List Char) : jsonNum o num s = s := by
  simp [jsonNum, hk]

/-! ## (e) unambiguity: the spec parser inverts `render` -/

/-- The executable RFC 8259 parser recovers `v` from every text of `v` (every decoration). -/
theorem parse_render (v : JV) (hw : wf v = true) (ws : Ws) : parseJ (render ws v) = some v :=
  parseJ_render v hw ws

/-- A valid JSON text denotes exactly one value. -/
theorem render_unambiguous (v v' : JV) (hw : wf v = true) (hw' : wf v' = true) (ws ws' : Ws)
    (h : render ws v = render ws' v') : v = v' := by
  have h1 := parse_render v hw ws
  rw [h, parse_render v' hw' ws'] at h1
  exact (Option.some.inj h1).symm

/-! ## (c) the property -/

/-- **C07, precision ≤ 0.**  For every well-formed value `v` and every whitespace decoration `ws`
    the minifier maps the text `render ws v` to the whitespace-free text of a value `v'` that is
    well formed (so the output is a valid JSON text, and the spec parser reads `v'` back from it)
    and equal to `v`: same nesting, same member order including duplicate keys, byte-identical
    strings, keys and literals, numerically equal numbers. -/
theorem C07_main (o : JsonOpts) (num : List Char → Int → List Char)
    (hg : NumGrammar num o.precision) (hv : NumValue num o.precision)
    (v : JV) (hw : wf v = true) (ws : Ws) :
    minifyText o num (render ws v) = some (compact (mapNum (jsonNum o num) v)) ∧
    wf (mapNum (jsonNum o num) v) = true ∧
    parseJ (compact (mapNum (jsonNum o num) v)) = some (mapNum (jsonNum o num) v) ∧
    jvEq v (mapNum (jsonNum o num) v) = true := by
  have hw' : wf (mapNum (jsonNum o num) v) = true :=
    wf_mapNum _ (fun s hs => (jsonNum_ok o num hg s hs).1) v hw
  refine ⟨?_, hw', parse_render _ hw' noWs, ?_⟩
  · simp [minifyText, parse_render v hw ws, minify_events o num v hw]
  · exact jvEq_mapNum _ (fun s hs => (jsonNum_value o num hg hv s hs).2) v hw

/-- **C07, any precision.**  With `NumGrammar` alone (it holds for every precision) the output is
    still a valid JSON text of the same shape: same nesting, member order, strings, keys and
    literals; every number is a JSON number (its value may be rounded when precision > 0). -/
theorem C07_shape (o : JsonOpts) (num : List Char → Int → List Char)
    (hg : NumGrammar num o.precision) (v : JV) (hw : wf v = true) (ws : Ws) :
    minifyText o num (render ws v) = some (compact (mapNum (jsonNum o num) v)) ∧
    wf (mapNum (jsonNum o num) v) = true ∧
    jvShapeEq v (mapNum (jsonNum o num) v) = true := by
  refine ⟨?_, wf_mapNum _ (fun s hs => (jsonNum_ok o num hg s hs).1) v hw,
    jvShapeEq_mapNum _ (fun s hs => (jsonNum_ok o num hg s hs).1) v hw⟩
  simp [minifyText, parse_render v hw ws, minify_events o num v hw]

/-- **C07, KeepNumbers.**  With number keeping the output is the input with the whitespace removed:
    every lexeme (numbers included) is byte-identical — whatever `num` does. -/
theorem C07_keepNumbers (o : JsonOpts) (num : List Char → Int → List Char)
    (hk : o.keepNumbers = true) (v : JV) (hw : wf v = true) (ws : Ws) :
    minifyText o num (render ws v) = some (compact v) := by
  simp [minifyText, parse_render v hw ws, minify_events o num v hw,
    mapNum_id _ (jsonNum_keep o num hk) v]

/-! ## (d) length -/

/-- If `f` never lengthens a JSON number lexeme, the compact text of `mapNum f v` is never longer than
    any text of `v`. -/
theorem C07_length (f : List Char → List Char)
    (hf : ∀ s, isJsonNumber s = true → (f s).length ≤ s.length)
    (v : JV) (hw : wf v = true) (ws : Ws) :
    (compact (mapNum f v)).length ≤ (render ws v).length := by
  have := len_bound f (fun _ => false) (fun s hs => by simpa using hf s hs) v hw ws
  rw [countNum_false] at this
  exact this

/-- The output of the minifier is longer than the input by at most the number of number lexemes
    under the trigger `numGrows` (known finding K-C07-1). -/
theorem C07_length_bound (o : JsonOpts) (num : List Char → Int → List Char)
    (hg : NumGrammar num o.precision) (v : JV) (hw : wf v = true) (ws : Ws) :
    (compact (mapNum (jsonNum o num) v)).length ≤
      (render ws v).length + countNum (numGrows o num) v :=
  len_bound _ _ (fun s hs => (jsonNum_ok o num hg s hs).2) v hw ws

/-- full statement of the length clause: the output is never longer than the input -/
def C07_length_full : Prop :=
  ∀ (o : JsonOpts) (num : List Char → Int → List Char),
    NumGrammar num o.precision → NumValue num o.precision →
    ∀ (v : JV), wf v = true → ∀ ws : Ws,
      (compact (mapNum (jsonNum o num) v)).length ≤ (render ws v).length

/-- proved part: no number lexeme of `v` is under the trigger of K-C07-1 -/
theorem C07_length_partial (o : JsonOpts) (num : List Char → Int → List Char)
    (hg : NumGrammar num o.precision) (v : JV) (hw : wf v = true) (ws : Ws)
    (guard : countNum (numGrows o num) v = 0) :
    (compact (mapNum (jsonNum o num) v)).length ≤ (render ws v).length := by
  have := C07_length_bound o num hg v hw ws
  omega

/-- with `KeepNumbers` the guard holds for every value: the output is never longer -/
theorem C07_length_keep (o : JsonOpts) (num : List Char → Int → List Char)
    (hk : o.keepNumbers = true) (v : JV) (hw : wf v = true) (ws : Ws) :
    (compact (mapNum (jsonNum o num) v)).length ≤ (render ws v).length :=
  C07_length _ (fun s _ => by simp [jsonNum_keep o num hk s]) v hw ws

/-- a shortener that behaves like `minify.Number` on `1e-3` (↦ `.001`, same value, same length)
    and is the identity elsewhere -/
def numCE : List Char → Int → List Char :=
  fun s _ => if s = ['1', 'e', '-', '3'] then ['.', '0', '0', '1'] else s

theorem numCE_ok : NumGrammar numCE 0 ∧ NumValue numCE 0 := by
  constructor
  · intro s hs
    unfold numCE
    by_cases h : s = ['1', 'e', '-', '3']
    · subst h; exact ⟨by decide, by decide⟩
    · simp only [h, if_false]; exact (numId_ok 0).1 s hs
  · intro s hs
    unfold numCE
    by_cases h : s = ['1', 'e', '-', '3']
    · subst h; decide +kernel
    · simp only [h, if_false]

/-- The length clause fails as soon as the shortener turns `1e-3` into `.001` (which
    `minify.Number` does: the harness replays `1e-3 ↦ 0.001` on the real code, K-C07-1): the repair
    makes `0.001`, five bytes for four. -/
theorem C07_length_counterexample : ¬ C07_length_full := fun h =>
  absurd (h {} numCE numCE_ok.1 numCE_ok.2 (.num ['1', 'e', '-', '3']) (by decide) noWs) (by decide)

/-! ## non-vacuity -/

/-- a non-trivial well-formed value: nested containers, duplicate keys, escapes, several number shapes -/
def sample : JV :=
  .obj [("\"a\"".toList, .arr [.num "1e-3".toList, .num "-0.50".toList, .lit .nul, .arr []]),
        ("\"a\"".toList, .str "\"x\\\"\\u00e9\"".toList), ("\"\"".toList, .obj [])]

example : wf sample = true := by decide
example : (events .value sample).length = 15 := by decide
example : minifyEvents {} numCE (events .value sample) =
    "{\"a\":[0.001,-0.50,null,[]],\"a\":\"x\\\"\\u00e9\",\"\":{}}".toList := by decide
example : countNum (numGrows {} numCE) sample = 1 := by decide
example : countNum (numGrows {} (fun s _ => s)) sample = 0 := by decide
example : isJsonNumber "-1.5E+10".toList = true ∧ isJsonNumber ".5".toList = false ∧
    isMinNumber "-.5e-7".toList = true ∧ isJsonString "\"\\u12aF\\n\"".toList = true := by decide

end Verif.Props.C07

import Verif.Proofs.JsonParse
/-!
# C07 — JSON minification preserves the value

Property theorems only.  Specification: `Verif.Spec.Json` (RFC 8259 generatively: a valid text
denoting `v` is `render ws v` for a decoration `ws` and a well-formed `v`).  Model of
`/repo/json/json.go`: `Verif.Model.Json` (`events` = contract of the dependency parser,
`minifyEvents` = the loop of `Minify`, `minifyText` = both composed through the spec parser).
`minify.Number` is the parameter `num`; what is needed of it is stated as the hypotheses
`NumGrammar`, `NumDotShrinks` (all precisions) and `NumValue` (precision ≤ 0), to be discharged by C08.
-/
namespace Verif.Props.C07
open Verif.Spec.Json Verif.Model.Json Verif.Proofs.Json Verif.Proofs.JsonParse

/-! ## (a) the loop on the event stream of a value -/

/-- For every well-formed value the loop of `json.go`, run on the parser's event stream, writes the
    whitespace-free text of the value with every number lexeme `s` replaced by `jsonNum o num s`:
    separators are re-inserted exactly where the grammar has them. -/
theorem minify_events (o : JsonOpts) (num : List Char → Int → List Char) (v : JV) (hw : wf v = true) :
    minifyEvents o num (events .value v) = compact (mapNum (jsonNum o num) v) := by
  have h := go_value o num v hw true .value []
  simpa [minifyEvents, minifyGo, sep_first] using h

/-! ## (b) numbers -/

theorem json_not_startsDot (s : List Char) (hs : isJsonNumber s = true) : startsDot s = false := by
  cases hd : startsDot s with
  | false => rfl
  | true =>
    exfalso
    unfold startsDot at hd
    split at hd
    · simp [isJsonNumber, stripMinus, unsignedOk, isDigit, intOk] at hs
    · simp [isJsonNumber, stripMinus, unsignedOk, isDigit, intOk] at hs
    · simp at hd

/-- the identity satisfies the hypotheses on `num` (they are satisfiable) -/
theorem numId_ok (p : Int) :
    NumGrammar (fun s _ => s) p ∧ NumDotShrinks (fun s _ => s) p ∧ NumValue (fun s _ => s) p := by
  refine ⟨fun s hs => ⟨?_, Nat.le_refl _⟩, fun s hs _ hd => ?_, fun _ _ => rfl⟩
  · unfold isJsonNumber at hs
    simp only [unsignedOk, Bool.and_eq_true] at hs
    simp [isMinNumber, unsignedMinOk, hs.1, hs.2]
  · simp [json_not_startsDot s hs] at hd

theorem repair_len (r : List Char) :
    (repair r).length = r.length + (if startsDot r = true then 1 else 0) := by
  rcases repair_cases r with ⟨t, rfl, hr⟩ | ⟨t, rfl, hr⟩ | ⟨hr, hsd⟩
  · rw [hr]; simp [startsDot]
  · rw [hr]; simp [startsDot]
  · rw [hr, hsd]; simp

/-- What `Minify` writes for a JSON number lexeme is again a JSON number lexeme (no `.5`, `-.5`)
    and never longer than the lexeme. -/
theorem jsonNum_ok (o : JsonOpts) (num : List Char → Int → List Char)
    (hg : NumGrammar num o.precision) (hd : NumDotShrinks num o.precision)
    (s : List Char) (hs : isJsonNumber s = true) :
    isJsonNumber (jsonNum o num s) = true ∧ (jsonNum o num s).length ≤ s.length := by
  unfold jsonNum
  cases hk : o.keepNumbers with
  | true => simp [hs]
  | false =>
    obtain ⟨h1, h2⟩ := hg s hs
    simp only [Bool.false_eq_true, if_false, jsonNumOut]
    split
    · exact ⟨hs, Nat.le_refl _⟩
    · rename_i hc
      refine ⟨repair_json _ h1, ?_⟩
      rw [repair_len]
      cases hsd : startsDot (num s o.precision) with
      | false => simpa using h2
      | true =>
        simp only [hsd, Bool.and_true, Bool.and_eq_true, decide_eq_true_eq, not_and, Nat.not_le] at hc
        simp only [if_true]
        cases he : hasExp s with
        | false => have := hd s hs he hsd; omega
        | true => have := hc he; omega

/-- the grammar half of `jsonNum_ok` needs `NumGrammar` only -/
theorem jsonNum_json (o : JsonOpts) (num : List Char → Int → List Char)
    (hg : NumGrammar num o.precision) (s : List Char) (hs : isJsonNumber s = true) :
    isJsonNumber (jsonNum o num s) = true := by
  unfold jsonNum
  cases o.keepNumbers with
  | true => simpa using hs
  | false =>
    simp only [Bool.false_eq_true, if_false, jsonNumOut]
    split
    · exact hs
    · exact repair_json _ (hg s hs).1

/-- At precision ≤ 0 (hypothesis `NumValue`) the written number has the value of the lexeme. -/
theorem jsonNum_value (o : JsonOpts) (num : List Char → Int → List Char)
    (hg : NumGrammar num o.precision) (hv : NumValue num o.precision)
    (s : List Char) (hs : isJsonNumber s = true) :
    numVal (jsonNum o num s) = numVal s ∧ numEq s (jsonNum o num s) = true := by
  have h : numVal (jsonNum o num s) = numVal s := by
    unfold jsonNum
    cases o.keepNumbers with
    | true => rfl
    | false =>
      simp only [Bool.false_eq_true, if_false, jsonNumOut]
      split
      · rfl
      · rw [repair_val _ (hg s hs).1, hv s hs]
  exact ⟨h, numEq_of_val s _ hs h⟩

/-- `KeepNumbers`: every number lexeme is written unchanged — no hypothesis on `num`. -/
theorem jsonNum_keep (o : JsonOpts) (num : List Char → Int → List Char) (hk : o.keepNumbers = true)
    (s : List Char) : jsonNum o num s = s := by
  simp [jsonNum, hk]

/-! ## (e) unambiguity: the spec parser inverts `render` -/

/-- The executable RFC 8259 parser recovers `v` from every text of `v` (every decoration). -/
theorem parse_render (v : JV) (hw : wf v = true) (ws : Ws) : parseJ (render ws v) = some v :=
  parseJ_render v hw ws

/-- A valid JSON text denotes exactly one value. -/
theorem render_unambiguous (v v' : JV) (hw : wf v = true) (hw' : wf v' = true) (ws ws' : Ws)
    (h : render ws v = render ws' v') : v = v' := by
  have h1 := parse_render v hw ws
  rw [h, parse_render v' hw' ws'] at h1
  exact (Option.some.inj h1).symm

/-! ## (c) the property -/

/-- **C07, precision ≤ 0.**  For every well-formed value `v` and every whitespace decoration `ws`
    the minifier maps the text `render ws v` to the whitespace-free text of a value `v'` that is
    well formed (so the output is a valid JSON text, and the spec parser reads `v'` back from it)
    and equal to `v`: same nesting, same member order including duplicate keys, byte-identical
    strings, keys and literals, numerically equal numbers. -/
theorem C07_main (o : JsonOpts) (num : List Char → Int → List Char)
    (hg : NumGrammar num o.precision) (hv : NumValue num o.precision)
    (v : JV) (hw : wf v = true) (ws : Ws) :
    minifyText o num (render ws v) = some (compact (mapNum (jsonNum o num) v)) ∧
    wf (mapNum (jsonNum o num) v) = true ∧
    parseJ (compact (mapNum (jsonNum o num) v)) = some (mapNum (jsonNum o num) v) ∧
    jvEq v (mapNum (jsonNum o num) v) = true := by
  have hw' : wf (mapNum (jsonNum o num) v) = true :=
    wf_mapNum _ (fun s hs => jsonNum_json o num hg s hs) v hw
  refine ⟨?_, hw', parse_render _ hw' noWs, ?_⟩
  · simp [minifyText, parse_render v hw ws, minify_events o num v hw]
  · exact jvEq_mapNum _ (fun s hs => (jsonNum_value o num hg hv s hs).2) v hw

/-- **C07, any precision.**  With `NumGrammar` alone (it holds for every precision) the output is
    still a valid JSON text of the same shape: same nesting, member order, strings, keys and
    literals; every number is a JSON number (its value may be rounded when precision > 0). -/
theorem C07_shape (o : JsonOpts) (num : List Char → Int → List Char)
    (hg : NumGrammar num o.precision) (v : JV) (hw : wf v = true) (ws : Ws) :
    minifyText o num (render ws v) = some (compact (mapNum (jsonNum o num) v)) ∧
    wf (mapNum (jsonNum o num) v) = true ∧
    jvShapeEq v (mapNum (jsonNum o num) v) = true := by
  refine ⟨?_, wf_mapNum _ (fun s hs => jsonNum_json o num hg s hs) v hw,
    jvShapeEq_mapNum _ (fun s hs => jsonNum_json o num hg s hs) v hw⟩
  simp [minifyText, parse_render v hw ws, minify_events o num v hw]

/-- **C07, KeepNumbers.**  With number keeping the output is the input with the whitespace removed:
    every lexeme (numbers included) is byte-identical — whatever `num` does. -/
theorem C07_keepNumbers (o : JsonOpts) (num : List Char → Int → List Char)
    (hk : o.keepNumbers = true) (v : JV) (hw : wf v = true) (ws : Ws) :
    minifyText o num (render ws v) = some (compact v) := by
  simp [minifyText, parse_render v hw ws, minify_events o num v hw,
    mapNum_id _ (jsonNum_keep o num hk) v]

/-! ## (d) length -/

/-- If `f` never lengthens a JSON number lexeme, the compact text of `mapNum f v` is never longer than
    any text of `v`. -/
theorem C07_length (f : List Char → List Char)
    (hf : ∀ s, isJsonNumber s = true → (f s).length ≤ s.length)
    (v : JV) (hw : wf v = true) (ws : Ws) :
    (compact (mapNum f v)).length ≤ (render ws v).length := by
  have := len_bound f (fun _ => false) (fun s hs => by simpa using hf s hs) v hw ws
  rw [countNum_false] at this
  exact this

/-- **C07, length clause (full).**  The output is never longer than the input: for every well-formed
    value, every decoration, every option set (any precision, KeepNumbers on or off). -/
theorem C07_length_full (o : JsonOpts) (num : List Char → Int → List Char)
    (hg : NumGrammar num o.precision) (hd : NumDotShrinks num o.precision)
    (v : JV) (hw : wf v = true) (ws : Ws) :
    (compact (mapNum (jsonNum o num) v)).length ≤ (render ws v).length :=
  C07_length _ (fun s hs => (jsonNum_ok o num hg hd s hs).2) v hw ws

/-- with `KeepNumbers` no hypothesis on `num` is needed -/
theorem C07_length_keep (o : JsonOpts) (num : List Char → Int → List Char)
    (hk : o.keepNumbers = true) (v : JV) (hw : wf v = true) (ws : Ws) :
    (compact (mapNum (jsonNum o num) v)).length ≤ (render ws v).length :=
  C07_length _ (fun s _ => by simp [jsonNum_keep o num hk s]) v hw ws

/-- a shortener that behaves like `minify.Number` on `1e-3` (↦ `.001`, same value, same length)
    and is the identity elsewhere: it satisfies all three hypotheses, and json.go keeps `1e-3` -/
def numCE : List Char → Int → List Char :=
  fun s _ => if s = ['1', 'e', '-', '3'] then ['.', '0', '0', '1'] else s

theorem numCE_ok : NumGrammar numCE 0 ∧ NumDotShrinks numCE 0 ∧ NumValue numCE 0 := by
  refine ⟨?_, ?_, ?_⟩
  · intro s hs
    unfold numCE
    by_cases h : s = ['1', 'e', '-', '3']
    · subst h; exact ⟨by decide, by decide⟩
    · simp only [h, if_false]; exact (numId_ok 0).1 s hs
  · intro s hs he hd
    unfold numCE at hd ⊢
    by_cases h : s = ['1', 'e', '-', '3']
    · subst h; exact absurd he (by decide)
    · simp only [h, if_false] at hd ⊢; exact (numId_ok 0).2.1 s hs he hd
  · intro s hs
    unfold numCE
    by_cases h : s = ['1', 'e', '-', '3']
    · subst h; decide +kernel
    · simp only [h, if_false]

/-! ## non-vacuity -/

/-- a non-trivial well-formed value: nested containers, duplicate keys, escapes, several number shapes -/
def sample : JV :=
  .obj [("\"a\"".toList, .arr [.num "1e-3".toList, .num "-0.50".toList, .lit .nul, .arr []]),
        ("\"a\"".toList, .str "\"x\\\"\\u00e9\"".toList), ("\"\"".toList, .obj [])]

example : wf sample = true := by decide
example : (events .value sample).length = 15 := by decide
example : minifyEvents {} numCE (events .value sample) =
    "{\"a\":[1e-3,-0.50,null,[]],\"a\":\"x\\\"\\u00e9\",\"\":{}}".toList := by decide
example : jsonNum {} (fun _ _ => ".5".toList) "0.5".toList = "0.5".toList ∧
    jsonNum {} (fun _ _ => "-.5".toList) "-0.50".toList = "-0.5".toList ∧
    jsonNum {} (fun _ _ => ".001".toList) "1E-3".toList = "1E-3".toList ∧
    jsonNum {} (fun _ _ => ".0012".toList) "1.2e-3".toList = "0.0012".toList := by decide
example : isJsonNumber "-1.5E+10".toList = true ∧ isJsonNumber ".5".toList = false ∧
    isMinNumber "-.5e-7".toList = true ∧ isJsonString "\"\\u12aF\\n\"".toList = true := by decide

end Verif.Props.C07

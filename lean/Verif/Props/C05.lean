import Verif.Spec.SvgPath
import Verif.Spec.SvgHazard
import Verif.Model.SvgPath
import Verif.Proofs.SvgGeom
import Verif.Proofs.SvgLex
import Verif.Proofs.SvgParse
import Verif.Proofs.SvgModel
import Verif.Proofs.SvgInduct
/-!
# C05 — SVG path minification preserves the absolute segments

Property theorems only.  Spec: `Verif.Spec.SvgPath` (lexer, parser, absolute segments, `≃`);
guards: `Verif.Spec.SvgHazard`; model of `/repo/svg/pathdata.go`: `Verif.Model.SvgPath`.
-/
namespace Verif.Props.C05
open Verif.Spec.SvgPath Verif.Spec.SvgHazard Verif.Model.SvgPath Verif.Proofs.SvgGeom
open Verif.Proofs.SvgLex Verif.Proofs.SvgParse Verif.Proofs.SvgModel Verif.Proofs.SvgInduct Verif.Model.SvgGuard

/-! ## path_lex_roundtrip: separator elision never merges or splits tokens

`copyNumber` / `copyFlag` / the command letters form a state machine (`PState`: last letter, `prevDigit`,
`prevDigitIsInt`, `prevFlag`).  The theorems quantify over **every** item sequence and every start
state; the only hypotheses are the shape contract of the printed numbers (`goodNum`, checked on every
output of the real `minify.Number` by the harness) and that flags are printed exactly at the arc flag
positions.  `itemsToks` / `groupsToks` are the tokens with the spellings the printer chooses
(`.0` for `0` after a non-integer, `e2` for a trailing `00` of a plain integer). -/

/-- item level, any printer state `st`, any lexer context `(cur, k)`, any continuation `rest` that
    cannot extend the last number: the lexer consumes exactly the printed items and yields their tokens -/
theorem path_lex_roundtrip_items (items : List PItem) (st : PState) (cur : Char) (k : Nat) (rest : List Char) (f : Nat)
    (hgood : ∀ s, PItem.num s ∈ items → goodNum s = true) (hpos : posOk cur k items = true)
    (hinv : st.prevDigit = true → st.prevFlag = false)
    (hstop : (emitItems st items).1.prevDigit = true → Stop (emitItems st items).1.prevDigitIsInt rest)
    (hf : ((emitItems st items).2 ++ rest).length < f) :
    ∃ f', rest.length < f' ∧
      lexGo f cur k ((emitItems st items).2 ++ rest) =
        (lexGo f' cur (k + items.length) rest).map (itemsToks st items ++ ·) :=
  lex_items items st cur k rest f hgood hpos hinv hstop hf

/-- whole outputs: every list of well-formed groups (arity, flags at arc positions, shaped numbers,
    moveto always printed with its letter) lexes back to exactly its tokens -/
theorem path_lex_roundtrip (gs : List OutGroup) (h : WfGroups gs) :
    lexPath (renderGroups gs) = some (groupsToks {} gs) :=
  lex_groups gs {} '\x00' 0 _ h ⟨rfl, by intro h; exact absurd h (by decide), by intro h; exact absurd h (by decide)⟩
    (Nat.lt_succ_self _)

/-- … and parses back to exactly the intended commands: implicit repetition and the implicit
    lineto after moveto are only used where the omitted letter is the implied one -/
theorem path_parse_roundtrip (gs : List OutGroup) (h : WfGroups gs) :
    parse (renderGroups gs) = some (groupsCmds {} gs) := by
  unfold parse
  rw [path_lex_roundtrip gs h]
  exact parse_groups gs {} none _ h (by intro k rel h; simp at h) (Nat.lt_succ_self _)

/-- non-vacuity: a group list using compact flags, `.0`, `e2`, omitted letters -/
example : WfGroups [⟨true, .M, false, [.num "10".toList, .num "-.5".toList]⟩,
      ⟨false, .L, false, [.num ".5".toList, .num "0".toList]⟩,
      ⟨false, .A, true, [.num "100".toList, .num "1".toList, .num "0".toList, .flag false, .flag true, .num "1".toList, .num "1e3".toList]⟩] := by
  intro g hg
  simp only [List.mem_cons, List.not_mem_nil, or_false] at hg
  rcases hg with rfl | rfl | rfl <;>
    exact ⟨by decide, by intro s hs; simp only [List.mem_cons, PItem.num.injEq, List.not_mem_nil, or_false, reduceCtorEq, false_or] at hs; rcases hs with rfl | rfl | rfl | rfl | rfl <;> decide, by decide, by decide⟩

example : renderGroups [⟨true, .M, false, [.num "10".toList, .num "-.5".toList]⟩,
      ⟨false, .L, false, [.num ".5".toList, .num "0".toList]⟩,
      ⟨false, .A, true, [.num "100".toList, .num "1".toList, .num "0".toList, .flag false, .flag true, .num "1".toList, .num "1e3".toList]⟩]
    = "M10-.5.5.0a1e2 1 0 011 1e3".toList := by decide

/-- **the output of the model of `ShortenPathData` is valid path data, for every input**: whenever the
    scanner finds a command and no bad format (`scan d = some r`, `r.tail = []`; without a command the input is
    returned unchanged, after a bad format the rest is appended verbatim) the output
    lexes and parses, and the parsed commands are exactly the groups `copyInstruction` chose
    (rewritten command, absolute or relative alternative) — no token is merged, split or re-attributed to
    another command by letter omission, separator elision, compact flags, `.0` or `e2`.
    Hypothesis: the numbers that were printed have the `minify.Number` output shape (C08.5; the harness
    checks `goodNum` on every output of the real function).  No validity assumption on `d`. -/
theorem shorten_output_parses (P : NumPr) (d : List Char) (r : ScanRes)
    (hscan : scan d = some r) (htail : r.tail = []) (hlen : d.length ≤ maxLen)
    (hgood : ∀ g ∈ groupsOfInstrs P r.instrs r.lastNext, ∀ s, PItem.num s ∈ g.items → goodNum s = true) :
    parse (shortenWith P d) = some (groupsCmds {} (groupsOfInstrs P r.instrs r.lastNext)) := by
  have hl : ¬ maxLen < d.length := by omega
  simp only [shortenWith, hl, if_false, hscan, htail, List.append_nil]
  apply path_parse_roundtrip
  intro g hg
  have h := groupsOfInstrs_wf P r.instrs r.lastNext g hg
  exact ⟨h.len, hgood g hg, h.ok, h.force⟩

/-- the same for any number printers that always produce the `minify.Number` shape -/
theorem shorten_output_parses_of_contract (P : NumPr) (hc : ∀ s, goodNum (P.cur s) = true) (ha : ∀ v, goodNum (P.alt v) = true)
    (d : List Char) (r : ScanRes) (hscan : scan d = some r) (htail : r.tail = []) (hlen : d.length ≤ maxLen) :
    parse (shortenWith P d) = some (groupsCmds {} (groupsOfInstrs P r.instrs r.lastNext)) := by
  apply shorten_output_parses P d r hscan htail hlen
  intro g hg s hs
  exact printed_good P hc ha r.instrs r.lastNext g hg s hs

example : scan "M10 10L20 10 20 10C1 2 3 4 5 6".toList ≠ none := by decide

/-! ## copy_geometry: each rewrite of `copyInstruction` denotes the same absolute segment(s)

Each lemma is stated on the specification's `stepCmd` (segment produced **and** the state handed to
the next command), for an arbitrary state `s`, over exact rationals. -/

/-- C → S: a cubic whose first control point is the reflection of the previous control point
    (the current point if the previous command was not C/S) is the smooth cubic. -/
theorem copy_geometry_C_to_S (s : St) (rel : Bool) (x1 y1 x2 y2 x y : Rat)
    (h : (x1 + (off s rel).1, y1 + (off s rel).2) = refl s.cur s.lc) :
    stepCmd s ⟨.C, rel, [x1, y1, x2, y2, x, y]⟩ = stepCmd s ⟨.S, rel, [x2, y2, x, y]⟩ := by
  simp only [stepCmd]; rw [h]

example : (1 + (off ({ cur := (1, 1) } : St) true).1, (1 : Rat) + (off ({ cur := (1, 1) } : St) true).2)
    = refl (1, 1) (some (0, 0)) := by decide +kernel

/-- Q → T -/
theorem copy_geometry_Q_to_T (s : St) (rel : Bool) (x1 y1 x y : Rat)
    (h : (x1 + (off s rel).1, y1 + (off s rel).2) = refl s.cur s.lq) :
    stepCmd s ⟨.Q, rel, [x1, y1, x, y]⟩ = stepCmd s ⟨.T, rel, [x, y]⟩ := by
  simp only [stepCmd]; rw [h]

/-- L → H: a lineto that keeps `y` -/
theorem copy_geometry_L_to_H (s : St) (rel : Bool) (x y : Rat) (h : y + (off s rel).2 = s.cur.2) :
    stepCmd s ⟨.L, rel, [x, y]⟩ = stepCmd s ⟨.H, rel, [x]⟩ := by
  simp only [stepCmd]; rw [h]

/-- L → V: a lineto that keeps `x` -/
theorem copy_geometry_L_to_V (s : St) (rel : Bool) (x y : Rat) (h : x + (off s rel).1 = s.cur.1) :
    stepCmd s ⟨.L, rel, [x, y]⟩ = stepCmd s ⟨.V, rel, [y]⟩ := by
  simp only [stepCmd]; rw [h]

example : (0 : Rat) + (off ({ cur := (3, 4) } : St) true).1 = ({ cur := (3, 4) } : St).cur.1 := by decide +kernel

/-- zero-length lineto: the segment is dropped by `≃` and the current point does not move
    (the *state* differs in `lc`/`lq` only when a curve was remembered — guard `dropped`). -/
theorem copy_geometry_zero_line (s : St) (rel : Bool) (x y : Rat)
    (h : (x + (off s rel).1, y + (off s rel).2) = s.cur) :
    (stepCmd s ⟨.L, rel, [x, y]⟩).2.filterMap simp1 = [] ∧ (stepCmd s ⟨.L, rel, [x, y]⟩).1.cur = s.cur := by
  simp only [stepCmd]; rw [h]; simp [simp1]

/-- degenerate cubic → line: if both control points coincide with the start or the end point the cubic
    and the line to the same end point are identified by `≃` and leave the same current point -/
theorem copy_geometry_degenerate_cubic (s : St) (rel : Bool) (x1 y1 x2 y2 x y : Rat)
    (h1 : (x1 + (off s rel).1, y1 + (off s rel).2) = s.cur ∨
          (x1 + (off s rel).1, y1 + (off s rel).2) = (x + (off s rel).1, y + (off s rel).2))
    (h2 : (x2 + (off s rel).1, y2 + (off s rel).2) = s.cur ∨
          (x2 + (off s rel).1, y2 + (off s rel).2) = (x + (off s rel).1, y + (off s rel).2)) :
    (stepCmd s ⟨.C, rel, [x1, y1, x2, y2, x, y]⟩).2.filterMap simp1 =
      (stepCmd s ⟨.L, rel, [x, y]⟩).2.filterMap simp1 ∧
    (stepCmd s ⟨.C, rel, [x1, y1, x2, y2, x, y]⟩).1.cur = (stepCmd s ⟨.L, rel, [x, y]⟩).1.cur := by
  simp only [stepCmd, filterMap_single, simp1_degenerate_cubic _ _ _ _ h1 h2, and_self]

/-- degenerate quadratic → line -/
theorem copy_geometry_degenerate_quad (s : St) (rel : Bool) (x1 y1 x y : Rat)
    (h1 : (x1 + (off s rel).1, y1 + (off s rel).2) = s.cur ∨
          (x1 + (off s rel).1, y1 + (off s rel).2) = (x + (off s rel).1, y + (off s rel).2)) :
    (stepCmd s ⟨.Q, rel, [x1, y1, x, y]⟩).2.filterMap simp1 =
      (stepCmd s ⟨.L, rel, [x, y]⟩).2.filterMap simp1 ∧
    (stepCmd s ⟨.Q, rel, [x1, y1, x, y]⟩).1.cur = (stepCmd s ⟨.L, rel, [x, y]⟩).1.cur := by
  simp only [stepCmd, filterMap_single, simp1_degenerate_quad _ _ _ h1, and_self]

/-- absolute ↔ relative alternative: adding the offsets that `shortenAltPosInstruction` adds
    (`altOffset`: x/y by parity, only the end point of an arc, the single coordinate of H/V) and
    toggling the case of the letter gives the same segment and the same next state — for every one
    of the ten command kinds.  Arc radii, rotation and flags are copied (`altOffset … = 0`). -/
theorem copy_geometry_rel_to_abs (s : St) (k : Kind) (a : List Rat) (h : a.length = k.arity) :
    stepCmd s ⟨k, true, a⟩ = stepCmd s ⟨k, false, shiftArgs k s.cur.1 s.cur.2 0 a⟩ :=
  toggle_rel_abs s k a h

theorem copy_geometry_abs_to_rel (s : St) (k : Kind) (a : List Rat) (h : a.length = k.arity) :
    stepCmd s ⟨k, false, a⟩ = stepCmd s ⟨k, true, shiftArgs k (-s.cur.1) (-s.cur.2) 0 a⟩ :=
  toggle_abs_rel s k a h

example : ([1, 2, 30, 0, 1, 5, 6] : List Rat).length = Kind.A.arity := by decide

/-- M → L for the later pairs of a moveto: a bare argument pair after a moveto group parses as lineto -/
theorem copy_geometry_implicit_lineto (rel : Bool) (a b c d : List Char) :
    parsePath [.cmd (letter .M rel), .num a, .num b, .num c, .num d] =
      some [⟨.M, rel, [numVal a, numVal b]⟩, ⟨.L, rel, [numVal c, numVal d]⟩] := by
  cases rel <;> simp [parsePath, parseGo, letter, Kind.upper, Kind.lower, kindOf, takeArgs, tokVal, Kind.arity, implicitNext]

/-! ## path_geometry: full statement, counterexamples, known-finding witnesses -/

/-- the full property for path data (precision 0, as inside `svg.Minify`) -/
def path_geometry_full : Prop :=
  ∀ d : List Char, validPath d = true → holds d (shorten d) = true

/-- **path_geometry, guarded**: for number printers that keep value and shape (`NumExact`: C08.1 + C08.5),
    every path data string that the scanner reads as the specification does (`scanGuard`) and that has no
    curve command directly after a closepath, a removed zero-length segment or a degenerate curve of its family
    (`noHazard`; conservative, these cases are handled by look-ahead since the fixes; `mergeZ` drops a closepath
    letter repeated directly, which `≃` does not see) is minified to path data
    denoting the same absolute segments up to `≃`.  Proof: `shorten_output_parses` (the output parses to the
    chosen groups) and `groups_geometry` (induction over groups and instructions with the cursor, subpath start
    and control points of model / input / output as invariant; one lemma per rewriting stage). -/
theorem path_geometry_partial (P : NumPr) (hP : NumExact P) (d : List Char)
    (hlen : d.length ≤ maxLen) (hg : scanGuard d = true)
    (hz : noHazard (mergeZ ((parse d).getD [])) = true) :
    holds d (shortenWith P d) = true := by
  unfold scanGuard at hg
  cases hscan : scan d with
  | none =>
    -- no command at all: the input is returned unchanged
    rw [hscan] at hg
    simp only at hg
    have hl : ¬ maxLen < d.length := by omega
    simp only [shortenWith, hl, if_false, hscan, holds]
    cases hp : parse d with
    | none => rw [hp] at hg; simp at hg
    | some ci => simp [equiv]
  | some r =>
    rw [hscan] at hg
    simp only [Bool.and_eq_true, List.isEmpty_iff, List.all_eq_true, beq_iff_eq] at hg
    obtain ⟨⟨htail, hok⟩, hparse⟩ := hg
    have hout := shorten_output_parses_of_contract P (fun s => (hP.cur s).1) (fun v => (hP.alt v).1) d r hscan htail hlen
    cases hp : parse d with
    | none => rw [hp] at hparse; simp at hparse
    | some ci =>
      rw [hp] at hparse hz
      simp only [Option.map_some, Option.some.injEq, Option.getD_some] at hparse hz
      rw [hparse] at hz
      have hgeo := groups_geometry P hP r.instrs r.lastNext (fun i hi => instrOk_of_B i (hok i hi)) hz
      have hm := mergeZ_equiv ci
      unfold holds
      rw [hp, hout]
      simp only [equiv, beq_iff_eq]
      rw [← hm, hparse]
      simp only [norm, hgeo]

/-- the guards are satisfiable by a non-trivial path using every kind of rewrite -/
example : scanGuard "M0 0L5 0 5 0H6C6 5 10 5 10 0S15-5 15 0Q20 5 25 0T35 0A5 5 0 0140 0z".toList = true := by decide +kernel

example : validPath "M0 0L5 0 5 0H6C6 5 10 5 10 0S15-5 15 0Q20 5 25 0T35 0A5 5 0 0140 0z".toList = true ∧
    trailDot "M0 0L5 0 5 0H6C6 5 10 5 10 0S15-5 15 0Q20 5 25 0T35 0A5 5 0 0140 0z".toList = false ∧
    noHazard ((parse "M0 0L5 0 5 0H6C6 5 10 5 10 0S15-5 15 0Q20 5 25 0T35 0A5 5 0 0140 0z".toList).getD []) = true ∧
    holds "M0 0L5 0 5 0H6C6 5 10 5 10 0S15-5 15 0Q20 5 25 0T35 0A5 5 0 0140 0z".toList
      (shorten "M0 0L5 0 5 0H6C6 5 10 5 10 0S15-5 15 0Q20 5 25 0T35 0A5 5 0 0140 0z".toList) = true := by decide +kernel

/-- the full statement for the concrete Go printers is false **because of precision only**: the alternative
    coordinate is printed with 15 significant digits (`newPrecision`), so an exact sum with more digits is rounded:
    `M.12 0H1000000000000000.1` ↦ `M.12 0h1e15` (off by 0.02 at 1e15; within the float tolerance 1e-9 of the
    property, and `float64` cannot represent the input either).  This is the "partial w.r.t. floating point" part. -/
theorem path_geometry_counterexample : ¬ path_geometry_full := fun h =>
  absurd (h "M.12 0H1000000000000000.1".toList (by decide +kernel)) (by decide +kernel)

/-- the repaired defects stay repaired in the model and satisfy the property (F02, F03 and the former
    known findings K-C05-2, 3, 4, 5, 10) -/
theorem fixed_regressions :
    shorten "M2 2Z L3 3".toList = "M2 2zL3 3".toList ∧ holds "M2 2Z L3 3".toList (shorten "M2 2Z L3 3".toList) = true ∧
    shorten "M1e100 5e-100L1 2".toList = "M1e100 5e-100 1 2".toList ∧
    holds "M1e100 5e-100L1 2".toList (shorten "M1e100 5e-100L1 2".toList) = true ∧
    shorten "M0 0C1 1 2 2 3 3zC-2 -2 5 5 6 6".toList = "M0 0C1 1 2 2 3 3zC-2-2 5 5 6 6".toList ∧
    holds "M0 0C1 1 2 2 3 3zC-2 -2 5 5 6 6".toList (shorten "M0 0C1 1 2 2 3 3zC-2 -2 5 5 6 6".toList) = true ∧
    shorten "M0 0C0 5 5 5 5 0L5 0S10 -5 10 0".toList = "M0 0C0 5 5 5 5 0V0s5-5 5 0".toList ∧
    holds "M0 0C0 5 5 5 5 0L5 0S10 -5 10 0".toList (shorten "M0 0C0 5 5 5 5 0L5 0S10 -5 10 0".toList) = true ∧
    shorten "M0 0Q0 0 5 5T10 0".toList = "M0 0T5 5t5-5".toList ∧
    holds "M0 0Q0 0 5 5T10 0".toList (shorten "M0 0Q0 0 5 5T10 0".toList) = true ∧
    shorten "M0 0C0 0 0 0 5 5S10 0 10 5".toList = "M0 0S0 0 5 5s5-5 5 0".toList ∧
    holds "M0 0C0 0 0 0 5 5S10 0 10 5".toList (shorten "M0 0C0 0 0 0 5 5S10 0 10 5".toList) = true ∧
    shorten "M1.e5 2".toList = "M1.e5 2".toList ∧
    shorten "M0 0A5 3 50. 1 1 4 4V9".toList = "M0 0A5 3 50. 1 1 4 4V9".toList ∧
    shorten "M 10 10 L 20 20 A 1 1 0 2".toList = "M10 10 20 20A 1 1 0 2".toList := by decide +kernel

end Verif.Props.C05

import Verif.Model.Cli
import Verif.Proofs.Cli
import Verif.Props.C20
/-!
# C19 — the CLI writes the library's output to the right place and never harms inputs

Property theorems only.  Model: `Verif.Model.Cli` (selection, destinations, concatenating reader) on top of
`Verif.Model.CliFs` (file effects, C20).  Helper lemmas: `Verif.Proofs.Cli`.
-/
namespace Verif.Props.C19
open Verif Verif.Model.CliFs Verif.Model.Cli Verif.Proofs.CliFs Verif.Proofs.Cli Verif.Props.C20

/-! ## destination law -/

/-- all components are ordinary names (no `..`) -/
def allNormal (cs : List Bytes) : Bool := cs.all isNormal

/-- **dst_law** (output file): an output that is not `.` and has no trailing slash *is* the destination -/
theorem dst_law_file (root input : P) (output : Bytes) (sync : Bool)
    (h : dirLike output = false) (hne : output ≠ []) :
    newTask root input output sync = some ⟨root, input, some (cleanP output), sync⟩ := by
  have : output.isEmpty = false := by cases output <;> simp_all
  simp [newTask, h, this]

/-- **dst_law** (stdout) -/
theorem dst_law_stdout (root input : P) (sync : Bool) :
    newTask root input [] sync = some ⟨root, input, none, sync⟩ := by
  simp [newTask, dirLike]

/-- **dst_law** (mirror): with a directory-like output (`dir/`, or `.`) the destination of the input
    `root/r` is `output/r` — the output tree mirrors the input tree below `root`
    (`root` = directory of the input argument; for `in/` it is `in`, for `in` it is its parent). -/
theorem dst_law_mirror (root : P) (r : List Bytes) (output : Bytes) (sync : Bool)
    (hd : dirLike output = true) (ho : allNormal (cleanP output).cs = true) (hr : allNormal r = true) :
    newTask root ⟨root.abs, root.cs ++ r⟩ output sync =
      some ⟨root, ⟨root.abs, root.cs ++ r⟩,
        some ⟨(cleanP output).abs, (cleanP output).cs ++ r⟩, sync⟩ := by
  simp only [newTask, hd, if_true]
  have : relP root ⟨root.abs, root.cs ++ r⟩ = some ⟨false, r⟩ := relP_prefix root.abs root.cs r
  rw [this]
  simp only [allNormal, List.all_eq_true] at ho hr
  simp only [joinP_normal _ _ ho hr]

example : dirLike (strBytes "out/") = true ∧ allNormal (cleanP (strBytes "out/")).cs = true ∧
    allNormal [strBytes "sub", strBytes "a.css"] = true := by decide

/-- **dst_injective** (one root): two inputs below the same root that are mirrored to the same
    destination are the same input. -/
theorem dst_injective_same_root (root : P) (r1 r2 : List Bytes) (output : Bytes) (s1 s2 : Bool)
    (t1 t2 : TaskP)
    (hd : dirLike output = true) (ho : allNormal (cleanP output).cs = true)
    (h1 : allNormal r1 = true) (h2 : allNormal r2 = true)
    (e1 : newTask root ⟨root.abs, root.cs ++ r1⟩ output s1 = some t1)
    (e2 : newTask root ⟨root.abs, root.cs ++ r2⟩ output s2 = some t2)
    (hdst : t1.dst = t2.dst) : t1.src = t2.src := by
  rw [dst_law_mirror root r1 output s1 hd ho h1] at e1
  rw [dst_law_mirror root r2 output s2 hd ho h2] at e2
  cases e1; cases e2
  simp only [Option.some.injEq, P.mk.injEq, List.append_cancel_left_eq, true_and] at hdst
  rw [hdst]

theorem walkTasks_form (pm : Nat → Bytes → Bool) (inv : Inv) (mimetype output : Bytes) (root inp : P) :
    ∀ (rels : List (List Bytes)) (ts : List TaskP),
      walkTasks pm inv mimetype output root inp rels = some ts →
      ∀ t ∈ ts, ∃ r ∈ rels, ∃ s, newTask root ⟨inp.abs, inp.cs ++ r⟩ output s = some t := by
  intro rels
  induction rels with
  | nil => intro ts h t ht; simp [walkTasks] at h; subst h; simp at ht
  | cons r rest ih =>
    intro ts h t ht
    simp only [walkTasks] at h
    split at h
    · split at h
      · cases h
      · rename_i t0 ht0
        cases hrest : walkTasks pm inv mimetype output root inp rest with
        | none => simp [hrest] at h
        | some ts' =>
          simp only [hrest, Option.map_some, Option.some.injEq] at h
          subst h
          rcases List.mem_cons.mp ht with e | e
          · subst e; exact ⟨r, List.mem_cons_self .., _, ht0⟩
          · obtain ⟨r', hr', s, hs⟩ := ih ts' hrest t e
            exact ⟨r', List.mem_cons_of_mem _ hr', s, hs⟩
    · obtain ⟨r', hr', s, hs⟩ := ih ts h t ht
      exact ⟨r', List.mem_cons_of_mem _ hr', s, hs⟩

/-- **dst_injective** (partial: one directory argument; guards: the root is a lexical prefix of the
    directory, no `..` anywhere): among the tasks `createTasks` makes while walking one directory, two
    tasks with the same destination have the same source. -/
theorem dst_injective_walk (pm : Nat → Bytes → Bool) (inv : Inv) (mimetype output : Bytes) (root : P)
    (m : List Bytes) (rels : List (List Bytes)) (ts : List TaskP)
    (hd : dirLike output = true) (ho : allNormal (cleanP output).cs = true)
    (hm : allNormal m = true) (hrels : ∀ r ∈ rels, allNormal r = true)
    (h : walkTasks pm inv mimetype output root ⟨root.abs, root.cs ++ m⟩ rels = some ts)
    (t1 t2 : TaskP) (h1 : t1 ∈ ts) (h2 : t2 ∈ ts) (hdst : t1.dst = t2.dst) : t1.src = t2.src := by
  obtain ⟨r1, hr1, s1, e1⟩ := walkTasks_form pm inv mimetype output root _ rels ts h t1 h1
  obtain ⟨r2, hr2, s2, e2⟩ := walkTasks_form pm inv mimetype output root _ rels ts h t2 h2
  simp only [List.append_assoc] at e1 e2
  have n1 : allNormal (m ++ r1) = true := by
    simp only [allNormal, List.all_append, Bool.and_eq_true] at hm ⊢; exact ⟨hm, hrels r1 hr1⟩
  have n2 : allNormal (m ++ r2) = true := by
    simp only [allNormal, List.all_append, Bool.and_eq_true] at hm ⊢; exact ⟨hm, hrels r2 hr2⟩
  exact dst_injective_same_root root (m ++ r1) (m ++ r2) output s1 s2 t1 t2 hd ho n1 n2 e1 e2 hdst

/-- **dst_injective** (full strength since fix 33fb456): in a plan that is not a bundle, two tasks that
    share a destination file are the same task — for every tree, every invocation, every filter oracle. -/
theorem dst_injective (pm : Nat → Bytes → Bool) (fs : Fs) (inv : Inv) (pl : Plan)
    (hp : plan pm fs inv = some pl) (hb : inv.bundle = false) :
    ∀ t1 ∈ pl.tasks, ∀ t2 ∈ pl.tasks, t1.dst.isSome → t1.dst = t2.dst → t1 = t2 := by
  simp only [plan] at hp
  cases hc : planCore pm fs inv with
  | none => simp [hc] at hp
  | some pl' =>
    simp only [hc, hb, Bool.not_false, Bool.true_and] at hp
    split at hp
    · cases hp
    · rename_i hd
      cases hp
      exact dupDst_false _ (by simpa using hd)

/-- regression (K-C19-2): `minify -o out/ a/x.css b/x.css` is rejected -/
example : plan (fun _ _ => false)
    { files := [(strBytes "a/x.css", []), (strBytes "b/x.css", [])], dirs := [strBytes "a", strBytes "b"] }
    { inputs := [strBytes "a/x.css", strBytes "b/x.css"], output := strBytes "out/" } = none := by
  decide +kernel

/-- … while different base names are accepted (two tasks) -/
example : (plan (fun _ _ => false)
    { files := [(strBytes "a/x.css", []), (strBytes "b/y.css", [])], dirs := [strBytes "a", strBytes "b"] }
    { inputs := [strBytes "a/x.css", strBytes "b/y.css"], output := strBytes "out/" }).map (·.tasks.length) = some 2 := by
  decide +kernel

/-! ## only the destinations are touched -/

/-- guard of `only_dst_touched` (K-C19-5): no task is a sync *bundle* (`--bundle --sync` with a filtered-out
    first input) -/
def noSyncBundle (ts : List Task) : Prop := ∀ t ∈ ts, t.sync = true → t.srcs.length ≤ 1

/-- `only_dst_touched` under the explicit guard (the guard is discharged by `plan_noSyncBundle` below): whatever the invocation (selection, filters, bundle, sync, errors, refused
    tasks), a path that is not the destination of a task has the same content (or absence) after the
    command as before — in particular no `<name>.bak` is created, overwritten or removed. -/
theorem only_dst_touched_partial (pm : Nat → Bytes → Bool) (lib : Bytes → Bytes → Option Bytes) (inv : Inv)
    (fs : Fs) (q : Path)
    (h : ∀ t ∈ (effects pm lib inv fs).tasks, q ≠ t.dst)
    (hg : noSyncBundle (effects pm lib inv fs).tasks) :
    (effects pm lib inv fs).fs.get q = fs.get q := by
  unfold effects at h hg ⊢
  cases hp : plan pm fs inv with
  | none => rfl
  | some pl =>
    simp only [hp] at h hg ⊢
    have h0 : (match pl.outDir with
        | some d => run (mkdirOps fs d) fs
        | none => fs).get q = fs.get q := by
      cases pl.outDir with
      | none => rfl
      | some d => exact get_run_untouched _ _ _ (fun op ho => by rw [touches_mkdirOps _ _ _ ho]; simp)
    rw [← h0]
    apply get_runTasks_untouched
    intro t ht
    exact ⟨h t.1 (List.mem_map.mpr ⟨t, ht, rfl⟩), hg t.1 (List.mem_map.mpr ⟨t, ht, rfl⟩)⟩

/-- every plan satisfies the guard: sync tasks have one source (`--bundle` with `--sync` is rejected since 4497624,
    and without `--sync` no task is a sync task) -/
theorem plan_noSyncBundle (pm : Nat → Bytes → Bool) (lib : Bytes → Bytes → Option Bytes) (inv : Inv) (fs : Fs) :
    noSyncBundle (effects pm lib inv fs).tasks := by
  unfold effects
  cases hp : plan pm fs inv with
  | none => intro t ht; simp at ht
  | some pl =>
    intro t ht
    simp only [List.mem_map] at ht
    obtain ⟨tk, ⟨t0, ht0, rfl⟩, rfl⟩ := ht
    exact plan_syncSingle pm fs inv pl hp (toTask pl t0) (List.mem_map.mpr ⟨t0, ht0, rfl⟩)

/-- **only_dst_touched** (full strength since the fixes 3823c65 / 44ee05b / 4497624): whatever the tree, the
    invocation (selection, filters, bundle, sync, rejected invocations, refused tasks, minifier errors) and the
    library, a path that is not the destination of a task has the same content (or absence) after the command as
    before — no other file is modified, no `<name>.bak` is created, overwritten or left behind. -/
theorem only_dst_touched (pm : Nat → Bytes → Bool) (lib : Bytes → Bytes → Option Bytes) (inv : Inv)
    (fs : Fs) (q : Path) (h : ∀ t ∈ (effects pm lib inv fs).tasks, q ≠ t.dst) :
    (effects pm lib inv fs).fs.get q = fs.get q :=
  only_dst_touched_partial pm lib inv fs q h (plan_noSyncBundle pm lib inv fs)

/-- regression (K-C19-5, fixed by 4497624): `minify -b --sync --exclude=a.txt -o b.css a.txt b.css` is rejected -/
example : plan (fun _ s => s == strBytes "a.txt")
    { files := [(strBytes "a.txt", strBytes "hello"), (strBytes "b.css", strBytes "b{}")] }
    { inputs := [strBytes "a.txt", strBytes "b.css"], output := strBytes "b.css", bundle := true, sync := true,
      filters := [(false, 0)] } = none := by
  decide +kernel

/-- regression (K-C19-1, fixed by 44ee05b): `minify -o a.css a.css` next to an unrelated `a.css.bak` is
    refused: nothing changes, exit status 1 -/
example :
    (effects (fun _ _ => false) (fun _ b => some b) { inputs := [strBytes "a.css"], output := strBytes "a.css" }
      { files := [(strBytes "a.css", strBytes "a{}"), (strBytes "a.css.bak", strBytes "PRECIOUS")] }).exit = 1 ∧
    (effects (fun _ _ => false) (fun _ b => some b) { inputs := [strBytes "a.css"], output := strBytes "a.css" }
      { files := [(strBytes "a.css", strBytes "a{}"), (strBytes "a.css.bak", strBytes "PRECIOUS")] }).fs.files =
      [(strBytes "a.css", strBytes "a{}"), (strBytes "a.css.bak", strBytes "PRECIOUS")] := by
  decide +kernel

/-- an invocation that is rejected touches nothing and exits with status 1 -/
theorem rejected_touches_nothing (pm : Nat → Bytes → Bool) (lib : Bytes → Bytes → Option Bytes)
    (inv : Inv) (fs : Fs) (h : plan pm fs inv = none) :
    (effects pm lib inv fs).fs = fs ∧ (effects pm lib inv fs).exit = 1 := by
  simp [effects, h]

/-- **exit_nonzero_iff_fail**: the exit status is 1 exactly when the invocation is rejected or some task
    reports failure (minifier error, mimetype not inferable, failed copy); the remaining tasks are run
    in either case (`taskOks` has one verdict per task). -/
theorem exit_nonzero_iff_fail (pm : Nat → Bytes → Bool) (lib : Bytes → Bytes → Option Bytes) (inv : Inv)
    (fs : Fs) :
    (effects pm lib inv fs).exit = 1 ↔
      (plan pm fs inv = none ∨ ∃ pl, plan pm fs inv = some pl ∧
        false ∈ taskOks lib (quietCfg inv.stdin) (pl.tasks.map (toTask pl))
          (match pl.outDir with
           | some d => run (mkdirOps fs d) fs
           | none => fs)) := by
  unfold effects
  cases hp : plan pm fs inv with
  | none => simp
  | some pl =>
    simp only [reduceCtorEq, Option.some.injEq, exists_eq_left', false_or]
    have := runTasks_fails lib (quietCfg inv.stdin) (pl.tasks.map (toTask pl))
      (match pl.outDir with
       | some d => run (mkdirOps fs d) fs
       | none => fs) [] 0
    generalize runTasks lib (quietCfg inv.stdin) (pl.tasks.map (toTask pl)) _ [] 0 = r at this ⊢
    obtain ⟨a, b, c⟩ := r
    simp only at this ⊢
    subst this
    simp only [Nat.zero_add]
    constructor
    · intro h
      by_cases hc : 0 < List.count false (taskOks lib (quietCfg inv.stdin) (pl.tasks.map (toTask pl))
          (match pl.outDir with
           | some d => run (mkdirOps fs d) fs
           | none => fs))
      · exact List.count_pos_iff.mp hc
      · simp [hc] at h
    · intro h
      have := List.count_pos_iff.mpr h
      simp [this]

/-! ## bundles -/

/-- **concat_is_join**: for EVERY schedule of buffer sizes and of amounts the underlying files hand out,
    if the concatenating reader reaches EOF, what `io.ReadAll` collected is the file contents joined by
    the separator. -/
theorem concat_is_join (files : List Bytes) (sep : Bytes) (sch : List (Nat × Nat)) (out : Bytes)
    (h : readAll sch (newCR files sep) [] = some out) : out = sep.intercalate files := by
  have := readAll_spec sch (newCR files sep) [] out (wf_new files sep) h
  rw [this, pending_new]; rfl

/-- … and EOF is reached by every schedule of non-empty buffers that is long enough. -/
theorem concat_terminates (files : List Bytes) (sep : Bytes) (sch : List (Nat × Nat))
    (hpos : ∀ e ∈ sch, 1 ≤ e.1) (hlen : (sep.intercalate files).length < sch.length) :
    (readAll sch (newCR files sep) []).isSome := by
  apply readAll_complete sch _ _ (wf_new files sep) hpos
  rw [pending_new]; exact hlen

example : readAll [(2, 1), (3, 5), (1, 1), (10, 10), (10, 10), (10, 10)]
    (newCR [strBytes "ab", [], strBytes "cde"] (strBytes ";\n")) [] = some (strBytes "ab;\n;\ncde") := by
  decide

/-! ## corollaries of C20 for one task -/

/-- **fallback_original**: the minifier fails on a (non-sync) task whose sources are pairwise different
    and none is spelled `<dst>.bak` ⇒ after the task the destination holds exactly the original bytes of
    the sources joined by the separator, and the task reports failure (⇒ exit status 1 by
    `exit_nonzero_iff_fail`). -/
theorem fallback_original (cfg : Cfg) (lib : Bytes → Option Bytes) (t : Task) (orig : Fs)
    (hd : t.dst ≠ []) (hn : noop t = false) (hs : t.sync = false)
    (hex : InputsExist t orig) (hb : blocked t orig = false) (hnd : t.srcs.Nodup)
    (hfail : lib (inputBytes cfg t orig) = none) :
    let out := t.sep.intercalate (t.srcs.map (contentOf cfg orig))
    (run (minifyOps cfg (.ok [out]) t orig) orig).get t.dst = some out ∧
    minifyOk cfg lib (.ok [out]) t orig = false := by
  have hout : outBytes cfg lib t orig = t.sep.intercalate (t.srcs.map (contentOf cfg orig)) := by
    rw [out_on_error cfg lib t orig hfail, inputBytes_spec cfg t orig hex hb hnd]
  constructor
  · have := done_dst cfg lib (.ok [outBytes cfg lib t orig]) t orig hd hn hb rfl (by intro _; simp [Writes.chunks])
    rw [hout] at this
    exact this
  · have hsk : t.skip = false := by
      simp only [noop, Bool.or_eq_false_iff] at hn; exact hn.1
    simp [minifyOk, hsk, hn, hb, hs, hfail, Writes.isOk]

/-- **sync_copies_verbatim**: a sync task (unselected file, `--sync`) leaves at the destination exactly
    the bytes of its source. -/
theorem sync_copies_verbatim (cfg : Cfg) (lib : Bytes → Option Bytes) (t : Task) (orig : Fs) (s : Path)
    (hsrc : t.srcs = [s]) (hd : t.dst ≠ []) (hn : noop t = false) (hs : t.sync = true)
    (hex : InputsExist t orig) (hb : blocked t orig = false) :
    (run (minifyOps cfg (.ok [contentOf cfg orig s]) t orig) orig).get t.dst = some (contentOf cfg orig s) := by
  have hin : inputBytes cfg t orig = contentOf cfg orig s := by
    rw [inputBytes_spec cfg t orig hex hb (by simp [hsrc]), hsrc]
    simp [List.intercalate]
  have hout : outBytes cfg lib t orig = contentOf cfg orig s := by
    rw [out_on_sync cfg lib t orig hs, hin]
  have := done_dst cfg lib (.ok [outBytes cfg lib t orig]) t orig hd hn hb rfl (by intro _; simp [Writes.chunks])
  rw [hout] at this
  exact this

/-- **minify_writes_lib_output**: the minifier succeeds ⇒ the destination holds its output for the joined
    original bytes of the sources. -/
theorem minify_writes_lib_output (cfg : Cfg) (lib : Bytes → Option Bytes) (t : Task) (orig : Fs) (o : Bytes)
    (hd : t.dst ≠ []) (hn : noop t = false) (hs : t.sync = false)
    (hex : InputsExist t orig) (hb : blocked t orig = false) (hnd : t.srcs.Nodup)
    (hok : lib (t.sep.intercalate (t.srcs.map (contentOf cfg orig))) = some o) :
    (run (minifyOps cfg (.ok [o]) t orig) orig).get t.dst = some o := by
  have hin := inputBytes_spec cfg t orig hex hb hnd
  have hout : outBytes cfg lib t orig = o := out_on_success cfg lib t orig o hs (by rw [hin]; exact hok)
  have := done_dst cfg lib (.ok [outBytes cfg lib t orig]) t orig hd hn hb rfl (by intro _; simp [Writes.chunks])
  rw [hout] at this
  exact this

/-- **inplace_no_bak_left** (from C20 `done_no_bak`): a file minified onto itself — alone or as one source
    of a bundle — ends without a leftover `<name>.bak`, after success and after a write error. -/
theorem inplace_no_bak_left (cfg : Cfg) (w : Writes) (t : Task) (orig : Fs)
    (hn : noop t = false) (hs : t.sync = false) (hr : renamed t orig = true) :
    (run (minifyOps cfg w t orig) orig).get (bak t.dst) = none :=
  done_no_bak cfg w t orig hn hs hr

/-- the mimetype table maps `js` (the separator rule of bundles reads `extMap["js"]`) -/
theorem js_mime_known : jsMime = strBytes "application/javascript" := by decide

end Verif.Props.C19

import Verif.Model.CliFs
import Verif.Spec.CliSafe
import Verif.Proofs.CliFs
/-!
# C20 — killing the CLI at any instant never loses the user's only copy

Property theorems only.  Model: `Verif.Model.CliFs` (`minifyOps` = the system-call sequence of
`cmd/minify: minify(t)`), specification: `Verif.Spec.CliSafe.SafeInv`, helper lemmas: `Verif.Proofs.CliFs`.

A crash point is a prefix length `k` of the op sequence; a kill *inside* a `write` is a crash point of a
finer chunking (`write_split`), and the chunking is universally quantified.
-/
namespace Verif.Props.C20
open Verif Verif.Model.CliFs Verif.Spec.CliSafe Verif.Proofs.CliFs

/-- the input *files* of a task (`[]` is stdin) -/
def inputFiles (t : Task) : List Path := t.srcs.filter (fun s => !s.isEmpty)

/-- every input file exists (`createTasks` stats every input before a task is made) -/
def InputsExist (t : Task) (orig : Fs) : Prop := ∀ s ∈ inputFiles t, (orig.get s).isSome

instance (t : Task) (orig : Fs) : Decidable (InputsExist t orig) := by
  unfold InputsExist; infer_instance

/-- when all writes succeed, together they deliver exactly the output (any split into chunks) -/
def WritesDeliver (w : Writes) (out : Bytes) : Prop := w.isOk = true → w.chunks.flatten = out

instance (w : Writes) (out : Bytes) : Decidable (WritesDeliver w out) := by
  unfold WritesDeliver; infer_instance

/-- "the complete new output" of the third alternative of `SafeInv` -/
def finalView (cfg : Cfg) (lib : Bytes → Option Bytes) (t : Task) (orig : Fs) : View :=
  fun p => if p = t.dst then some (outBytes cfg lib t orig) else none

/-- guard of the known finding K-C20-1: an input is *spelled* `<dst>.bak` -/
def trigBakInput (t : Task) : Bool := t.srcs.contains (bak t.dst)

/-- the state on disk when the process is killed after `k` system calls of `minify(t)` -/
def crashState (cfg : Cfg) (w : Writes) (t : Task) (orig : Fs) (k : Nat) : Fs :=
  run ((minifyOps cfg w t orig).take k) orig

/-- **Full statement** (false on the current code, see `crash_safe_counterexample`):
    at every crash point every input file is still available. -/
def crash_safe_full : Prop :=
  ∀ (cfg : Cfg) (lib : Bytes → Option Bytes) (w : Writes) (t : Task) (orig : Fs) (k : Nat),
    InputsExist t orig → WritesDeliver w (outBytes cfg lib t orig) →
    SafeInv (viewOf orig.files) (viewOf (crashState cfg w t orig k).files)
      (finalView cfg lib t orig) (inputFiles t) [t.dst]

theorem view_get (fs : Fs) (p : Path) : viewOf fs.files p = fs.get p := rfl

theorem bakName_eq (p : Path) : bakName p = bak p := rfl

theorem mem_replaceFirst (l : List Path) (a b : Path) (h : a ∈ l) : b ∈ replaceFirst l a b := by
  induction l with
  | nil => simp at h
  | cons x r ih =>
    simp only [replaceFirst]
    by_cases hx : x = a
    · simp [hx]
    · have : (x == a) = false := by simpa using hx
      simp only [this, Bool.false_eq_true, if_false, List.mem_cons]
      rcases List.mem_cons.mp h with h | h
      · exact absurd h.symm hx
      · exact Or.inr (ih h)

/-- **frame** (every task shape, chunking, outcome, crash point): a path other than `dst` and `dst.bak`
    is never changed, created or removed. -/
theorem frame (cfg : Cfg) (w : Writes) (t : Task) (orig : Fs) (k : Nat) (q : Path)
    (h1 : q ≠ t.dst) (h2 : q ≠ bak t.dst) :
    (crashState cfg w t orig k).get q = orig.get q := by
  apply get_run_untouched
  intro op ho hq
  rcases touches_minifyOps cfg w t orig op (List.mem_of_mem_take ho) q hq with h | h
  · exact h1 h
  · exact h2 h

/-- the "good" situations of the destination that is also an input -/
private def Good (orig : Fs) (dst out : Bytes) (fs : Fs) : Prop :=
  fs.get dst = orig.get dst ∨ fs.get (bak dst) = orig.get dst ∨ fs.get dst = some out

private theorem attr_prefixes (cfg : Cfg) (t : Task) (ss : List Path) (fsP s : Fs) (q : Path) (v : Option Bytes)
    (h0 : s.get q = v) : AllPrefixes (fun fs => fs.get q = v) (attrOps cfg t ss fsP) s :=
  AllPrefixes.untouched _ _ _ _ (fun op ho => by rw [touches_attrOps _ _ _ _ _ ho]; simp) h0

/-- in place: `dst` is renamed first; at every crash point the original is at `dst`, at `dst.bak`, or
    `dst` holds the complete output -/
private theorem inplace_good (cfg : Cfg) (lib : Bytes → Option Bytes) (w : Writes) (t : Task) (orig : Fs)
    (hd : t.dst ≠ []) (hn : noop t = false) (hr : renamed t orig = true)
    (hw : WritesDeliver w (outBytes cfg lib t orig)) :
    AllPrefixes (Good orig t.dst (outBytes cfg lib t orig)) (minifyOps cfg w t orig) orig := by
  have hsome : (orig.get t.dst).isSome := by
    simp only [renamed, Bool.and_eq_true] at hr; exact hr.2
  obtain ⟨v, hv⟩ := Option.isSome_iff_exists.mp hsome
  have hbd : bak t.dst ≠ t.dst := bak_ne _
  have hcont : (srcs1 t orig).contains (bak t.dst) = true := by
    simp only [srcs1, hr, if_true, List.contains_iff_mem]
    apply mem_replaceFirst
    simp only [renamed, Bool.and_eq_true, List.contains_iff_mem] at hr
    exact hr.1.2
  simp only [minifyOps, hn, Bool.false_eq_true, if_false, preOps, hr, if_true,
    List.cons_append, List.nil_append]
  -- state after the rename
  have hs1 : (step orig (.rename t.dst (bak t.dst))).get (bak t.dst) = some v := by
    rw [get_rename_dst, hv]; rfl
  refine .cons (Or.inl rfl) (.append ?_ ?_)
  · -- middle segment: dst.bak is not touched
    refine AllPrefixes.mono (fun fs (h : fs.get (bak t.dst) = some v) => Or.inr (Or.inl (h.trans hv.symm))) ?_
    exact AllPrefixes.untouched _ _ _ _
      (fun op ho hq => hbd (touches_midOps _ _ _ _ ho _ hq)) hs1
  · -- clean-up and attributes
    have hb2 : (run (midOps w t orig) (step orig (.rename t.dst (bak t.dst)))).get (bak t.dst) = some v :=
      (AllPrefixes.untouched _ _ _ _
        (fun op ho hq => hbd (touches_midOps _ _ _ _ ho _ hq)) hs1).last
    have hd2 := get_dst_after_mid w t orig (step orig (.rename t.dst (bak t.dst))) hd
    generalize run (midOps w t orig) (step orig (.rename t.dst (bak t.dst))) = s2 at hb2 hd2
    simp only [tailOps]
    split
    · -- sync: attributes or nothing; dst.bak stays
      refine AllPrefixes.mono (fun fs (h : fs.get (bak t.dst) = some v) => Or.inr (Or.inl (h.trans hv.symm))) ?_
      split
      · exact attr_prefixes _ _ _ _ _ _ _ hb2
      · exact .nil hb2
    · simp only [postOps, hcont, if_true]
      cases hok : w.isOk with
      | true =>
        simp only [if_true, List.cons_append, List.nil_append]
        refine .cons (Or.inr (Or.inl (hb2.trans hv.symm))) ?_
        refine AllPrefixes.mono (fun fs (h : fs.get t.dst = some (outBytes cfg lib t orig)) => Or.inr (Or.inr h)) ?_
        apply attr_prefixes
        rw [get_step_untouched _ _ _ (by simpa [touches] using hbd.symm), hd2, hw hok]
      | false =>
        have hne : t.dst.isEmpty = false := by
          cases h : t.dst with
          | nil => exact absurd h hd
          | cons _ _ => rfl
        simp only [Bool.false_eq_true, if_false, hne, List.cons_append, List.nil_append]
        refine .cons (Or.inr (Or.inl (hb2.trans hv.symm))) (.cons ?_ ?_)
        · refine Or.inr (Or.inl ?_)
          rw [get_step_untouched _ _ _ (by simpa [touches] using hbd), hb2, hv]
        · refine AllPrefixes.mono (fun fs (h : fs.get t.dst = some v) => Or.inl (h.trans hv.symm)) ?_
          apply attr_prefixes
          rw [get_rename_dst, get_step_untouched _ _ _ (by simpa [touches] using hbd), hb2]; rfl

/-- **crash_safe** (partial: guard `¬ trigBakInput t`, the trigger of K-C20-1).
    For every task shape (separate output, in place, bundle — also onto one of its inputs —, sync copy),
    every library result (`lib` arbitrary: success or error), every write outcome (any chunking; a write
    error after arbitrary bytes) and **every crash point `k`**: every input file is intact at its path,
    or intact at `<path>.bak`, or it is the destination and holds the complete new output; and inputs that
    are not the destination are unchanged. -/
theorem crash_safe_partial (cfg : Cfg) (lib : Bytes → Option Bytes) (w : Writes) (t : Task) (orig : Fs)
    (k : Nat) (hex : InputsExist t orig) (hw : WritesDeliver w (outBytes cfg lib t orig))
    (hg : trigBakInput t = false) :
    SafeInv (viewOf orig.files) (viewOf (crashState cfg w t orig k).files)
      (finalView cfg lib t orig) (inputFiles t) [t.dst] := by
  intro p hp
  have hps : p ∈ t.srcs ∧ p ≠ [] := by
    simp only [inputFiles, List.mem_filter, Bool.not_eq_true', List.isEmpty_eq_false_iff] at hp
    exact hp
  have hpb : p ≠ bak t.dst := by
    intro h
    simp only [trigBakInput] at hg
    have : t.srcs.contains (bak t.dst) = true := by
      rw [List.contains_iff_mem, ← h]; exact hps.1
    rw [this] at hg; cases hg
  by_cases hpd : p = t.dst
  · -- the destination is an input
    refine ⟨?_, fun hn => absurd (by simp [hpd]) hn⟩
    have hd : t.dst ≠ [] := hpd ▸ hps.2
    simp only [SafeAt, view_get, bakName_eq, finalView, hpd, if_true, List.mem_singleton, true_and]
    by_cases hn : noop t = true
    · left
      simp [crashState, minifyOps, hn, run]
    · have hn' : noop t = false := by simpa using hn
      have hr : renamed t orig = true := by
        have hne : t.dst.isEmpty = false := by
          cases h : t.dst with
          | nil => exact absurd h hd
          | cons _ _ => rfl
        simp only [renamed, hne, Bool.not_false, Bool.true_and, Bool.and_eq_true, List.contains_iff_mem]
        exact ⟨hpd ▸ hps.1, hex _ (hpd ▸ hp)⟩
      exact inplace_good cfg lib w t orig hd hn' hr hw k
  · have hfr := frame cfg w t orig k p hpd hpb
    refine ⟨Or.inl ?_, fun _ => ?_⟩ <;> simpa only [view_get] using hfr

/-- Witness of K-C20-1: `minify --type=css -o a.css a.css.bak` — the input is removed by the
    "remove the renamed original" loop, which compares *names* instead of remembering the rename. -/
theorem crash_safe_counterexample : ¬ crash_safe_full := by
  intro h
  have h1 := h {} (fun _ => some []) (.ok []) { srcs := [strBytes "a.css.bak"], dst := strBytes "a.css" }
    { files := [(strBytes "a.css.bak", strBytes "b{color:blue}")] } 100
    (by decide) (by decide) (strBytes "a.css.bak") (by decide)
  obtain ⟨h2, _⟩ := h1
  rcases h2 with h2 | h2 | ⟨h2, _⟩
  · revert h2; decide
  · revert h2; decide
  · revert h2; decide

/-- the guard is satisfiable by the ordinary in-place task, and the hypotheses are not vacuous -/
example : let t : Task := { srcs := [strBytes "a.css"], dst := strBytes "a.css" }
    let orig : Fs := { files := [(strBytes "a.css", strBytes "a { }")] }
    trigBakInput t = false ∧ InputsExist t orig ∧
      WritesDeliver (.ok [strBytes "a", strBytes "{}"]) (outBytes {} (fun _ => some (strBytes "a{}")) t orig) := by
  refine ⟨by decide, by decide, by decide⟩

/-! ## after the whole sequence -/

/-- **done_clean** (destination): after the complete sequence of a minify task whose writes succeed
    the destination holds exactly the bytes handed to the write loop — the library's output, or the
    original input bytes when the minifier failed (`outBytes`). -/
theorem done_dst (cfg : Cfg) (lib : Bytes → Option Bytes) (w : Writes) (t : Task) (orig : Fs)
    (hd : t.dst ≠ []) (hn : noop t = false) (hok : w.isOk = true)
    (hw : WritesDeliver w (outBytes cfg lib t orig)) :
    (run (minifyOps cfg w t orig) orig).get t.dst = some (outBytes cfg lib t orig) := by
  have hbd : bak t.dst ≠ t.dst := bak_ne _
  simp only [minifyOps, hn, Bool.false_eq_true, if_false, run_append]
  have hd2 := get_dst_after_mid w t orig (run (preOps t orig) orig) hd
  rw [hw hok] at hd2
  generalize run (midOps w t orig) (run (preOps t orig) orig) = s2 at hd2
  simp only [tailOps, hok, if_true]
  split
  · exact (attr_prefixes _ _ _ _ _ _ _ hd2).last
  · rw [run_append]
    refine (attr_prefixes _ _ _ _ _ _ _ ?_).last
    simp only [postOps]
    split
    · simp only [run_cons, run_nil]
      rw [get_step_untouched _ _ _ (by simpa [touches] using hbd.symm)]; exact hd2
    · exact hd2

/-- **done_clean** (no backup left, = C19 `inplace_no_bak_left`): after a complete in-place run —
    successful writes *or* write error — no `dst.bak` exists. -/
theorem done_no_bak (cfg : Cfg) (w : Writes) (t : Task) (orig : Fs)
    (hd : t.dst ≠ []) (hn : noop t = false) (hs : t.sync = false) (hr : renamed t orig = true) :
    (run (minifyOps cfg w t orig) orig).get (bak t.dst) = none := by
  have hbd : bak t.dst ≠ t.dst := bak_ne _
  have hcont : (srcs1 t orig).contains (bak t.dst) = true := by
    simp only [srcs1, hr, if_true, List.contains_iff_mem]
    apply mem_replaceFirst
    simp only [renamed, Bool.and_eq_true, List.contains_iff_mem] at hr
    exact hr.1.2
  have hne : t.dst.isEmpty = false := by
    cases h : t.dst with
    | nil => exact absurd h hd
    | cons _ _ => rfl
  simp only [minifyOps, hn, Bool.false_eq_true, if_false, run_append, tailOps, hs]
  refine (attr_prefixes _ _ _ _ _ _ _ ?_).last
  simp only [postOps, hcont, if_true]
  cases hok : w.isOk with
  | true => simp only [if_true, run_cons, run_nil]; exact get_remove _ _
  | false =>
    simp only [Bool.false_eq_true, if_false, hne, run_cons, run_nil]
    apply get_rename_src _ _ _ hbd
    rw [get_step_untouched _ _ _ (by simpa [touches] using hbd)]
    -- dst.bak still holds the original after the middle segment
    have hsome : (orig.get t.dst).isSome := by
      simp only [renamed, Bool.and_eq_true] at hr; exact hr.2
    obtain ⟨v, hv⟩ := Option.isSome_iff_exists.mp hsome
    have hs1 : (run (preOps t orig) orig).get (bak t.dst) = some v := by
      simp only [preOps, hr, if_true, run_cons, run_nil]; rw [get_rename_dst, hv]; rfl
    rw [(AllPrefixes.untouched _ _ _ _
      (fun op ho hq => hbd (touches_midOps _ _ _ _ ho _ hq)) hs1).last]
    rfl

/-- when the destination is not renamed and no input is spelled `dst.bak`, `dst.bak` is not touched at all -/
theorem bak_untouched (cfg : Cfg) (w : Writes) (t : Task) (orig : Fs) (k : Nat)
    (hr : renamed t orig = false) (hg : trigBakInput t = false) :
    (crashState cfg w t orig k).get (bak t.dst) = orig.get (bak t.dst) := by
  have hbd : bak t.dst ≠ t.dst := bak_ne _
  have hs1 : srcs1 t orig = t.srcs := by simp [srcs1, hr]
  apply get_run_untouched
  intro op ho hq
  have ho := List.mem_of_mem_take ho
  simp only [minifyOps] at ho
  split at ho
  · simp at ho
  · simp only [List.mem_append] at ho
    rcases ho with (ho | ho) | ho
    · simp [preOps, hr] at ho
    · exact hbd (touches_midOps _ _ _ _ ho _ hq)
    · simp only [tailOps, postOps, hs1] at ho
      simp only [trigBakInput] at hg
      simp only [hg, Bool.false_eq_true, if_false, List.nil_append] at ho
      split at ho
      · split at ho
        · rw [touches_attrOps _ _ _ _ _ ho] at hq; simp at hq
        · simp at ho
      · rw [touches_attrOps _ _ _ _ _ ho] at hq; simp at hq

/-- **write_error_restores**: a write error during an in-place run (after arbitrary bytes reached the
    file) ends with the original back at `dst` and no `dst.bak`. -/
theorem write_error_restores (cfg : Cfg) (written : List Bytes) (t : Task) (orig : Fs)
    (hd : t.dst ≠ []) (hn : noop t = false) (hs : t.sync = false) (hr : renamed t orig = true) :
    (run (minifyOps cfg (.fail written) t orig) orig).get t.dst = orig.get t.dst ∧
    (run (minifyOps cfg (.fail written) t orig) orig).get (bak t.dst) = none := by
  refine ⟨?_, done_no_bak cfg _ t orig hd hn hs hr⟩
  have hbd : bak t.dst ≠ t.dst := bak_ne _
  have hcont : (srcs1 t orig).contains (bak t.dst) = true := by
    simp only [srcs1, hr, if_true, List.contains_iff_mem]
    apply mem_replaceFirst
    simp only [renamed, Bool.and_eq_true, List.contains_iff_mem] at hr
    exact hr.1.2
  have hne : t.dst.isEmpty = false := by
    cases h : t.dst with
    | nil => exact absurd h hd
    | cons _ _ => rfl
  have hsome : (orig.get t.dst).isSome := by
    simp only [renamed, Bool.and_eq_true] at hr; exact hr.2
  obtain ⟨v, hv⟩ := Option.isSome_iff_exists.mp hsome
  have hs1 : (run (preOps t orig) orig).get (bak t.dst) = some v := by
    simp only [preOps, hr, if_true, run_cons, run_nil]; rw [get_rename_dst, hv]; rfl
  have hb2 := (AllPrefixes.untouched _ _ _ _
      (fun op ho hq => hbd (touches_midOps (.fail written) t orig op ho _ hq)) hs1).last
  simp only [minifyOps, hn, Bool.false_eq_true, if_false, run_append, tailOps, hs]
  refine (attr_prefixes _ _ _ _ _ _ _ ?_).last
  simp only [postOps, hcont, if_true, Writes.isOk, Bool.false_eq_true, if_false, hne, run_cons, run_nil]
  rw [get_rename_dst, get_step_untouched _ _ _ (by simpa [touches] using hbd), hb2, hv]; rfl

/-- the minifier failed ⇒ the bytes written are the bytes read (C19 `fallback_original`) -/
theorem out_on_error (cfg : Cfg) (lib : Bytes → Option Bytes) (t : Task) (orig : Fs)
    (h : lib (inputBytes cfg t orig) = none) : outBytes cfg lib t orig = inputBytes cfg t orig := by
  simp only [outBytes, h]; split <;> rfl

theorem out_on_success (cfg : Cfg) (lib : Bytes → Option Bytes) (t : Task) (orig : Fs) (o : Bytes)
    (hs : t.sync = false) (h : lib (inputBytes cfg t orig) = some o) : outBytes cfg lib t orig = o := by
  simp only [outBytes, h, hs, Bool.false_eq_true, if_false]

/-- sync copies verbatim -/
theorem out_on_sync (cfg : Cfg) (lib : Bytes → Option Bytes) (t : Task) (orig : Fs)
    (hs : t.sync = true) : outBytes cfg lib t orig = inputBytes cfg t orig := by
  simp only [outBytes, hs, if_true]

/-- a kill inside a `write` that has stored a prefix `a` of its buffer `a ++ b` leaves the state of a
    crash point of the finer chunking `[a, b]` -/
theorem write_split (fs : Fs) (p : Path) (a b : Bytes) :
    (run [.write p (a ++ b)] fs).get p = (run [.write p a, .write p b] fs).get p := by
  simp only [run_cons, run_nil]
  cases h : fs.get p with
  | none => simp [step, h]
  | some v =>
    rw [get_write _ _ _ _ h, get_write _ _ _ _ (get_write _ _ _ _ h), List.append_assoc]

/-! ## several tasks run by the worker pool -/

/-- everything `SafeInv` of task `t` looks at, and everything `minify(t)` can change -/
def footprint (t : Task) : List Path := t.srcs ++ t.srcs.map bak ++ [t.dst, bak t.dst]

theorem safeInv_congr (orig cur1 cur2 final : View) (inputs dsts : List Bytes)
    (h : ∀ p ∈ inputs, cur1 p = cur2 p ∧ cur1 (bakName p) = cur2 (bakName p))
    (h1 : SafeInv orig cur1 final inputs dsts) : SafeInv orig cur2 final inputs dsts := by
  intro p hp
  obtain ⟨ha, hb⟩ := h p hp
  obtain ⟨h2, h3⟩ := h1 p hp
  simp only [SafeAt] at h2 ⊢
  rw [← ha, ← hb]
  exact ⟨h2, h3⟩

/-- **crash_safe_parallel**: tasks whose footprints are pairwise disjoint from what the other tasks can
    change (directory → directory, a whole directory in place, sync) run by the worker pool in **any
    interleaving**, killed at **any point**: `SafeInv` holds for every task. -/
theorem crash_safe_parallel (cfg : Cfg) (lib : Bytes → Option Bytes) (orig : Fs)
    (ts : List (Task × Writes)) (sch : List Nat) (i : Nat) (t : Task) (w : Writes)
    (hi : ts[i]? = some (t, w))
    (hdisj : ∀ j tj wj, j ≠ i → ts[j]? = some (tj, wj) →
      tj.dst ∉ footprint t ∧ bak tj.dst ∉ footprint t)
    (hex : InputsExist t orig) (hw : WritesDeliver w (outBytes cfg lib t orig))
    (hg : trigBakInput t = false) :
    SafeInv (viewOf orig.files)
      (viewOf (run (interleave (ts.map (fun tw => minifyOps cfg tw.2 tw.1 orig)) sch) orig).files)
      (finalView cfg lib t orig) (inputFiles t) [t.dst] := by
  have hrem : (ts.map (fun tw => minifyOps cfg tw.2 tw.1 orig))[i]?.getD [] = minifyOps cfg w t orig := by
    simp [List.getElem?_map, hi]
  obtain ⟨k, hk⟩ := interleave_project (footprint t) i sch
    (ts.map (fun tw => minifyOps cfg tw.2 tw.1 orig)) orig orig (AgreeOn.refl _ _)
    (by
      rw [hrem]
      intro op ho q hq
      rcases touches_minifyOps cfg w t orig op ho q hq with h | h <;> simp [footprint, h])
    (by
      intro j l hne hl op ho q hq hqS
      simp only [List.getElem?_map, Option.map_eq_some_iff] at hl
      obtain ⟨⟨tj, wj⟩, htj, rfl⟩ := hl
      obtain ⟨h1, h2⟩ := hdisj j tj wj hne htj
      rcases touches_minifyOps cfg wj tj orig op ho q hq with h | h
      · exact h1 (h ▸ hqS)
      · exact h2 (h ▸ hqS))
  rw [hrem] at hk
  refine safeInv_congr _ _ _ _ _ _ ?_ (crash_safe_partial cfg lib w t orig k hex hw hg)
  intro p hp
  have hps : p ∈ t.srcs := by
    simp only [inputFiles, List.mem_filter] at hp; exact hp.1
  constructor
  · exact (hk p (by simp [footprint, hps])).symm
  · exact (hk (bak p) (by simp only [footprint, List.mem_append, List.mem_map]; exact Or.inl (Or.inr ⟨p, hps, rfl⟩))).symm

/-- non-vacuity: two in-place tasks on different files have disjoint footprints -/
example : let a : Task := { srcs := [strBytes "a.css"], dst := strBytes "a.css" }
    let b : Task := { srcs := [strBytes "b.js"], dst := strBytes "b.js" }
    b.dst ∉ footprint a ∧ bak b.dst ∉ footprint a ∧ a.dst ∉ footprint b ∧ bak a.dst ∉ footprint b := by decide

/-! ## what is read -/

theorem map_replaceFirst {β : Type} (f g : Path → β) (a b : Path) (l : List Path) (hn : l.Nodup)
    (hab : f b = g a) (hx : ∀ x ∈ l, x ≠ a → f x = g x) :
    (replaceFirst l a b).map f = l.map g := by
  induction l with
  | nil => rfl
  | cons x r ih =>
    have hnr := (List.nodup_cons.mp hn)
    simp only [replaceFirst]
    by_cases hxa : x = a
    · subst hxa
      simp only [beq_self_eq_true, if_true, List.map_cons, hab, List.cons.injEq, true_and]
      apply List.map_congr_left
      intro y hy
      exact hx y (List.mem_cons_of_mem _ hy) (fun h => hnr.1 (h ▸ hy))
    · have : (x == a) = false := by simpa using hxa
      simp only [this, Bool.false_eq_true, if_false, List.map_cons]
      rw [hx x (List.mem_cons_self ..) hxa, ih hnr.2 (fun y hy => hx y (List.mem_cons_of_mem _ hy))]

theorem touches_headOps (t : Task) (fs : Fs) :
    ∀ op ∈ headOps t fs, ∀ q ∈ touches op, q = t.dst ∨ q = bak t.dst := by
  intro op h q hq
  simp only [headOps, List.mem_append] at h
  rcases h with (h | h) | h
  · exact touches_preOps _ _ _ h _ hq
  · rw [touches_openOps _ _ h] at hq; simp at hq
  · simp only [outOps] at h
    split at h
    · simp at h
    · simp only [List.mem_append, List.mem_cons, List.not_mem_nil, or_false] at h
      rcases h with h | h
      · rw [touches_mkdirOps _ _ _ h] at hq; simp at hq
      · subst h; left; simpa [touches] using hq

/-- **what a task reads** (the sources are opened lazily, *after* the destination has been truncated):
    with pairwise different sources, none of them spelled `<dst>.bak`, the bytes handed to the minifier
    are the original contents of the sources joined by the separator — also when one source is the
    destination (it is read from its backup). -/
theorem inputBytes_spec (cfg : Cfg) (t : Task) (orig : Fs) (hex : InputsExist t orig)
    (hg : trigBakInput t = false) (hnd : t.srcs.Nodup) :
    inputBytes cfg t orig = t.sep.intercalate (t.srcs.map (contentOf cfg orig)) := by
  simp only [inputBytes]
  congr 1
  have hbd : bak t.dst ≠ t.dst := bak_ne _
  have hgn : bak t.dst ∉ t.srcs := by
    intro h
    simp only [trigBakInput] at hg
    rw [List.contains_iff_mem.mpr h] at hg; cases hg
  have hframe : ∀ q, q ≠ t.dst → q ≠ bak t.dst →
      (run (headOps t orig) orig).get q = orig.get q := by
    intro q h1 h2
    apply get_run_untouched
    intro op ho hq
    rcases touches_headOps t orig op ho q hq with h | h
    · exact h1 h
    · exact h2 h
  cases hr : renamed t orig with
  | false =>
    simp only [srcs1, hr, Bool.false_eq_true, if_false]
    apply List.map_congr_left
    intro s hs
    simp only [contentOf]
    by_cases hse : s.isEmpty = true
    · simp [hse]
    · simp only [hse, Bool.false_eq_true, if_false]
      by_cases hsd : s = t.dst
      · -- then the destination is an existing source: it would have been renamed
        exfalso
        have hne : t.dst.isEmpty = false := by rw [← hsd]; simpa using hse
        have hin : s ∈ inputFiles t := by
          simp only [inputFiles, List.mem_filter]; exact ⟨hs, by simpa using hse⟩
        have := hex s hin
        simp only [renamed, hne, Bool.not_false, Bool.true_and, Bool.and_eq_false_iff] at hr
        rcases hr with hr | hr
        · rw [← hsd] at hr
          rw [List.contains_iff_mem.mpr hs] at hr; cases hr
        · rw [← hsd, this] at hr; cases hr
      · rw [hframe s hsd (fun h => hgn (h ▸ hs))]
  | true =>
    have hr' := hr
    simp only [renamed, Bool.and_eq_true, List.contains_iff_mem, Bool.not_eq_true',
      List.isEmpty_eq_false_iff] at hr'
    obtain ⟨⟨hne, hmem⟩, hsome⟩ := hr'
    simp only [srcs1, hr, if_true]
    apply map_replaceFirst _ _ _ _ _ hnd
    · -- the backup holds what the destination held
      have hb : (run (headOps t orig) orig).get (bak t.dst) = orig.get t.dst := by
        simp only [headOps, preOps, hr, if_true, List.cons_append, List.nil_append,
          run_cons]
        rw [get_run_untouched]
        · rw [get_rename_dst]
          obtain ⟨v, hv⟩ := Option.isSome_iff_exists.mp hsome
          rw [hv]; rfl
        · intro op ho hq
          simp only [List.mem_append] at ho
          rcases ho with ho | ho
          · rw [touches_openOps _ _ ho] at hq; simp at hq
          · simp only [outOps] at ho
            split at ho
            · simp at ho
            · simp only [List.mem_append, List.mem_cons, List.not_mem_nil, or_false] at ho
              rcases ho with ho | ho
              · rw [touches_mkdirOps _ _ _ ho] at hq; simp at hq
              · subst ho
                simp only [touches, List.mem_cons, List.not_mem_nil, or_false] at hq
                exact hbd hq
      have hbe : (bak t.dst).isEmpty = false := by simp [bak, bakSuffix]
      have hde : t.dst.isEmpty = false := by simpa using hne
      simp only [contentOf, hbe, hde, Bool.false_eq_true, if_false, hb]
    · intro s hs hsd
      simp only [contentOf]
      by_cases hse : s.isEmpty = true
      · simp [hse]
      · simp only [hse, Bool.false_eq_true, if_false]
        rw [hframe s hsd (fun h => hgn (h ▸ hs))]

end Verif.Props.C20

import Verif.Model.SvgNum
import Verif.Proofs.SvgDoc
import Verif.Proofs.SvgDocColor
import Verif.Proofs.SvgDocDim
import Verif.Proofs.SvgDocChar
import Verif.Proofs.Xml
/-!
# C05B — SVG minification keeps the element tree, the functional attributes and their values (document loop)

Second half of property C05.  Property theorems only.  Model: `Verif.Model.SvgDoc` (loop of `/repo/svg/svg.go`
over the token stream of the dependency lexer, `/repo/svg/buffer.go`; parameters `sub` = style sub-minifier,
`path` = `ShortenPathData`, `num` = `minify.Number(·, 0)`).  Specification: `Verif.Spec.SvgDocSpec`.
Lemmas: `Verif.Proofs.SvgDoc`, `…SvgDocColor`, `…SvgDocDim`.

Nothing is assumed about `sub` and `path`: their results are written through `EscapeAttrVal` (attribute) or as
they are (element text — see `text_chars_counterexample` and docs/C05B.md for what that costs).
-/
namespace Verif.Props.C05B
open Verif.SvgDoc Verif.Model.SvgDoc Verif.Spec.SvgDocSpec
open Verif.Proofs.SvgDoc Verif.Proofs.SvgDocColor Verif.Proofs.SvgDocDim Verif.Proofs.SvgDocChar

/-! ## the structural clause -/

/-- full statement: for every lexer-shaped token stream the element tree and the attribute names of the part of
the document the property speaks about are those of the output (optional = removable items may be missing,
nothing is added, order kept) -/
def svg_structure_full : Prop :=
  ∀ (e : Env) (o : SvgOpts) (ts : List STok), attrShape false ts = true →
    skeletonEquiv o.inline ts (emit e o ts) = true

/-- **svg_structure** (partial; guards = trigger of the open finding K-C05-7 and "no `foreignObject`", whose
content is copied verbatim and is not the subject of the clause): element starts and ends (names without the
`svg:` prefix), and attributes are emitted in order; what disappears is a `metadata` element or an element in a
foreign namespace with its subtree, an attribute in a foreign namespace, or an attribute of `svg` / `style`
that has a default; comments, processing instructions, DOCTYPE and character data produce no event.
Induction over the token list (`loop_aux`), for every `sub`, `path`, `num`. -/
theorem svg_structure_partial (e : Env) (o : SvgOpts) (ts : List STok) (hshape : attrShape false ts = true)
    (hd : hasDefs1 ts = false) (hfo : hasForeignObject ts = false) :
    skeletonEquiv o.inline ts (emit e o ts) = true := by
  unfold skeletonEquiv
  rw [evsOut_emit]
  exact loop_aux e o (fun _ _ _ => true) (fun _ _ => True) (fun _ _ _ _ _ _ _ _ => rfl) ts.length ts (Nat.le_refl _) hd hfo
    (fun _ _ _ _ => trivial) st0 [] false hshape (fun h => absurd h (by simp)) (by decide)

/-- **svg_structure with values**: if the value relation holds for every attribute the loop writes (see
`attr_value_*`, `dimension_value_ok`, `color_attr_ok` for the rewrites and docs/C05B.md for the XML layer), the
whole structural clause `structEquiv` holds. -/
theorem svg_structure_values (e : Env) (o : SvgOpts) (ts : List STok) (hshape : attrShape false ts = true)
    (hd : hasDefs1 ts = false) (hfo : hasForeignObject ts = false)
    (hval : ∀ (st : St) (d n : List Char) (v : Option (List Char)) (p : PTok) (w : List Char),
      STok.attr d n v ∈ ts → (attrStep e.num o st n v).1 = [p] → fill e p = mkAttr n w →
        valRel n v (some w) = true) :
    structEquiv o.inline ts (emit e o ts) = true := by
  unfold structEquiv
  rw [evsOut_emit]
  exact loop_aux e o valRel (fun n v => ∃ d, STok.attr d n v ∈ ts)
    (fun st n v p w hP h1 h2 => by obtain ⟨d, hd⟩ := hP; exact hval st d n v p w hd h1 h2)
    ts.length ts (Nat.le_refl _) hd hfo (fun d _ _ h => ⟨d, h⟩) st0 [] false hshape
    (fun h => absurd h (by simp)) (by decide)

def idEnv : Env := { sub := fun _ _ _ => none, path := fun p => p, num := fun s => Verif.Model.SvgNum.number s 0 }

/-- tokens of `<svg><defs id="a"/><rect/></svg>` (K-C05-7) -/
def exDefs : List STok :=
  [.startTag ['s', 'v', 'g'], .startTagClose, .startTag ['d', 'e', 'f', 's'],
   .attr [' ', 'i', 'd', '=', '"', 'a', '"'] ['i', 'd'] (some ['"', 'a', '"']), .startTagCloseVoid,
   .startTag ['r', 'e', 'c', 't'], .startTagCloseVoid, .endTag ['<', '/', 's', 'v', 'g', '>'] ['s', 'v', 'g']]

/-- the full statement is false: a void `defs` element with exactly one attribute is removed -/
theorem svg_structure_counterexample : ¬ svg_structure_full := fun h =>
  absurd (h idEnv ⟨false, false⟩ exDefs (by decide)) (by decide)

/-- tokens of `<svg x="0" width="10.0px" inkscape:label="a" xlink:href="#b"><metadata><a/></metadata><g></g></svg>` -/
def exOk : List STok :=
  [.startTag ['s', 'v', 'g'], .attr [' ', 'x', '=', '"', '0', '"'] ['x'] (some ['"', '0', '"']),
   .attr " width=\"10.0px\"".toList ['w', 'i', 'd', 't', 'h'] (some ['"', '1', '0', '.', '0', 'p', 'x', '"']),
   .attr " inkscape:label=\"a\"".toList "inkscape:label".toList (some ['"', 'a', '"']),
   .attr " xlink:href=\"#b\"".toList "xlink:href".toList (some ['"', '#', 'b', '"']),
   .startTagClose, .startTag "metadata".toList, .startTagClose, .startTag ['a'], .startTagCloseVoid,
   .endTag "</metadata>".toList "metadata".toList, .startTag ['g'], .startTagClose, .endTag ['<', '/', 'g', '>'] ['g'],
   .endTag ['<', '/', 's', 'v', 'g', '>'] ['s', 'v', 'g']]

/-- non-vacuity: the hypotheses hold for a document with a default attribute, a length, a foreign and an
`xlink:` attribute, `metadata` and an empty element; model output and both clauses evaluated -/
example : attrShape false exOk = true ∧ hasDefs1 exOk = false ∧ hasForeignObject exOk = false ∧
    svgMinify idEnv ⟨false, false⟩ exOk = "<svg width=\"10\" xlink:href=\"#b\"><g/></svg>".toList ∧
    structEquiv false exOk (emit idEnv ⟨false, false⟩ exOk) = true := by decide +kernel

/-! ## what disappears -/

/-- **attrs_kept**: the attribute branch writes nothing only for an attribute in a foreign namespace (a prefix
other than `xml:` / `xlink:`, `xmlns:xlink` excepted) or a default-valued attribute (`isDefaultAttr`, listed in
`default_attrs_listed`) — an attribute without prefix or with prefix `xml` / `xlink` of a kept element is never
dropped otherwise; what is written is exactly one attribute of the same name. -/
theorem attrs_kept (e : Env) (o : SvgOpts) (st : St) (n : List Char) (v : Option (List Char)) :
    ((attrStep e.num o st n v).1 = [] ∧
        (isDefaultAttr o st.tag st.mime n (attrVal1 e.num n v) = true ∨ foreignAttr n = true)) ∨
    (∃ p w, (attrStep e.num o st n v).1 = [p] ∧ fill e p = mkAttr n w) := by
  rcases attrEmit_shape e.num o st n (attrVal1 e.num n v) with h | ⟨p, h⟩
  · left
    refine ⟨h, ?_⟩
    rcases attrEmit_nil e.num o st n _ h with a | b
    · exact Or.inl a
    · exact Or.inr (by rw [← foreignAttr_eq]; exact b)
  · right
    obtain ⟨w, hw⟩ := attrEmit_fill e o st n _ p h
    exact ⟨p, w, h, hw⟩

/-- the default-valued attributes that are removed, with the value they must have after the rewrite of `buffer.go`
and `shortenDimension`: on `svg` elements `xmlns` (any value; only when embedded in HTML), `version="1.1"`,
`x="0"`, `y="0"`, `preserveAspectRatio="xMidYMid meet"`, `baseProfile="none"`,
`contentScriptType="application/ecmascript"`, `contentStyleType="text/css"`; on `style` elements `type="text/css"`
while the default style type (`contentStyleType` of the last `svg` start tag, initially `text/css`) is `text/css` -/
theorem default_attrs_listed (o : SvgOpts) (tag mime n val : List Char) (h : isDefaultAttr o tag mime n val = true) :
    (tag = nSvg ∧ ((o.inline = true ∧ n = ['x', 'm', 'l', 'n', 's']) ∨
      (n, val) ∈ [("version".toList, "1.1".toList), (['x'], ['0']), (['y'], ['0']),
        ("preserveAspectRatio".toList, "xMidYMid meet".toList), ("baseProfile".toList, "none".toList),
        ("contentScriptType".toList, "application/ecmascript".toList),
        ("contentStyleType".toList, "text/css".toList)])) ∨
    (tag = nStyle ∧ n = "type".toList ∧ val = "text/css".toList ∧ mime = cssMime) := by
  simp only [isDefaultAttr, Bool.or_eq_true, Bool.and_eq_true, beq_iff_eq] at h
  rcases h with ⟨h1, h2⟩ | ⟨⟨⟨h1, h2⟩, h3⟩, h4⟩
  · left
    refine ⟨h1, ?_⟩
    rcases h2 with ((((((h | h) | h) | h) | h) | h) | h) | h
    · exact Or.inl h
    all_goals (right; obtain ⟨a, b⟩ := h; subst a b; decide)
  · right; exact ⟨h1, h2, h3, h4⟩

/-- **style_type_default** (full since /repo 4e22b54; former finding K-C05B-7): `type="text/css"` on a style element is
removed only while the default style type is `text/css` -/
theorem style_type_default (o : SvgOpts) (st : St) (val : List Char)
    (h : isDefaultAttr o nStyle st.mime ['t', 'y', 'p', 'e'] val = true) : val = cssMime ∧ st.mime = cssMime := by
  have hs : (nStyle == nSvg) = false := by decide
  simp only [isDefaultAttr, hs, Bool.false_and, Bool.false_or, Bool.and_eq_true, beq_iff_eq] at h
  exact ⟨h.1.2, h.2⟩

/-- **only_metadata_dropped**: a start tag is removed together with its subtree exactly when it is a `metadata`
element or an element in a foreign namespace — or (K-C05-7) a `defs` start tag whose second following token is `/>` -/
theorem only_metadata_dropped (n : List Char) (r : List STok) :
    skipStart n r = true ↔
      (removableElem n = true ∨ (n = ['d', 'e', 'f', 's'] ∧ r[1]? = some STok.startTagCloseVoid ∧
        Verif.Spec.SvgDocSpec.prefixOf n = none)) := by
  by_cases hd : (n == ['d', 'e', 'f', 's'] && r[1]? == some STok.startTagCloseVoid) = false
  · rw [skipStart_removable n r hd]
    constructor
    · exact Or.inl
    · rintro (h | ⟨h1, h2, _⟩)
      · exact h
      · simp [h1, h2] at hd
  · have hd' : n = ['d', 'e', 'f', 's'] ∧ r[1]? = some STok.startTagCloseVoid := by
      simpa using hd
    obtain ⟨h1, h2⟩ := hd'
    subst h1
    constructor
    · intro _; exact Or.inr ⟨rfl, h2, by decide⟩
    · intro _; simp [skipStart, nMetadata, nDefs, Verif.Model.SvgDoc.prefixOf, h2]

/-- what a removed start tag takes with it: exactly the tokens through the matching end tag or `/>` (the
specification's own notion of a subtree, `Mode.skip`) -/
theorem removed_subtree (inl : Bool) (r : List STok) :
    essIn inl (.skip 0) r = essIn inl (.elem []) (r.drop (skipLen 0 r)) := essIn_skip inl r 0

/-- **empty_collapse_ok**: `>` is written as `/>` (and the end tag swallowed) only when the element has no content
or a single white-space-only text node -/
theorem empty_collapse_ok (r : List STok) (k : Nat) (h : collapseSkip r = some k) :
    (k = 1 ∧ ∃ d n r', r = STok.endTag d n :: r') ∨
    (k = 2 ∧ ∃ tx d n r', r = STok.text tx :: STok.endTag d n :: r' ∧ Verif.Model.Xml.allWs tx = true) := by
  unfold collapseSkip at h
  split at h
  · simp only [Option.some.injEq] at h; exact Or.inl ⟨h.symm, _, _, _, rfl⟩
  · split at h
    · next hws => simp only [Option.some.injEq] at h; exact Or.inr ⟨h.symm, _, _, _, _, rfl, hws⟩
    · simp at h
  · simp at h

example : collapseSkip [STok.text [' ', '\n'], STok.endTag ['<', '/', 'g', '>'] ['g']] = some 2 ∧
    collapseSkip [STok.text [' ', 'x'], STok.endTag ['<', '/', 'g', '>'] ['g']] = none := by decide

/-! ## values -/

/-- **dimension_value_ok**: for a value that the specification reads as number `x` + unit `u` (SVG 1.1 number
grammar; unit = nothing, `%` or letters) and on which `parse.Dimension` agrees with that reading,
`shortenDimension` writes a dimension with exactly the same numeric value and the same unit up to case and
`px` = user unit; a zero loses its unit.  That is valid for every attribute typed `<length>`, `<number>`,
`<percentage>`, `<angle>` or clock value; it is **not** valid for text-valued attributes
(`dimension_text_counterexample`).  Contract of the number printer: `NumOk` (C08). -/
theorem dimension_value_ok (num : List Char → List Char) (hnum : NumOk num) (x u : List Char) (hne : x ≠ [])
    (hx : Verif.Spec.SvgPath.lexNumber x = some (x, [])) (hu : Verif.Spec.SvgDocSpec.isUnit u = true)
    (hxu : Verif.Spec.SvgPath.lexNumber (x ++ u) = some (x, u))
    (hagree : dimension (x ++ u) = (x.length, u.length)) :
    dimRel (x ++ u) (shortenDim num (x ++ u)).1 = true :=
  dimension_value num hnum x u hne hx hu hxu hagree

/-- what exactly is written: the number through `num`, then the unit — dropped for the value that prints as `0`,
dropped when it is `px`, lower-cased when it has two or more letters -/
theorem dimension_written (num : List Char → List Char) (x u : List Char) (hne : x ≠ [])
    (hagree : dimension (x ++ u) = (x.length, u.length)) :
    (shortenDim num (x ++ u)).1 = (if num x == ['0'] then ['0'] else num x ++ unitOut u) :=
  shortenDim_eq num x u hne hagree

example : dimension "10.0PX".toList = (4, 2) ∧ dimension "0.0%".toList = (3, 1) ∧ dimension "1e3Em".toList = (3, 2) ∧
    (shortenDim idEnv.num "10.0PX".toList).1 = "10px".toList ∧ (shortenDim idEnv.num "0.0%".toList).1 = ['0'] ∧
    (shortenDim idEnv.num "5.0px".toList).1 = ['5'] ∧ (shortenDim idEnv.num "1e3Em".toList).1 = "1e3em".toList := by
  decide +kernel

/-- the dimension rewrite is not applied to `id`, `class`, `href`, `font-family`, prefixed names and (since /repo
434f247) `unicode`, `glyph-name`, `result`, `in`, `in2`, `name`, `systemLanguage`, `title` -/
theorem dimension_text_ok (num : List Char → List Char) (n : List Char) (v : Option (List Char))
    (h : isNameAttr n = true) : attrVal1 num n v = prepVal v := by
  simp [attrVal1, h]

/-- every attribute the specification regards as identifier / reference / text (`isLiteralAttr`) is exempt
from the dimension rewrite (`version` by its own test) -/
theorem literal_is_name (n : List Char) (h : isLiteralAttr n = true) :
    n = ['v', 'e', 'r', 's', 'i', 'o', 'n'] ∨ isNameAttr n = true := by
  simp only [isLiteralAttr, Bool.or_eq_true, beq_iff_eq] at h
  repeat' (rcases h with h | h)
  all_goals first | decide | (right; simp_all [isNameAttr])

/-- **dimension_text** (full since /repo 256408f; former finding K-C05B-6): the dimension rewrite is never applied to
a text-valued attribute — `id class href font-family version`, prefixed names, `unicode glyph-name result in in2 name
systemLanguage lang title`, `data-*`, `aria-*` -/
theorem dimension_text_full (num : List Char → List Char) (n : List Char) (v : Option (List Char))
    (h : isLiteralAttr n = true) : attrVal1 num n v = prepVal v := by
  rcases literal_is_name n h with h | h
  · subst h; simp [attrVal1]
  · exact dimension_text_ok num n v h

example : attrVal1 idEnv.num ['d', 'a', 't', 'a', '-', 'x'] (some ['"', '1', '.', '0', '"']) = ['1', '.', '0'] ∧
    attrVal1 idEnv.num ['w', 'i', 'd', 't', 'h'] (some ['"', '1', '.', '0', '"']) = ['1'] := by decide +kernel

/-- **color_attr_ok**: the colour branch (`css.ShortenColorHex`, `css.ShortenColorName`, `#aabbcc` → `#abc`) keeps
the sRGB triple of every keyword / hex colour, and what is not a colour before is not a colour afterwards
(whole regenerated tables against the independent colour table) -/
theorem color_attr_ok (v : List Char) :
    Verif.Spec.CssUnits.color (colorVal v) = Verif.Spec.CssUnits.color v := colorVal_color v

example : colorVal "#ff0000".toList = "red".toList ∧ colorVal "white".toList = "#fff".toList ∧
    colorVal "#aabbcc".toList = "#abc".toList ∧ colorVal "Red".toList = "Red".toList ∧
    Verif.Spec.CssUnits.color "Red".toList = some (255, 0, 0) := by decide +kernel

/-- **attr_value** (partial): attributes whose value belongs to another property (`style`: C04/C11, `d`: path half
of C05, `contentStyleType`: C18) are related by definition -/
theorem attr_value_partial (n : List Char) (v w : Option (List Char)) (h : isOpaqueAttr n = true) :
    valRel n v w = true := by simp [valRel, h]

/-- full statement of the value clause for one attribute token with a well-formed literal (not proved: the XML
layer — `buffer.go` + `EscapeAttrVal` against `aval` — is evaluated by the harness, `spec.c05b.holds`; no
counterexample is known since /repo 256408f) -/
def attr_value_full : Prop :=
  ∀ (e : Env) (o : SvgOpts) (st : St) (n raw : List Char) (p : PTok) (w : List Char),
    Verif.Spec.Xml.wfAttr raw = true → (attrStep e.num o st n (some raw)).1 = [p] → fill e p = mkAttr n w →
      valRel n (some raw) (some w) = true

/-! ## character data -/

/-- **chardata_written** (since /repo d582c28 the guard is the last step): the character data written for a text
token, for style element text (after the sub-minifier) and for a CDATA section written as text is exactly
`escapeCDEnd(d, bw.n)` of the final data `d` — for every `sub`, every bracket count -/
theorem chardata_written (e : Env) (br : Nat) (p : PTok) (d : List Char) (h : (fillAt e br p).1 = STok.text d) :
    (∃ t, p = .tok t) ∨ ∃ d0, d = escCD br d0 := by
  cases p with
  | tok t => exact Or.inl ⟨t, rfl⟩
  | textTok d0 => simp only [fillAt, STok.text.injEq] at h; exact Or.inr ⟨d0, h.symm⟩
  | cdataTok dt tx =>
    simp only [fillAt, cdataOutAt] at h
    split at h
    · simp only [STok.text.injEq] at h; exact Or.inr ⟨_, h.symm⟩
    · simp at h
  | styleText m pl => simp only [fillAt, STok.text.injEq] at h; exact Or.inr ⟨_, h.symm⟩
  | styleCData m dt tx =>
    simp only [fillAt, cdataOutAt] at h
    split at h
    · simp only [STok.text.injEq] at h; exact Or.inr ⟨_, h.symm⟩
    · simp at h
  | styleAttr n m pl => simp [fillAt, mkAttr] at h
  | pathAttr n pl => simp [fillAt, mkAttr] at h

/-- style element text: what is written is the guard applied to the payload or to a result of `sub` that is still
character data (`styleData`) -/
theorem style_text_token (e : Env) (br : Nat) (m pl : List Char) :
    (fillAt e br (.styleText m pl)).1 = STok.text (escCD br (styleData e m false pl)) := rfl

/-- **text_cdend_ok** (since /repo 2fde2e2; former finding K-C05B-11): whatever number `br` of `]` ends the output
written so far, character data written through `escapeCDEnd(·, bw.n)` never completes the sequence `]]>` — neither
inside the token nor together with the preceding output — and the number of `]` it leaves at the end is the one
`bracketWriter` records.  No hypothesis on the data, hence none on the style sub-minifier. -/
theorem text_cdend_ok (br : Nat) (d : List Char) :
    Verif.Spec.Xml.cdAuto br (escCD br d) = false ∧
    Verif.Proofs.Xml.cdState br (escCD br d) = brAfter br d := Verif.Proofs.Xml.escCD_free d br

/-- the guard introduces no `<` -/
theorem escCD_nolt (d : List Char) (h : ∀ c ∈ d, c ≠ '<') : ∀ (n : Nat), ∀ c ∈ escCD n d, c ≠ '<' := by
  induction d with
  | nil => intro n c hc; simp [escCD, Verif.Model.Xml.escCD] at hc
  | cons a r ih =>
    intro n c hc
    have hr : ∀ c ∈ r, c ≠ '<' := fun c hc => h c (List.mem_cons_of_mem _ hc)
    simp only [escCD, Verif.Model.Xml.escCD] at hc
    split at hc
    · simp only [List.mem_cons] at hc
      rcases hc with hc | hc
      · rw [hc]; exact h a (List.mem_cons_self)
      · exact ih hr _ c hc
    · split at hc
      · simp only [List.mem_cons] at hc
        rcases hc with hc | hc | hc | hc | hc
        · rw [hc]; decide
        · rw [hc]; decide
        · rw [hc]; decide
        · rw [hc]; decide
        · exact ih hr _ c hc
      · simp only [List.mem_cons] at hc
        rcases hc with hc | hc
        · rw [hc]; exact h a (List.mem_cons_self)
        · exact ih hr _ c hc

/-! ### the style sub-minifier needs no contract (since /repo d582c28) -/

/-- **style_data_chardata**: style element text and style attribute values — the data that is written is the
payload itself or a result of `sub` that passed `isCharData`; so if the payload is character data, so is what is
written, *for every* `sub` -/
theorem style_data_chardata (e : Env) (mime : List Char) (inl : Bool) (p : List Char) (hp : isCharData p = true) :
    isCharData (styleData e mime inl p) = true := by
  unfold styleData
  split
  · split
    · next h => exact h
    · exact hp
  · exact hp

/-- **isCharData_sound**: a byte string accepted by `isCharData` contains no `<`, and every `&` in it starts a complete
character or entity reference in the sense of the specification (`Spec.Xml.decodeText` yields no `bad` item) -/
theorem isCharData_sound (b : List Char) (h : isCharData b = true) :
    (∀ c ∈ b, c ≠ '<') ∧ (Verif.Spec.Xml.decodeText b).all notBad = true :=
  ⟨isCharData_nolt b h, isCharData_refs b h⟩

/-- the style text written: no `<` (for every `sub`), and no `]]>` with what precedes it -/
theorem style_text_written_ok (e : Env) (br : Nat) (mime p : List Char) (hp : isCharData p = true) :
    (∀ c ∈ escCD br (styleData e mime false p), c ≠ '<') ∧
    Verif.Spec.Xml.cdAuto br (escCD br (styleData e mime false p)) = false :=
  ⟨escCD_nolt _ (isCharData_sound _ (style_data_chardata e mime false p hp)).1 br, (text_cdend_ok br _).1⟩

/-- **style_cdata_section**: a style CDATA section that is rewritten is `<![CDATA[` result `]]>` with a result that
does not contain `]]>` — the section ends where it should, for every `sub` -/
theorem style_cdata_section (e : Env) (mime d tx : List Char) :
    styleSection e mime d tx = (d, tx) ∨
    (∃ out, styleSection e mime d tx = (cdataOpen ++ out ++ cdataEnd, out) ∧ hasCdataEnd out = false) := by
  unfold styleSection
  split
  · next out _ =>
    split
    · exact Or.inl rfl
    · next h => exact Or.inr ⟨out, rfl, by simpa using h⟩
  · exact Or.inl rfl

example : isCharData "a{b:c&amp;}".toList = true ∧ isCharData "a{b:c&amp}".toList = false ∧
    isCharData "a:&lt".toList = false ∧ isCharData "&#x3c;&#60;&a.b-c;".toList = true ∧ isCharData "a<b".toList = false ∧
    hasCdataEnd "a[b]]>c{d:e}".toList = true := by decide

/-- at the start of the output: the data contains no `]]>` at all -/
theorem text_no_cdend (d : List Char) : Verif.Spec.Xml.hasCdEnd (escCD 0 d) = false := by
  rw [← Verif.Proofs.Xml.cdAuto_hasCdEnd]; exact (text_cdend_ok 0 d).1

/-- the guard does not change the characters: the decoded character data is the same (XML 1.0 grammar of
character data as hypothesis, as in C06) -/
theorem text_cdend_content (br : Nat) (d : List Char) (h : d = [] ∨ Verif.Spec.Xml.WfText d) :
    Verif.Spec.Xml.decodeText (escCD br d) = Verif.Spec.Xml.decodeText d :=
  (Verif.Proofs.Xml.escCD_text br d h).1

/-- **bracket_count_ok**: the count handed to `escapeCDEnd` is exact — closing the holes of `a ++ b` handles `b`
with the number of `]` at the end of the bytes written for `a`, results of `sub` and `path` included -/
theorem bracket_count_ok (e : Env) (a b : List PTok) (br : Nat) :
    fillGo e br (a ++ b) = fillGo e br a ++ fillGo e (brAfter br (bytesOf (fillGo e br a))) b :=
  fillGo_append e a b br

/-- tokens of `<svg>]<!--c-->]<![CDATA[>]]>&gt;</svg>` -/
def exCdEnd : List STok :=
  [.startTag ['s', 'v', 'g'], .startTagClose, .text [']'], .comment "<!--c-->".toList, .text [']'],
   .cdata "<![CDATA[>]]>".toList ['>'], .text "&gt;".toList, .endTag "</svg>".toList ['s', 'v', 'g']]

/-- `]]>` would arise across a removed comment, a CDATA section written as text and a decoded `&gt;` -/
example : svgMinify idEnv ⟨false, false⟩ exCdEnd = "<svg>]]&gt;></svg>".toList := by decide +kernel

example : trimWs (Verif.Model.Xml.replWsEnt Verif.Gen.XmlTables.entities Verif.Gen.XmlTables.textRev
    "a &#60; b &#38; c".toList) = "a &lt; b &amp; c".toList := by decide +kernel

/-! ## `foreignObject` -/

/-- what `printTag` copies is copied verbatim: in the branch of `>` with `tag = foreignObject` (element not
collapsed) the tokens up to the matching end tag are written as they are -/
theorem foreign_object_verbatim (num : List Char → List Char) (o : SvgOpts) (st : St) (r : List STok)
    (h : st.tag = nForeignObject) (hc : collapseSkip r = none) :
    plan num o st 0 (STok.startTagClose :: r) =
      PTok.tok STok.startTagClose ::
        ((r.take (printLen 0 false r)).map PTok.tok ++ plan num o st (printLen 0 false r) r) := by
  simp [plan, h, hc]

/-- a processing instruction other than the XML declaration is copied token by token (since /repo 5562ac0), through
`?>` or through the `>` / `/>` token that ended it for the lexer, which is written with a space in front (59fe76b) -/
theorem pi_verbatim (num : List Char → List Char) (o : SvgOpts) (st : St) (n : List Char) (r : List STok)
    (h : n ≠ ['x', 'm', 'l']) :
    plan num o st 0 (STok.startTagPI n :: r) =
      PTok.tok (STok.startTagPI n) :: (((r.take (piLen r)).flatMap piOut).map PTok.tok ++ plan num o st (piLen r) r) := by
  have : (n == ['x', 'm', 'l']) = false := by simpa using h
  simp [plan, this]

/-- tokens of `<?p a>b?><svg/>` -/
def exPiGt : List STok :=
  [.startTagPI ['p'], .attr [' ', 'a'] ['a'] none, .startTagClose, .text ['b', '?', '>'], .startTag ['s', 'v', 'g'],
   .startTagCloseVoid]

example : svgMinify idEnv ⟨false, false⟩ exPiGt = "<?p a >b?><svg/>".toList := by decide +kernel

/-- tokens of `<svg:g><foreignObject></foreignObject></svg:g>` (K-C05B-8) -/
def exEmptyFO : List STok :=
  [.startTag "svg:g".toList, .startTagClose, .startTag "foreignObject".toList, .startTagClose,
   .endTag "</foreignObject>".toList "foreignObject".toList, .endTag "</svg:g>".toList "svg:g".toList]

/-- since /repo f52aabe the collapse of an empty `foreignObject` closes the element (`tag = 0`): `printTag` is not
entered and the `svg:` end tag loses its prefix like its start tag (former K-C05B-8) -/
example : svgMinify idEnv ⟨false, false⟩ exEmptyFO = "<g><foreignObject/></g>".toList := by decide +kernel

end Verif.Props.C05B

import Verif.Model.Embed
import Verif.Props.C15
/-!
# C11 — embedded resources are minified exactly as their own minifier would

The host-independent core: at every embedding site the registry is asked with the documented media
type / parameters, the answer of the registered minifier replaces the payload, "not registered" passes
the payload through, an error fails the outer call with its line moved into the outer document.
-/
namespace Verif.Props.C11
open Verif Verif.Model.Registry Verif.Model.Embed

/-- **Exactly what the registered minifier produces**: for every registration history, pattern relation,
    site, payload and sub-minifier behaviour, the step asks the minifier that the documented dispatch rule
    (`specDispatch`, C15) selects for the site's media type and emits precisely its output. -/
theorem embed_commutes (h : List RegOp) (pmOf : List Char → Nat → Bool) (run : Nat → Target → Sub)
    (doc : List Char) (off : Nat) (s : Site) (p : List Char) (id : Nat) (out : List Char)
    (hd : specDispatch h (pmOf (target s p).mime) (charsToBytes (target s p).mime) = some id)
    (hr : run id (target s p) = .ok out) :
    embedStep h pmOf run doc off s p = .bytes out := by
  unfold embedStep
  simp only []
  rw [Verif.Props.C15.dispatch_refines, hd]
  simp [hr, emit]

/-- **Pass-through**: no minifier registered for the type ⇒ the embedded bytes are emitted unchanged
    (for attribute sites: the trimmed value the host would have written anyway). -/
theorem embed_passthrough (h : List RegOp) (pmOf : List Char → Nat → Bool) (run : Nat → Target → Sub)
    (doc : List Char) (off : Nat) (s : Site) (p : List Char)
    (hd : specDispatch h (pmOf (target s p).mime) (charsToBytes (target s p).mime) = none) :
    embedStep h pmOf run doc off s p = .bytes (target s p).payload := by
  unfold embedStep
  simp only []
  rw [Verif.Props.C15.dispatch_refines, hd]
  simp [emit]

theorem raw_payload_untouched (tag : RawTag) (ty p : List Char) : (target (.htmlRaw tag ty) p).payload = p := by
  unfold target
  cases tag <;> simp <;> split <;> simp

/-- **Error propagation**: the outer call fails; a positioned (parse) error has its line moved by the number
    of line breaks before the payload, any other error is returned as is. -/
theorem embed_error (h : List RegOp) (pmOf : List Char → Nat → Bool) (run : Nat → Target → Sub)
    (doc : List Char) (off : Nat) (s : Site) (p : List Char) (id l c : Nat) (pe : Bool)
    (hd : specDispatch h (pmOf (target s p).mime) (charsToBytes (target s p).mime) = some id)
    (hr : run id (target s p) = .err l c pe) :
    embedStep h pmOf run doc off s p =
      .fail (updatePos doc off l c pe).1 (updatePos doc off l c pe).2 := by
  unfold embedStep
  simp only []
  rw [Verif.Props.C15.dispatch_refines, hd]
  simp [hr, emit]

theorem position_line_ge (d : List Char) (n line col : Nat) : line ≤ (position d n line col).line := by
  fun_induction position d n line col
  all_goals (first | exact Nat.le_refl _ | (simp only []; omega) | omega | assumption)

theorem position_col_pos (d : List Char) (n line col : Nat) (hc : 1 ≤ col) : 1 ≤ (position d n line col).col := by
  fun_induction position d n line col
  all_goals (first | exact hc | exact Nat.le_refl _ | (rename_i ih; exact ih (by omega)) | (simp only []; omega))

/-- the reported line is the true line of the error in the outer document:
    (line of the payload start) + (line inside the payload) − 1 -/
theorem error_line_true (doc : List Char) (off l c : Nat) (hl : 1 ≤ l) :
    (updatePos doc off l c true).1 = (position doc off 1 1).line + l - 1 := by
  unfold updatePos
  simp only [if_true]
  have := position_line_ge doc off 1 1
  omega

/-- errors that carry no position (e.g. a custom minifier's `errors.New`) are passed on untouched -/
theorem error_plain_untouched (doc : List Char) (off l c : Nat) : updatePos doc off l c false = (l, c) := rfl

/-- The column is only meaningful for errors on the first line of the payload: `UpdateErrorPosition` adds the
    payload's start column to the column of EVERY line.  Full statement and its refutation: -/
def column_true_full : Prop :=
  ∀ (doc : List Char) (off l c : Nat), 1 ≤ l → 1 ≤ c →
    (updatePos doc off l c true).2 = if l = 1 then (position doc off 1 1).col + c - 1 else c

theorem column_true_partial (doc : List Char) (off c : Nat) (hc : 1 ≤ c) :
    (updatePos doc off 1 c true).2 = (position doc off 1 1).col + c - 1 := by
  unfold updatePos
  simp only [if_true]
  have := position_col_pos doc off 1 1 (Nat.le_refl 1)
  omega

theorem column_true_counterexample : ¬ column_true_full := by
  intro h
  have := h "ab<script>".toList 10 2 1 (by decide) (by decide)
  revert this; decide

/-! non-vacuity and documented defaults, on concrete sites -/
example : target (.htmlRaw .script []) "x".toList = ⟨"application/javascript".toList, [], "x".toList⟩ := by decide
example : target (.htmlRaw .style []) "x".toList = ⟨"text/css".toList, [], "x".toList⟩ := by decide
example : (target (.htmlRaw .script "application/ld+json".toList) "x".toList).mime = "application/ld+json".toList := by decide
example : (target (.htmlRaw .script "text/template; a=b".toList) "x".toList).params = [("a".toList, "b".toList)] := by decide
example : (target (.htmlRaw .iframe "text/css".toList) "x".toList).mime = "text/html".toList := by decide
example : target .htmlOnAttr " JavaScript:f() ".toList = ⟨"application/javascript".toList, inlineParams, "f()".toList⟩ := by decide

end Verif.Props.C11

import Verif.Proofs.Stream
import Verif.Gen.Wrappers
/-!
# C12 — all entry points produce the same bytes for any chunking of the stream

Property theorems (model: `Verif.Model.Stream`, helper lemmas: `Verif.Proofs.Stream`, regenerated
skeletons and facts: `Verif.Gen.Wrappers`).  Every theorem about the wrappers is stated for **every**
skeleton satisfying a decidable well-formedness predicate and for every schedule / chunking; the
regenerated skeleton is shown to satisfy the predicates by `decide` on every check run (`wf_generated`).
-/
namespace Verif.Props.C12
open Verif Verif.Skel Verif.Model.Stream Verif.Proofs.Stream

/-! ### chunking is irrelevant to a minifier that only slurps its reader -/

/-- **chunk_invariant**: a `Minify` whose only use of the reader is `parse.NewInput(r)` computes a
    function of the concatenation — for any partition into chunks, empty chunks included. -/
theorem chunk_invariant (u : InputUse) (h : wfLeafUse u = true) (f : MinFn) (chunks : List Bytes) :
    minifyVia u.uses f chunks = some (f chunks.flatten) := by
  simp only [wfLeafUse, beq_iff_eq] at h
  simp [minifyVia, h, readAll]

/-- two chunkings of the same bytes give the same result -/
theorem chunk_invariant_same (u : InputUse) (h : wfLeafUse u = true) (f : MinFn) (c₁ c₂ : List Bytes)
    (heq : c₁.flatten = c₂.flatten) : minifyVia u.uses f c₁ = minifyVia u.uses f c₂ := by
  rw [chunk_invariant u h, chunk_invariant u h, heq]

/-- inserting empty chunks changes nothing -/
theorem empty_chunks_irrelevant (chunks : List Bytes) :
    readAll (chunks.filter (fun c => !c.isEmpty)) = readAll chunks := by
  induction chunks with
  | nil => rfl
  | cons c r ih =>
    cases c with
    | nil => simpa [readAll] using ih
    | cons a t => simp only [readAll] at ih ⊢; simp [ih]

example : readAll [[1, 2], [], [3]] = readAll [[1], [2, 3]] := by decide

/-! ### the `Writer` system -/

/-- what the proofs need of a `Writer`-shaped skeleton: parametrised by the destination name -/
structure WfW (sk : WSkel) (dst : String) : Prop where
  go : gprog sk.writer = canonGo dst
  wg : wgBefore sk.writer = 1
  close : sk.writerClose = canonClose

theorem wfW_of_wfWriter (sk : WSkel) (h : wfWriter sk = true) : WfW sk "w" := by
  simp only [wfWriter, Bool.and_eq_true, decide_eq_true_eq, beq_iff_eq] at h
  exact ⟨h.1.1.1, h.1.1.2, h.1.2⟩

theorem wfW_of_wfRespWriter (sk : WSkel) (h : wfRespWriter sk = true) : WfW (rwAsWriter sk) "rw" := by
  simp only [wfRespWriter, Bool.and_eq_true, decide_eq_true_eq, beq_iff_eq] at h
  obtain ⟨⟨⟨⟨⟨⟨⟨⟨⟨⟨⟨h1, h2⟩, h3⟩, _⟩, _⟩, _⟩, _⟩, _⟩, _⟩, _⟩, _⟩, _⟩ := h
  exact ⟨h1, h2, h3⟩

/-- states reachable under some schedule -/
def WReach (sk : WSkel) (mf : Option MinFn) (chunks : List Bytes) (s : WState) : Prop :=
  ∃ cs : List Choice, wrun sk mf (winit sk.writer chunks) cs = s

theorem wstep_inv (sk : WSkel) (dst : String) (wf : WfW sk dst) (mf : Option MinFn) (input : Bytes)
    (s s' : WState) (c : Choice) (inv : WInv mf input s) (h : wstep sk mf s c = some s') :
    WInv mf input s' := by
  cases c with
  | p => simp only [wstep, wf.close] at h; exact pstep_inv mf input s s' inv h
  | g n => simp only [wstep, wf.go] at h; exact gstep_inv dst mf input n s s' inv h

theorem wrun_inv (sk : WSkel) (dst : String) (wf : WfW sk dst) (mf : Option MinFn) (input : Bytes) :
    ∀ (cs : List Choice) (s : WState), WInv mf input s → WInv mf input (wrun sk mf s cs) := by
  intro cs
  induction cs with
  | nil => intro s inv; exact inv
  | cons c cs ih =>
    intro s inv
    simp only [wrun]
    cases hs : wstep sk mf s c with
    | none => simpa using ih s inv
    | some s' => exact ih s' (wstep_inv sk dst wf mf input s s' c inv hs)

/-- the invariant holds in every state reachable under every schedule -/
theorem wreach_inv (sk : WSkel) (dst : String) (wf : WfW sk dst) (mf : Option MinFn)
    (chunks : List Bytes) (s : WState) (hr : WReach sk mf chunks s) : WInv mf chunks.flatten s := by
  obtain ⟨cs, rfl⟩ := hr
  exact wrun_inv sk dst wf mf _ cs _ (winv_init mf sk.writer wf.wg chunks)

/-- `Inv ∧ closeReturned ⇒ delivered = f written ∧ closeResult = errOf f` (and the goroutine is done) -/
theorem winv_close (mf : Option MinFn) (input : Bytes) (s : WState) (inv : WInv mf input s)
    (r : Option Err) (hc : s.cres = some r) :
    s.delivered = (plain mf input).1 ∧ r = (plain mf input).2 ∧ s.gi = 4 ∧ s.rclosed = true := by
  have h := inv.cres_eq
  rw [hc] at h
  by_cases h6 : s.cj = 6
  · simp only [h6, if_true, Option.some.injEq] at h
    have hgi := inv.waited (by omega)
    refine ⟨(inv.after (by omega)).1, h, hgi, ?_⟩
    rw [inv.rclosed_eq]; simp; omega
  · simp [h6] at h

/-- **writer_safe**: for every skeleton satisfying `wfWriter`, every minifier (or none registered),
    every chunking of the input and EVERY schedule: the invariant holds, and once `Close` has returned,
    the underlying writer has received exactly the output of the plain call on the concatenation of
    all chunks, `Close` returned exactly the plain call's error, and the goroutine has finished. -/
theorem writer_safe (sk : WSkel) (hwf : wfWriter sk = true) (mf : Option MinFn)
    (chunks : List Bytes) (cs : List Choice) :
    let s := wrun sk mf (winit sk.writer chunks) cs
    WInv mf chunks.flatten s ∧
      ∀ r, s.cres = some r →
        s.delivered = (plain mf chunks.flatten).1 ∧ r = (plain mf chunks.flatten).2 ∧ s.gi = 4 := by
  intro s
  have inv : WInv mf chunks.flatten s := wreach_inv sk "w" (wfW_of_wfWriter sk hwf) mf chunks s ⟨cs, rfl⟩
  refine ⟨inv, fun r hc => ?_⟩
  have := winv_close mf _ s inv r hc
  exact ⟨this.1, this.2.1, this.2.2.1⟩

/-- before the minifier has seen EOF (i.e. before `Close` closed the pipe writer) nothing is written
    to the underlying writer: minifiers slurp, then write -/
theorem writer_no_early_output (sk : WSkel) (hwf : wfWriter sk = true) (mf : Option MinFn)
    (chunks : List Bytes) (cs : List Choice) :
    let s := wrun sk mf (winit sk.writer chunks) cs
    s.wclosed = false → s.delivered = [] := by
  intro s hw
  have inv : WInv mf chunks.flatten s := wreach_inv sk "w" (wfW_of_wfWriter sk hwf) mf chunks s ⟨cs, rfl⟩
  by_cases h0 : s.gi = 0
  · exact (inv.before h0).1
  · cases hm : mf with
    | none => rw [(inv.after (by omega)).1, hm]; rfl
    | some f =>
      have := inv.eof f hm (by omega)
      have h2 := inv.wclosed_eq
      rw [hw] at h2
      simp at h2; omega

/-- **writer_progress** (no deadlock): every reachable state in which `Close` has not returned or the
    goroutine has not finished has an enabled thread — including the case where the minifier ends
    before reading anything (no minifier registered: pending and later `Write`s fail with
    `io.ErrClosedPipe` instead of blocking). -/
theorem writer_progress (sk : WSkel) (hwf : wfWriter sk = true) (mf : Option MinFn)
    (chunks : List Bytes) (s : WState) (hr : WReach sk mf chunks s) (hnt : wterminal sk s = false) :
    ∃ c, (wstep sk mf s c).isSome = true := by
  have wf := wfW_of_wfWriter sk hwf
  have inv := wreach_inv sk "w" wf mf chunks s hr
  have hnt' : ¬ (s.cres.isSome = true ∧ 4 ≤ s.gi) := by
    intro ⟨h1, h2⟩
    simp [wterminal, h1, wf.go, canonGo, h2] at hnt
  rcases wprogress "w" mf _ s inv hnt' with h | h
  · exact ⟨.p, by simpa [wstep, wf.close] using h⟩
  · exact ⟨.g 0, by simpa [wstep, wf.go] using h⟩

/-- every enabled step strictly decreases `wmeasure`: no infinite run, so together with
    `writer_progress` every maximal run ends with `Close` returned -/
theorem writer_step_decreases (sk : WSkel) (hwf : wfWriter sk = true) (mf : Option MinFn)
    (chunks : List Bytes) (s s' : WState) (hr : WReach sk mf chunks s) (c : Choice)
    (h : wstep sk mf s c = some s') : wmeasure s' < wmeasure s := by
  have wf := wfW_of_wfWriter sk hwf
  have inv := wreach_inv sk "w" wf mf chunks s hr
  cases c with
  | p =>
    simp only [wstep, wf.close] at h
    refine pstep_measure s s' (fun hcn => ?_) h
    have := inv.cres_eq
    rw [hcn] at this
    have := inv.cj_le
    by_cases h6 : s.cj = 6
    · simp [h6] at *
    · omega
  | g n => simp only [wstep, wf.go] at h; exact gstep_measure "w" mf n s s' h

/-- the number of effective steps of any run is bounded by the measure of the initial state,
    which is linear in the input: `Close` always returns -/
theorem writer_bounded (sk : WSkel) (hwf : wfWriter sk = true) (mf : Option MinFn)
    (chunks : List Bytes) : ∀ (cs : List Choice) (s : WState), WReach sk mf chunks s →
      (∀ (pre : List Choice) (c : Choice) (post : List Choice), cs = pre ++ c :: post →
        (wstep sk mf (wrun sk mf s pre) c).isSome = true) →
      cs.length + wmeasure (wrun sk mf s cs) ≤ wmeasure s := by
  intro cs
  induction cs with
  | nil => intro s _ _; simp [wrun]
  | cons c cs ih =>
    intro s hr hen
    have h0 := hen [] c cs rfl
    simp only [wrun] at h0
    cases hs : wstep sk mf s c with
    | none => rw [hs] at h0; cases h0
    | some s' =>
      have hdec := writer_step_decreases sk hwf mf chunks s s' hr c hs
      have hr' : WReach sk mf chunks s' := by
        obtain ⟨cs0, h0'⟩ := hr
        refine ⟨cs0 ++ [c], ?_⟩
        have : ∀ (l : List Choice) (t : WState), wrun sk mf t (l ++ [c]) = ((wstep sk mf (wrun sk mf t l) c).getD (wrun sk mf t l)) := by
          intro l
          induction l with
          | nil => intro t; simp [wrun]
          | cons a l ihl => intro t; simp only [List.cons_append, wrun]; exact ihl _
        rw [this, h0', hs]; rfl
      have := ih s' hr' (fun pre c' post hcs => by
        have := hen (c :: pre) c' post (by rw [hcs]; rfl)
        simpa [wrun, hs] using this)
      simp only [wrun, hs, Option.getD_some, List.length_cons]
      omega

/-! ### the response writer: the same machinery, built on the first `Write` -/

/-- **respwriter_safe**: the goroutine/pipe/wait-group machinery that `responseWriter.Write` builds
    inline on its first call is a `Writer` system (destination: the wrapped `http.ResponseWriter`):
    same invariant, same guarantee at `Close`, for every schedule. -/
theorem respwriter_safe (sk : WSkel) (hwf : wfRespWriter sk = true) (mf : Option MinFn)
    (chunks : List Bytes) (cs : List Choice) :
    let s := wrun (rwAsWriter sk) mf (winit (rwAsWriter sk).writer chunks) cs
    WInv mf chunks.flatten s ∧
      ∀ r, s.cres = some r →
        s.delivered = (plain mf chunks.flatten).1 ∧ r = (plain mf chunks.flatten).2 ∧ s.gi = 4 := by
  intro s
  have inv : WInv mf chunks.flatten s :=
    wreach_inv (rwAsWriter sk) "rw" (wfW_of_wfRespWriter sk hwf) mf chunks s ⟨cs, rfl⟩
  refine ⟨inv, fun r hc => ?_⟩
  have := winv_close mf _ s inv r hc
  exact ⟨this.1, this.2.1, this.2.2.1⟩

/-- **middleware_mediatype**: the minifier is picked from a non-empty `Content-Type` response header,
    else from the request path extension; `WriteHeader` forwards the status with `Content-Length`
    removed and every other header kept. -/
theorem middleware_mediatype (sk : WSkel) (hwf : wfRespWriter sk = true) (ct ext : String)
    (hdrs : List String) :
    pickMediatype sk ct ext = (if ct != "" then ct else ext) ∧
    writeHeader sk hdrs = some (hdrs.filter (· != "Content-Length")) ∧
    (∀ l, writeHeader sk hdrs = some l → "Content-Length" ∉ l ∧ ∀ x ∈ hdrs, x ≠ "Content-Length" → x ∈ l) := by
  simp only [wfRespWriter, Bool.and_eq_true, decide_eq_true_eq, beq_iff_eq] at hwf
  obtain ⟨⟨⟨⟨⟨⟨⟨⟨⟨⟨⟨_, _⟩, _⟩, _⟩, _⟩, _⟩, _⟩, hfw⟩, hrw⟩, hwh⟩, _⟩, _⟩ := hwf
  have hwr : writeHeader sk hdrs = some (hdrs.filter (· != "Content-Length")) := by
    simp [writeHeader, hwh, writeHeader.go]
  refine ⟨?_, hwr, ?_⟩
  · unfold pickMediatype
    cases hf : firstWrite sk.rwWrite with
    | nil => rw [hf] at hfw; simp at hfw
    | cons a r =>
      rw [hf] at hfw
      simp only [List.head?_cons, Option.some.injEq] at hfw
      subst hfw
      have : (List.takeWhile (fun x => x != WAtom.matchBegin) (WAtom.pickContentType :: r)).contains WAtom.pickContentType = true := by
        have hne : (WAtom.pickContentType != WAtom.matchBegin) = true := by decide
        simp [List.takeWhile, hne]
      simp only [this, hrw, Bool.true_and]
      by_cases hct : ct = ""
      · subst hct; simp
      · simp [hct]
  · intro l hl
    rw [hwr] at hl
    simp only [Option.some.injEq] at hl
    subst hl
    refine ⟨by simp, fun x hx hne => ?_⟩
    simp [hx, hne]

/-! ### `Bytes` / `String` -/

/-- **bytes_same**: `m.Bytes` / `m.String` return the plain call's output on success and the
    unchanged input together with the plain call's error otherwise -/
theorem bytesVia_of_wf (prog : List WAtom) (h : wfBytesProg prog = true) (mf : Option MinFn) (v : Bytes) :
    bytesVia prog mf v = some (match (plain mf v).2 with | none => ((plain mf v).1, none) | some e => (v, some e)) := by
  unfold wfBytesProg at h
  split at h
  · simp only [bytesVia]
    cases hp : plain mf v with
    | mk out e => cases e <;> simp
  · cases h

theorem bytes_same (sk : WSkel) (hwf : wfBytes sk = true) (mf : Option MinFn) (v : Bytes) :
    bytesVia sk.bytes mf v = some (match (plain mf v).2 with | none => ((plain mf v).1, none) | some e => (v, some e)) ∧
    bytesVia sk.string mf v = bytesVia sk.bytes mf v := by
  simp only [wfBytes, Bool.and_eq_true] at hwf
  rw [bytesVia_of_wf _ hwf.1, bytesVia_of_wf _ hwf.2]
  exact ⟨rfl, rfl⟩

/-! ### ownership: results retained across the calls of a history -/

/-- the slices a caller retained from a finished call read the right bytes in heap `h` -/
def DoneGood (h : Heap) (d : ODone) : Prop :=
  d.inRef.cell < h.length ∧ d.outRef.cell < h.length ∧
  deref h d.inRef = d.call.input ∧ deref h d.outRef = expected d.call ∧
  d.err = (plain d.call.mf d.call.input).2

/-- every finished call of the history so far is good in the current heap -/
def OGood (s : OState) : Prop := ∀ d ∈ s.done, DoneGood s.heap d

/-- appending cells does not change what an existing slice reads -/
theorem deref_append (h t : Heap) (r : Ref) (hr : r.cell < h.length) : deref (h ++ t) r = deref h r := by
  simp [deref, List.getD_eq_getElem?_getD, List.getElem?_append_left hr]

theorem doneGood_append (h t : Heap) (d : ODone) (g : DoneGood h d) : DoneGood (h ++ t) d := by
  obtain ⟨h1, h2, h3, h4, h5⟩ := g
  refine ⟨by simp; omega, by simp; omega, ?_, ?_, h5⟩
  · rw [deref_append h t _ h1]; exact h3
  · rw [deref_append h t _ h2]; exact h4

/-- a call of a helper that keeps to the ownership discipline only APPENDS cells to the heap, and what it
    hands back is good in the new heap -/
theorem ocall_spec (cfgB cfgS : OwnCfg) (hB : ownOK cfgB = true) (hS : ownOK cfgS = true)
    (scr : Bytes → Bytes) (s : OState) (c : OCall) :
    ∃ ext d, (ocall cfgB cfgS scr s c).heap = s.heap ++ ext ∧
      (ocall cfgB cfgS scr s c).done = s.done ++ [d] ∧ d.call = c ∧ DoneGood (s.heap ++ ext) d := by
  have hcfg : ownOK (if c.str then cfgS else cfgB) = true := by split <;> assumption
  unfold ocall
  generalize (if c.str then cfgS else cfgB) = cfg at hcfg
  obtain ⟨fresh, ret, copied⟩ := cfg
  simp only [ownOK, Bool.and_eq_true, Bool.or_eq_true, beq_iff_eq] at hcfg
  obtain ⟨⟨hf, hcp⟩, hr⟩ := hcfg
  subst hf hcp
  have hexp : ∀ out e, plain c.mf c.input = (out, e) →
      expected c = (match e with | none => out | some _ => c.input) := by
    intro out e hp; unfold expected; rw [hp]; cases e <;> rfl
  cases hp : plain c.mf c.input with
  | mk out e =>
    have hx := hexp out e hp
    cases e with
    | some e =>
      refine ⟨[c.input, scr c.input, out], ⟨c, ⟨s.heap.length, c.input.length⟩, ⟨s.heap.length, c.input.length⟩, some e⟩, ?_, ?_, rfl, ?_⟩
      · simp
      · simp
      · refine ⟨by simp, by simp, ?_, ?_, by simp [hp]⟩
        · simp [deref, List.getD_eq_getElem?_getD]
        · simp [deref, List.getD_eq_getElem?_getD, hx]
    | none =>
      rcases hr with hr | hr
      · subst hr
        refine ⟨[c.input, scr c.input, out], ⟨c, ⟨s.heap.length, c.input.length⟩, ⟨s.heap.length + 2, out.length⟩, none⟩, ?_, ?_, rfl, ?_⟩
        · simp
        · simp
        · refine ⟨by simp, by simp, ?_, ?_, by simp [hp]⟩
          · simp [deref, List.getD_eq_getElem?_getD]
          · simp [deref, List.getD_eq_getElem?_getD, hx]
      · subst hr
        refine ⟨[c.input, scr c.input, out, out], ⟨c, ⟨s.heap.length, c.input.length⟩, ⟨s.heap.length + 3, out.length⟩, none⟩, ?_, ?_, rfl, ?_⟩
        · simp [List.getD_eq_getElem?_getD]
        · simp
        · refine ⟨by simp, by simp, ?_, ?_, by simp [hp]⟩
          · simp [deref, List.getD_eq_getElem?_getD]
          · simp [deref, List.getD_eq_getElem?_getD, hx]

theorem ocall_good (cfgB cfgS : OwnCfg) (hB : ownOK cfgB = true) (hS : ownOK cfgS = true)
    (scr : Bytes → Bytes) (s : OState) (c : OCall) (g : OGood s) : OGood (ocall cfgB cfgS scr s c) := by
  obtain ⟨ext, d, hh, hd, _, hg⟩ := ocall_spec cfgB cfgS hB hS scr s c
  intro d' hd'
  rw [hd] at hd'
  rw [hh]
  rcases List.mem_append.mp hd' with h | h
  · exact doneGood_append _ _ _ (g d' h)
  · simp only [List.mem_singleton] at h; subst h; exact hg

theorem orun_good (cfgB cfgS : OwnCfg) (hB : ownOK cfgB = true) (hS : ownOK cfgS = true)
    (scr : Bytes → Bytes) : ∀ (cs : List OCall) (s : OState), OGood s → OGood (orun cfgB cfgS scr s cs) := by
  intro cs
  induction cs with
  | nil => intro s g; exact g
  | cons c cs ih => intro s g; exact ih _ (ocall_good cfgB cfgS hB hS scr s c g)

/-- a history only appends to the list of finished calls, one entry per call, in order -/
theorem orun_done (cfgB cfgS : OwnCfg) (hB : ownOK cfgB = true) (hS : ownOK cfgS = true)
    (scr : Bytes → Bytes) : ∀ (cs : List OCall) (s : OState),
      ∃ ds, (orun cfgB cfgS scr s cs).done = s.done ++ ds ∧ ds.map (·.call) = cs := by
  intro cs
  induction cs with
  | nil => intro s; exact ⟨[], by simp [orun], rfl⟩
  | cons c cs ih =>
    intro s
    obtain ⟨_, d, _, hd, hc, _⟩ := ocall_spec cfgB cfgS hB hS scr s c
    obtain ⟨ds, h1, h2⟩ := ih (ocall cfgB cfgS scr s c)
    refine ⟨d :: ds, ?_, by simp [hc, h2]⟩
    simp only [orun]
    rw [h1, hd]; simp

/-- **history_results_stable** (ownership contract of `Bytes`/`String`): for helpers whose output buffer is a
    fresh local and which read a copy of the caller's slice (`ownOK`), for EVERY history `hs` of calls (any
    inputs, any registered minifier functions, whatever the minifier leaves in its working buffer) and EVERY
    continuation `later` of that history: what call i of `hs` returned — slice or string, retained by the
    caller and read only after `later` has run too — still equals the plain call's output on input i (the
    input itself when the plain call fails), the caller's own input slice still holds input i, and the error
    is the plain call's error. -/
theorem history_results_stable (cfgB cfgS : OwnCfg) (hB : ownOK cfgB = true) (hS : ownOK cfgS = true)
    (scr : Bytes → Bytes) (hs later : List OCall) :
    let s := orun cfgB cfgS scr {} hs
    let s' := orun cfgB cfgS scr s later
    s.done.map (·.call) = hs ∧
    ∀ d ∈ s.done, deref s'.heap d.outRef = expected d.call ∧ deref s'.heap d.inRef = d.call.input ∧
      d.err = (plain d.call.mf d.call.input).2 := by
  intro s s'
  obtain ⟨ds, h1, h2⟩ := orun_done cfgB cfgS hB hS scr hs {}
  refine ⟨by show (orun cfgB cfgS scr {} hs).done.map _ = hs; rw [h1]; simpa using h2, ?_⟩
  intro d hd
  have g0 : OGood ({} : OState) := by intro d hd; cases hd
  have gs : OGood s := orun_good cfgB cfgS hB hS scr hs {} g0
  have gs' : OGood s' := orun_good cfgB cfgS hB hS scr later s gs
  obtain ⟨ds', h1', _⟩ := orun_done cfgB cfgS hB hS scr later s
  have hd' : d ∈ s'.done := by
    show d ∈ (orun cfgB cfgS scr s later).done
    rw [h1']; exact List.mem_append_left _ hd
  obtain ⟨_, _, h3, h4, h5⟩ := gs' d hd'
  exact ⟨h4, h3, h5⟩

/-- **pooled_alias_counterexample**: the statement is FALSE for a helper that cuts the returned slice from a
    pooled buffer — a two-call history suffices: after the second call the first result reads `[9, 2, 3]`. -/
theorem pooled_alias_counterexample :
    let cfg : OwnCfg := { fresh := false, ret := .aliasBuf, copied := true }
    let f : MinFn := fun b => (b, none)
    let s := orun cfg cfg id {} [⟨false, some f, [1, 2, 3]⟩, ⟨false, some f, [9]⟩]
    ∃ d ∈ s.done, deref s.heap d.outRef ≠ expected d.call := by decide

/-- and FALSE on the input side for a helper that lets the minifier work on the caller's slice itself -/
theorem uncopied_input_counterexample :
    let cfg : OwnCfg := { fresh := true, ret := .aliasBuf, copied := false }
    let f : MinFn := fun b => (b, none)
    let s := orun cfg cfg List.reverse {} [⟨false, some f, [1, 2]⟩]
    ∃ d ∈ s.done, deref s.heap d.inRef ≠ d.call.input := by decide

/-- a pooled buffer whose content is COPIED on return (what `String` does) survives the same history -/
example :
    let cfg : OwnCfg := { fresh := false, ret := .copy, copied := true }
    let f : MinFn := fun b => (b, none)
    let s := orun cfg cfg id {} [⟨true, some f, [1, 2, 3]⟩, ⟨true, some f, [9]⟩]
    ∀ d ∈ s.done, deref s.heap d.outRef = expected d.call := by decide

/-- non-vacuity: a three-call history (success, minifier error, no minifier) under the discipline -/
example :
    let cfg : OwnCfg := { fresh := true, ret := .aliasBuf, copied := true }
    let f : MinFn := fun b => (b.reverse, if b.length > 2 then some (.minifier 1) else none)
    let s := orun cfg cfg (fun b => b.map (· + 1)) {} [⟨false, some f, [1, 2]⟩, ⟨true, some f, [3, 4, 5]⟩, ⟨false, none, [6]⟩]
    s.done.map (fun d => (deref s.heap d.outRef, d.err)) =
      [([2, 1], none), ([3, 4, 5], some (.minifier 1)), ([6], some .notExist)] := by decide

/-! ### the `Reader` system -/

def RReach (sk : WSkel) (ws : List Bytes) (err : Option Err) (s : RState) : Prop :=
  ∃ cs : List RChoice, rrun sk err (rinit ws) cs = s

theorem goBody_of_wfReader (sk : WSkel) (h : wfReader sk = true) : goBody sk.reader = canonReaderGo := by
  simp only [wfReader, Bool.and_eq_true, decide_eq_true_eq] at h
  exact h.1.1

theorem rrun_inv (sk : WSkel) (hwf : wfReader sk = true) (out : Bytes) (err : Option Err) :
    ∀ (cs : List RChoice) (s : RState), RInv out err s → RInv out err (rrun sk err s cs) := by
  have hg := goBody_of_wfReader sk hwf
  intro cs
  induction cs with
  | nil => intro s inv; exact inv
  | cons c cs ih =>
    intro s inv
    simp only [rrun]
    cases hs : rstep sk err s c with
    | none => simpa using ih s inv
    | some s' =>
      refine ih s' ?_
      cases c with
      | g => simp only [rstep, hg] at hs; exact rgstep_inv out err s s' inv hs
      | c n => simp only [rstep] at hs; exact rcstep_inv out err n s s' inv hs

/-- **reader_safe**: for every skeleton satisfying `wfReader`, however the minifier splits its output
    into `Write` calls (`ws`, zero-length ones included), whatever buffer sizes the consumer reads
    with and under every schedule: nothing is lost or duplicated on the way, and when the consumer
    has seen the end of the stream it has received exactly the minifier's output and the final
    `Read` returned exactly the minifier's error (nil = `io.EOF`). -/
theorem reader_safe (sk : WSkel) (hwf : wfReader sk = true) (ws : List Bytes) (err : Option Err)
    (cs : List RChoice) :
    let s := rrun sk err (rinit ws) cs
    s.got ++ (s.pend.getD []) ++ s.outs.flatten = ws.flatten ∧
      ∀ e, s.rres = some e → e = err ∧ s.got = ws.flatten := by
  intro s
  have inv : RInv ws.flatten err s := rrun_inv sk hwf _ err cs _ (rinv_init ws err)
  exact ⟨inv.conserve, inv.rres_ok⟩

/-- **reader_progress**: until the consumer has seen the end of the stream, the goroutine or the
    consumer can make a step (a consumer that keeps reading is never blocked forever) -/
theorem reader_progress (sk : WSkel) (hwf : wfReader sk = true) (ws : List Bytes) (err : Option Err)
    (s : RState) (hr : RReach sk ws err s) (hnt : s.rres = none) :
    ∃ c, (rstep sk err s c).isSome = true := by
  obtain ⟨cs, rfl⟩ := hr
  have inv := rrun_inv sk hwf ws.flatten err cs _ (rinv_init ws err)
  have hg := goBody_of_wfReader sk hwf
  rcases rprogress _ err _ inv hnt with h | h
  · exact ⟨.g, by simpa [rstep, hg] using h⟩
  · exact ⟨.c 0, by simpa [rstep] using h⟩

/-! ### the regenerated skeleton -/

/-- the skeleton regenerated from `/repo/minify.go` and the reader-use facts regenerated from every
    `Minify` are well-formed (re-checked by the kernel on every run) -/
theorem wf_generated :
    wfSkel Verif.Gen.Wrappers.skel = true ∧ wfInputUses Verif.Gen.Wrappers.inputUses = true := by
  decide

theorem gen_wfWriter : wfWriter Verif.Gen.Wrappers.skel = true := by decide
theorem gen_wfRespWriter : wfRespWriter Verif.Gen.Wrappers.skel = true := by decide
theorem gen_wfReader : wfReader Verif.Gen.Wrappers.skel = true := by decide
theorem gen_wfBytes : wfBytes Verif.Gen.Wrappers.skel = true := by decide

/-- **ownership_generated**: the ownership facts regenerated from `/repo/minify.go` say that `Bytes` and
    `String` cut what they return from a FRESH LOCAL buffer (not a package-level variable, pool, field or
    escaping local), hand back the input on the error path, and give the minifier a copy of the caller's
    slice (re-checked by the kernel on every run) -/
theorem ownership_generated :
    wfOwnership Verif.Gen.Wrappers.skel Verif.Gen.Wrappers.retFacts = true := by decide

/-- **C12_ownership**: `history_results_stable` instantiated for the code as it is now -/
theorem C12_ownership (scr : Bytes → Bytes) (hs later : List OCall) :
    ∃ cb cs, ownCfgs Verif.Gen.Wrappers.skel Verif.Gen.Wrappers.retFacts = some (cb, cs) ∧
      (let s := orun cb cs scr {} hs
       let s' := orun cb cs scr s later
       s.done.map (·.call) = hs ∧
       ∀ d ∈ s.done, deref s'.heap d.outRef = expected d.call ∧ deref s'.heap d.inRef = d.call.input ∧
         d.err = (plain d.call.mf d.call.input).2) := by
  have h := ownership_generated
  unfold wfOwnership at h
  cases hc : ownCfgs Verif.Gen.Wrappers.skel Verif.Gen.Wrappers.retFacts with
  | none => rw [hc] at h; cases h
  | some p =>
    obtain ⟨cb, cs⟩ := p
    rw [hc] at h
    simp only [Bool.and_eq_true] at h
    exact ⟨cb, cs, rfl, history_results_stable cb cs h.1 h.2 scr hs later⟩

/-- **C12_main**, instantiated for the code as it is now: for every registered minifier function
    (or none), every chunking and every schedule —
    `Writer`: invariant, and at `Close` return: delivered = plain output, result = plain error;
    `ResponseWriter`: the same; `Reader`: at end of stream: received = plain output, result = plain
    error; `Bytes`/`String`: plain output on success. -/
theorem C12_main (mf : Option MinFn) (chunks : List Bytes) :
    (∀ cs r, (wrun Verif.Gen.Wrappers.skel mf (winit Verif.Gen.Wrappers.skel.writer chunks) cs).cres = some r →
      (wrun Verif.Gen.Wrappers.skel mf (winit Verif.Gen.Wrappers.skel.writer chunks) cs).delivered = (plain mf chunks.flatten).1 ∧
      r = (plain mf chunks.flatten).2) ∧
    (∀ cs r, (wrun (rwAsWriter Verif.Gen.Wrappers.skel) mf (winit (rwAsWriter Verif.Gen.Wrappers.skel).writer chunks) cs).cres = some r →
      (wrun (rwAsWriter Verif.Gen.Wrappers.skel) mf (winit (rwAsWriter Verif.Gen.Wrappers.skel).writer chunks) cs).delivered = (plain mf chunks.flatten).1 ∧
      r = (plain mf chunks.flatten).2) ∧
    (∀ (ws : List Bytes) cs e, ws.flatten = (plain mf chunks.flatten).1 →
      (rrun Verif.Gen.Wrappers.skel (plain mf chunks.flatten).2 (rinit ws) cs).rres = some e →
      e = (plain mf chunks.flatten).2 ∧
      (rrun Verif.Gen.Wrappers.skel (plain mf chunks.flatten).2 (rinit ws) cs).got = (plain mf chunks.flatten).1) := by
  refine ⟨fun cs r h => ?_, fun cs r h => ?_, fun ws cs e hws h => ?_⟩
  · have := (writer_safe _ gen_wfWriter mf chunks cs).2 r h
    exact ⟨this.1, this.2.1⟩
  · have := (respwriter_safe _ gen_wfRespWriter mf chunks cs).2 r h
    exact ⟨this.1, this.2.1⟩
  · have := (reader_safe _ gen_wfReader ws _ cs).2 e h
    exact ⟨this.1, by rw [this.2, hws]⟩

/-! ### non-vacuity -/

/-- a run in which `Close` returns: two chunks, producer and goroutine alternating -/
example :
    let f : MinFn := fun b => (b.reverse, none)
    let s := wrun Verif.Gen.Wrappers.skel (some f) (winit Verif.Gen.Wrappers.skel.writer [[1, 2], [3]])
      [.p, .g 0, .g 0, .p, .g 5, .p, .p, .p, .p, .g 0, .g 0, .g 0, .g 0, .p, .p]
    s.cres = some none ∧ s.delivered = [3, 2, 1] := by decide
/-- no minifier registered: the first `Write` fails with `ErrClosedPipe`, `Close` returns `ErrNotExist` -/
example :
    let s := wrun Verif.Gen.Wrappers.skel none (winit Verif.Gen.Wrappers.skel.writer [[1, 2]])
      [.p, .g 0, .g 0, .g 0, .g 0, .p, .p, .p, .p, .p, .p, .p]
    s.cres = some (some .notExist) ∧ s.wfail = 1 ∧ s.delivered = [] := by decide
/-- waiting before closing the pipe writer deadlocks: such a skeleton is rejected -/
example : wfWriter { Verif.Gen.Wrappers.skel with
    writerClose := [.returnNilIfClosed, .setClosed, .wgWait, .pipeWriterClose, .returnStoredOrCloseErr] } = false := by decide
/-- dropping `defer pr.Close()` is rejected -/
example : wfWriter { Verif.Gen.Wrappers.skel with
    writer := [.pipeNew, .mkWriter, .wgAdd, .goBegin, .deferWgDone, .callMinify "w" "pr", .storeErr, .goEnd, .returnWriter] } = false := by decide
/-- a `Reader` run: output written in two pieces, consumer reading 1 byte at a time -/
example :
    let s := rrun Verif.Gen.Wrappers.skel none (rinit [[1, 2], [], [3]])
      [.g, .c 0, .c 0, .g, .c 0, .g, .c 0, .g, .g, .c 0]
    s.rres = some none ∧ s.got = [1, 2, 3] := by decide

end Verif.Props.C12

import Verif.Base.Pack
import Verif.Spec.TableChecks
import Verif.Spec.TraitChecks
import Verif.Proofs.C17Entities
import Verif.Proofs.C17Tables
import Verif.Spec.HtmlRefs
import Verif.Spec.HtmlTraits
import Verif.Spec.CssUnits
import Verif.Gen.EntitiesHtml
import Verif.Gen.TextRevHtml
import Verif.Gen.AttrRevHtml
import Verif.Gen.AttrRevXml
import Verif.Gen.EntitiesXml
import Verif.Gen.TextRevXml
import Verif.Gen.TagTraits
import Verif.Gen.AttrTraits
import Verif.Gen.JsMimetypes
import Verif.Gen.ShortenColorHex
import Verif.Gen.ShortenColorName
import Verif.Gen.OptionalZeroDimension
import Verif.Gen.ZeroAngleFuncs
import Verif.Gen.AngleDimension
import Verif.Gen.SvgColorAttrs
import Verif.Gen.HashNames
import Verif.Gen.Html5Entities
import Verif.Gen.CssColors
/-!
# C17 — the built-in replacement tables agree with the standards

Every theorem quantifies over **every row of a table regenerated from `/repo` on this run**
(`Verif.Gen.*`, written by `harness/cmd/extract/c17_tables.go`) and is closed by `decide +kernel` on a
linear Boolean checker (`List.all`), i.e. the Lean kernel evaluates the specification
(`Spec/HtmlRefs`, `Spec/HtmlTraits`, `Spec/CssUnits`, independent tables `Gen.Html5Entities`, `Gen.CssColors`)
on each row.  Strings are packed (`Base/Pack.lean`: `pk! "amp"`), `unpack` gives their bytes.

One row of the tree is *not* justified by the standard (`attrMap[Xmlns] = urlAttr`); for it the full statement is
kept as a `def … : Prop`, refuted from the offending row (`…_counterexample`, conditional on the row still being in
the table so that a repaired tree does not break the build) and proved with the row excluded (`…_partial`).
-/
namespace Verif.Props.C17
open Verif Verif.Gen Verif.Spec.HtmlRefs Verif.Spec.HtmlTraits Verif.Spec.CssUnits Verif.Spec.TableChecks
open Verif.Proofs.C17
open Verif.Gen.TagTraits (TagTrait) 
open Verif.Gen.AttrTraits (AttrTrait)

set_option maxRecDepth 1000000

private theorem all_of {α : Type} {p : α → Bool} {l : List α} (h : l.all p = true) :
    ∀ x ∈ l, p x = true := by
  simpa [List.all_eq_true] using h

/-! ## HTML named character references -/

/-- **every row `(name, repl)` of `html.EntitiesMap`**: an HTML parser decodes `repl` to the same text as the
    reference `&name;` it replaces, in a text node and in an attribute value, and `repl` is not longer. -/
theorem entities_html_ok : ∀ row ∈ EntitiesHtml.table,
    decodeCps .text (unpack row.2) = decodeCps .text (refOf row.1) ∧
    decodeCps .attr (unpack row.2) = decodeCps .attr (refOf row.1) ∧
    (unpack row.2).length ≤ (refOf row.1).length := by
  intro row hm
  have h := all_of entities_html_all row hm
  simp only [entityRowOk, Bool.and_eq_true, beq_iff_eq, decide_eq_true_eq] at h
  exact ⟨h.1.1.1, h.1.1.2, h.1.2⟩

/-- every replacement of `html.EntitiesMap` is self-contained (see `selfContained`) -/
theorem entities_html_selfcontained : ∀ row ∈ EntitiesHtml.table, selfContained (unpack row.2) = true := by
  intro row hm
  have h := all_of entities_html_all row hm
  simp only [entityRowOk, Bool.and_eq_true] at h
  exact h.2

example : 0 < EntitiesHtml.table.length := by decide +kernel
example : decodeCps .text (unpack (pk! "&notit; &amp; &#x80;")) = [172, 105, 116, 59, 32, 38, 32, 0x20AC] := by
  decide +kernel
example : decodeCps .attr (unpack (pk! "&notit; &not= &not")) = unpack (pk! "&notit; &not= ") ++ [172] := by
  decide +kernel

/-- a decimal numeric reference to an ASCII byte decodes, in text and in an attribute value, to `numericFix c`
    (U+FFFD for NUL, the character itself otherwise) — this is "what a reference to the byte `c` means" below -/
theorem numeric_ref_decodes : ∀ c ∈ List.range 128,
    decodeCps .text (numRef c) = [numericFix c] ∧ decodeCps .attr (numRef c) = [numericFix c] := by
  have h : (List.range 128).all (fun c =>
      decodeCps .text (numRef c) == [numericFix c] && decodeCps .attr (numRef c) == [numericFix c]) = true := by
    decide +kernel
  intro c hc
  have h := all_of h c hc
  simp only [Bool.and_eq_true, beq_iff_eq] at h
  exact h

/-- **every row `(c, esc)` of `html.TextRevEntitiesMap`** (`esc` is written in a text node when a reference decoded
    to the byte `c`): `esc` decodes in text to exactly what a reference to `c` decodes to (`<` for 60, CR for 13,
    U+FFFD for 0 — see `numeric_ref_decodes`), and consists of printable ASCII other than `<` -/
theorem textrev_html_ok : ∀ row ∈ TextRevHtml.table,
    decodeCps .text (unpack row.2) = [numericFix row.1] ∧ row.1 < 128 ∧
    (unpack row.2).all plainByte = true := by
  have h : TextRevHtml.table.all (htmlRevRowOk .text) = true := by decide +kernel
  intro row hm
  have h := all_of h row hm
  simp only [htmlRevRowOk, Bool.and_eq_true, beq_iff_eq, decide_eq_true_eq] at h
  exact ⟨h.1.2, h.1.1, h.2⟩

/-- **every row of `html.AttrRevEntitiesMap`**: the same in an attribute value -/
theorem attrrev_html_ok : ∀ row ∈ AttrRevHtml.table,
    decodeCps .attr (unpack row.2) = [numericFix row.1] ∧ row.1 < 128 ∧
    (unpack row.2).all plainByte = true := by
  have h : AttrRevHtml.table.all (htmlRevRowOk .attr) = true := by decide +kernel
  intro row hm
  have h := all_of h row hm
  simp only [htmlRevRowOk, Bool.and_eq_true, beq_iff_eq, decide_eq_true_eq] at h
  exact ⟨h.1.2, h.1.1, h.2⟩

/-- every row of the two HTML reverse maps is needed: the parser would *not* read the literal byte back as the text
    the reference stood for — a literal CR is normalised to LF, a literal NUL is dropped from text, `<` opens markup
    in text (`literalCps`).  The one exception is NUL in an attribute value, where the literal byte also ends as
    U+FFFD; keeping the reference there avoids a NUL byte (a parse error) in the output. -/
theorem rev_html_needed :
    (∀ row ∈ TextRevHtml.table, literalCps .text row.1 ≠ some [numericFix row.1]) ∧
    (∀ row ∈ AttrRevHtml.table, row.1 ≠ 0 → literalCps .attr row.1 ≠ some [numericFix row.1]) := by
  have h1 : TextRevHtml.table.all (htmlRevRowNeeded .text) = true := by decide +kernel
  have h2 : AttrRevHtml.table.all (fun row => row.1 == 0 || htmlRevRowNeeded .attr row) = true := by decide +kernel
  refine ⟨fun row hm => ?_, fun row hm hne => ?_⟩
  · have h := all_of h1 row hm
    simpa [htmlRevRowNeeded] using h
  · have h := all_of h2 row hm
    simp only [htmlRevRowNeeded, Bool.or_eq_true, beq_iff_eq, hne, false_or, bne_iff_ne, ne_eq] at h
    exact h

/-- every replacement of `html.EntitiesMap` that is the markup character `<` has an escape in
    `html.TextRevEntitiesMap` (so `&lt;`/`&LT;` in text never become a literal `<`) -/
theorem textrev_html_covers_lt : ∀ row ∈ EntitiesHtml.table, row.2 = pk! "<" →
    (lookupNat 60 TextRevHtml.table).isSome = true := by
  have h : EntitiesHtml.table.all
      (fun row => !(Nat.beq row.2 (pk! "<")) || (lookupNat 60 TextRevHtml.table).isSome) = true := by
    decide +kernel
  intro row hm heq
  have h := all_of h row hm
  simpa [heq] using h

/-! ## XML predefined entities -/

/-- **every row of `xml.EntitiesMap`**: `&name;` is a well-formed reference without a DTD and the replacement
    stands for the same characters; not longer -/
theorem entities_xml_ok : ∀ row ∈ EntitiesXml.table,
    decodeXmlCps (unpack row.2) = decodeXmlCps (refOf row.1) ∧ (decodeXmlCps (refOf row.1)).isSome = true ∧
    (unpack row.2).length ≤ (refOf row.1).length := by
  have h : EntitiesXml.table.all xmlEntityRowOk = true := by decide +kernel
  intro row hm
  have h := all_of h row hm
  simp only [xmlEntityRowOk, Bool.and_eq_true, beq_iff_eq, decide_eq_true_eq] at h
  exact ⟨h.1.1, h.1.2, h.2⟩

/-- **every row `(c, esc)` of `xml.TextRevEntitiesMap`**: `esc` is a well-formed reference to exactly the
    character `c`, and consists of printable ASCII other than `<` -/
theorem textrev_xml_ok : ∀ row ∈ TextRevXml.table,
    decodeXmlCps (unpack row.2) = some [row.1] ∧ (unpack row.2).all plainByte = true := by
  have h : TextRevXml.table.all xmlRevRowOk = true := by decide +kernel
  intro row hm
  have h := all_of h row hm
  simp only [xmlRevRowOk, Bool.and_eq_true, beq_iff_eq] at h
  exact ⟨h.1.2, h.2⟩

/-- **every row of `xml.AttrRevEntitiesMap`**: the same -/
theorem attrrev_xml_ok : ∀ row ∈ AttrRevXml.table,
    decodeXmlCps (unpack row.2) = some [row.1] ∧ (unpack row.2).all plainByte = true := by
  have h : AttrRevXml.table.all xmlRevRowOk = true := by decide +kernel
  intro row hm
  have h := all_of h row hm
  simp only [xmlRevRowOk, Bool.and_eq_true, beq_iff_eq] at h
  exact ⟨h.1.2, h.2⟩

/-- every row of the two XML reverse maps is needed: the literal character is markup (`<`, `&`) or would be
    normalised to a space in an attribute value (TAB, LF, CR; XML 1.0 §3.3.3) -/
theorem rev_xml_needed :
    (∀ row ∈ TextRevXml.table, xmlLiteralCps false row.1 ≠ some [row.1]) ∧
    (∀ row ∈ AttrRevXml.table, xmlLiteralCps true row.1 ≠ some [row.1]) := by
  have h1 : TextRevXml.table.all (xmlRevRowNeeded false) = true := by decide +kernel
  have h2 : AttrRevXml.table.all (xmlRevRowNeeded true) = true := by decide +kernel
  refine ⟨fun row hm => ?_, fun row hm => ?_⟩
  · have h := all_of h1 row hm
    simpa [xmlRevRowNeeded] using h
  · have h := all_of h2 row hm
    simpa [xmlRevRowNeeded] using h

example : 0 < EntitiesXml.table.length ∧ 0 < TextRevXml.table.length ∧ 0 < TextRevHtml.table.length ∧
    0 < AttrRevHtml.table.length ∧ 0 < AttrRevXml.table.length := by
  decide +kernel

/-! ## CSS colours -/

/-- **every row `(hex, keyword)` of `css.ShortenColorHex`**: `keyword` is a CSS named colour, it denotes the same
    sRGB triple as `hex`, and it is not longer -/
theorem colorhex_ok : ∀ row ∈ ShortenColorHex.table,
    hexColorCps (unpack row.1) = namedColorCps (unpack row.2) ∧ (namedColorCps (unpack row.2)).isSome = true ∧
    (unpack row.2).length ≤ (unpack row.1).length := by
  have h : ShortenColorHex.table.all colorHexRowOk = true := by decide +kernel
  intro row hm
  have h := all_of h row hm
  simp only [colorHexRowOk, Bool.and_eq_true, beq_iff_eq, decide_eq_true_eq] at h
  exact ⟨h.1.1, h.1.2, h.2⟩

/-- **every row `(keyword, hex)` of `css.ShortenColorName`**: `keyword` is a CSS named colour, `hex` denotes the
    same sRGB triple, and it is not longer -/
theorem colorname_ok : ∀ row ∈ ShortenColorName.table,
    namedColorCps (unpack row.1) = hexColorCps (unpack row.2) ∧ (namedColorCps (unpack row.1)).isSome = true ∧
    (unpack row.2).length ≤ (unpack row.1).length := by
  have h : ShortenColorName.table.all colorNameRowOk = true := by decide +kernel
  intro row hm
  have h := all_of h row hm
  simp only [colorNameRowOk, Bool.and_eq_true, beq_iff_eq, decide_eq_true_eq] at h
  exact ⟨h.1.1, h.1.2, h.2⟩

example : 0 < ShortenColorHex.table.length ∧ 0 < ShortenColorName.table.length := by decide +kernel
example : colorCps (unpack (pk! "#F00")) = colorCps (unpack (pk! "Red")) ∧
    colorCps (unpack (pk! "red")) = some (255, 0, 0) := by decide +kernel

/-! ## HTML attribute traits -/

/-- **every attribute of `html.attrMap` with the `booleanAttr` bit** is a boolean attribute of the HTML standard -/
theorem bool_attrs_ok : ∀ row ∈ AttrTraits.table, row.2.contains AttrTrait.booleanAttr = true →
    isBooleanAttr row.1 = true := by
  have h : AttrTraits.table.all boolAttrRowOk = true := by decide +kernel
  intro row hm ht
  have h := all_of h row hm
  unfold boolAttrRowOk at h
  simp only [ht, Bool.not_true, Bool.false_or] at h
  exact h

/-- full statement: every attribute with the `urlAttr` bit is URL-valued by the HTML standard -/
def url_attrs_full : Prop :=
  ∀ row ∈ AttrTraits.table, row.2.contains AttrTrait.urlAttr = true → isUrlAttr row.1 = true

/-- … holds for every attribute except `xmlns` (known finding K-C17-2) -/
theorem url_attrs_partial : ∀ row ∈ AttrTraits.table, row.2.contains AttrTrait.urlAttr = true →
    row.1 ≠ pk! "xmlns" → isUrlAttr row.1 = true := by
  have h : AttrTraits.table.all
      (fun row => Nat.beq row.1 (pk! "xmlns") || urlAttrRowOk row) = true := by
    decide +kernel
  intro row hm ht hne
  have h := all_of h row hm
  have hb : Nat.beq row.1 (pk! "xmlns") = false := by
    cases hbq : Nat.beq row.1 (pk! "xmlns") with
    | false => rfl
    | true => exact absurd (Nat.eq_of_beq_eq_true hbq) hne
  simp only [urlAttrRowOk, ht, hb, Bool.not_true, Bool.false_or] at h
  exact h

/-- `xmlns` is not a URL-valued attribute of the HTML standard (its value is a namespace name, compared as a
    string and, in the HTML syntax, "has no effect"): as long as the row is in the table the full statement fails -/
theorem url_attrs_counterexample :
    (pk! "xmlns", [AttrTrait.urlAttr]) ∈ AttrTraits.table → ¬ url_attrs_full := by
  intro hm hfull
  have := hfull _ hm (by decide)
  revert this
  decide +kernel

/-! ## HTML tag traits -/

/-- **every tag of `html.tagMap` with the `rawTag` bit** is a raw text / escapable raw text element, an element the
    parser switches to RAWTEXT/PLAINTEXT for, or a foreign-content root (`Spec/HtmlTraits.isRawJustified`) -/
theorem raw_tags_ok : ∀ row ∈ TagTraits.table, row.2.contains TagTrait.rawTag = true →
    isRawJustified row.1 = true := by
  have h : TagTraits.table.all rawTagRowOk = true := by decide +kernel
  intro row hm ht
  have h := all_of h row hm
  unfold rawTagRowOk at h
  simp only [ht, Bool.not_true, Bool.false_or] at h
  exact h

/-- **every tag of `html.tagMap` with the `blockTag` bit**: white space next to the element's boundary is
    insignificant for rendering — block-level, table part, line break, `display: none`, or part of a `select`
    (`Spec/HtmlTraits.isWsInsignificant`) -/
theorem block_tags_ok : ∀ row ∈ TagTraits.table, row.2.contains TagTrait.blockTag = true →
    isWsInsignificant row.1 = true := by
  have h : TagTraits.table.all blockTagRowOk = true := by decide +kernel
  intro row hm ht
  have h := all_of h row hm
  unfold blockTagRowOk at h
  simp only [ht, Bool.not_true, Bool.false_or] at h
  exact h

/-- no tag carries both `blockTag` (drop white space around it) and `objectTag` (keep white space after it) -/
theorem block_object_disjoint : ∀ row ∈ TagTraits.table,
    ¬ (row.2.contains TagTrait.blockTag = true ∧ row.2.contains TagTrait.objectTag = true) := by
  have h : TagTraits.table.all
      (fun row => !(row.2.contains TagTrait.blockTag && row.2.contains TagTrait.objectTag)) = true := by
    decide +kernel
  intro row hm ⟨h1, h2⟩
  have h := all_of h row hm
  simp only [h1, h2, Bool.and_self, Bool.not_true] at h
  exact absurd h (by decide)

example : 0 < TagTraits.table.length ∧ 0 < AttrTraits.table.length := by decide +kernel
example : (TagTraits.table.filter (fun r => r.2.contains TagTrait.blockTag)).length > 10 := by decide +kernel

/-! ## small sets -/

/-- **every media type of `html.jsMimetypes`** is a JavaScript MIME type (WHATWG MIME Sniffing) -/
theorem js_mimetypes_ok : ∀ t ∈ JsMimetypes.table, jsMimeTypes.contains t = true := by
  have h : JsMimetypes.table.all (fun t => jsMimeTypes.contains t) = true := by decide +kernel
  exact all_of h

/-- **every unit of `css.optionalZeroDimension`** is a length or an angle unit -/
theorem zero_units_ok : ∀ u ∈ OptionalZeroDimension.table, isLengthOrAngleUnit u = true := by
  have h : OptionalZeroDimension.table.all isLengthOrAngleUnit = true := by decide +kernel
  exact all_of h

/-- **every function of `css.zeroAngleFuncs`** (a zero angle loses its unit inside it) admits `<zero>` for its
    `<angle>` arguments -/
theorem zero_angle_funcs_ok : ∀ f ∈ ZeroAngleFuncs.table, zeroAngleFunctions.contains f = true := by
  have h : ZeroAngleFuncs.table.all (fun f => zeroAngleFunctions.contains f) = true := by decide +kernel
  exact all_of h

/-- **every unit of `css.angleDimension`** is an angle unit, and **every angle unit of `css.optionalZeroDimension` is in
    `css.angleDimension`** — so no zero angle loses its unit outside `zeroAngleFuncs` (the code drops the unit when
    `fun == 0 && !angleDimension[unit] || fun == zeroAngleFunc`) -/
theorem angle_dimension_ok :
    (∀ u ∈ AngleDimension.table, angleUnits.contains u = true) ∧
    (∀ u ∈ OptionalZeroDimension.table, angleUnits.contains u = true → AngleDimension.table.contains u = true) := by
  have h1 : AngleDimension.table.all (fun u => angleUnits.contains u) = true := by decide +kernel
  have h2 : OptionalZeroDimension.table.all (fun u => !angleUnits.contains u || AngleDimension.table.contains u) = true := by
    decide +kernel
  refine ⟨all_of h1, fun u hu ha => ?_⟩
  have h := all_of h2 u hu
  simp only [ha, Bool.not_true, Bool.false_or] at h
  exact h

/-- **every attribute of `svg.colorAttrMap`** takes a `<color>`/`<paint>` value -/
theorem svg_color_attrs_ok : ∀ a ∈ SvgColorAttrs.table, svgColorAttrs.contains a = true := by
  have h : SvgColorAttrs.table.all (fun a => svgColorAttrs.contains a) = true := by decide +kernel
  exact all_of h

example : 0 < JsMimetypes.table.length ∧ 0 < OptionalZeroDimension.table.length ∧
    0 < SvgColorAttrs.table.length ∧ 0 < ZeroAngleFuncs.table.length ∧ 0 < AngleDimension.table.length := by
  decide +kernel

/-! ## hash name tables -/

/-- **every `Hash` constant of `html/hash.go`, `css/hash.go`, `svg/hash.go`**: the slice of `_Hash_text` that the
    constant's value addresses (= `Hash.String()`) spells the constant's identifier — no constant points at a
    wrong or out-of-range part of the name table.  (`ToHash(name) = constant` is code, not data: checked by the
    harness on every name.) -/
theorem hash_names_ok :
    (∀ row ∈ HashNames.html, hashRowOk row = true) ∧ (∀ row ∈ HashNames.css, hashRowOk row = true) ∧
    (∀ row ∈ HashNames.svg, hashRowOk row = true) := by
  exact ⟨all_of hash_html_all, all_of hash_css_all, all_of hash_svg_all⟩

/-! ## sanity of the independent tables (they are specification, so this is hygiene, not a property) -/

/-- every identifier of the HTML5 table is ASCII alphanumerics plus an optional final `;` (this is what makes
    "prefixes of the alphanumeric run, or the run plus `;`" the complete candidate set in `matchRef`), sits in
    the bucket of its first character, and maps to Unicode scalar values -/
theorem html5_table_wf : ∀ b ∈ Html5Entities.buckets, ∀ e ∈ b.2, html5NameOk b.1 e = true := by
  intro b hb e he
  exact all_of (all_of html5_table_all b hb) e he

end Verif.Props.C17

import Verif.Model.Css
import Verif.Proofs.Css
/-!
# C04 — CSS minification preserves the cascade input

Property theorems only.  Model: `Verif.Model.Css` (behavioural model of `/repo/css/css.go`, tied by the
correspondence stage `decl`); specification: `Verif.Spec.CssValue` (denotations of CSS values).
-/
namespace Verif.Props.C04
open Verif.Spec.CssValue Verif.Model.Css Verif.Proofs.Css Verif.Gen.C04Tables Verif.Model.CssNum

/-! ## (a) 1–4 values: `margin`, `padding`, `border-width` -/

/-- **four sides**: collapsing 1–4 values never changes the (top, right, bottom, left) expansion — for every
    list of tokens whatsoever (CSS 2.1 §8.3: a missing left is right, a missing bottom is top, a missing right
    is top). -/
theorem four_sides_ok (vs : List Tok) : fourSides (minifySides vs) = fourSides vs := by
  match vs with
  | [] => rfl
  | [_] => rfl
  | [a, b] =>
    simp only [minifySides]
    split
    · rename_i h; have := eq_of_beq h; subst this; rfl
    · rfl
  | [a, b, c] =>
    simp only [minifySides]
    split
    · rename_i h
      simp only [Bool.and_eq_true, beq_iff_eq] at h
      obtain ⟨h1, h2⟩ := h; subst h1; subst h2; rfl
    · split
      · rename_i h; have := eq_of_beq h; subst this; rfl
      · rfl
  | [a, b, c, d] =>
    simp only [minifySides]
    split
    · rename_i h
      simp only [Bool.and_eq_true, beq_iff_eq] at h
      obtain ⟨⟨h1, h2⟩, h3⟩ := h; subst h1; subst h2; subst h3; rfl
    · split
      · rename_i h
        simp only [Bool.and_eq_true, beq_iff_eq] at h
        obtain ⟨h1, h2⟩ := h; subst h1; subst h2; rfl
      · split
        · rename_i h; have := eq_of_beq h; subst this; rfl
        · rfl
  | _ :: _ :: _ :: _ :: _ :: _ => rfl

example : minifySides [tNum ['0'], tNum ['1'], tNum ['0'], tNum ['1']] = [tNum ['0'], tNum ['1']] := by decide

/-- **border-color**: after the per-token rewrite (`currentcolor` → `initial`, colour shortening — `color_ok`), collapsing
    all-equal values to one keeps (top, right, bottom, left) -/
theorem border_color_ok (vs : List Tok) (h : vs.length ≤ 4) :
    fourSides (minifyBorderColor vs) = fourSides (vs.map borderColorTok) := by
  unfold minifyBorderColor
  simp only
  match hv : vs.map borderColorTok with
  | [] => rfl
  | [a] => simp
  | [a, b] =>
    simp only [List.all_cons, List.all_nil, Bool.and_true]
    split
    · rename_i he; have := eq_of_beq he; subst this; rfl
    · rfl
  | [a, b, c] =>
    simp only [List.all_cons, List.all_nil, Bool.and_true]
    split
    · rename_i he
      simp only [Bool.and_eq_true, beq_iff_eq] at he
      obtain ⟨h1, h2⟩ := he; subst h1; subst h2; rfl
    · rfl
  | [a, b, c, d] =>
    simp only [List.all_cons, List.all_nil, Bool.and_true]
    split
    · rename_i he
      simp only [Bool.and_eq_true, beq_iff_eq] at he
      obtain ⟨h1, h2, h3⟩ := he; subst h1; subst h2; subst h3; rfl
    · rfl
  | _ :: _ :: _ :: _ :: _ :: _ =>
    have : (vs.map borderColorTok).length = vs.length := by simp
    rw [hv] at this
    simp at this
    omega

/-! ## (b) zero values lose their unit only where the grammar allows -/

/-- output shape of `minify.Number`/`minify.Decimal` (property C08, clause 5 — a contract here): a result
    that starts with `0` is exactly `0` -/
def MinShape (m : List Char) : Prop := m.head? = some '0' → m = ['0']

/-- two lexemes are the same text, or both are numeric and denote equivalent quantities -/
def LexEquiv (eqv : Num → Num → Bool) (s s' : List Char) : Prop :=
  s = s' ∨ ∃ a b, numOfLexeme s = some a ∧ numOfLexeme s' = some b ∧ eqv a b = true

/-- **zero units** (full strength since 7dece89 + 8662e59): for every property, enclosing function `name` (`[]` = top
    level of the declaration; any spelling), minified number `m`, CSS unit `dim` and aliasing offset `d`, the zero-unit
    cut of `minifyTokens` yields a lexeme that denotes the same quantity in that context: the unit of a zero is dropped
    only for a `<length>` outside the typed math functions, and for an `<angle>` only inside the legacy functions.  The
    regenerated table `optionalZeroDimension` enters through the whole-table lemma `aliased_small2` (adding a time,
    frequency, resolution or flex unit breaks this proof), the function lists through `known_marker`. -/
theorem zero_unit_ok (prop name m dim : List Char) (d : Nat) (hm : MinShape m) (hu : dim ∈ cssUnits) :
    LexEquiv (ctxEquiv name) (zeroCut prop (argFun name) (m ++ dim) (aliasedDim dim d)) (m ++ dim) := by
  unfold zeroCut
  split
  · rename_i hc
    simp only [Bool.and_eq_true, decide_eq_true_eq, beq_iff_eq, Bool.or_eq_true, Bool.not_eq_true'] at hc
    obtain ⟨⟨⟨⟨_, hh⟩, hz⟩, _⟩, hctx⟩ := hc
    have hmne : m ≠ [] := by
      intro e; subst e
      simp at hh
      exact unit_head dim hu hh
    have hm0 : m = ['0'] := by
      apply hm
      cases m with
      | nil => exact absurd rfl hmne
      | cons c r => simpa using hh
    subst hm0
    right
    refine ⟨.number 0, .dimension 0 dim, lex_zero, lex_zero_unit dim hu, ?_⟩
    obtain ⟨hunit, hlen⟩ := aliased_unit2 dim d hu hz
    rcases hctx with ⟨hf, hna⟩ | hf
    · -- no function, or one the code knows nothing about: only lengths
      have hmath := argFun_nil name hf
      have hl := hlen hna
      simp only [ctxEquiv, Num.isZero, hmath]
      simp; left; simpa using hl
    · -- a legacy angle function
      obtain ⟨hleg, hmath⟩ := argFun_marker name hf
      simp only [ctxEquiv, Num.isZero, hmath]
      simp only [Bool.or_eq_true] at hunit
      rcases hunit with hl | ha
      · simp; left; simpa using hl
      · simp; right; exact ⟨by simpa using ha, by simpa using hleg⟩
  · left; rfl

example : MinShape ['0'] ∧ S "px" ∈ cssUnits ∧
    zeroCut (S "transform") (argFun (S "translate")) (S "0px") (aliasedDim (S "px") 0) = ['0'] ∧
    zeroCut (S "transform") (argFun (S "ROTATE")) (S "0deg") (aliasedDim (S "deg") 0) = ['0'] := by
  refine ⟨fun _ => rfl, by decide, by decide +kernel, by decide +kernel⟩

/-- the former counterexamples (known findings K-C04-4, K-C04-5, fixed by 7dece89 and 8662e59): the unit stays -/
example : zeroCut (S "rotate") (argFun []) (S "0deg") (aliasedDim (S "deg") 0) = S "0deg" ∧
    zeroCut (S "width") (argFun (S "hypot")) (S "0px") (aliasedDim (S "px") 0) = S "0px" ∧
    zeroCut (S "offset-path") (argFun (S "ray")) (S "0deg") (aliasedDim (S "deg") 0) = S "0deg" := by
  decide +kernel

/-- no unit is ever dropped from a percentage, a time, a frequency, a resolution or a flex fraction, in `flex`,
    or inside a function `css.ToHash` knows (`calc`, `min`, `max`, `clamp`, `var`, gradients, …) or a typed math
    function -/
theorem zero_unit_kept (prop fn d seen : List Char)
    (h : optionalZeroDimension.contains seen = false ∨ prop = S "flex" ∨ (fn ≠ [] ∧ fn ≠ zeroAngleFn)) :
    zeroCut prop fn d seen = d := by
  unfold zeroCut
  rcases h with h | h | h
  · have h' : ¬ seen ∈ optionalZeroDimension := by simpa using h
    rw [if_neg]; simp; intro _ _ hc; exact absurd hc h'
  · subst h; simp
  · rw [if_neg]; simp [h.1, h.2]

/-! ## (c) colours -/

/-- **colours, full statement**: `minifyColor` never changes the sRGB colour and alpha a token denotes.
    *False*: see `color_counterexample` (K-C04-11). -/
def color_full : Prop := ∀ t : Tok, rgba (minifyColor t) = rgba t

/-- **colours**: hex shortening (`#aabbcc` → `#abc`, `#aabbccdd` → `#abcd`, `#rrggbbff` → `#rrggbb`), hex → name
    and name → hex through the *regenerated* tables `ShortenColorHex` / `ShortenColorName` (whole-table lemmas
    `hex_table_ok`, `name_table_ok` against the independent keyword table) preserve colour and alpha of every token
    — any identifier in any case, any hash lexeme, valid colour or not — except `#rrggbb00` with a non-black colour. -/
theorem color_ok_partial (t : Tok) (hg : ¬ (t.tt = .hash ∧ hexAlpha00 (lowerTail t.data) = true)) :
    rgba (minifyColor t) = rgba t := by
  obtain ⟨tt, data, args⟩ := t
  cases tt <;> try rfl
  · -- ident
    simp only [minifyColor, Tok.tt]
    split
    · rename_i hex hl
      have hm := lookup_mem _ _ _ hl
      have ht := name_table_ok _ hm
      simp only at ht
      obtain ⟨h1, h2⟩ := ht
      have hk : identOf (Tok.mk .ident data args) = lower data := by
        have : identOf (Tok.mk .ident data args) = known (lower data) := by simp [identOf, Tok.tt, Tok.data]
        rw [this] at h2 ⊢
        rcases known_eq (lower data) with e | e
        · exact e
        · exact absurd e h2
      simp only [rgba, tHash, Tok.tt, Tok.data]
      rw [h1, hk, namedColor_lower]
    · rfl
  · -- hash
    simp only [minifyColor, Tok.tt, Tok.data]
    have hg' : hexAlpha00 (lowerTail data) = false := by
      cases h : hexAlpha00 (lowerTail data)
      · rfl
      · exact absurd ⟨rfl, h⟩ hg
    have h1 : hexColor ((lowerTail data).drop 1) = hexColor (data.drop 1) := by
      cases data with
      | nil => rfl
      | cons c r => simp [lowerTail, hexColor_lower]
    have h2 := hexColor_trimAlpha _ hg'
    split
    · rename_i name hl
      have hm := lookup_mem _ _ _ hl
      have ht := hex_table_ok _ hm
      simp only at ht
      simp only [rgba, Tok.tt, Tok.data]
      rw [ht, h2, h1]
    · simp only [rgba, Tok.tt, Tok.data]
      rw [hexColor_shortHex, h2, h1]

example : ¬ ((tHash (S "#AABBCCFF")).tt = .hash ∧ hexAlpha00 (lowerTail (tHash (S "#AABBCCFF")).data) = true) ∧
    minifyColor (tHash (S "#AABBCCFF")) = tHash (S "#abc") ∧
    minifyColor (tIdent (S "Black")) = tHash (S "#000") ∧ minifyColor (tHash (S "#FF0000")) = tIdent (S "red") := by
  decide +kernel

/-- K-C04-11: `#5ea4f400` → `#0000` keeps alpha 0 but turns the colour into black -/
theorem color_counterexample : ¬ color_full := by
  intro h
  exact absurd (h (tHash (S "#5ea4f400"))) (by decide +kernel)

/-! ## (d) fonts -/

/-- **font-weight**: `normal` → `400`, `bold` → `700` (any case) keeps the weight every token denotes (CSS Fonts 3
    §3.2); the keywords are recognised through the regenerated hash-name table. -/
theorem font_weight_ok (vs : List Tok) : (minifyFontWeight vs).map fontWeightVal = vs.map fontWeightVal := by
  cases vs with
  | nil => rfl
  | cons t r =>
    by_cases hn : identOf t = S "normal"
    · obtain ⟨h1, h2⟩ := identOf_eq t _ (by decide) hn
      simp only [minifyFontWeight, hn, beq_self_eq_true, if_true, List.map_cons, fw400]
      rw [fw_kw t _ 400 h1 h2 (by decide)]
    · by_cases hb : identOf t = S "bold"
      · obtain ⟨h1, h2⟩ := identOf_eq t _ (by decide) hb
        have hn' : (identOf t == S "normal") = false := by simpa using hn
        have hne : (S "bold" == S "normal") = false := by decide
        simp only [minifyFontWeight, hb, hne, beq_self_eq_true, if_true, List.map_cons]
        rw [fw_kw t _ 700 h1 h2 (by decide)]
        simp [fw700]
      · have hn' : (identOf t == S "normal") = false := by simpa using hn
        have hb' : (identOf t == S "bold") = false := by simpa using hb
        simp only [minifyFontWeight, hn', hb']
        simp

/-- **font-family, full statement**: lower-casing and unquoting a family string keeps the family it names.
    *False*: `font_family_counterexample` (K-C04-6). -/
def font_family_full : Prop :=
  ∀ (q : Char) (body : List Char) (args : List Tok), (q = '"' ∨ q = '\'') → body ≠ [] → body.contains '\\' = false →
    ∃ t', minifyFontFamilyTok (strTok q body args) = some t' ∧
      familyOf (asWritten t') = familyOf [strTok q body args]

/-- **font-family**: for every string token without backslash, lower-casing (family names match ASCII
    case-insensitively) and unquoting (only when every space-separated word is an identifier) denotes the same
    family, unless the lower-cased content is a generic-family/CSS-wide keyword or contains a CSS-wide keyword
    — the deviation of the code's rule from CSS Fonts 3 §3.1 / CSS Values 3 §3.2. -/
theorem font_family_partial (q : Char) (body : List Char) (args : List Tok)
    (hq : q = '"' ∨ q = '\'') (hne : body ≠ []) (hb : body.contains '\\' = false)
    (hg : familyKeywordString (lower body) = false) :
    ∃ t', minifyFontFamilyTok (strTok q body args) = some t' ∧
      familyOf (asWritten t') = familyOf [strTok q body args] := by
  have hlen : 2 < (q :: body ++ [q]).length := by
    cases body with
    | nil => exact absurd rfl hne
    | cons c r => simp
  have hqb : q ≠ '\\' := by rcases hq with h | h <;> subst h <;> decide
  have hcont : (q :: body ++ [q]).contains '\\' = false := by
    have hm : ¬ '\\' ∈ body := by simpa using hb
    simp [hm, hqb.symm]
  have hlow : lower (q :: body ++ [q]) = q :: lower body ++ [q] := by
    simp [lower, lower_quote q hq]
  have hlb : lower (lower body) = lower body := lower_idem body
  have hlbb : (lower body).contains '\\' = false := by rw [contains_bs_lower]; exact hb
  rw [family_of_string q body args hb]
  have hds : (List.drop 1 (q :: lower body ++ [q])).dropLast = lower body := by simp
  simp only [minifyFontFamilyTok, strTok, Tok.tt, Tok.data, Tok.args, beq_self_eq_true, hlen, decide_true,
    Bool.and_self, if_true, hcont, Bool.false_eq_true, if_false, hlow, hds]
  split
  · -- unquoted
    rename_i hun
    refine ⟨_, rfl, ?_⟩
    have hall : ∀ w ∈ splitOn ' ' (lower body), w ≠ [] ∧ isIdentBytes w = true := by
      intro w hw
      have := (List.all_eq_true.mp hun) w hw
      simp only [Bool.and_eq_true, Bool.not_eq_true', List.isEmpty_eq_false_iff] at this
      exact this
    have hjoin := splitOn_join (lower body)
    have hfix := words_lower_fixed (lower body) hlb
    -- the written bytes do not start with a quote
    have hhead : (lower body).head? ≠ some '"' ∧ (lower body).head? ≠ some '\'' := by
      cases hs : splitOn ' ' (lower body) with
      | nil => exact absurd hs (splitOn_ne_nil _ _)
      | cons w0 rest =>
        have hw0 := hall w0 (by rw [hs]; exact List.mem_cons_self)
        have hq0 := ident_not_quote w0 hw0.2
        rw [hs] at hjoin
        cases w0 with
        | nil => exact absurd rfl hw0.1
        | cons c r =>
          have : (lower body).head? = some c := by
            rw [← hjoin]
            cases rest <;> simp [joinSpace]
          rw [this]
          simpa using hq0
    have has : asWritten (Tok.mk .string (lower body) args) =
        (splitOn ' ' (lower body)).map fun w => Tok.mk .ident w [] := by
      simp only [asWritten, Tok.tt, Tok.data, beq_self_eq_true, Bool.true_and]
      have h1 : ((lower body).head? == some '"') = false := by simpa using hhead.1
      have h2 : ((lower body).head? == some '\'') = false := by simpa using hhead.2
      simp [h1, h2]
    rw [has]
    cases hs : splitOn ' ' (lower body) with
    | nil => exact absurd hs (splitOn_ne_nil _ _)
    | cons w0 rest =>
      rw [hs] at hjoin hfix
      cases rest with
      | nil =>
        -- one word
        simp only [joinSpace] at hjoin
        subst hjoin
        simp only [familyKeywordString, hs, Bool.or_eq_false_iff] at hg
        simp only [List.map_cons, List.map_nil, familyOf, Tok.tt, Tok.data]
        have g1 : ¬ lower body ∈ genericFamilies := by simpa using hg.1
        have g2 : ¬ lower body ∈ cssWideKeywords := by simpa using hg.2
        simp [hlb, g1, g2]
      | cons w1 rest2 =>
        simp only [familyKeywordString, hs] at hg
        simp only [List.map_cons, familyOf]
        have hm : ∀ w ∈ (w0 :: w1 :: rest2), lower w = w := by
          intro w hw
          have := hfix
          have hidx : ∀ (l : List (List Char)), l.map lower = l → ∀ w ∈ l, lower w = w := by
            intro l
            induction l with
            | nil => intro _ w hw; cases hw
            | cons a r ih =>
              intro h w hw
              simp only [List.map_cons, List.cons.injEq] at h
              rcases List.mem_cons.mp hw with e | e
              · subst e; exact h.1
              · exact ih h.2 w e
          exact hidx _ hfix w hw
        have hcw : ∀ w ∈ (w0 :: w1 :: rest2), cssWideKeywords.contains w = false := by
          intro w hw
          have := List.any_eq_false.mp hg w hw
          simpa using this
        have hallid : ((Tok.mk .ident w0 [] :: Tok.mk .ident w1 [] :: rest2.map fun w => Tok.mk .ident w []).all
            fun t => t.tt == .ident && !cssWideKeywords.contains (lower t.data)) = true := by
          simp only [List.all_cons, Tok.tt, Tok.data, beq_self_eq_true, Bool.true_and, Bool.and_eq_true,
            Bool.not_eq_true', List.all_map, Function.comp_def, List.all_eq_true]
          refine ⟨?_, ?_, ?_⟩
          · rw [hm w0 (by simp)]; exact hcw w0 (by simp)
          · rw [hm w1 (by simp)]; exact hcw w1 (by simp)
          · intro w hw
            rw [hm w (by simp [hw])]; exact hcw w (by simp [hw])
        simp only [List.isEmpty_cons, Bool.false_eq_true, if_false, hallid, if_true]
        have hmap : ((Tok.mk .ident w0 [] :: Tok.mk .ident w1 [] :: rest2.map fun w => Tok.mk .ident w []).map
            fun t => lower t.data) = (w0 :: w1 :: rest2).map lower := by
          simp [Tok.data, List.map_map, Function.comp_def]
        simp only [List.map_cons] at hmap
        rw [hmap]
        simp only [List.map_cons] at hfix
        rw [hfix, hjoin]
  · -- still quoted
    refine ⟨_, rfl, ?_⟩
    have has : asWritten (Tok.mk .string (q :: lower body ++ [q]) args) = [strTok q (lower body) args] := by
      simp only [asWritten, Tok.tt, Tok.data, beq_self_eq_true, Bool.true_and, strTok]
      rcases hq with h | h <;> subst h <;> simp
    rw [has, family_of_string q (lower body) args hlbb, hlb]

example : familyKeywordString (lower (S "Times New Roman")) = false ∧
    minifyFontFamilyTok (strTok '"' (S "Times New Roman") []) = some (Tok.mk .string (S "times new roman") []) := by
  decide

/-- K-C04-6: `"serif"` → `serif`: the family *named* serif becomes the generic family keyword -/
theorem font_family_counterexample : ¬ font_family_full := by
  intro h
  obtain ⟨t', h1, h2⟩ := h '"' (S "serif") [] (Or.inl rfl) (by decide) (by decide)
  have hm : minifyFontFamilyTok (strTok '"' (S "serif") []) = some (Tok.mk .string (S "serif") []) := by decide
  rw [hm] at h1
  have := Option.some.inj h1
  subst this
  exact absurd h2 (by decide)

/-! ## (g) layers, flex, line shorthands -/

/-- **background-size**: `x auto` → `x` in every layer keeps (width, height) of every layer (a missing height is
    `auto`, CSS Backgrounds 3 §3.9) — for every token list, any number of layers -/
theorem bg_size_ok (vs : List Tok) :
    (splitCommas (mapSeg bgSizeSeg vs)).map bgSize = (splitCommas vs).map bgSize :=
  layers_congr bgSize bgSizeSeg bgSizeSeg_noComma vs (fun seg _ => bgSize_layer seg)

/-- **background-repeat**: `repeat no-repeat` → `repeat-x`, `no-repeat repeat` → `repeat-y`, `k k` → `k` keep the
    (horizontal, vertical) pair of every layer (CSS Backgrounds 3 §3.4), for every value whose layers are valid
    `<repeat-style>`s -/
theorem bg_repeat_ok (vs : List Tok) (hv : ∀ seg ∈ splitCommas vs, (bgRepeat seg).isSome = true) :
    (splitCommas (mapSeg bgRepeatSeg vs)).map bgRepeat = (splitCommas vs).map bgRepeat :=
  layers_congr bgRepeat bgRepeatSeg bgRepeatSeg_noComma vs (fun seg hs => by
    obtain ⟨d, hd⟩ := Option.isSome_iff_exists.mp (hv seg hs)
    rw [hd]; exact bgRepeat_layer seg d hd)


/-- **flex**: `g s 0` → `g s`, `g 1 0` → `g`, `g 0px` → `g`, `0 1 auto` → `initial`, `1 1 auto` → `auto`, `0 0 auto` →
    `none` keep (flex-grow, flex-shrink, flex-basis) (CSS Flexbox 1 §7.1.1; a zero basis is `zero` whatever its
    unit), for every valid value whose tokens satisfy the zero-shape contract -/
theorem flex_ok (vs : List Tok) (hz : ∀ t ∈ vs, ZeroSound t) (d : Rat × Rat × Basis)
    (hv : flexTriple vs = some d) : flexTriple (minifyFlex vs) = some d := by
  unfold minifyFlex
  split
  · -- two values
    rename_i a b
    split
    · rename_i hc
      simp only [Bool.and_eq_true, beq_iff_eq, bne_iff_ne, ne_eq] at hc
      obtain ⟨⟨ha, hb⟩, hzb⟩ := hc
      have hbz := basisOf_zero b (hz b (by simp)) hzb
      simp only [flexTriple, flexNum_number a ha, flexNum_other b hb, hbz] at hv
      cases hg : numVal a.data with
      | none => rw [hg] at hv; simp at hv
      | some g =>
        rw [hg] at hv
        simp only [Option.map_some] at hv
        rw [flexTriple_single a g ha hg]; exact hv
    · exact hv
  · -- three values
    rename_i a b c
    split
    · rename_i hc
      simp only [Bool.and_eq_true, beq_iff_eq] at hc
      obtain ⟨⟨⟨ha, hb⟩, hla⟩, hlb⟩ := hc
      simp only [flexTriple, flexNum_number a ha, flexNum_number b hb] at hv
      cases hga : numVal a.data with
      | none => rw [hga] at hv; simp at hv
      | some g =>
        cases hgb : numVal b.data with
        | none => rw [hga, hgb] at hv; simp at hv
        | some s =>
          cases hbc : basisOf c with
          | none => rw [hga, hgb, hbc] at hv; simp at hv
          | some bs =>
            rw [hga, hgb, hbc] at hv
            simp only [Option.some.injEq] at hv
            subst hv
            split
            · -- auto
              rename_i hauto
              have hauto' : identOf c = S "auto" := by simpa using hauto
              obtain ⟨hct, hcd⟩ := identOf_eq c _ (by decide) hauto'
              have hbs : bs = Basis.auto := by
                have : basisOf c = some Basis.auto := by
                  have hk : isKw c "auto" = true := by
                    simp only [isKw, kwOf, hct, beq_self_eq_true, if_true, hcd]; rfl
                  simp only [basisOf, hk, if_true]
                rw [this] at hbc; exact (Option.some.inj hbc).symm
              subst hbs
              split
              · rename_i h01
                simp only [Bool.and_eq_true, beq_iff_eq] at h01
                rw [h01.1, numVal0] at hga; rw [h01.2, numVal1] at hgb
                have := Option.some.inj hga; subst this
                have := Option.some.inj hgb; subst this
                rfl
              · split
                · rename_i h11
                  simp only [Bool.and_eq_true, beq_iff_eq] at h11
                  rw [h11.1, numVal1] at hga; rw [h11.2, numVal1] at hgb
                  have := Option.some.inj hga; subst this
                  have := Option.some.inj hgb; subst this
                  rfl
                · split
                  · rename_i h00
                    simp only [Bool.and_eq_true, beq_iff_eq] at h00
                    rw [h00.1, numVal0] at hga; rw [h00.2, numVal0] at hgb
                    have := Option.some.inj hga; subst this
                    have := Option.some.inj hgb; subst this
                    rfl
                  · simp only [flexTriple, flexNum_number a ha, flexNum_number b hb, hga, hgb, hbc]
            · split
              · rename_i hb1
                simp only [Bool.and_eq_true, beq_iff_eq] at hb1
                have hbz := basisOf_zero c (hz c (by simp)) hb1.2
                rw [hbz] at hbc
                have := Option.some.inj hbc; subst this
                rw [hb1.1, numVal1] at hgb
                have := Option.some.inj hgb; subst this
                exact flexTriple_single a g ha hga
              · split
                · rename_i hcz
                  have hbz := basisOf_zero c (hz c (by simp)) hcz
                  rw [hbz] at hbc
                  have := Option.some.inj hbc; subst this
                  simp only [flexTriple, flexNum_number a ha, flexNum_number b hb, hga, hgb]
                · rename_i hcz
                  have : minifyLengthPercentage c = c := by
                    simp only [minifyLengthPercentage]
                    have : isZero c = false := by simpa using hcz
                    simp [this]
                  rw [this]
                  simp only [flexTriple, flexNum_number a ha, flexNum_number b hb, hga, hgb, hbc]
    · exact hv
  · exact hv


/-- **line shorthands**: dropping the initial-value keywords of `border*`, `outline`, `column-rule`,
    `text-decoration`, `text-emphasis` (and writing `none` when nothing is left) keeps every component
    (width, style, colour, line) of the shorthand -/
theorem line_drop_ok (prop : List Char) (kws : List (List Char)) (hp : (prop, kws) ∈ lineDropTable) (vs : List Tok) :
    lineShorthand prop (dropOnly kws vs) = lineShorthand prop vs := by
  simp only [lineShorthand, List.map_cons, List.map_nil]
  rw [slotVal_drop prop kws hp vs .width (by simp), slotVal_drop prop kws hp vs .style (by simp),
    slotVal_drop prop kws hp vs .color (by simp), slotVal_drop prop kws hp vs .line (by simp)]

/-- the code's loop = keyword dropping followed by colour shortening of what is left -/
theorem dropKeywords_eq (kws : List (List Char)) (vs : List Tok) :
    dropKeywords kws vs = (dropOnly kws vs).map minifyColor := by
  unfold dropKeywords dropOnly
  generalize (vs.filter fun t => !kws.contains (identOf t)) = r
  cases r with
  | nil => simp [minifyColor_none]
  | cons a r => simp


example : (S "border", ["none", "currentcolor", "medium"].map S) ∈ lineDropTable ∧
    dropOnly (["none", "currentcolor", "medium"].map S) [tIdent (S "medium"), tIdent (S "NONE"), tIdent (S "red")] = [tIdent (S "red")] := by
  decide

/-! ## (e) unicode-range -/

/-- **unicode-range, sort and merge**: for every list of ranges (any order, overlapping, nested, adjacent, even
    ill-formed) and every code point, sorting by start and merging contained/overlapping/adjacent ranges keeps
    membership — the union of the ranges is unchanged (this is the loop fixed by 6e2925f; the version that advanced
    after a removal printed `initial` inside a list). -/
theorem unicode_range_merge_ok (rs : List (Nat × Nat)) (c : Nat) :
    codePointMem c (mergeRanges (sortRanges rs)) = codePointMem c rs := by
  rw [← cpm_sort c rs]
  have hs := sorted_sort rs
  cases h : sortRanges rs with
  | nil => rfl
  | cons a r =>
    rw [h] at hs
    simp only [mergeRanges]
    rw [cpm_mergeInto c a r hs.1 hs.2, cpm_cons]

example : mergeRanges (sortRanges [(0x12, 0x42), (0, 0x10FFFF), (6, 0x1D)]) = [(0, 0x10FFFF)] ∧
    mergeRanges (sortRanges [(0x17, 0x4B), (6, 0x1D), (0x12, 0x42)]) = [(6, 0x4B)] := by decide

/-! ## (h) writer and passthrough -/

/-- **writer_sep**: `writeDeclaration` emits the lexemes of the values in order, unchanged; between two
    lexemes it writes exactly one space, or nothing where one side is `,`, `/` or ends in `)` — tokens that can
    neither absorb nor be absorbed by a neighbour (CSS Syntax 3 §4.3.1) — and never `/` directly before `*`
    (since e7baddf; before, `c / *d` was written `c/*d`, a comment opener).  No guard: all token lists of the
    lexer's shapes. -/
theorem writer_sep (vs : List Tok) (important : Bool) (h : ∀ t ∈ vs, TokShape t ∧ EscShape t) :
    ∃ out, writeDeclaration vs important = out ++ (if important then S "!important" else []) ∧
      Joined (vs.map writeArg) out := by
  refine ⟨writeVals none true vs, rfl, ?_⟩
  cases vs with
  | nil => exact Joined.nil
  | cons t r =>
    have := writer_joined t r (h t List.mem_cons_self) (fun x hx => h x (List.mem_cons_of_mem _ hx))
    simpa [writeVals] using this

/-- **passthrough (properties)**: a property without a case in `minifyProperty` keeps its value tokens -/
theorem passthrough_property (o : Opts) (prop : List Char) (vs : List Tok)
    (h : rewrittenProps.contains prop = false) : minifyProperty o prop vs = some vs := by
  unfold minifyProperty
  by_cases hl : 100 < vs.length
  · rw [if_pos hl]
  · rw [if_neg hl, if_pos (by rw [h]; rfl)]

/-- **passthrough (tokens)**: `minifyTokens` touches only numbers, percentages, dimensions, strings, `url()` and
    functions; every other token (identifier, hash, delimiter, comma, unicode-range, …) is kept as it is -/
theorem passthrough_token (o : Opts) (prop fn : List Char) (lvl : Nat) (t : Tok)
    (h : t.tt ≠ .number ∧ t.tt ≠ .percentage ∧ t.tt ≠ .dimension ∧ t.tt ≠ .string ∧ t.tt ≠ .url ∧ t.tt ≠ .function) :
    minifyTok o prop fn lvl t = some t := by
  cases lvl with
  | zero => simp [minifyTok]
  | succ n =>
    rw [minifyTok]
    split <;> first | rfl | (rename_i heq; simp [heq] at h)

/-- **passthrough (complex values)**: a value that is not a flat list (blocks, `a=b`, `progid:` …) is written as
    the parser delivered it: lexemes in order, white space tokens kept -/
theorem passthrough_raw (o : Opts) (prop : List Char) (comps : List Tok) (hne : comps ≠ [])
    (hflat : parseDeclaration (stripImportant comps).1 = none)
    (hf : ¬ (prop = S "filter" ∧ (stripImportant comps).1.length = 11)) :
    minifyDeclaration o prop comps =
      some (writeRaw none (stripImportant comps).1 ++ (if (stripImportant comps).2 then S "!important" else [])) := by
  unfold minifyDeclaration
  have : comps.isEmpty = false := by simpa using hne
  simp only [this, Bool.false_eq_true, if_false, hflat]
  split
  · rename_i h
    simp only [Bool.and_eq_true, beq_iff_eq] at h
    exact absurd h hf
  · rfl

/-- where the raw writer adds a byte: the space that keeps `/` and `*` apart, and (a933f35) a second space where a
white-space component follows a token that ends in a hexadecimal escape -/
def rawGap (p t : Tok) : Bool :=
  opensComment p.data t.data || (t.tt == .whitespace && escTT p.tt && endsInHexEscape p.data)

/-- the raw writer is plain concatenation except at the gaps of `rawGap` -/
theorem writeRaw_plain (comps : List Tok) (prev : Option Tok)
    (h : ∀ p ∈ prev, ∀ t ∈ comps.head?, rawGap p t = false)
    (h2 : ∀ a b, [a, b] <:+: comps → rawGap a b = false) :
    writeRaw prev comps = (comps.map (·.data)).flatten := by
  induction comps generalizing prev with
  | nil => rfl
  | cons t r ih =>
    have hstep : writeRaw prev (t :: r) = t.data ++ writeRaw (some t) r := by
      cases prev with
      | none => simp [writeRaw]
      | some p =>
        have := h p (by simp) t (by simp)
        simp only [rawGap, Bool.or_eq_false_iff] at this
        simp [writeRaw, this.1, this.2]
    rw [hstep]
    simp only [List.map_cons, List.flatten_cons]
    congr 1
    apply ih
    · intro p hp x hx
      simp only [Option.mem_def, Option.some.injEq] at hp
      subst hp
      cases r with
      | nil => simp at hx
      | cons y r' =>
        simp only [List.head?_cons, Option.mem_def, Option.some.injEq] at hx
        subst hx
        exact h2 t y ⟨[], r', by simp⟩
    · intro a b hab
      apply h2 a b
      obtain ⟨l1, l2, e⟩ := hab
      exact ⟨t :: l1, l2, by simp [← e]⟩

example : (∀ t ∈ [tNum ['1'], Tok.mk .delim ['/'] [], Tok.mk .delim ['*'] []], TokShape t ∧ EscShape t) ∧
    writeDeclaration [tNum ['1'], Tok.mk .delim ['/'] [], Tok.mk .delim ['*'] []] false = S "1/ *" ∧
    writeDeclaration [tIdent (S "a"), Tok.mk .comma [','] [], tNum ['1'], tNum ['2']] true = S "a,1 2!important" := by
  refine ⟨?_, by decide, by decide⟩
  intro t ht
  simp only [List.mem_cons, List.mem_nil_iff, or_false] at ht
  rcases ht with h | h | h <;> subst h <;> refine ⟨by simp [TokShape, tNum, Tok.tt, Tok.data], fun he => absurd he (by decide)⟩

/-- a933f35: behind an identifier that ends in a hexadecimal escape the writer puts two spaces (the first belongs to
the escape); `Joined.space2` -/
example : writeDeclaration [tIdent (S "a\\31"), tIdent (S "b")] false = S "a\\31  b" ∧
    writeDeclaration [tIdent (S "a"), tIdent (S "b")] false = S "a b" := by decide

/-- **function arguments are kept apart** (a933f35): where `gluesArgs` says that the lexeme of an argument written
directly behind the previous one would make one token of the two — an identifier, hash, number, dimension or
at-keyword followed by a name character, a digit or an escape; an identifier followed by `(`; a number followed by
`%` or `.5`; a white-space token behind a hexadecimal escape — `writeFunction` writes a space between them.
(`rgb(255,0,0)10%` had become `red10%`, `1.0.5` `1.5`, `a1.0` `a10`.)  That the written arguments re-tokenise
to the same tokens is C09's `css_writer_retokenises`. -/
theorem function_args_apart (ptt : TT) (pdata : List Char) (t : Tok) (r : List Tok)
    (hp : ptt ≠ .function) (hg : gluesArgs ptt pdata t.tt t.data = true) :
    writeFunction (some (ptt, pdata)) (t :: r) = ' ' :: (writeArg t ++ writeFunction (some (t.tt, t.data)) r) := by
  obtain ⟨tt, data, args⟩ := t
  have h1 : (ptt != TT.function) = true := by simpa using hp
  simp only [Tok.tt, Tok.data] at hg
  simp [writeFunction, h1, hg, Tok.tt, Tok.data]

/-- the three inputs of the commit message, as the minifier's tokens reach the writer -/
example : writeArg (.mk .function (S "f(") [tIdent (S "red"), Tok.mk .percentage (S "10%") []]) = S "f(red 10%)" ∧
    writeArg (.mk .function (S "f(") [tNum (S "1"), tNum (S ".5")]) = S "f(1 .5)" ∧
    writeArg (.mk .function (S "f(") [tIdent (S "a1"), tNum (S "0")]) = S "f(a1 0)" ∧
    writeArg (.mk .function (S "f(") [tNum (S "1"), Tok.mk .delim ['+'] [], tNum (S "2")]) = S "f(1+2)" := by
  decide

/-! ## (f) background-position -/

/-- **background-position, structured layer rewrite**: see `bg_position_ok` -/
theorem bg_position_layer_ok (seg : List Tok) (p : Off × Off)
    (hs : ∀ t ∈ seg, pkwOf t = none → OffSound t) (hv : position seg = some p) :
    position (bgPosClean seg).1 = some p := by
  match seg with
  | [] => simp [position] at hv
  | [a] =>
    simp only [bgPosClean]
    cases hk : pkwOf a with
    | none =>
      have sa := hs a (by simp) hk
      simp only [kwValue, hk, Option.toList_some]
      rw [position_val1 _ (pkwOf_pctZero a hk), offOf_pctZero a sa.zero, ← position_val1 a hk]
      exact hv
    | some k =>
      rw [← hv]
      cases k <;> simp only [kwValue, hk, Option.toList_some, position] <;> decide +kernel
  | [a0, b0] =>
    cases ha : pkwOf a0 with
    | none =>
      have sa := hs a0 (by simp) ha
      cases hb : pkwOf b0 with
      | none =>
        have sb := hs b0 (by simp) hb
        simp only [position, ha, hb] at hv
        have := second_lp a0 b0 ha hb sa.zero sb.zero
        simp [bgPosClean, ha, hb, kwValue] at this ⊢
        rw [← hv]; exact this
      | some kb =>
        simp only [position, ha, hb] at hv
        have c0 := offOf_consts
        cases kb <;> simp [vert, both_none_right] at hv
        · -- top
          simp [bgPosClean, ha, hb, kwValue]
          rw [position_vals2 _ _ (pkwOf_pctZero a0 ha) c0.2.2.2.2.1, offOf_pctZero a0 sa.zero, c0.1, ← hv]; rfl
        · -- bottom
          simp [bgPosClean, ha, hb, kwValue]
          rw [position_vals2 _ _ (pkwOf_pctZero a0 ha) c0.2.2.2.2.2.1, offOf_pctZero a0 sa.zero, c0.2.1, ← hv]; rfl
        · -- center
          simp [bgPosClean, ha, hb, kwValue]
          rw [position_val1 _ (pkwOf_pctZero a0 ha), offOf_pctZero a0 sa.zero, ← hv]
          cases offOf a0 <;> rfl
    | some ka =>
      cases hb : pkwOf b0 with
      | none =>
        have sb := hs b0 (by simp) hb
        have c0 := offOf_consts
        simp only [position, ha, hb] at hv
        cases ka <;> simp [horiz, both_none_left] at hv
        · -- left
          have := second_lp tZero b0 c0.2.2.2.2.1 hb (fun _ => c0.1) sb.zero
          simp [bgPosClean, ha, hb, kwValue] at this ⊢
          rw [show pctZero tZero = tZero from rfl] at this
          rw [this, c0.1, ← hv]; rfl
        · -- right
          have := second_lp t100 b0 c0.2.2.2.2.2.1 hb (fun h => absurd h (by decide)) sb.zero
          simp [bgPosClean, ha, hb, kwValue] at this ⊢
          rw [show pctZero t100 = t100 from rfl] at this
          rw [this, c0.2.1, ← hv]; rfl
        · -- center
          have := second_lp t50 b0 c0.2.2.2.2.2.2.1 hb (fun h => absurd h (by decide)) sb.zero
          simp [bgPosClean, ha, hb, kwValue] at this ⊢
          rw [show pctZero t50 = t50 from rfl] at this
          rw [this, c0.2.2.1, ← hv]; rfl
      | some kb =>
        simp only [position, ha, hb] at hv
        cases ka <;> cases kb <;>
          first
          | (exfalso; revert hv; simp [groups2, axisH, axisV, horiz, vert, both, orElse']; done)
          | (rw [← hv]; simp [bgPosClean, ha, hb, kwValue]; decide +kernel)
  | [a, b, c] =>
    cases ha : pkwOf a with
    | none => simp [position, ha] at hv
    | some ka =>
      cases hb : pkwOf b with
      | none =>
        cases hc : pkwOf c with
        | none => simp [position, ha, hb, hc] at hv
        | some kc =>
          simp only [position, ha, hb, hc] at hv
          have sb := hs b (by simp) hb
          have := assemble_ok ka kc a c (some b) none p ha hc (by intro t ht; cases ht; exact ⟨hb, sb⟩) (by simp) hv
          simpa [bgPosClean, ha, hb, hc] using this
      | some kb =>
        cases hc : pkwOf c with
        | some kc => simp [position, ha, hb, hc] at hv
        | none =>
          simp only [position, ha, hb, hc] at hv
          have sc := hs c (by simp) hc
          have := assemble_ok ka kb a b none (some c) p ha hb (by simp) (by intro t ht; cases ht; exact ⟨hc, sc⟩) hv
          simpa [bgPosClean, ha, hb, hc] using this
  | [a, b, c, d] =>
    cases ha : pkwOf a with
    | none => simp [position, ha] at hv
    | some ka =>
      cases hb : pkwOf b with
      | some kb => simp [position, ha, hb] at hv
      | none =>
        cases hc : pkwOf c with
        | none => simp [position, ha, hb, hc] at hv
        | some kc =>
          cases hd : pkwOf d with
          | some kd => simp [position, ha, hb, hc, hd] at hv
          | none =>
            simp only [position, ha, hb, hc, hd] at hv
            have sb := hs b (by simp) hb
            have sd := hs d (by simp) hd
            have := assemble_ok ka kc a c (some b) (some d) p ha hc (by intro t ht; cases ht; exact ⟨hb, sb⟩)
              (by intro t ht; cases ht; exact ⟨hd, sd⟩) hv
            simpa [bgPosClean, ha, hc] using this
  | _ :: _ :: _ :: _ :: _ :: _ => simp [position] at hv

/-- **background-position** (one layer): for every layer that is a valid `<bg-position>` (CSS Backgrounds 3 §3.6:
    one to four values, keywords in either order, offsets of any kind), whose offset tokens satisfy the lexer /
    number contracts `OffSound`, the rewritten layer denotes the same pair of offsets from the top-left corner —
    keyword → percentage conversion, zero-offset removal, `right`/`bottom` whole-percentage flipping
    (`right 10% bottom 20%` ↦ (90%, 80%)), `center`/`50%` dropping, 3- and 4-value forms included. -/
theorem bg_position_ok (seg : List Tok) (p : Off × Off) (hnc : ∀ t ∈ seg, isComma t = false)
    (hs : ∀ t ∈ seg, pkwOf t = none → OffSound t) (hv : position seg = some p) :
    position (minifyBgPosition seg) = some p := by
  have hne : seg.isEmpty = false := by
    cases seg with
    | nil => simp [position] at hv
    | cons _ _ => rfl
  unfold minifyBgPosition
  rw [bgPosLayers_noComma [] seg hnc]
  simp only [List.reverse_nil, List.nil_append, hne, Bool.false_eq_true, if_false]
  have : bgPosLayer seg = bgPosClean seg := by
    unfold bgPosLayer
    simp [hv]
  rw [this]
  exact bg_position_layer_ok seg p hs hv

/-- the regression input of fix a2ebf7c: both offsets flipped, no aliasing -/
example : minifyBgPosition [tIdent (S "right"), tPct (S "10%"), tIdent (S "bottom"), tPct (S "20%")] =
      [tPct (S "90%"), tPct (S "80%")] ∧
    position [tIdent (S "right"), tPct (S "10%"), tIdent (S "bottom"), tPct (S "20%")] = some (pct 90, pct 80) ∧
    position [tPct (S "90%"), tPct (S "80%")] = some (pct 90, pct 80) := by
  decide +kernel

/-! ## numbers under KeepCSS2 -/

/-- **KeepCSS2 number syntax**: with `KeepCSS2` a number lexeme without exponent is minified without
    introducing one (CSS 2.1 has no exponent notation); lexemes that already have one go through `Number`
    (fix ddd07ad + 30f2f83) -/
theorem keepcss2_no_exponent (s : List Char) (h : s.any isExpChar = false) :
    (num ⟨true⟩ s).any isExpChar = false := by
  simp only [num, h, Bool.not_false, Bool.and_self, if_true]
  rw [List.any_eq_false] at h ⊢
  intro c hc
  rcases decimal0_chars s c hc with e | e | e | e
  · exact h c e
  · subst e; decide
  · subst e; decide
  · subst e; decide

example : num ⟨true⟩ (S "00.50") = S ".5" ∧ num ⟨true⟩ (S "100000") = S "100000" ∧ num ⟨false⟩ (S "100000") = S "1e5" := by decide

end Verif.Props.C04

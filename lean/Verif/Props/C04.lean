import Verif.Model.Css
/-!
# C04 — CSS minification preserves the cascade input

Property theorems only.  Model: `Verif.Model.Css` (behavioural model of `/repo/css/css.go`, tied by the
correspondence stage `decl`); specification: `Verif.Spec.CssValue` (denotations of CSS values).
-/
namespace Verif.Props.C04
open Verif.Spec.CssValue Verif.Model.Css

/-! ## (a) 1–4 values: `margin`, `padding`, `border-width` -/

/-- **four sides**: collapsing 1–4 values never changes the (top, right, bottom, left) expansion — for every
    list of tokens whatsoever (CSS 2.1 §8.3: a missing left is right, a missing bottom is top, a missing right
    is top). -/
theorem four_sides_ok (vs : List Tok) : fourSides (minifySides vs) = fourSides vs := by
  match vs with
  | [] => rfl
  | [_] => rfl
  | [a, b] =>
    simp only [minifySides]
    split
    · rename_i h; have := eq_of_beq h; subst this; rfl
    · rfl
  | [a, b, c] =>
    simp only [minifySides]
    split
    · rename_i h
      simp only [Bool.and_eq_true, beq_iff_eq] at h
      obtain ⟨h1, h2⟩ := h; subst h1; subst h2; rfl
    · split
      · rename_i h; have := eq_of_beq h; subst this; rfl
      · rfl
  | [a, b, c, d] =>
    simp only [minifySides]
    split
    · rename_i h
      simp only [Bool.and_eq_true, beq_iff_eq] at h
      obtain ⟨⟨h1, h2⟩, h3⟩ := h; subst h1; subst h2; subst h3; rfl
    · split
      · rename_i h
        simp only [Bool.and_eq_true, beq_iff_eq] at h
        obtain ⟨h1, h2⟩ := h; subst h1; subst h2; rfl
      · split
        · rename_i h; have := eq_of_beq h; subst this; rfl
        · rfl
  | _ :: _ :: _ :: _ :: _ :: _ => rfl

example : minifySides [tNum ['0'], tNum ['1'], tNum ['0'], tNum ['1']] = [tNum ['0'], tNum ['1']] := by decide

end Verif.Props.C04

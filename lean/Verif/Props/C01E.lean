import Verif.Proofs.JsStringMain
/-!
# C01E — string literal rewriting preserves the string value (growth item E of C01)

Property theorems only.  Model: `Verif.Model.JsString` (behavioural model of `minifyString` and
`replaceEscapes` incl. `escapeHTMLEnds` in js/util.go as of /repo a80add2); specification: `Verif.Spec.JsStringSem`
(`decodeLit strict s`: the ECMAScript string value of a `'…'`, `"…"` or substitution-free template literal
as UTF-16 code units; `wfLit`: the literal is valid in the given mode).  Bytes are `Nat`s.
`strict` is universally quantified everywhere: the statements hold for sloppy and for strict code.
-/
namespace Verif.Props.C01E
open Verif.JsStrBase Verif.Spec.JsStringSem Verif.Model.JsString
open Verif.Proofs.JsString (NoNul IsQ)

/-! ## the string value -/

/-- FULL STATEMENT (string literals): `minifyString` does not change the value of a valid literal,
    whatever quote it picks, in sloppy and in strict code -/
def string_value_preserved : Prop :=
  ∀ (strict allowTemplate : Bool) (s : List Nat), (s.head? = some 39 ∨ s.head? = some 34) → wfLit strict s →
    decodeLit strict (minifyString allowTemplate s) = decodeLit strict s

/-- FULL STATEMENT (templates without substitutions): `replaceEscapes(…, '`', 1, 1)` does not change the value -/
def template_value_preserved : Prop :=
  ∀ (strict : Bool) (s : List Nat), s.head? = some 96 → wfLit strict s →
    decodeLit strict (templateLit s) = decodeLit strict s

/-- proved for every literal in which `\0` only occurs at the end of the body or in front of a raw byte that is
    neither a digit nor a backslash (`NoNul`: decidable, closed under suffixes) — that is, everything except `\00`,
    `\000`, `\0d…` and a `\0` directly followed by a digit or by another escape sequence.  Covered: every quote choice
    incl. the switch to a template and its gate, quote and `${` escaping, `\xHH`, `\uHHHH` and `\u{…}` (decoded to UTF-8,
    re-escaped or kept), the legacy octal escapes `\1`…`\377` (decoded, re-escaped, rewritten to `\xHH`, or kept as
    `\74`), `\8` `\9`, `\0`, line continuations, `\n` `\r` `\t` `\b` `\f` `\v`, identity escapes, raw UTF-8, raw CR / LF / CRLF
    in templates, the `</script` / `<!--` guards (in the loop and the pass `escapeHTMLEnds` behind it).  The seam after `\0` (the `afterNul` logic of the code) is covered by the
    exhaustive correspondence + V8 oracle of the harness, not by this theorem. -/
theorem string_value_preserved_partial (strict allowTemplate : Bool) (s : List Nat)
    (hq : s.head? = some 39 ∨ s.head? = some 34) (hw : wfLit strict s)
    (hg : NoNul ((s.drop 1).dropLast) = true) :
    decodeLit strict (minifyString allowTemplate s) = decodeLit strict s := by
  unfold wfLit at hw
  cases hv : decodeLit strict s with
  | none => rw [hv] at hw; simp at hw
  | some v => exact Verif.Proofs.JsString.minifyString_value hq hv hg

theorem template_value_preserved_partial (strict : Bool) (s : List Nat)
    (hq : s.head? = some 96) (hw : wfLit strict s) (hg : NoNul ((s.drop 1).dropLast) = true) :
    decodeLit strict (templateLit s) = decodeLit strict s := by
  unfold wfLit at hw
  cases hv : decodeLit strict s with
  | none => rw [hv] at hw; simp at hw
  | some v => exact Verif.Proofs.JsString.templateLit_value hq hv hg

/-- the hypotheses are satisfiable by literals that exercise the rewriting: `'a\x41\'"\n</script>\<LF>é$\{'` -/
example : wfLit false ("'a\\x41\\'\"\\n</script>\\\n".toList.map Char.toNat ++ [195, 169] ++ "$\\{'".toList.map Char.toNat) ∧
    NoNul ((("'a\\x41\\'\"\\n</script>\\\n".toList.map Char.toNat ++ [195, 169] ++ "$\\{'".toList.map Char.toNat).drop 1).dropLast) = true := by
  decide

/-! ## well-formedness of the output -/

/-- the output is a valid literal of the same mode (quotes balanced, no raw newline in `'…'`/`"…"`, no unescaped
    `${` in a template, every escape sequence legal in that mode) — corollary of value preservation, same fragment -/
theorem string_wellformed_partial (strict allowTemplate : Bool) (s : List Nat)
    (hq : s.head? = some 39 ∨ s.head? = some 34) (hw : wfLit strict s)
    (hg : NoNul ((s.drop 1).dropLast) = true) : wfLit strict (minifyString allowTemplate s) := by
  unfold wfLit
  rw [string_value_preserved_partial strict allowTemplate s hq hw hg]
  exact hw

def string_wellformed : Prop :=
  ∀ (strict allowTemplate : Bool) (s : List Nat), (s.head? = some 39 ∨ s.head? = some 34) → wfLit strict s →
    wfLit strict (minifyString allowTemplate s)

/-- the literal is delimited by one of the three quote characters, the same at both ends (all inputs) -/
theorem minifyString_quoted (allowTemplate : Bool) (s : List Nat) :
    ∃ q b, IsQ q ∧ minifyString allowTemplate s = q :: (b ++ [q]) := by
  unfold minifyString
  split
  · exact ⟨34, [], Or.inr (Or.inl rfl), rfl⟩
  · exact ⟨_, _, Verif.Proofs.JsString.chooseQuote_isQ _ _, rfl⟩

/-- a template literal is only produced where the call site allows it (ES2015+ expression position) and the
    counting loop saw no escape sequence that stays octal-like -/
theorem template_only_if_allowed (allowTemplate : Bool) (s : List Nat)
    (h : (minifyString allowTemplate s).head? = some 96) :
    allowTemplate = true ∧ gated ((s.drop 1).dropLast) = false := by
  unfold minifyString at h
  split at h
  · simp at h
  · have h' : chooseQuote allowTemplate ((s.drop 1).dropLast) = 96 := by simpa using h
    by_cases hc : (allowTemplate && !gated ((s.drop 1).dropLast)) = true ∧
        cnt 3 ((s.drop 1).dropLast) + cnt 5 ((s.drop 1).dropLast) <
          (if cnt 1 ((s.drop 1).dropLast) < cnt 2 ((s.drop 1).dropLast) then cnt 1 ((s.drop 1).dropLast)
            else cnt 2 ((s.drop 1).dropLast)) + cnt 4 ((s.drop 1).dropLast)
    · simpa using hc.1
    · exfalso
      simp only [chooseQuote] at h'
      rw [if_neg hc] at h'
      split at h' <;> (try split at h') <;> omega

/-! ## regression: the former failing families (fixed in /repo by 91e473c, a17ee5e, 465573c, c30b0df, 6332c01) -/

private def lit (s : String) : List Nat := s.toList.map Char.toNat

/-- `'\u005Cn'` keeps the value backslash,n -/
example : decodeLit false (minifyString true (lit "'\\u005Cn'")) = some [92, 110] := by decide
/-- `'\x24{a}\n\n'` becomes a template with the `$` escaped -/
example : minifyString true (lit "'\\x24{a}\\n\\n'") = lit "`\\${a}\n\n`" := by decide
example : decodeLit false (minifyString true (lit "'$\\x7ba}\\n\\n'")) = decodeLit false (lit "'$\\x7ba}\\n\\n'") := by decide
/-- `'\0001'` stays NUL,1 -/
example : decodeLit false (minifyString true (lit "'\\0001'")) = some [0, 49] := by decide
example : decodeLit false (minifyString true (lit "'\\0\\61'")) = some [0, 49] := by decide
example : decodeLit true (minifyString true (lit "'\\0\\x38'")) = some [0, 56] := by decide
/-- `'\377'` stays U+00FF -/
example : decodeLit false (minifyString false (lit "'\\377'")) = some [255] := by decide
/-- a template with CR followed by `\n` keeps two line breaks -/
example : decodeLit false (templateLit [96, 13, 92, 110, 96]) = some [10, 10] := by decide
/-- `'\08\n\n'` is not turned into a template -/
example : (minifyString true (lit "'\\08\\n\\n'")).head? = some 34 := by decide
/-- after `\0` a kept line continuation `\<CR>` cannot merge with a decoded LF -/
example : decodeLit false (templateLit [96, 92, 48, 92, 13, 92, 110, 96]) = some [0, 10] := by decide

/-! ## length, `</script`, `<!--` -/

/-- FULL STATEMENT: the output is never longer than the input -/
def not_longer : Prop := ∀ (allowTemplate : Bool) (s : List Nat), (minifyString allowTemplate s).length ≤ s.length

/-- it is false: the `</script` / `<!--` guards insert a backslash -/
theorem not_longer_counterexample : ¬ not_longer := fun h =>
  absurd (h false (lit "'</script>'")) (by decide)

/-- FULL STATEMENT (all inputs, no hypothesis): the output never contains `</script` in any letter case nor `<!--` —
    however the text was formed (written out, decoded from `\x2f` / `\57` / `\u002f`, left over after a removed line
    continuation).  `escapeHTMLEnds` (a80add2) runs over the rewritten body. -/
theorem no_html_end (allowTemplate : Bool) (s : List Nat) : hasHtmlEnd (minifyString allowTemplate s) = false := by
  unfold minifyString
  split
  · decide
  · have hq := Verif.Proofs.JsString.chooseQuote_isQ allowTemplate ((s.drop 1).dropLast)
    rw [List.cons_append, Verif.Proofs.JsString.hasHtmlEnd_quote hq]
    exact Verif.Proofs.JsString.escEnds_clean hq _

/-- … the same for a template literal without substitutions -/
theorem no_html_end_template (s : List Nat) (h : 2 ≤ s.length) : hasHtmlEnd (templateLit s) = false := by
  unfold templateLit
  rw [if_neg (by omega)]
  have hq : IsQ 96 := Or.inr (Or.inr rfl)
  rw [List.cons_append, Verif.Proofs.JsString.hasHtmlEnd_quote hq]
  exact Verif.Proofs.JsString.escEnds_clean hq _

/-- FULL STATEMENT: the output never contains `</script>` (the former counterexample `'<\x2fscript>'`, K-C01E-1, is
    repaired) -/
theorem no_script_end (allowTemplate : Bool) (s : List Nat) : hasScriptEnd (minifyString allowTemplate s) = false := by
  cases h : hasScriptEnd (minifyString allowTemplate s) with
  | false => rfl
  | true =>
    have := Verif.Proofs.JsString.hasScriptEnd_le _ h
    rw [no_html_end] at this
    cases this

example : minifyString false (lit "'<\\x2fscript>'") = lit "\"<\\/script>\"" := by decide
example : minifyString false (lit "'a</script>b'") = lit "\"a<\\/script>b\"" := by decide
example : minifyString false (lit "'<\\x21--'") = lit "\"<\\!--\"" := by decide
example : hasHtmlEnd (minifyString true (lit "'</script></SCRIPT><!--'")) = false := by decide
/-- the value is still that of the input: `\/` and `\!` are identity escapes -/
example : decodeLit false (minifyString false (lit "'<\\x2fscript>'")) = decodeLit false (lit "'</script>'") := by decide

end Verif.Props.C01E

import Verif.Model.JsStmt
import Verif.Spec.JsGrammar
import Verif.Proofs.JsMinSound
import Verif.Proofs.JsMinMono
import Verif.Proofs.JsStmtSound
import Verif.Proofs.JsPrintGwf
import Verif.Proofs.JsRwGwf
set_option linter.unusedSimpArgs false
/-!
# C01 — JS minification preserves program behaviour (partial: the fragment of `Spec.JsSyntax`)

Property theorems only.  Part A (printer and parentheses): facts about the regenerated precedence tables.
-/
namespace Verif.Props.C01
open Verif.Spec.JsSyntax Verif.Spec.JsGrammar Verif.Spec.JsSem Verif.Model.JsAst Verif.Model.JsOpt Verif.Model.JsPrint
open Verif.Proofs.JsMinSound Verif.Model.JsStmt Verif.Proofs.JsStmtSound

/-! ## A.1 the regenerated tables against the grammar of ECMA-262 -/

/-- the numeric order of `js.OpPrec` in the dependency is the order of the grammar's nonterminals -/
theorem prec_order :
    [opExpr, opAssign, opCoalesce, opOr, opAnd, opBitOr, opBitXor, opBitAnd, opEquals, opCompare, opShift, opAdd,
     opMul, opExp, opUnary, opUpdate, opLHS, opCall, opNew, opMember, opPrimary]
    = [lvExpr, lvAssign, lvShort, lvOr, lvAnd, lvBitOr, lvBitXor, lvBitAnd, lvEquality, lvRelational, lvShift,
       lvAdditive, lvMultiplicative, lvExponent, lvUnary, lvUpdate, lvLHS, lvCall, lvNew, lvMember, lvPrimary] := by
  decide

/-- what the printer needs of one row of the three binary maps: the precedence of the node is the level of its
    production; the left operand is printed at (at least) the nonterminal the production demands; the right operand
    too, except that `&&` and `||` print their right operand at their own level (re-association, harmless) -/
def rowOk (o : BOp) : Bool :=
  o.prec == opLevel o && opLeft o ≤ o.left &&
    (opRight o ≤ o.right || ((o == .land || o == .lor) && o.right == opLevel o))

/-- every binary operator of the language has a correct row in `binaryLeftPrecMap`, `binaryRightPrecMap`,
    `binaryOpPrecMap` (a changed or missing row breaks this `decide`: a missing key is the Go zero value `OpExpr`) -/
theorem binary_tables (o : BOp) : rowOk o = true := by
  have h : ∀ o ∈ BOp.all, rowOk o = true := by decide
  exact h o (BOp.mem_all o)

/-- the one context that may not accept a `??` operand although it is printed above `OpCoalesce`: the left operand of
    `|` is printed strictly above `OpBitOr`, so the `??`-exception of group dropping (`p = OpBitOr`) never applies to it -/
theorem bitor_left_above : BOp.bor.left > opBitOr ∧ BOp.nullish.left = opBitOr ∧ BOp.nullish.right = opBitOr := by
  decide

/-- the two unary maps: prefix operators print their operand as `UnaryExpression`, postfix ones as
    `LeftHandSideExpression`; the node is an `UpdateExpression` for `++`/`--` and a `UnaryExpression` otherwise -/
theorem unary_tables (o : UOp) :
    o.prec = (if isUpdateOp o then lvUpdate else lvUnary) ∧
    o.argPrec = (if o = .postinc ∨ o = .postdec then lvLHS else lvUnary) := by
  cases o <;> decide

/-! ## A.2 the printed tokens derive the printed tree

`wfGo e`: every child of every node of `e` is a group or has (Go) precedence ≥ the (Go) precedence its position
requires — the shape of the parser's output.  `printT` is the printer alone (group dropping iff `p ≤ prec inner`,
literal lowering).  `DerivesA p ts t`: `t` is a derivation tree of the ECMA-262 expression grammar (`&&`, `||`, `??`
read as associative, see `assoc_*`) from a nonterminal of level ≥ `p`, with terminal string `ts`. -/

/-- the tokens the printer writes (`yield t`) derive its output tree `t`: every parenthesis that was dropped was
    redundant, every literal lowering and print-time rewrite is grammatical in its context -/
theorem print_derives (fuel : Nat) (e : E) (p : Prec) (t : E) (hp : p ≤ opCall)
    (hw : Verif.Proofs.JsPrintGwf.wfGo e = true) (hf : Verif.Proofs.JsPrintGwf.FitsIn p e = true)
    (h : printT fuel e p = some t) : DerivesA p (yield t) t := by
  have hp' : p ≤ 17 := by
    have : opCall = 17 := by decide
    rw [this] at hp; exact hp
  have inv := Verif.Proofs.JsPrintGwf.printT_gwf fuel e p t hp' hw h
  exact ⟨inv.g, inv.lv hf, rfl⟩

/-- the same for the parser's trees: `e` is any derivation tree of the (strict) ECMA-262 expression grammar — what
    `js.Parse` produces — printed in a context whose level it has -/
theorem print_derives_parsed (fuel : Nat) (e : E) (p : Prec) (t : E) (hp : p ≤ opCall)
    (hg : gwf e = true) (hl : p ≤ lvl e) (h : printT fuel e p = some t) : DerivesA p (yield t) t :=
  print_derives fuel e p t hp (Verif.Proofs.JsPrintGwf.gwf_wfGo e hg)
    (Verif.Proofs.JsPrintGwf.fitsIn_of_lvl p e hl hg) h

/-- the same for the traversal WITH all rewrites (`minE`: `optimizeCondExpr` / `optimizeUnaryExpr` at every node, De Morgan,
    `a?b:c → a&&b`, `??`, call merging, comma conditions, … followed by the printer's decisions): every rewrite
    re-parenthesises its operands correctly (`groupExpr`), so the tokens written derive the output tree -/
theorem minify_derives (v20 : Bool) (fuel : Nat) (e : E) (p : Prec) (t : E) (hp : p ≤ opCall)
    (hw : Verif.Proofs.JsPrintGwf.wfGo e = true) (hf : Verif.Proofs.JsPrintGwf.FitsIn p e = true)
    (h : minE v20 fuel e p = some t) : DerivesA p (yield t) t := by
  have hp' : p ≤ 17 := by
    have : opCall = 17 := by decide
    rw [this] at hp; exact hp
  have inv := Verif.Proofs.JsRwGwf.minE_gwf v20 fuel e p t hp' hw h
  exact ⟨inv.g, inv.lv hf, rfl⟩

/-- … in particular for every derivation tree of the strict grammar (what `js.Parse` produces) -/
theorem minify_derives_parsed (v20 : Bool) (fuel : Nat) (e : E) (p : Prec) (t : E) (hp : p ≤ opCall)
    (hg : gwf e = true) (hl : p ≤ lvl e) (h : minE v20 fuel e p = some t) : DerivesA p (yield t) t :=
  minify_derives v20 fuel e p t hp (Verif.Proofs.JsPrintGwf.gwf_wfGo e hg)
    (Verif.Proofs.JsPrintGwf.fitsIn_of_lvl p e hl hg) h

/-- assignment targets stay assignment targets -/
theorem print_target (fuel : Nat) (e : E) (p : Prec) (t : E) (hp : p ≤ opCall)
    (hw : Verif.Proofs.JsPrintGwf.wfGo e = true)
    (h : printT fuel e p = some t) (ha : assignable e = true) : isTarget t = true := by
  have hp' : p ≤ 17 := by
    have : opCall = 17 := by decide
    rw [this] at hp; exact hp
  exact (Verif.Proofs.JsPrintGwf.printT_gwf fuel e p t hp' hw h).tg ha

/-- reading `&&` as associative does not change the meaning: `a&&(b&&c)` and `(a&&b)&&c` behave alike -/
theorem assoc_land (H : Host) (a b c : E) :
    eval H (.bin .land a (.bin .land b c)) = eval H (.bin .land (.bin .land a b) c) := by
  simp only [Verif.Proofs.JsSemLemmas.eval_land, Verif.Proofs.JsSemLemmas.bindM_assoc]
  apply Verif.Proofs.JsSemLemmas.bindM_congr; intro v
  by_cases hv : truthy v = true <;> simp [hv]

theorem assoc_lor (H : Host) (a b c : E) :
    eval H (.bin .lor a (.bin .lor b c)) = eval H (.bin .lor (.bin .lor a b) c) := by
  simp only [Verif.Proofs.JsSemLemmas.eval_lor, Verif.Proofs.JsSemLemmas.bindM_assoc]
  apply Verif.Proofs.JsSemLemmas.bindM_congr; intro v
  by_cases hv : truthy v = true <;> simp [hv]

theorem assoc_nullish (H : Host) (a b c : E) :
    eval H (.bin .nullish a (.bin .nullish b c)) = eval H (.bin .nullish (.bin .nullish a b) c) := by
  simp only [Verif.Proofs.JsSemLemmas.eval_nullish, Verif.Proofs.JsSemLemmas.bindM_assoc]
  apply Verif.Proofs.JsSemLemmas.bindM_congr; intro v
  by_cases hv : isNullish v = true <;> simp [hv]

example : Verif.Proofs.JsPrintGwf.wfGo (.bin .bor (.bin .bor (.var "a") (.var "b")) (.var "c")) = true := by rfl

example : Verif.Proofs.JsPrintGwf.wfGo (.bin .mul (.group (.bin .add (.var "a") (.var "b"))) (.var "c")) = true ∧
    printT 9 (.bin .mul (.group (.bin .add (.var "a") (.var "b"))) (.var "c")) 1
      = some (.bin .mul (.group (.bin .add (.var "a") (.var "b"))) (.var "c")) := by
  constructor <;> rfl

-- `x*!(a&&b)` → `x*(!a||!b)` is not done (the group costs more than it saves), `!(a==b&&c)` → `a!=b||!c` is
example : Verif.Proofs.JsPrintGwf.wfGo (.unary .not (.group (.bin .land (.bin .eq (.var "a") (.var "b")) (.var "c")))) = true ∧
    minE true 9 (.unary .not (.group (.bin .land (.bin .eq (.var "a") (.var "b")) (.var "c")))) 1
      = some (.bin .lor (.bin .ne (.var "a") (.var "b")) (.unary .not (.var "c"))) := by
  constructor <;> rfl

/-! ## B. the expression rewrites preserve behaviour

Behaviour = the function `eval H e : St → Out Val` of `Spec.JsSem`: the same completion (value or thrown value), the
same final global variables and the same trace of host calls / host-object accesses, from every initial state and
for every host `H` (with `0[0] = undefined`). -/

/-- `optimizeUnaryExpr`: `!!b → b` (b boolean), `!(a==b) → a!=b`, `!(a&&b) → !a||!b`, … -/
theorem optUnary_sound (H : Host) (op : UOp) (x : E) (p : Prec) :
    eval H (optUnary op x p) = eval H (.unary op x) :=
  Verif.Proofs.JsOptSound.optUnary_sound op x p

/-- `optimizeCondExpr`, every branch: known condition, `a?a:b → a||b`, `a?b:a → a&&b`, `a?b:b → (a,b)`, the nullish
    forms `a==null?b:a → a??b` (only when `ver2020`), `a?f(b):f(c) → f(a?b:c)` (guarded), `a?true:false → !!a` and the
    other boolean bodies, `a?(b?x:y):y → a&&b?x:y`, `(a,b)?c:d → a,b?c:d` -/
theorem optCond_sound (H : Host) (ver2020 : Bool) (c x y : E) (p : Prec) (r : E)
    (h : optCond true ver2020 c x y p = some r) : eval H r = eval H (.cond c x y) :=
  Verif.Proofs.JsNullishSound.optCond_sound ver2020 c x y p r h

/-- full statement of B: the model of `minifyExpr` with all its rewrites preserves behaviour -/
def rewrite_sound_full : Prop :=
  ∀ (H : Host), HostOk H → ∀ (ver2020 : Bool) (fuel : Nat) (e : E) (p : Prec) (t : E),
    minE ver2020 fuel e p = some t → eval H t = eval H e

/-- witness of the open known finding K-C01-2: `x=(f=g,1)?f(1):f(2)` -/
def k2Input : E :=
  .bin .assign (.var "x") (.cond (.group (.comma [.bin .assign (.var "f") (.var "g"), .lit (.num 1)]))
    (.call (.var "f") [.lit (.num 1)]) (.call (.var "f") [.lit (.num 2)]))

/-- what the minifier makes of it: `x=f((f=g,1)?1:2)` -/
def k2Output : E :=
  .bin .assign (.var "x") (.call (.var "f")
    [.cond (.group (.comma [.bin .assign (.var "f") (.var "g"), .lit (.num 1)])) (.lit (.num 1)) (.lit (.num 2))])

/-- a host whose calls all return `undefined` -/
def quietHost : Host :=
  { call := fun _ => .ok .undef, get := fun _ => .ok .undef, set := fun _ => .ok (), del := fun _ => .ok (.bool true),
    arith := fun _ _ _ => .undef, rel := fun _ _ _ => false, unop := fun _ _ => .undef,
    typeofObj := fun _ => "function", primGet := fun _ _ => .undef }

def traceOf : Out Val → List Ev
  | .ok _ s => s.trace
  | .thr _ s => s.trace

/-- `f` and `g` are two different host functions -/
def k2State : St := { env := fun n => if n == "f" then .obj 1 else if n == "g" then .obj 2 else .undef, trace := [] }

/-- `toNullishExpr`, both rewrites: `a==null?b:a ⇒ a??b` and `a==null?undefined:a.b.c ⇒ a?.b.c` (also with the test
    written `a!=null`, `a===null||a===undefined`, …) keep the behaviour: the optional chain short-circuits to `undefined`,
    which is what the absent branch evaluates to (`isUndefined`: `undefined`, `void <pure>`) -/
theorem toNullish_sound (H : Host) (c x y e : E) (h : toNullish c x y = .yes e) : eval H e = eval H (.cond c x y) :=
  Verif.Proofs.JsNullishSound.toNullish_sound c x y e h

example : toNullish (.bin .eq (.var "a") (.lit .null)) (.var "undefined") (.call (.dot (.dot (.var "a") "b") "c") [])
    = .yes (.opt "a" (.call (.dot (.dot (.var "a") "b") "c") [])) := by rfl
-- the absent branch must be `undefined`: `a==null?null:a.b` is left alone
example : toNullish (.bin .eq (.var "a") (.lit .null)) (.lit .null) (.dot (.var "a") "b") = .no := by rfl

def valOf : Out Val → Option Val
  | .ok v _ => some v
  | .thr _ _ => none

/-- … and the guard `isUndefined` on the absent branch is necessary: with `null` there, `a==null?null:a.b` and `a?.b`
    differ when `a` is `null` (`null` against `undefined`) -/
theorem optchain_guard_needed :
    valOf (eval quietHost (.cond (.bin .eq (.var "a") (.lit .null)) (.lit .null) (.dot (.var "a") "b"))
      { env := fun _ => .null, trace := [] })
    ≠ valOf (eval quietHost (.opt "a" (.dot (.var "a") "b")) { env := fun _ => .null, trace := [] }) := by
  simp [eval, bindM, retM, getVar, lookup, strictBin, looseEq, isNullish, truthy, valOf, compoundOp]

/-- the full statement is false on the unchanged tree: the input calls `g`, the output calls `f` -/
theorem rewrite_sound_counterexample : ¬ rewrite_sound_full := by
  intro h
  have hm : minE true 40 k2Input opExpr = some k2Output := rfl
  have := h quietHost ⟨rfl⟩ true 40 k2Input opExpr k2Output hm
  have h2 : traceOf (eval quietHost k2Output k2State) = traceOf (eval quietHost k2Input k2State) := by rw [this]
  have hin : traceOf (eval quietHost k2Input k2State) = [.call (.obj 2) [.num 1]] := by
    simp [k2Input, eval, evalL, lref, bindM, retM, getVar, putVar, lookup, hostEv, quietHost, k2State, traceOf,
      putRef, truthy]
  have hout : traceOf (eval quietHost k2Output k2State) = [.call (.obj 1) [.num 1]] := by
    simp [k2Output, eval, evalL, lref, bindM, retM, getVar, putVar, lookup, hostEv, quietHost, k2State, traceOf,
      putRef, truthy]
  rw [hin, hout] at h2
  simp at h2

/-- partial theorem: true wherever the guarded traversal `minEG` is defined, i.e. unless the call-merging rewrite
    `c?f(a):f(b) → f(c?a:b)` fires below a condition with side effects (open known finding K-C01-2) -/
theorem rewrite_sound_partial (H : Host) (hH : HostOk H) (ver2020 : Bool) (fuel : Nat) (e : E) (p : Prec) (t : E)
    (h : minEG ver2020 fuel e p = some t) : eval H t = eval H e :=
  minEG_sound hH ver2020 fuel e p t h

/-- the guard only removes inputs: where `minEG` is defined it is the model `minE` -/
theorem guarded_is_model (ver2020 : Bool) (fuel : Nat) (e : E) (p : Prec) (t : E)
    (h : minEG ver2020 fuel e p = some t) : minE ver2020 fuel e p = some t := by
  refine Verif.Proofs.JsMinMono.minGen_mono ?_ fuel e p t h
  intro e p r hr
  unfold optNode at hr ⊢
  split at hr
  · exact Verif.Proofs.JsNullishSound.optCond_guarded_agrees ver2020 _ _ _ p r hr
  · exact hr
  · exact hr

/-- the printer alone (group dropping, literal lowering, no `optimize*`) preserves behaviour -/
theorem printer_sound (H : Host) (hH : HostOk H) (fuel : Nat) (e : E) (p : Prec) (t : E)
    (h : printT fuel e p = some t) : eval H t = eval H e :=
  printT_sound hH fuel e p t h

example : minEG true 40 (.cond (.var "a") (.lit .true) (.lit .false)) 1 = some (.unary .not (.unary .not (.var "a"))) := by
  rfl

/-! ## C. statement lists

`execL H l` runs a statement list (completion: normal / return v / throw, plus final globals and host trace);
`execFn H l` is the result of calling a function whose body is `l`. -/

/-- `optimizeStmt`: if → `&&` / `||` / `?:` expression statements, `if(a)return b;else return c → return a?b:c`,
    throw merging, `if(!a)b;else c → if(a)c;else b`, nested `if(a)if(b)c → if(a&&b)c`, block flattening -/
theorem optStmt_sound (H : Host) (fuel : Nat) (s : S) : exec H (optStmt fuel s) = exec H s :=
  Verif.Proofs.JsStmtSound.optStmt_sound fuel s

/-- `optimizeStmtList` on a block / program part (`defaultBlock`): else removal after return/throw, comma merging
    of expression statements into the following expression / return / throw / if, `MergeIfReturnThrow`, removal of
    empty statements — for every list, every fuel, every host -/
theorem stmts_sound_block (H : Host) (fuel : Nat) (l : List S) :
    execL H (optStmtList fuel l .default) = execL H l :=
  optStmtList_default_sound fuel l

/-- full statement for function bodies (`functionBlock`: additionally the trailing `return` is removed) -/
def stmts_sound_full : Prop :=
  ∀ (H : Host) (fuel : Nat) (l : List S), execFn H (optStmtList fuel l .function) = execFn H l

/-- partial theorem: true unless the merged list ends in `return a,b,…,undefined` with ≥ 3 items (K-C01-1) -/
theorem stmts_sound_partial (H : Host) (fuel : Nat) (l : List S)
    (g : k1Trigger (optLoop (fuel - 1) [] l) = false) : execFn H (optStmtList fuel l .function) = execFn H l :=
  optStmtList_function_sound fuel l g

/-- witness of K-C01-1: the body of `function t(p){f();p=1;return undefined}` -/
def k1Body : List S :=
  [.expr (.call (.var "f") []), .expr (.bin .assign (.var "p") (.lit (.num 1))), .ret (some (.var "undefined"))]

/-- the full statement is false on the unchanged tree: the function returns 1 instead of `undefined` -/
theorem stmts_sound_counterexample : ¬ stmts_sound_full := by
  intro h
  have h1 := h quietHost 20 k1Body
  have hopt : optStmtList 20 k1Body .function =
      [.ret (some (.comma [.call (.var "f") [], .bin .assign (.var "p") (.lit (.num 1))]))] := by rfl
  rw [hopt] at h1
  have h2 : valOf (execFn quietHost [.ret (some (.comma [.call (.var "f") [], .bin .assign (.var "p") (.lit (.num 1))]))] k2State)
      = valOf (execFn quietHost k1Body k2State) := by rw [h1]
  have ha : valOf (execFn quietHost [.ret (some (.comma [.call (.var "f") [], .bin .assign (.var "p") (.lit (.num 1))]))] k2State)
      = some (.num 1) := by
    simp [execFn, execL, exec, eval, evalL, lref, bindM, retM, getVar, putVar, lookup, hostEv, quietHost, k2State, valOf,
      putRef, andThen]
  have hb : valOf (execFn quietHost k1Body k2State) = some .undef := by
    simp [k1Body, execFn, execL, exec, eval, evalL, lref, bindM, retM, getVar, putVar, lookup, hostEv, quietHost,
      k2State, valOf, putRef, andThen]
  rw [ha, hb] at h2
  simp at h2

example : k1Trigger (optLoop 19 [] k1Body) = true := by rfl
example : k1Trigger (optLoop 19 [] [.expr (.call (.var "f") []), .ret (some (.var "a"))]) = false := by rfl

end Verif.Props.C01

import Verif.Model.JsStmt
import Verif.Spec.JsGrammar
/-!
# C01 — JS minification preserves program behaviour (partial: the fragment of `Spec.JsSyntax`)

Property theorems only.  Part A (printer and parentheses): facts about the regenerated precedence tables.
-/
namespace Verif.Props.C01
open Verif.Spec.JsSyntax Verif.Spec.JsGrammar Verif.Model.JsAst

/-! ## A.1 the regenerated tables against the grammar of ECMA-262 -/

/-- the numeric order of `js.OpPrec` in the dependency is the order of the grammar's nonterminals -/
theorem prec_order :
    [opExpr, opAssign, opCoalesce, opOr, opAnd, opBitOr, opBitXor, opBitAnd, opEquals, opCompare, opShift, opAdd,
     opMul, opExp, opUnary, opUpdate, opLHS, opCall, opNew, opMember, opPrimary]
    = [lvExpr, lvAssign, lvShort, lvOr, lvAnd, lvBitOr, lvBitXor, lvBitAnd, lvEquality, lvRelational, lvShift,
       lvAdditive, lvMultiplicative, lvExponent, lvUnary, lvUpdate, lvLHS, lvCall, lvNew, lvMember, lvPrimary] := by
  decide

/-- what the printer needs of one row of the three binary maps: the precedence of the node is the level of its
    production; the left operand is printed at (at least) the nonterminal the production demands; the right operand
    too, except that `&&` and `||` print their right operand at their own level (re-association, harmless) -/
def rowOk (o : BOp) : Bool :=
  o.prec == opLevel o && opLeft o ≤ o.left &&
    (opRight o ≤ o.right || ((o == .land || o == .lor) && o.right == opLevel o))

/-- every binary operator of the language has a correct row in `binaryLeftPrecMap`, `binaryRightPrecMap`,
    `binaryOpPrecMap` (a changed or missing row breaks this `decide`: a missing key is the Go zero value `OpExpr`) -/
theorem binary_tables (o : BOp) : rowOk o = true := by
  have h : ∀ o ∈ BOp.all, rowOk o = true := by decide
  exact h o (BOp.mem_all o)

/-- the one context that may not accept a `??` operand although it is printed above `OpCoalesce`: the left operand of
    `|` is printed strictly above `OpBitOr`, so the `??`-exception of group dropping (`p = OpBitOr`) never applies to it -/
theorem bitor_left_above : BOp.bor.left > opBitOr ∧ BOp.nullish.left = opBitOr ∧ BOp.nullish.right = opBitOr := by
  decide

/-- the two unary maps: prefix operators print their operand as `UnaryExpression`, postfix ones as
    `LeftHandSideExpression`; the node is an `UpdateExpression` for `++`/`--` and a `UnaryExpression` otherwise -/
theorem unary_tables (o : UOp) :
    o.prec = (if isUpdateOp o then lvUpdate else lvUnary) ∧
    o.argPrec = (if o = .postinc ∨ o = .postdec then lvLHS else lvUnary) := by
  cases o <;> decide

end Verif.Props.C01

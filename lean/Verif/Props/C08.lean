import Verif.Proofs.NumRoundLen
import Verif.Proofs.NumHolds
import Verif.Proofs.NumDecRound
import Verif.Proofs.NumNumRound
import Verif.Proofs.NumJson
/-!
# C08 — Number/Decimal shortening keeps the numeric value

Property theorems only.  Models: `Verif.Model.Num.number`, `Verif.Model.Num.decimal` (behavioural models of
`minify.Number`, `minify.Decimal`); specification: `Verif.Spec.Num` (`isNumber`, `isDecimal`, `numVal`).
-/
namespace Verif.Props.C08
open Verif.Model.Num Verif.Proofs.Num
open Verif.Spec.Num (isNumber isDecimal numVal holds WithinHalfUnit WithinHalfUnitDec)

/-- (a) the result of `Number` is never longer than its input — every byte string, every precision -/
theorem number_length (s : List Char) (p : Int) : (number s p).length ≤ s.length :=
  number_length_all s p

/-- (b) at precision ≤ 0 `Number` returns a lexeme that denotes exactly the same rational -/
theorem number_value (s : List Char) (p : Int) (hs : isNumber s = true) (hp : p ≤ 0) :
    numVal (number s p) = numVal s := by
  obtain ⟨l, hwf, rfl⟩ := exists_lex_of_isNumber hs
  rcases number_lex l hwf p (fun m0 h => by rw [rnd_nonpos hp]; exact h) with h | ⟨l', h1, h2, _, h4, _⟩
  · rw [h]
  · rw [← h2, numVal_str l' h1, numVal_str l hwf, h4 hp]

example : isNumber "+012.500e-3".toList = true ∧ (0 : Int) ≤ 0 := by decide


/-- (c) `Number` maps the number grammar into itself, for every precision -/
theorem number_grammar (s : List Char) (p : Int) (hs : isNumber s = true) : isNumber (number s p) = true := by
  obtain ⟨l, hwf, rfl⟩ := exists_lex_of_isNumber hs
  rcases number_lex l hwf p (fun m0 h => rnd_wf h p) with h | ⟨l', h1, h2, _, _⟩
  · rw [h]; exact isNumber_str l hwf
  · rw [← h2]; exact isNumber_str l' h1

/-- (d) with a precision `p > 0` the result of `Number` is within half a unit of the `p`-th significant digit
    of the input value (`WithinHalfUnit`: `|w − v| ≤ ½·10^(L−p+1)` where `10^L ≤ |v| < 10^(L+1)`); a lexeme whose
    exponent is within `len+1` of the `int` range is returned unchanged -/
theorem number_round (s : List Char) (p : Int) (hs : isNumber s = true) (hp : 0 < p) :
    ∃ v w, numVal s = some v ∧ numVal (number s p) = some w ∧ WithinHalfUnit s p v w := by
  obtain ⟨l, hwf, rfl⟩ := exists_lex_of_isNumber hs
  obtain ⟨w, h1, h2⟩ := number_round_lex l hwf p hp
  exact ⟨l.val, w, numVal_str l hwf, h1, h2⟩

example : isNumber "-0012.3456e+7".toList = true ∧ (0 : Int) < 3 := by decide
example : number "123456.7e9223372036854775807".toList 2 = "123456.7e9223372036854775807".toList := by decide

/-- (e) output shape: for a lexeme that does not start with `+` the first byte of the result of `Number`
    is a digit, `.` or `-` (a lexeme with `+` can come back unchanged when its exponent is not an int64) -/
theorem number_shape (s : List Char) (p : Int) (hs : isNumber s = true) (hplus : s.head? ≠ some '+') :
    ∃ c t, number s p = c :: t ∧ (c.isDigit = true ∨ c = '.' ∨ c = '-') := by
  obtain ⟨l, hwf, rfl⟩ := exists_lex_of_isNumber hs
  rcases number_lex l hwf p (fun m0 h => rnd_wf h p) with h | ⟨l', h1, h2, h3, _⟩
  · rw [h]; exact lex_head l hwf (lex_sg_of_head l hplus)
  · rw [← h2]; exact lex_head l' h1 h3

/-- (e) the same for `Decimal` -/
theorem decimal_shape (s : List Char) (p : Int) (hs : isDecimal s = true) (hplus : s.head? ≠ some '+') :
    ∃ c t, decimal s p = c :: t ∧ (c.isDigit = true ∨ c = '.' ∨ c = '-') := by
  obtain ⟨l, hwf, rfl, hex⟩ := exists_lex_of_isDecimal hs
  rcases decimal_lex l hwf hex p with h | ⟨l', h1, _, h3, h4, _⟩
  · rw [h]; exact lex_head l hwf (lex_sg_of_head l hplus)
  · rw [← h3]; exact lex_head l' h1 h4

example : isNumber "-12.5e3".toList = true ∧ "-12.5e3".toList.head? ≠ some '+' := by decide

/-- (a) the result of `Decimal` is never longer than its input — every byte string, every precision -/
theorem decimal_length (s : List Char) (p : Int) : (decimal s p).length ≤ s.length :=
  decimal_length_all s p

/-- (b) at precision ≤ 0 `Decimal` returns a lexeme that denotes exactly the same rational -/
theorem decimal_value (s : List Char) (p : Int) (hs : isDecimal s = true) (hp : p ≤ 0) :
    numVal (decimal s p) = numVal s := by
  obtain ⟨l, hwf, rfl, hex⟩ := exists_lex_of_isDecimal hs
  rcases decimal_lex l hwf hex p with h | ⟨l', h1, _, h3, _, h5⟩
  · rw [h]
  · rw [← h3, numVal_str l' h1, numVal_str l hwf, h5 hp]

/-- (c) `Decimal` maps the grammar without exponent into itself, for every precision
    (it never introduces an exponent) -/
theorem decimal_grammar (s : List Char) (p : Int) (hs : isDecimal s = true) :
    isDecimal (decimal s p) = true := by
  obtain ⟨l, hwf, rfl, hex⟩ := exists_lex_of_isDecimal hs
  rcases decimal_lex l hwf hex p with h | ⟨l', h1, h2, h3, _, _⟩
  · rw [h]; exact isDecimal_str l hwf hex
  · rw [← h3]; exact isDecimal_str l' h1 h2

/-- (d) with a precision `p > 0` the result of `Decimal` is within half a unit of the `p`-th significant
    digit of the input value and never further than half a unit of the units place
    (`WithinHalfUnitDec`: `|w − v| ≤ ½·10^(min (L−p+1) 0)` where `10^L ≤ |v| < 10^(L+1)`;
    only fraction digits are dropped, so a long integer part is returned exactly) -/
theorem decimal_round (s : List Char) (p : Int) (hs : isDecimal s = true) (hp : 0 < p) :
    ∃ v w, numVal s = some v ∧ numVal (decimal s p) = some w ∧ WithinHalfUnitDec s p v w := by
  obtain ⟨l, hwf, rfl, hex⟩ := exists_lex_of_isDecimal hs
  obtain ⟨w, h1, h2⟩ := decimal_round_lex l hwf hex p hp
  exact ⟨l.val, w, numVal_str l hwf, h1, h2⟩

example : isDecimal "-0099.9500".toList = true := by decide
example : decimal "99.5".toList 2 = "100".toList ∧ decimal "999.5".toList 3 = "1000".toList := by decide


/-- the executable checker `spec.holds.c08` that the harness evaluates on the *implementation's* output is
    sound for the rational-number reading at precision ≤ 0: when it answers `true`, the output is in the
    grammar, denotes the same rational as the input and is not longer -/
theorem holds_sound (decimalMode : Bool) (s : List Char) (p : Int) (out : List Char)
    (h : holds decimalMode s p out = true) (hp : p ≤ 0) :
    (if decimalMode then isDecimal out else isNumber out) = true ∧ numVal out = numVal s ∧
      out.length ≤ s.length :=
  holds_exact_sound decimalMode s p out h hp

example : holds false "+012.500e-3".toList 0 ".0125".toList = true := by decide
-- the checker rejects a `Decimal` result that lost its fraction although the integer part is longer than the precision
example : holds true "12.9".toList 1 "12".toList = false ∧ holds true "12.9".toList 1 "12.9".toList = true ∧
    holds true "2.9".toList 1 "3".toList = true ∧ holds false "12.9".toList 1 "10".toList = true := by decide

/-- bridge to C07: the model of `minify.Number` satisfies the three hypotheses that the model of the JSON
    minifier (`Verif.Model.Json`) makes about it, stated with the JSON side's own recognisers and value function:
    on RFC 8259 number lexemes the result is in the minifier's number grammar and not longer (`NumGrammar`), a
    result that starts with `.`/`-.` for a lexeme without exponent is strictly shorter (`NumDotShrinks`) — both
    for every precision — and at precision ≤ 0 the value is unchanged (`NumValue`) -/
theorem number_json_hypotheses (p : Int) :
    Verif.Model.Json.NumGrammar number p ∧ Verif.Model.Json.NumDotShrinks number p ∧
      (p ≤ 0 → Verif.Model.Json.NumValue number p) :=
  ⟨number_numGrammar p, number_numDotShrinks p, number_numValue p⟩

example : Verif.Spec.Json.isJsonNumber "-0.50e+3".toList = true := by decide

end Verif.Props.C08

import Verif.Proofs.NumLex
/-!
# C08 — Number/Decimal shortening keeps the numeric value

Property theorems only.  Models: `Verif.Model.Num.number`, `Verif.Model.Num.decimal` (behavioural models of
`minify.Number`, `minify.Decimal`); specification: `Verif.Spec.Num` (`isNumber`, `isDecimal`, `numVal`).
-/
namespace Verif.Props.C08
open Verif.Model.Num Verif.Proofs.Num
open Verif.Spec.Num (isNumber isDecimal numVal)

/-- (a) at precision ≤ 0 the result of `Number` is never longer than its input — for every byte string -/
theorem number_length_exact (s : List Char) (p : Int) (hp : p ≤ 0) : (number s p).length ≤ s.length :=
  number_length_gen s p (fun m0 => by rw [rnd_nonpos hp]; exact Nat.le_refl _)

/-- (b) at precision ≤ 0 `Number` returns a lexeme that denotes exactly the same rational -/
theorem number_value (s : List Char) (p : Int) (hs : isNumber s = true) (hp : p ≤ 0) :
    numVal (number s p) = numVal s := by
  obtain ⟨l, hwf, rfl⟩ := exists_lex_of_isNumber hs
  rcases number_lex l hwf p (fun m0 h => by rw [rnd_nonpos hp]; exact h) with h | ⟨l', h1, h2, _, h4⟩
  · rw [h]
  · rw [← h2, numVal_str l' h1, numVal_str l hwf, h4 hp]

example : isNumber "+012.500e-3".toList = true ∧ (0 : Int) ≤ 0 := by decide

end Verif.Props.C08

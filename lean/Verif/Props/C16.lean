import Verif.Model.Options
import Verif.Gen.CliFlags
import Verif.Gen.JsVersionGates
import Verif.Props.C07
import Verif.Props.C06
/-!
# C16 — options only restrict minification and are honoured

* the version gate: a decision-model theorem plus the regenerated list of guard sites;
* the CLI flag table regenerated from `cmd/minify/main.go`;
* per-option "kept ⇒ unchanged" theorems, re-exported from the per-language models (they are universally
  quantified over the option records there): JSON `KeepNumbers`, XML `KeepWhitespace`, … (the list grows as the
  HTML/CSS/SVG/JS models are merged; see docs/C16.md).
-/
namespace Verif.Props.C16
open Verif.Model.Options

/-- **Version gate.** If the output uses a feature that is newer than the (non-zero) target edition,
    the input already used it — for every feature, target and applicability of the rewrite. -/
theorem version_gate (target : Nat) (f : Feature) (inputHas rw : Bool)
    (ht : target ≠ 0) (hnew : target < f.since) (he : emits target f inputHas rw = true) :
    inputHas = true := by
  cases inputHas with
  | true => rfl
  | false =>
    have hg : guardOf f = f.since := by cases f <;> rfl
    simp only [emits, Bool.false_or, Bool.and_eq_true, minVersion, Bool.or_eq_true, beq_iff_eq,
      decide_eq_true_eq, hg] at he
    rcases he.2 with h | h
    · exact absurd h ht
    · omega

/-- target 0 means "latest": every rewrite is allowed (non-vacuity of the gate's other branch) -/
example : emits 0 .nullish false true = true := by decide
example : emits 2019 .nullish false true = false := by decide
example : emits 2019 .nullish true false = true := by decide

/-- The regenerated gate facts (harness/cmd/extract/c16_flags.go; all names resolved through the type checker, so renames,
    hoisted conditions, helpers and moved code do not matter):
    * there is exactly one gate function of the shape `o.Version == 0 || v <= o.Version` — the shape `minVersion` of the model;
    * the versions that are tested are exactly the modelled features' (2015 template literals and shorthand properties,
      2016 `**`, 2019 optional catch binding, 2020 `??` / `?.`);
    * every place that CREATES newer syntax is dominated by the gate of its feature: `**` bytes by 2016; a `Nullish` token
      and setting a node's `Optional` flag (both only in the nullish rewrite) by 2020; template literals by the 2015 gate
      handed to `minifyString`; `?.` bytes are written only under a test of the node's own `Optional` flag, i.e. copied from the
      input.  An ungated producer shows up as `…: UNGATED in f`, a producer under the wrong gate with that gate's version. -/
theorem gates_ok :
    Verif.Gen.JsVersionGates.gateFunctions = 1 ∧
    Verif.Gen.JsVersionGates.gateVersions = [2015, 2016, 2019, 2020] ∧
    Verif.Gen.JsVersionGates.producers =
      ["bytes **: gated 2016", "bytes ?.: input-flag Optional", "set Optional: gated 2020", "template: gated 2015",
       "token NullishToken: gated 2020"] := by decide

/-- every CLI flag is bound to the option field its name says (`flag=package.Field`; the option struct is identified by its
    type, the flag name by its constant value) -/
theorem cli_flags_ok : Verif.Gen.CliFlags.flags =
    ["css-precision=css.Precision", "html-keep-comments=html.KeepComments",
     "html-keep-conditional-comments=html.KeepConditionalComments",
     "html-keep-default-attrvals=html.KeepDefaultAttrVals", "html-keep-document-tags=html.KeepDocumentTags",
     "html-keep-end-tags=html.KeepEndTags", "html-keep-quotes=html.KeepQuotes",
     "html-keep-special-comments=html.KeepSpecialComments", "html-keep-whitespace=html.KeepWhitespace",
     "js-keep-var-names=js.KeepVarNames", "js-precision=js.Precision", "js-version=js.Version",
     "json-keep-numbers=json.KeepNumbers", "json-precision=json.Precision",
     "svg-keep-comments=svg.KeepComments", "svg-precision=svg.Precision",
     "xml-keep-whitespace=xml.KeepWhitespace"] := by decide

/-- every exported option is either reachable from the CLI or one of the documented library-only options -/
def libraryOnly : List String := ["css.Inline", "css.KeepCSS2", "html.TemplateDelims", "svg.Inline"]

def cliBound : List String :=
  ["css.Precision", "html.KeepComments", "html.KeepConditionalComments", "html.KeepDefaultAttrVals",
   "html.KeepDocumentTags", "html.KeepEndTags", "html.KeepQuotes", "html.KeepSpecialComments", "html.KeepWhitespace",
   "js.KeepVarNames", "js.Precision", "js.Version", "json.KeepNumbers", "json.Precision", "svg.KeepComments",
   "svg.Precision", "xml.KeepWhitespace"]

theorem options_covered :
    Verif.Gen.CliFlags.optionFields.all (fun f => libraryOnly.contains f || cliBound.contains f) = true := by decide

/-! ## per-option theorems (re-exported) -/

/-- JSON `KeepNumbers`: every lexeme, numbers included, is byte-identical — for every value, decoration and whatever `Number` does -/
theorem json_keep_numbers : type_of% @Verif.Props.C07.C07_keepNumbers := @Verif.Props.C07.C07_keepNumbers

/-- XML `KeepWhitespace`: a space next to a tag is never removed entirely (partial: guards of C06) -/
theorem xml_keep_whitespace : type_of% @Verif.Props.C06.keep_ws_never_removed := @Verif.Props.C06.keep_ws_never_removed

end Verif.Props.C16

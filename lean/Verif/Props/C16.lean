import Verif.Model.Options
import Verif.Gen.CliFlags
import Verif.Gen.JsVersionGates
import Verif.Gen.OptionSites
import Verif.Props.C07
import Verif.Props.C06
import Verif.Props.C08
import Verif.Props.C04
import Verif.Props.C05
import Verif.Proofs.RenameTree
import Verif.Proofs.JsMinSound
import Verif.Proofs.HtmlWs
import Verif.Proofs.NumJson
import Verif.Proofs.C16HtmlOpt
import Verif.Proofs.C16JsVersion
import Verif.Proofs.C16Svg
/-!
# C16 — options only restrict minification and are honoured

* the version gate: a decision-model theorem plus the regenerated list of guard sites;
* the CLI flag table regenerated from `cmd/minify/main.go`;
* per-option "kept ⇒ unchanged" theorems, re-exported from the per-language models (they are universally
  quantified over the option records there): JSON `KeepNumbers`, XML `KeepWhitespace`, … (the list grows as the
  HTML/CSS/SVG/JS models are merged; see docs/C16.md).
-/
set_option maxRecDepth 1000000
namespace Verif.Props.C16
open Verif.Model.Options

/-- **Version gate** (full since 2252d4e; the property shorthand was ungated before: former K-C16-3).  If the output uses
    a feature that is newer than the (non-zero) target edition, the input already used it — for every feature, target
    and applicability of the rewrite. -/
theorem version_gate (target : Nat) (f : Feature) (inputHas rw : Bool)
    (ht : target ≠ 0) (hnew : target < f.since) (he : emits target f inputHas rw = true) :
    inputHas = true := by
  cases inputHas with
  | true => rfl
  | false =>
    exfalso
    cases f <;>
      (simp only [emits, gatePasses, guardOf, minVersion, Feature.since, Bool.false_or, Bool.and_eq_true, Bool.or_eq_true,
        beq_iff_eq] at he hnew
       rcases he.2 with h | h
       · omega
       · have := of_decide_eq_true h; omega)

/-- target 0 means "latest": every rewrite is allowed (non-vacuity of the gate's other branch) -/
example : emits 0 .nullish false true = true := by decide
example : emits 2019 .nullish false true = false := by decide
example : emits 2019 .nullish true false = true := by decide
example : emits 5 .propertyShorthand false true = false ∧ emits 2015 .propertyShorthand false true = true := by decide
example : (2019 : Nat) ≠ 0 ∧ 2019 < Feature.since .nullish := by decide

/-- The regenerated gate facts (harness/cmd/extract/c16_flags.go; all names resolved through the type checker, so renames,
    hoisted conditions, helpers and moved code do not matter):
    * there is exactly one gate function of the shape `o.Version == 0 || v <= o.Version` — the shape `minVersion` of the model
      (with the literals of `guardOf`);
    * the versions that are tested are exactly the modelled features' (2015 template literals and shorthand properties,
      2016 `**`, 2019 optional catch binding, 2020 `??` / `?.`);
    * every place that CREATES newer syntax is dominated by the gate of its feature: `**` bytes by 2016; a `Nullish` token
      and setting a node's `Optional` flag (both only in the nullish rewrite) by 2020; template literals by the 2015 gate
      handed to `minifyString`; `?.` bytes are written only under a test of the node's own `Optional` flag, i.e. copied from the
      input; the object-literal shorthand (`js.Property`) is decided by a condition that consults the 2015 gate, the shorthand
      of a destructuring pattern (`js.BindingObjectItem`, itself ES2015 syntax of the input) is not gated.
    An ungated producer shows up as `…: UNGATED in f`, a producer under the wrong gate with that gate's version. -/
theorem gates_ok :
    Verif.Gen.JsVersionGates.gateFunctions = 1 ∧
    Verif.Gen.JsVersionGates.gateVersions = [2015, 2016, 2019, 2020] ∧
    Verif.Gen.JsVersionGates.producers =
      ["bytes **: gated 2016", "bytes ?.: input-flag Optional",
       "property shorthand of js.BindingObjectItem: no gate", "property shorthand of js.Property: condition consults gate 2015",
       "set Optional: gated 2020", "template: gated 2015", "token NullishToken: gated 2020"] := by decide

/-- every CLI flag is bound to the option field its name says (`flag=package.Field`; the option struct is identified by its
    type, the flag name by its constant value) -/
theorem cli_flags_ok : Verif.Gen.CliFlags.flags =
    ["css-precision=css.Precision", "html-keep-comments=html.KeepComments",
     "html-keep-conditional-comments=html.KeepConditionalComments",
     "html-keep-default-attrvals=html.KeepDefaultAttrVals", "html-keep-document-tags=html.KeepDocumentTags",
     "html-keep-end-tags=html.KeepEndTags", "html-keep-quotes=html.KeepQuotes",
     "html-keep-special-comments=html.KeepSpecialComments", "html-keep-whitespace=html.KeepWhitespace",
     "js-keep-var-names=js.KeepVarNames", "js-precision=js.Precision", "js-version=js.Version",
     "json-keep-numbers=json.KeepNumbers", "json-precision=json.Precision",
     "svg-keep-comments=svg.KeepComments", "svg-precision=svg.Precision",
     "xml-keep-whitespace=xml.KeepWhitespace"] := by decide

/-- every exported option is either reachable from the CLI or one of the documented library-only options -/
def libraryOnly : List String := ["css.Inline", "css.KeepCSS2", "html.TemplateDelims", "svg.Inline"]

def cliBound : List String :=
  ["css.Precision", "html.KeepComments", "html.KeepConditionalComments", "html.KeepDefaultAttrVals",
   "html.KeepDocumentTags", "html.KeepEndTags", "html.KeepQuotes", "html.KeepSpecialComments", "html.KeepWhitespace",
   "js.KeepVarNames", "js.Precision", "js.Version", "json.KeepNumbers", "json.Precision", "svg.KeepComments",
   "svg.Precision", "xml.KeepWhitespace"]

theorem options_covered :
    Verif.Gen.CliFlags.optionFields.all (fun f => libraryOnly.contains f || cliBound.contains f) = true := by decide

/-- the option-struct values of cmd/minify (regenerated through the type checker; a value is named after what it is — `html`,
    `html+TemplateDelims=…` for a copy of `html` with that field assigned — not after its variable): the six option structs the flags are bound to,
    and the three template flavours (ASP/EJS, PHP, Go/mustache/handlebars templates), each of which is defined as a **copy
    of `htmlMinifier`** with nothing but `TemplateDelims` assigned afterwards — so every `--html-*` flag reaches every
    HTML-derived media type; and the media types each value is registered for.  A template flavour built from a fresh
    `html.Minifier{…}` (flags silently ignored for .php/.asp/.ejs/.tmpl/… inputs) changes this list. -/
theorem cli_registry_ok :
    Verif.Gen.CliFlags.registry =
      ["def css := css.Minifier{}",
       "def html := html.Minifier{}",
       "def html+TemplateDelims=[2]string{\"<%\", \"%>\"} := copy of html",
       "def html+TemplateDelims=[2]string{\"<?\", \"?>\"} := copy of html",
       "def html+TemplateDelims=[2]string{\"{{\", \"}}\"} := copy of html",
       "def js := js.Minifier{}",
       "def json := json.Minifier{}",
       "def svg := svg.Minifier{}",
       "def xml := xml.Minifier{}",
       "reg \"application/x-httpd-php\" -> html+TemplateDelims=[2]string{\"<?\", \"?>\"}",
       "reg \"image/svg+xml\" -> svg",
       "reg \"text/asp\" -> html+TemplateDelims=[2]string{\"<%\", \"%>\"}",
       "reg \"text/css\" -> css",
       "reg \"text/html\" -> html",
       "reg \"text/x-ejs-template\" -> html+TemplateDelims=[2]string{\"<%\", \"%>\"}",
       "reg \"text/x-go-template\" -> html+TemplateDelims=[2]string{\"{{\", \"}}\"}",
       "reg \"text/x-handlebars-template\" -> html+TemplateDelims=[2]string{\"{{\", \"}}\"}",
       "reg \"text/x-mustache-template\" -> html+TemplateDelims=[2]string{\"{{\", \"}}\"}",
       "reg regexp \"[/+]json$\" -> json",
       "reg regexp \"[/+]xml$\" -> xml",
       "reg regexp \"^(application|text)/(x-)?(java|ecma|j|live)script(1\\\\.[0-5])?$|^module$\" -> js"] := by decide

/-! ## where the options are consulted (regenerated) -/

/-- every read or write of an option field in the six minifier packages, with its context (regenerated from the
    source on every run): the `Precision` fields reach nothing but `minify.Number`/`minify.Decimal` (and the JS
    literal printers), `newPrecision` is the clamped copy used for numbers the SVG path shortener computes itself,
    every `Keep*` field is read at the sites modelled by the theorems below (contexts are resolved through the type checker:
    `if-condition`, `arg N of <callee>`, `assigned to field T.f`; names of variables and the text of conditions are not part
    of the fact), the only writes go to the private copy
    `Minify` makes (`KeepConditionalComments` is folded into `KeepSpecialComments`; `Inline` from the `inline`
    parameter).  A new consumer of an option, or a check that disappears, changes this list. -/
theorem option_sites_ok :
    Verif.Gen.OptionSites.sites =
      ["css.(unexported): KeepCSS2 if-condition",
       "css.(unexported): KeepCSS2 if-condition",
       "css.(unexported): Precision arg 1 of minify.Decimal",
       "css.(unexported): Precision arg 1 of minify.Number",
       "css.Minifier.Minify: Inline WRITE",
       "css.Minifier.Minify: Inline arg 1 of css.NewParser",
       "css.Minifier.Minify: Inline if-condition",
       "css.Minifier.Minify: Precision assigned to field css.Minifier.newPrecision",
       "css.Minifier.Minify: newPrecision WRITE",
       "css.Minifier.Minify: newPrecision WRITE",
       "css.Minifier.Minify: newPrecision if-condition",
       "css.Minifier.Minify: newPrecision if-condition",
       "html.Minifier.Minify: KeepComments if-condition",
       "html.Minifier.Minify: KeepConditionalComments WRITE",
       "html.Minifier.Minify: KeepConditionalComments if-condition",
       "html.Minifier.Minify: KeepDefaultAttrVals if-condition",
       "html.Minifier.Minify: KeepDefaultAttrVals if-condition",
       "html.Minifier.Minify: KeepDocumentTags assigned to a local",
       "html.Minifier.Minify: KeepEndTags if-condition",
       "html.Minifier.Minify: KeepEndTags if-condition",
       "html.Minifier.Minify: KeepQuotes arg 3 of html.EscapeAttrVal",
       "html.Minifier.Minify: KeepSpecialComments WRITE",
       "html.Minifier.Minify: KeepSpecialComments if-condition",
       "html.Minifier.Minify: KeepWhitespace if-condition",
       "html.Minifier.Minify: KeepWhitespace if-condition",
       "html.Minifier.Minify: KeepWhitespace if-condition",
       "html.Minifier.Minify: TemplateDelims arg 1 of html.NewTemplateLexer",
       "js.(unexported): KeepVarNames assigned to field js.renamer.rename",
       "js.(unexported): KeepVarNames assigned to field js.renamer.rename",
       "js.(unexported): KeepVarNames assigned to field js.renamer.rename",
       "js.(unexported): KeepVarNames if-condition",
       "js.(unexported): Precision arg 1 of an unexported function of the package",
       "js.(unexported): Precision arg 1 of an unexported function of the package",
       "js.(unexported): Precision arg 1 of an unexported function of the package",
       "js.(unexported): Precision arg 1 of an unexported function of the package",
       "js.(unexported): Version returned",
       "js.(unexported): Version returned",
       "js.Minifier.Minify: KeepVarNames arg 0 of an unexported function of the package",
       "js.Minifier.Minify: KeepVarNames if-condition",
       "js.Minifier.Minify: useAlphabetVarNames arg 1 of an unexported function of the package",
       "json.Minifier.Minify: KeepNumbers if-condition",
       "json.Minifier.Minify: Precision arg 1 of minify.Number",
       "svg.(unexported): Precision arg 1 of minify.Number",
       "svg.(unexported): Precision arg 1 of minify.Number",
       "svg.(unexported): newPrecision arg 1 of minify.Number",
       "svg.Minifier.Minify: Inline WRITE",
       "svg.Minifier.Minify: Inline if-condition",
       "svg.Minifier.Minify: Inline if-condition",
       "svg.Minifier.Minify: KeepComments if-condition",
       "svg.Minifier.Minify: Precision assigned to field svg.Minifier.newPrecision",
       "svg.Minifier.Minify: newPrecision WRITE",
       "svg.Minifier.Minify: newPrecision WRITE",
       "svg.Minifier.Minify: newPrecision if-condition",
       "svg.Minifier.Minify: newPrecision if-condition",
       "xml.Minifier.Minify: KeepWhitespace if-condition",
       "xml.Minifier.Minify: KeepWhitespace if-condition",
       "xml.Minifier.Minify: KeepWhitespace if-condition",
       "xml.Minifier.Minify: KeepWhitespace if-condition"] := by decide

/-! ## per-option theorems: JSON, XML (re-exported from the language models) -/

/-- JSON `KeepNumbers`: every lexeme, numbers included, is byte-identical — for every value, decoration and whatever `Number` does -/
theorem json_keep_numbers : type_of% @Verif.Props.C07.C07_keepNumbers := @Verif.Props.C07.C07_keepNumbers

/-- JSON `KeepNumbers`, one lexeme: written unchanged for every `Precision` and whatever `minify.Number` does -/
theorem json_keep_numbers_lexeme (o : Verif.Model.Json.JsonOpts) (num : List Char → Int → List Char)
    (hk : o.keepNumbers = true) (s : List Char) : Verif.Model.Json.jsonNum o num s = s :=
  Verif.Props.C07.jsonNum_keep o num hk s

/-- JSON `Precision ≤ 0` ("no trimming"), with the C08 model of `minify.Number` plugged in: what is written for a
    number lexeme denotes the same rational — for every `KeepNumbers` -/
theorem json_precision_zero (o : Verif.Model.Json.JsonOpts) (hp : o.precision ≤ 0) (s : List Char)
    (hs : Verif.Spec.Json.isJsonNumber s = true) :
    Verif.Spec.Json.numVal (Verif.Model.Json.jsonNum o Verif.Model.Num.number s) = Verif.Spec.Json.numVal s :=
  (Verif.Props.C07.jsonNum_value o _ (Verif.Proofs.Num.number_numGrammar o.precision)
    (Verif.Proofs.Num.number_numValue o.precision hp) s hs).1

example : Verif.Spec.Json.isJsonNumber "1.50e+3".toList = true := by decide

/-- XML `KeepWhitespace`: a space next to a tag is never removed entirely (partial: guards of C06) -/
theorem xml_keep_whitespace : type_of% @Verif.Props.C06.keep_ws_never_removed := @Verif.Props.C06.keep_ws_never_removed

/-! ## `Precision` (css, js, json, svg): the contract of `minify.Number` / `minify.Decimal` (C08)

Every minifier hands number lexemes to `minify.Number(lexeme, Precision)` (CSS with `KeepCSS2`: `minify.Decimal`);
the regenerated fact `option_sites_ok` above lists these call sites.  The C08 model is the model of that
function for every precision. -/

/-- `Precision ≤ 0` means no rounding: the number written denotes exactly the same rational -/
theorem precision_zero_exact (s : List Char) (p : Int) (hs : Verif.Spec.Num.isNumber s = true) (hp : p ≤ 0) :
    Verif.Spec.Num.numVal (Verif.Model.Num.number s p) = Verif.Spec.Num.numVal s :=
  Verif.Props.C08.number_value s p hs hp

/-- `Precision p > 0`: the number written is within half a unit of the `p`-th significant digit of the input -/
theorem precision_round : type_of% @Verif.Props.C08.number_round := @Verif.Props.C08.number_round

/-- the same two statements for `minify.Decimal` (CSS with `KeepCSS2`) -/
theorem precision_zero_exact_decimal (s : List Char) (p : Int) (hs : Verif.Spec.Num.isDecimal s = true) (hp : p ≤ 0) :
    Verif.Spec.Num.numVal (Verif.Model.Num.decimal s p) = Verif.Spec.Num.numVal s :=
  Verif.Props.C08.decimal_value s p hs hp

theorem precision_round_decimal : type_of% @Verif.Props.C08.decimal_round := @Verif.Props.C08.decimal_round

/-- whatever the precision, the result is a number lexeme again (nothing else happens to it) -/
theorem precision_grammar (s : List Char) (p : Int) (hs : Verif.Spec.Num.isNumber s = true) :
    Verif.Spec.Num.isNumber (Verif.Model.Num.number s p) = true :=
  Verif.Props.C08.number_grammar s p hs

example : Verif.Spec.Num.isNumber "12.3450e1".toList = true ∧
    Verif.Model.Num.number "12.3450e1".toList 0 = "123.45".toList ∧
    Verif.Model.Num.number "12.3450e1".toList 2 = "120".toList := by decide

/-! ## CSS -/
section Css
open Verif.Model.Css

/-- CSS `KeepCSS2`: a number lexeme without exponent is written without exponent (CSS 2.1 has none) -/
theorem css_keepcss2_no_exponent : type_of% @Verif.Props.C04.keepcss2_no_exponent := @Verif.Props.C04.keepcss2_no_exponent

/-- CSS `KeepCSS2`: the CSS3 keyword `initial` is not substituted for `transparent` in `background-color`:
    the property-specific step only shortens the colour -/
theorem css_keepcss2_no_initial (vs : List Verif.Spec.CssValue.Tok) (h : vs.length ≤ 100) :
    minifyProperty ⟨true⟩ (S "background-color") vs = some (mapHead minifyColor vs) := by
  unfold minifyProperty
  rw [if_neg (by omega)]
  repeat rw [if_neg (by decide +kernel)]
  rw [if_pos (by decide +kernel)]
  congr 1

/-- and without the option the substitution happens (the option is what prevents it) -/
example : minifyProperty ⟨false⟩ (S "background-color") [⟨.ident, S "transparent", []⟩] = some [⟨.ident, S "initial", []⟩] ∧
    minifyProperty ⟨true⟩ (S "background-color") [⟨.ident, S "transparent", []⟩] = some [⟨.ident, S "transparent", []⟩] := by
  decide +kernel

end Css

/-! ## JavaScript -/

section Js
open Verif.Spec.Scope Verif.Model.Rename Verif.Proofs.Rename

/-- JS `KeepVarNames`: with the flags `Minify` computes for `KeepVarNames` (`Tree.withFlags true`) no scope is
    renamed and every binding keeps its name — for every scope tree (every placement of `with`, every nesting), every
    naming and every name-generator configuration (same statement as C02 `keep_identity`, proved here from the C02
    lemmas so that C16 does not depend on the C02 property file) -/
theorem js_keep_var_names (c : Cfg) (ν : Naming) (t : Tree) :
    renameTree c ν (Tree.withFlags true t) = ν := by
  apply noneRenamed_id
  simp only [Tree.withFlags, Tree.toForest, all_node, Bool.not_true, Bool.not_false]
  exact ⟨trivial, computeFlags_keep _, rfl⟩

/-- JS `KeepVarNames` at the level of one `renameScope` call with the rename flag off: the old names in the old order -/
theorem js_keep_var_names_scope (c : Cfg) (sc : ScopeIn) :
    (renameScope c false sc).map (·.2) = sc.declared.map (·.1) ∧
    (renameScope c false sc).map (·.1) = List.range sc.declared.length := by
  simp only [renameScope, Bool.false_eq_true, if_false]
  constructor
  · rw [← List.unzip_snd, List.unzip_zip (by simp)]
  · rw [← List.unzip_fst, List.unzip_zip (by simp)]

/-- JS `Version` below 2020 in the C01 model of the rewriter: with the gate closed (`v20 = false`) the node rewriter
    of `minifyExpr` (`optimizeCondExpr` with all its rewrites — `c?x:y → c||y`, call merging, boolean bodies, De Morgan,
    nested and comma conditionals — and `optimizeUnaryExpr`) maps an expression without ES2020 syntax (`nn`: no `??`,
    no `??=`, no optional chain `a?.b` = `E.opt`) to one without: every expression, every precedence context, guarded
    or not.  Both producers — `a==null?b:a → a??b` and `a==null?undefined:a.b.c → a?.b.c` — sit in `toNullish`, which
    is consulted only when `v20` holds. -/
theorem js_version_no_new_nullish (g : Bool) (e : Verif.Spec.JsSyntax.E) (p : Nat) (r : Verif.Spec.JsSyntax.E)
    (he : Verif.Proofs.C16JsVersion.nn e = true) (h : Verif.Model.JsPrint.optNode g false e p = some r) :
    Verif.Proofs.C16JsVersion.nn r = true :=
  Verif.Proofs.C16JsVersion.nn_optNode g e p r he h

/-- the same for `optimizeCondExpr` on its three parts -/
theorem js_version_no_new_nullish_cond (g : Bool) (c x y : Verif.Spec.JsSyntax.E) (p : Nat) (r : Verif.Spec.JsSyntax.E)
    (hc : Verif.Proofs.C16JsVersion.nn c = true) (hx : Verif.Proofs.C16JsVersion.nn x = true)
    (hy : Verif.Proofs.C16JsVersion.nn y = true) (h : Verif.Model.JsOpt.optCond g false c x y p = some r) :
    Verif.Proofs.C16JsVersion.nn r = true :=
  Verif.Proofs.C16JsVersion.nn_optCond g c x y p r hc hx hy h

/-- non-vacuity: `a==null?b:a` and `a==null?undefined:a.b` use no ES2020 syntax; with the gate open the rewrites
    produce `a??b` resp. `a?.b`, with the gate closed the conditionals stay -/
example :
    let c := Verif.Spec.JsSyntax.E.bin .eq (.var "a") (.lit .null)
    Verif.Proofs.C16JsVersion.nn (.cond c (.var "b") (.var "a")) = true ∧
    (Verif.Model.JsOpt.optCond false true c (.var "b") (.var "a") 0).map Verif.Proofs.C16JsVersion.nn = some false ∧
    (Verif.Model.JsOpt.optCond false false c (.var "b") (.var "a") 0).map Verif.Proofs.C16JsVersion.nn = some true ∧
    Verif.Proofs.C16JsVersion.nn (.cond c (.var "undefined") (.dot (.var "a") "b")) = true ∧
    (Verif.Model.JsOpt.optCond false true c (.var "undefined") (.dot (.var "a") "b") 0).map Verif.Proofs.C16JsVersion.nn = some false ∧
    (Verif.Model.JsOpt.optCond false false c (.var "undefined") (.dot (.var "a") "b") 0).map Verif.Proofs.C16JsVersion.nn = some true := by
  decide +kernel

end Js

/-! ## HTML (`Verif.Model.Html`, the model of the token loop of `html/html.go`)

`pieces`: the bytes the model writes are the concatenation, in token order, of one piece per input token
(`Proofs/C16Html.lean`: `trace`, `run_eq_trace`).  Each option theorem says what the piece of a kept construct is —
for every token stream, every value of the other options, every sub-minifier `sub` and external-result table `ext`.
The lexer and `TokenBuffer` are by contract (C03). -/
section Html
open Verif.Model.Html Verif.Model.HtmlAttr Verif.Proofs.C16Html Verif.Proofs.C16HtmlOpt Verif.Gen

theorem ok_snd {a b : St × List Char} (h : (Except.ok a : Except String (St × List Char)) = .ok b) : a.2 = b.2 := by
  cases h; rfl

/-- the bytes written by one step (`none`: the step failed — an `ext` entry is missing) -/
def stepOut (r : Except String (St × List Char)) : Option (List Char) :=
  match r with
  | .ok (_, out) => some out
  | .error _ => none

/-- the output of the model is the concatenation of one piece per input token, in order -/
theorem html_pieces (o : Opts) (ext : Ext) (sub : Sub) (toks : List HTok) (out : List Char)
    (h : htmlMinify o ext sub toks = .ok out) :
    ∃ ps, trace o ext sub {} toks = .ok ps ∧ ps.map (·.tok) = toks ∧ out = flat ps := by
  unfold htmlMinify at h
  rw [run_eq_trace] at h
  cases ht : trace o ext sub {} toks with
  | error e => rw [ht] at h; cases h
  | ok ps =>
    rw [ht] at h
    simp only [Except.map] at h
    cases h
    exact ⟨ps, rfl, trace_toks o ext sub {} toks ps ht, rfl⟩

/-- the piece of a token that is not an end tag is produced with the skip flag off -/
theorem html_piece_step (o : Opts) (ext : Ext) (sub : Sub) (toks : List HTok) (ps : List Piece)
    (h : trace o ext sub {} toks = .ok ps) (p : Piece) (hp : p ∈ ps) :
    (∃ st', step o ext sub p.st p.tok p.rest = .ok (st', p.out)) ∧ (isEndTag p.tok = false → p.st.dropEnd = false) := by
  refine ⟨trace_step o ext sub {} toks ps h p hp, fun hne => ?_⟩
  cases hd : p.st.dropEnd with
  | false => rfl
  | true =>
    have := trace_dropEnd o ext sub {} toks ps h (fun h0 => by simp at h0) p hp hd
    rw [this] at hne; cases hne

/-- **`KeepComments`**: every comment token of the input is written byte for byte, in place — whole document,
    all other options, no side condition -/
theorem html_keep_comments (o : Opts) (ext : Ext) (sub : Sub) (toks : List HTok) (ps : List Piece)
    (hk : o.keepComments = true) (h : trace o ext sub {} toks = .ok ps) :
    ∀ p ∈ ps, ∀ data text, p.tok = .comment data text → p.out = data := by
  intro p hp data text ht
  obtain ⟨⟨st', hs⟩, hd⟩ := html_piece_step o ext sub toks ps h p hp
  rw [ht] at hs hd
  obtain ⟨st'', hs'⟩ := keep_comments_step o ext sub p.st data text p.rest hk (hd rfl)
  rw [hs'] at hs
  exact (ok_snd hs).symm

example : htmlMinify { keepComments := true } [] none
    [.startTag (s "p") [], .comment (s "<!-- a -->") (s " a "), .text (s "x") false] = .ok (s "<p><!-- a -->x") := by
  decide +kernel

/-- **`KeepSpecialComments`** (`KeepConditionalComments` is folded into it by `Minify`): every conditional
    comment (`[if …`, `…[endif]`) and every server-side include (`<!--#…-->`) of the input is kept in place —
    byte for byte, or, for a complete `<!--[if …]>inner<![endif]-->`, with `inner` replaced by its minified
    form (the recursive call: `ext`) between the unchanged opener and closer -/
theorem html_keep_special_comments (o : Opts) (ext : Ext) (sub : Sub) (toks : List HTok) (ps : List Piece)
    (hk : o.keepSpecialComments = true) (h : trace o ext sub {} toks = .ok ps) :
    ∀ p ∈ ps, ∀ data text, p.tok = .comment data text → (isSpecialComment text = true ∨ isSSI text = true) →
      SpecialKept ext data p.out := by
  intro p hp data text ht hsp
  obtain ⟨⟨st', hs⟩, hd⟩ := html_piece_step o ext sub toks ps h p hp
  rw [ht] at hs hd
  simp only [step, hd rfl, Bool.false_eq_true, if_false, bind, Except.bind] at hs
  split at hs
  · cases hs
  · next v hc =>
    have e := ok_snd hs
    simp only at e
    rw [← e]
    exact keep_special_commentOut o ext data text v hk hsp hc

example : isSpecialComment (s "[if IE]> x <![endif]") = true ∧ isSSI (s "#include x") = true ∧
    commentOut { keepSpecialComments := true } [(s "html", s " <p> x </p> ", s "<p>x")]
      (s "<!--[if IE]> <p> x </p> <![endif]-->") (s "[if IE]> <p> x </p> <![endif]") = .ok (s "<!--[if IE]><p>x<![endif]-->") := by
  decide +kernel

/-- **`KeepEndTags`** (full since 44fae7b; former K-C16-1): every end tag token of the input is written (`endTagBytes`:
    the tag with white space before `>` removed), in place — unless it belongs to an html/head/body/colgroup pair that
    is dropped as a whole, i.e. `isDroppedTag` and the start tag was not written (`docOpen`, see
    `html_keep_end_tags_pair`).  Whole document, all other options.  `p.st.dropEnd`: the end tag of an attribute-less
    empty `<script></script>`/`<style></style>`, which is removed as a whole element. -/
theorem html_keep_end_tags (o : Opts) (ext : Ext) (sub : Sub) (toks : List HTok) (ps : List Piece)
    (hk : o.keepEndTags = true) (h : trace o ext sub {} toks = .ok ps) :
    ∀ p ∈ ps, ∀ name data, p.tok = .endTag name data → p.st.dropEnd = false →
      (isDroppedTag o name = false ∨ p.st.docOpen.contains name = true) → p.out = endTagBytes name data := by
  intro p hp name data ht hd hopen
  obtain ⟨st', hs⟩ := trace_step o ext sub {} toks ps h p hp
  rw [ht] at hs
  obtain ⟨st'', hs'⟩ := end_step_kept o ext sub p.st name data p.rest hd hk hopen
  rw [hs'] at hs
  exact (ok_snd hs).symm

/-- **`KeepEndTags`**, the pairs: when a start tag is written (any element, html/head/body/colgroup included), the next
    end tag token of that name is written too — from every state, for every token stream and all other options -/
theorem html_keep_end_tags_pair (o : Opts) (ext : Ext) (sub : Sub) (st : St) (name : List Char) (attrs : List Attr)
    (rest : List HTok) (p : Piece) (pre : List Piece) (q : Piece) (post : List Piece) (data : List Char)
    (hk : o.keepEndTags = true)
    (h : trace o ext sub st (.startTag name attrs :: rest) = .ok (p :: (pre ++ q :: post)))
    (hout : p.out ≠ []) (hpre : ∀ x ∈ pre, ∀ d, x.tok ≠ .endTag name d)
    (hq : q.tok = .endTag name data) (hd : q.st.dropEnd = false) :
    q.out = endTagBytes name data := by
  obtain ⟨st', out, ps', hs, ht, e⟩ := trace_cons o ext sub st _ rest _ h
  simp only [List.cons.injEq] at e
  have hqs : ∃ st'', step o ext sub q.st q.tok q.rest = .ok (st'', q.out) :=
    trace_step o ext sub st' rest ps' ht q (by rw [← e.2]; simp)
  obtain ⟨st'', hqs⟩ := hqs
  rw [hq] at hqs
  have hopen : isDroppedTag o name = false ∨ q.st.docOpen.contains name = true := by
    cases hdr : isDroppedTag o name with
    | false => exact Or.inl rfl
    | true =>
      right
      have hpo : p.out = out := by rw [e.1]
      have hm := step_start_open o ext sub st st' name attrs rest out hk hdr hs (hpo ▸ hout)
      rw [← e.2] at ht
      simpa using trace_docOpen_mem o ext sub name pre st' rest q post ht hm hpre
  obtain ⟨st3, hs'⟩ := end_step_kept o ext sub q.st name data q.rest hd hk hopen
  rw [hs'] at hqs
  exact (ok_snd hqs).symm

example : htmlMinify { keepEndTags := true } [] none
    [.startTag (s "body") [{ name := s "class", val := s "a", data := s " class=a" }], .startTag (s "p") [],
     .text (s "x") false, .endTag (s "p") (s "</p>"), .endTag (s "body") (s "</body>")] = .ok (s "<body class=a><p>x</p></body>") ∧
    htmlMinify { keepEndTags := true } [] none
    [.startTag (s "body") [], .startTag (s "p") [],
     .text (s "x") false, .endTag (s "p") (s "</p>"), .endTag (s "body") (s "</body>")] = .ok (s "<p>x</p>") := by
  decide +kernel

/-- **`KeepDocumentTags`**: every `html`, `head` and `body` end tag is written, … -/
theorem html_keep_document_tags_end (o : Opts) (ext : Ext) (sub : Sub) (toks : List HTok) (ps : List Piece)
    (hk : o.keepDocumentTags = true) (h : trace o ext sub {} toks = .ok ps) :
    ∀ p ∈ ps, ∀ name data, p.tok = .endTag name data → (name = s "html" ∨ name = s "head" ∨ name = s "body") →
      p.st.dropEnd = false → p.out = endTagBytes name data := by
  intro p hp name data ht hn hd
  obtain ⟨st', hs⟩ := trace_step o ext sub {} toks ps h p hp
  rw [ht] at hs
  obtain ⟨n1, n2, n3, n4, _, _⟩ := doc_names name hn
  have hdrop : isDroppedTag o name = false := by rw [keep_document_tags_dropped o name hk, n1]
  have homit : omitEndTag o name p.rest = false := by simp [omitEndTag, n2, n3, n4]
  obtain ⟨st'', hs'⟩ := end_step_written o ext sub p.st name data p.rest hd hdrop homit
  rw [hs'] at hs
  exact (ok_snd hs).symm

/-- … and every `html`, `head` and `body` start tag is written as `<name` + attributes + `>` -/
theorem html_keep_document_tags_start (o : Opts) (ext : Ext) (sub : Sub) (toks : List HTok) (ps : List Piece)
    (hk : o.keepDocumentTags = true) (h : trace o ext sub {} toks = .ok ps) :
    ∀ p ∈ ps, ∀ name attrs, p.tok = .startTag name attrs → (name = s "html" ∨ name = s "head" ∨ name = s "body") →
      ∃ aout, p.out = '<' :: name ++ aout ++ ['>'] := by
  intro p hp name attrs ht hn
  obtain ⟨⟨st', hs⟩, hd⟩ := html_piece_step o ext sub toks ps h p hp
  rw [ht] at hs hd
  obtain ⟨n1, _, _, _, n5, n6⟩ := doc_names name hn
  have hdrop : isDroppedTag o name = false := by rw [keep_document_tags_dropped o name hk, n1]
  have hraw : emptyRawElement name attrs p.rest = false := by simp [emptyRawElement, n5, n6]
  simp only [step, hd rfl, Bool.false_eq_true, if_false, hraw, hdrop, Bool.and_false, bind, Except.bind] at hs
  split at hs
  · cases hs
  · split at hs
    · cases hs
    · exact ⟨_, (ok_snd hs).symm⟩

example : htmlMinify { keepDocumentTags := true } [] none
    [.startTag (s "html") [], .startTag (s "head") [], .endTag (s "head") (s "</head>"), .startTag (s "body") [],
     .text (s "x") false, .endTag (s "body") (s "</body>"), .endTag (s "html") (s "</html >")] =
      .ok (s "<html><head></head><body>x</body></html>") ∧
    htmlMinify {} [] none
    [.startTag (s "html") [], .startTag (s "head") [], .endTag (s "head") (s "</head>"), .startTag (s "body") [],
     .text (s "x") false, .endTag (s "body") (s "</body>"), .endTag (s "html") (s "</html >")] = .ok (s "x") := by
  decide +kernel

/-- **`KeepQuotes`**, the quoting function: a value that was quoted in the input (`origQuote ≠ none`) is written
    quoted whatever its content; with the original quote character and byte for byte when the value does not
    contain that character -/
theorem html_keep_quotes_value (b : List Char) (q : Quote) (hq : q ≠ .none) :
    ∃ c body, isQuoteChar c = true ∧ escapeAttrVal b q true = c :: body ++ [c] ∧
      (b.count q.char = 0 → c = q.char ∧ body = b) :=
  keep_quotes_escape b q hq

/-- **`KeepQuotes`**, one attribute of the write loop: for every attribute that was quoted in the input (and is
    neither dropped nor a template), with all other options arbitrary, what is written is nothing (the attribute is
    dropped), the bare name (the processed value is empty or the attribute is boolean), or ` name=` followed by a
    value in quotes -/
theorem html_keep_quotes (o : Opts) (ext : Ext) (sub : Sub) (tag rawTag : List Char) (x : AttrSt)
    (out : List Char) (mt : Option (List Char)) (hk : o.keepQuotes = true) (hx : x.keep = true)
    (ht : x.a.tmpl = false) (hq : origQuote x.a.data ≠ .none)
    (h : writeAttr o ext sub tag rawTag x = .ok (out, mt)) :
    out = [] ∨ out = ' ' :: x.name ∨
      ∃ c body, isQuoteChar c = true ∧ out = ' ' :: x.name ++ '=' :: c :: body ++ [c] := by
  rcases (writeAttr_shape o ext sub tag rawTag x out mt hx ht h).1 with h0 | ⟨val, hv⟩
  · exact Or.inl h0
  · split at hv
    · obtain ⟨c, body, hc, he, _⟩ := keep_quotes_escape val _ hq
      simp only [hk, Bool.true_or] at hv
      rw [he] at hv
      exact Or.inr (Or.inr ⟨c, body, hc, by simpa using hv⟩)
    · exact Or.inr (Or.inl (by simpa using hv))

example : writeAttr { keepQuotes := true } [] none (s "a") []
      (AttrSt.ofAttr { name := s "title", val := s "x", data := s " title=\"x\"" }) = .ok (s " title=\"x\"", none) ∧
    writeAttr {} [] none (s "a") []
      (AttrSt.ofAttr { name := s "title", val := s "x", data := s " title=\"x\"" }) = .ok (s " title=x", none) := by
  decide +kernel

/-- **`KeepDefaultAttrVals`**, the write loop: with the option set an attribute is dropped by the write loop only for
    one of the reasons that have nothing to do with defaults (`nonDefaultDrop`: empty `class`/`dir`/`id`/`name`/form
    `action`; `style`/event handler whose minified content is empty) — never by the default-value table -/
theorem html_keep_default_attrvals (o : Opts) (ext : Ext) (sub : Sub) (tag rawTag : List Char) (x : AttrSt)
    (out : List Char) (mt : Option (List Char)) (hk : o.keepDefaultAttrVals = true) (hx : x.keep = true)
    (ht : x.a.tmpl = false) (h : writeAttr o ext sub tag rawTag x = .ok (out, mt)) (hout : out = []) :
    nonDefaultDrop tag x = true :=
  (writeAttr_shape o ext sub tag rawTag x out mt hx ht h).2 hk hout

example : writeAttr { keepDefaultAttrVals := true } [] none (s "form") []
      (AttrSt.ofAttr { name := s "method", val := s "get", data := s " method=get" }) = .ok (s " method=get", none) ∧
    writeAttr {} [] none (s "form") []
      (AttrSt.ofAttr { name := s "method", val := s "get", data := s " method=get" }) = .ok ([], none) := by
  decide +kernel

/-- **`KeepDefaultAttrVals`, `input`** (full since c5a4469; former K-C16-2): with the option the special case that
    removes a default `value` (`""` for the text-like types, `on` for `radio`) is switched off — every attribute of an
    `input` element reaches the write loop; for all other elements the special cases do not depend on the option -/
theorem html_keep_default_input (o : Opts) (ext : Ext) (hk : o.keepDefaultAttrVals = true) :
    (∀ as : List AttrSt, specialAttrsOpt o ext (s "input") as = .ok as) ∧
    (∀ (o' : Opts) (tag : List Char) (as : List AttrSt), hashIs tag "input" = false →
      specialAttrsOpt o' ext tag as = specialAttrs ext tag as) :=
  ⟨fun as => specialAttrsOpt_input o ext as hk, fun o' tag as h => specialAttrsOpt_other o' ext tag as h⟩

example : htmlMinify { keepDefaultAttrVals := true } [] none
    [.startTag (s "input") [{ name := s "type", val := s "text", data := s " type=text" },
                             { name := s "value", val := [], data := s " value=\"\"" }]] = .ok (s "<input type=text value>") ∧
    htmlMinify {} [] none
    [.startTag (s "input") [{ name := s "type", val := s "text", data := s " type=text" },
                             { name := s "value", val := [], data := s " value=\"\"" }]] = .ok (s "<input>") := by
  decide +kernel

/-- **`KeepWhitespace`**, text: the collapsed text (runs of white space → one byte, references replaced) is
    written, except that (a) one leading white-space byte is dropped only if the pending-space flag is set and (b)
    one trailing white-space byte only if nothing but white space and comments follow up to the end of the document
    (or the token was white space only) -/
theorem html_keep_whitespace_text (om : Bool) (data : List Char) (rest : List HTok) :
    ∃ lead trail, textCollapsed data = lead ++ (textNormal true om data rest).2 ++ trail ∧
      lead.length ≤ 1 ∧ trail.length ≤ 1 ∧ lead.all isWhitespace = true ∧ trail.all isWhitespace = true ∧
      (lead ≠ [] → om = true) ∧ (trail ≠ [] → onlyWsToEnd rest = true ∨ (textNormal true om data rest).2 = []) :=
  keepws_textNormal om data rest

/-- **`KeepWhitespace`**, the pending-space flag: (a) every start or end tag that is written clears it, block or
    not; (b) the text branch sets it only when what it wrote ends with white space (or it wrote nothing).  So a
    leading white-space byte is dropped only directly after white space that was kept, or at the start of the document -/
theorem html_keep_whitespace_flag (o : Opts) (hk : o.keepWhitespace = true) :
    (∀ name cur, updOmitSpace o name cur = false) ∧
    (∀ om data rest, (textNormal true om data rest).1 = true →
      (textNormal true om data rest).2 = [] ∨
        ∃ l, (textNormal true om data rest).2.getLast? = some l ∧ isWhitespace l = true) :=
  ⟨fun name cur => keepws_updOmitSpace o name cur hk, fun om data rest h => keepws_textNormal_flag true om data rest h⟩

example : htmlMinify { keepWhitespace := true } [] none
    [.startTag (s "p") [], .text (s "a ") false, .startTag (s "b") [], .text (s " b ") false, .endTag (s "b") (s "</b>"),
     .text (s " c") false, .endTag (s "p") (s "</p>"), .text (s "  ") false, .startTag (s "p") [], .text (s " d ") false] =
      .ok (s "<p>a <b> b </b> c <p> d") ∧
    htmlMinify {} [] none
    [.startTag (s "p") [], .text (s "a ") false, .startTag (s "b") [], .text (s " b ") false, .endTag (s "b") (s "</b>"),
     .text (s " c") false, .endTag (s "p") (s "</p>"), .text (s "  ") false, .startTag (s "p") [], .text (s " d ") false] =
      .ok (s "<p>a <b>b </b>c<p>d") := by
  decide +kernel

/-- **`TemplateDelims`** (the lexer marks the tokens that contain a template expression: by contract): a template
    token and an attribute with a template expression are written byte for byte — for all options -/
theorem html_template_verbatim (o : Opts) (ext : Ext) (sub : Sub) :
    (∀ (toks : List HTok) (ps : List Piece), trace o ext sub {} toks = .ok ps →
      ∀ p ∈ ps, ∀ data, p.tok = .template data → p.out = data) ∧
    (∀ tag rawTag (x : AttrSt), x.keep = true → x.a.tmpl = true →
      writeAttr o ext sub tag rawTag x = .ok (x.a.data, none)) := by
  refine ⟨?_, fun tag rawTag x hx ht => writeAttr_template o ext sub tag rawTag x hx ht⟩
  intro toks ps h p hp data ht
  obtain ⟨⟨st', hs⟩, hd⟩ := html_piece_step o ext sub toks ps h p hp
  rw [ht] at hs hd
  simp only [step, hd rfl, Bool.false_eq_true, if_false] at hs
  exact (ok_snd hs).symm

end Html

/-! ## SVG (`Verif.Model.SvgDoc`, the C05B model of the document loop of `svg.Minify`) -/
section Svg
open Verif.Model.SvgDoc Verif.SvgDoc Verif.Proofs.C16Svg

/-- SVG `KeepComments`: a comment token that the loop meets is planned — and (`fillAt`) written — as it is, whatever
    the state, `Inline` and the number printer.  (Tokens the loop never looks at — the inside of `metadata`, of
    foreign-prefixed elements, of an empty `defs`, of the XML declaration — are skipped with their element for every
    option; inside `foreignObject` everything, comments included, is copied verbatim for every option.) -/
theorem svg_keep_comments (num : List Char → List Char) (inl : Bool) (st : St) (d : List Char) (r : List STok)
    (e : Env) (br : Nat) :
    plan num ⟨true, inl⟩ st 0 (.comment d :: r) = PTok.tok (.comment d) :: plan num ⟨true, inl⟩ st 0 r ∧
    (fillAt e br (.tok (.comment d))).1 = .comment d :=
  ⟨plan_comment num inl st d r, rfl⟩

/-- SVG `KeepComments` does nothing else: what is written without the option is a subsequence of what is written with
    it, and apart from comment tokens both runs plan exactly the same tokens — every token stream, state, look-ahead
    counter -/
theorem svg_keep_comments_only (num : List Char → List Char) (inl : Bool) (ts : List STok) (st : St) (k : Nat) :
    List.Sublist (plan num ⟨false, inl⟩ st k ts) (plan num ⟨true, inl⟩ st k ts) ∧
    (plan num ⟨true, inl⟩ st k ts).filter notComment = (plan num ⟨false, inl⟩ st k ts).filter notComment :=
  ⟨plan_sublist num inl ts st k, plan_filter num inl ts st k⟩

example :
    let ts : List STok := [.startTag "svg".toList, .startTagClose, .comment "<!-- a -->".toList, .startTag "g".toList,
      .startTagCloseVoid, .endTag "</svg>".toList "svg".toList]
    let e : Env := ⟨fun _ _ _ => none, id, id⟩
    svgMinify e ⟨true, false⟩ ts = "<svg><!-- a --><g/></svg>".toList ∧
    svgMinify e ⟨false, false⟩ ts = "<svg><g/></svg>".toList := by
  decide +kernel

end Svg

/-! ## the guarantees of the other properties under every option combination

The main theorems of C01–C08 whose statements are universally quantified over the option record of their minifier
(or over the parameter through which the option enters the model), restated here with the quantifier in front.  For
C01–C03 they are derived from the lemmas in `Proofs/` (not from `Props/C0x`, which are being adapted to the
current `/repo`); docs/C16.md lists, per property, which theorem is option-universal and which fixes options. -/

/-- C03 whitespace refinement: every `Opts` (all `Keep*` masks), every sub-minifier and `ext` table -/
theorem html_ws_refine_all_options (o : Verif.Model.Html.Opts) (ext : Verif.Model.Html.Ext) (sub : Verif.Model.Html.Sub)
    (toks : List Verif.Model.Html.HTok) (g : Verif.Proofs.HtmlWs.guard o ext sub {} [] toks = true) :
    Verif.Spec.HtmlWs.WsRefine (Verif.Proofs.HtmlWs.inOut o ext sub {} toks).1 (Verif.Proofs.HtmlWs.inOut o ext sub {} toks).2 :=
  Verif.Proofs.HtmlWs.ws_refine_core o ext sub toks {} [] (fun _ _ => rfl) g
section JsAll
open Verif.Spec.Scope Verif.Model.Rename Verif.Proofs.Rename
/-- C02 capture freedom for the scope trees js.go produces, `keep` = `KeepVarNames`, both values (the statement of
    C02 `capture_free_js`; derived here from the C02 traversal lemmas `main`, `resolve_ok`, `computeFlags_flagsOk`) -/
theorem js_capture_free_all_options (c : Cfg) (ok : CfgOk c) (ν : Naming) (keep : Bool) (t : Tree)
    (hwf : wfTree (Tree.withFlags keep t) = true)
    (hin : inputOk ν (Tree.withFlags keep t).toForest = true) :
    ∀ o ∈ (Tree.withFlags keep t).toForest.occs,
      resolve (renameTree c ν (Tree.withFlags keep t)) o.1 (renameTree c ν (Tree.withFlags keep t) o.2) =
        resolveId o.1 o.2 := by
  have hflags : flagsOk (Tree.withFlags keep t).toForest = true := by
    simp only [Tree.withFlags, Tree.toForest, flagsOk, Bool.false_eq_true, if_false, Bool.and_true]
    apply computeFlags_flagsOk
    intro h
    simp only [Bool.and_eq_true, Bool.not_eq_true', Bool.or_eq_false_iff] at h
    exact ⟨h.1, h.2.2⟩
  generalize Tree.withFlags keep t = t' at hwf hin hflags ⊢
  simp only [wfTree, wfForest, Bool.and_eq_true, decide_eq_true_eq] at hwf
  have hcl : Closed t'.toForest := by
    intro x hx
    simp only [Tree.toForest] at hx ⊢
    rw [mem_free_node] at hx
    have hx' : x ∈ Forest.freeScope t'.root t'.children := by
      rcases hx with hx | hx
      · exact hx
      · simp [Forest.free] at hx
    have hs := scopeOk_iff.1 ((all_node _ _ _ _).1 hwf.2).1
    rw [decls_node]
    simp only [Forest.decls, List.append_nil, List.mem_append, not_or]
    exact ⟨(mem_freeScope.1 hx').2, hs.2 x hx'⟩
  have hall := main c ok ν t'.toForest ν true hwf.1 hwf.2 hcl (by simp) (fun _ => hflags)
    (fun _ _ _ => rfl) (fun _ => hin)
  intro o ho
  exact (resolve_ok (renameForest c ν t'.toForest) t'.toForest hall o ho).1
end JsAll
/-- C01 rewrite soundness: `v20` = `minVersion(2020)`, both values -/
theorem js_rewrite_sound_all_versions : type_of% @Verif.Proofs.JsMinSound.minEG_sound := @Verif.Proofs.JsMinSound.minEG_sound
/-- C06 infoset and well-formedness: every `XmlOpts` (`KeepWhitespace`) -/
theorem xml_infoset_all_options : type_of% @Verif.Props.C06.xml_infoset := @Verif.Props.C06.xml_infoset
theorem xml_wellformed_all_options : type_of% @Verif.Props.C06.xml_wellformed := @Verif.Props.C06.xml_wellformed
/-- C07 main theorem: every `JsonOpts` (`KeepNumbers`, `Precision` through the hypotheses on `num`) -/
theorem json_main_all_options : type_of% @Verif.Props.C07.C07_main := @Verif.Props.C07.C07_main
/-- C04 pass-through of unknown properties: every `Opts` (`KeepCSS2`) -/
theorem css_passthrough_all_options : type_of% @Verif.Props.C04.passthrough_property := @Verif.Props.C04.passthrough_property
/-- C05 path geometry: every pair of number printers (`Precision`, `newPrecision`) that satisfies the exactness contract -/
theorem svg_path_geometry_all_printers : type_of% @Verif.Props.C05.path_geometry_partial := @Verif.Props.C05.path_geometry_partial
/-- C05 path output parses: every pair of number printers whose results are number lexemes (C08: every precision) -/
theorem svg_path_parses_all_printers : type_of% @Verif.Props.C05.shorten_output_parses_of_contract :=
  @Verif.Props.C05.shorten_output_parses_of_contract
/-- C08 grammar and length: every precision -/
theorem number_grammar_all_precisions : type_of% @Verif.Props.C08.number_grammar := @Verif.Props.C08.number_grammar
theorem number_length_all_precisions : type_of% @Verif.Props.C08.number_length := @Verif.Props.C08.number_length

end Verif.Props.C16

import Verif.Model.Options
import Verif.Gen.CliFlags
import Verif.Gen.JsVersionGates
import Verif.Props.C07
import Verif.Props.C06
/-!
# C16 — options only restrict minification and are honoured

* the version gate: a decision-model theorem plus the regenerated list of guard sites;
* the CLI flag table regenerated from `cmd/minify/main.go`;
* per-option "kept ⇒ unchanged" theorems, re-exported from the per-language models (they are universally
  quantified over the option records there): JSON `KeepNumbers`, XML `KeepWhitespace`, … (the list grows as the
  HTML/CSS/SVG/JS models are merged; see docs/C16.md).
-/
namespace Verif.Props.C16
open Verif.Model.Options

/-- **Version gate.** If the output uses a feature that is newer than the (non-zero) target edition,
    the input already used it — for every feature, target and applicability of the rewrite. -/
theorem version_gate (target : Nat) (f : Feature) (inputHas rw : Bool)
    (ht : target ≠ 0) (hnew : target < f.since) (he : emits target f inputHas rw = true) :
    inputHas = true := by
  cases inputHas with
  | true => rfl
  | false =>
    have hg : guardOf f = f.since := by cases f <;> rfl
    simp only [emits, Bool.false_or, Bool.and_eq_true, minVersion, Bool.or_eq_true, beq_iff_eq,
      decide_eq_true_eq, hg] at he
    rcases he.2 with h | h
    · exact absurd h ht
    · omega

/-- target 0 means "latest": every rewrite is allowed (non-vacuity of the gate's other branch) -/
example : emits 0 .nullish false true = true := by decide
example : emits 2019 .nullish false true = false := by decide
example : emits 2019 .nullish true false = true := by decide

/-- the guard sites in the source are exactly the four modelled ones, and every producer of newer syntax is
    one of: print-through of input syntax (`?.` is only printed for nodes that carry the Optional flag — the three `no-gate`
    sites; the one function that SETS that flag, toNullishExpr, is called inside the body of the minVersion(2020) gate), or a
    rewrite inside the body of its gate -/
theorem gates_ok :
    Verif.Gen.JsVersionGates.gates =
      ["jsMinifier.minifyExpr: minVersion(2015)", "jsMinifier.minifyExpr: minVersion(2016)",
       "jsMinifier.minifyStmt: minVersion(2019)", "jsMinifier.optimizeCondExpr: minVersion(2020)"] ∧
    Verif.Gen.JsVersionGates.producers =
      ["jsMinifier.minifyAlias: minifyString allowTemplate=false", "jsMinifier.minifyAlias: minifyString allowTemplate=false",
       "jsMinifier.minifyExpr: minifyString allowTemplate=m.o.minVersion(2015)",
       "jsMinifier.minifyExpr: write(expBytes) inside minVersion(2016)",
       "jsMinifier.minifyExpr: write(optChainBytes) inside no-gate", "jsMinifier.minifyExpr: write(optChainBytes) inside no-gate",
       "jsMinifier.minifyExpr: write(optChainBytes) inside no-gate", "jsMinifier.minifyPropertyName: minifyString allowTemplate=false",
       "jsMinifier.minifyStmt: minifyString allowTemplate=false", "jsMinifier.minifyStmt: minifyString allowTemplate=false",
       "jsMinifier.optimizeCondExpr: toNullishExpr inside minVersion(2020)"] := by decide

/-- every CLI flag is bound to the option field its name says -/
theorem cli_flags_ok : Verif.Gen.CliFlags.flags =
    ["css-precision=cssMinifier.Precision", "html-keep-comments=htmlMinifier.KeepComments",
     "html-keep-conditional-comments=htmlMinifier.KeepConditionalComments",
     "html-keep-default-attrvals=htmlMinifier.KeepDefaultAttrVals", "html-keep-document-tags=htmlMinifier.KeepDocumentTags",
     "html-keep-end-tags=htmlMinifier.KeepEndTags", "html-keep-quotes=htmlMinifier.KeepQuotes",
     "html-keep-special-comments=htmlMinifier.KeepSpecialComments", "html-keep-whitespace=htmlMinifier.KeepWhitespace",
     "js-keep-var-names=jsMinifier.KeepVarNames", "js-precision=jsMinifier.Precision", "js-version=jsMinifier.Version",
     "json-keep-numbers=jsonMinifier.KeepNumbers", "json-precision=jsonMinifier.Precision",
     "svg-keep-comments=svgMinifier.KeepComments", "svg-precision=svgMinifier.Precision",
     "xml-keep-whitespace=xmlMinifier.KeepWhitespace"] := by decide

/-- every exported option is either reachable from the CLI or one of the documented library-only options -/
def libraryOnly : List String := ["css.Inline", "css.KeepCSS2", "html.TemplateDelims", "svg.Inline"]

def cliBound : List String :=
  ["css.Precision", "html.KeepComments", "html.KeepConditionalComments", "html.KeepDefaultAttrVals",
   "html.KeepDocumentTags", "html.KeepEndTags", "html.KeepQuotes", "html.KeepSpecialComments", "html.KeepWhitespace",
   "js.KeepVarNames", "js.Precision", "js.Version", "json.KeepNumbers", "json.Precision", "svg.KeepComments",
   "svg.Precision", "xml.KeepWhitespace"]

theorem options_covered :
    Verif.Gen.CliFlags.optionFields.all (fun f => libraryOnly.contains f || cliBound.contains f) = true := by decide

/-! ## per-option theorems (re-exported) -/

/-- JSON `KeepNumbers`: every lexeme, numbers included, is byte-identical — for every value, decoration and whatever `Number` does -/
theorem json_keep_numbers : type_of% @Verif.Props.C07.C07_keepNumbers := @Verif.Props.C07.C07_keepNumbers

/-- XML `KeepWhitespace`: a space next to a tag is never removed entirely (partial: guards of C06) -/
theorem xml_keep_whitespace : type_of% @Verif.Props.C06.keep_ws_never_removed := @Verif.Props.C06.keep_ws_never_removed

end Verif.Props.C16

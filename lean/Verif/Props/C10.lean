import Verif.Proofs.TokenBuffer
import Verif.Model.Api
import Verif.Gen.ApiFacts
/-!
# C10 — totality: the look-ahead buffers never index out of range and refine the token stream

`peek_spec`/`shift_spec`: under the representation invariant `Inv` (established by `init_inv`,
preserved by both operations — so it holds after EVERY sequence of Peek/Shift calls, `script_inv`),
`Peek(i)` and `Shift()` never take a panicking branch (`none`), `Peek(i)` returns the token at stream
position `next + i` (clipped at the sticky error token), leaves the logical stream position unchanged,
and `Shift()` returns the token at `next` and advances by one.
-/
namespace Verif.Props.C10
open Verif.Model.TokenBuffer Verif.Proofs.TokenBuffer

theorem init_inv (E : Nat) : Inv E init :=
  { pos_le := by simp [init], len_le := by simp [init], cap_pos := by simp [init], cons_ge := by simp [init],
    live := by intro j _ h; simp [init] at h, stale := by intro j h; simp [init] at h }

theorem lexTok_eq_E {E n : Nat} : lexTok E n = E ↔ E ≤ n := by
  unfold lexTok; omega

theorem lexTok_E_of_le {E n m : Nat} (h : lexTok E n = E) (hnm : n ≤ m) : lexTok E m = E := by
  rw [lexTok_eq_E] at *; omega

/-- **Peek refines the stream and is index-safe.** -/
theorem peek_spec (E : Nat) (b : TB) (i : Nat) (hI : Inv E b) :
    ∃ b', peek E b i = some (b', lexTok E (next b + i)) ∧ Inv E b' ∧ next b' = next b ∧
      (lexTok E (next b + i) ≠ E → b'.pos + i < b'.buf.length) := by
  obtain ⟨hpos, hlen, hcap, hcons, hlive, hstale⟩ := hI
  unfold peek
  simp only
  by_cases h1 : i + b.pos < b.buf.length
  · -- the token is already buffered
    rw [if_pos h1]
    have hl := hlive (i + b.pos) (by omega) h1
    refine ⟨b, ?_, ⟨hpos, hlen, hcap, hcons, hlive, hstale⟩, rfl, fun _ => by omega⟩
    rw [hl]
    simp only [Option.map_some, next]
    congr 3; omega
  · rw [if_neg h1]
    by_cases h2 : 0 < b.buf.length ∧ b.buf[b.buf.length - 1]? = some E
    · -- the buffer ends in the error token: no further read
      rw [if_pos h2]
      obtain ⟨hl0, hlast⟩ := h2
      have hE : lexTok E (next b + i) = E := by
        by_cases hs : b.buf.length - 1 < b.pos
        · obtain ⟨n, hn, hbn⟩ := hstale (b.buf.length - 1) hs (by omega)
          rw [hlast] at hbn
          have : lexTok E n = E := by injection hbn with e; exact e.symm
          exact lexTok_E_of_le this (by omega)
        · have hl := hlive (b.buf.length - 1) (by omega) (by omega)
          rw [hlast] at hl
          have : lexTok E (b.consumed - (b.buf.length - (b.buf.length - 1))) = E := by
            injection hl with e; exact e.symm
          exact lexTok_E_of_le this (by unfold next; omega)
      refine ⟨b, by rw [hE], ⟨hpos, hlen, hcap, hcons, hlive, hstale⟩, rfl, fun hne => absurd hE hne⟩
    · rw [if_neg h2]
      -- read (i+1) - d further tokens
      have hbound : b.buf.length - b.pos ≤ (if 2 * (i + 1) > b.cap then 2 * b.cap + (i + 1) else b.cap) ∧
          i + 1 ≤ (if 2 * (i + 1) > b.cap then 2 * b.cap + (i + 1) else b.cap) ∧ b.pos ≤ b.buf.length := by
        split <;> omega
      rw [if_pos hbound]
      generalize hnew : readUpTo E b.consumed (i + 1 - (b.buf.length - b.pos)) = new
      have hn0 : 0 < i + 1 - (b.buf.length - b.pos) := by omega
      have hnlen : new.length ≤ i + 1 - (b.buf.length - b.pos) := by rw [← hnew]; exact readUpTo_length_le _ _ _
      have hnpos : 0 < new.length := by rw [← hnew]; exact readUpTo_pos _ _ _ hn0
      have hnget : ∀ k, k < new.length → new[k]? = some (lexTok E (b.consumed + k)) := by
        intro k hk; rw [← hnew] at hk ⊢; exact readUpTo_get _ _ _ _ hk
      -- every entry of the new buffer is the stream token at next + k
      have hbuf : ∀ k, k < (List.drop b.pos b.buf ++ new).length →
          (List.drop b.pos b.buf ++ new)[k]? = some (lexTok E (next b + k)) := by
        intro k hk
        simp only [List.length_append, List.length_drop] at hk
        by_cases hkd : k < b.buf.length - b.pos
        · rw [List.getElem?_append_left (by simp only [List.length_drop]; exact hkd), List.getElem?_drop]
          rw [hlive (b.pos + k) (by omega) (by omega)]
          unfold next; congr 2; omega
        · rw [List.getElem?_append_right (by simp only [List.length_drop]; omega)]
          simp only [List.length_drop]
          rw [hnget _ (by omega)]
          unfold next; congr 2; omega
      have hlen' : (List.drop b.pos b.buf ++ new).length = (b.buf.length - b.pos) + new.length := by
        simp [List.length_append, List.length_drop]
      rcases (hnew ▸ readUpTo_last E b.consumed _ hn0 : new.getLast? = some E ∨ (new.getLast? ≠ some E ∧ new.length = _)) with hstop | ⟨hnostop, hfull⟩
      · -- stopped at the error token
        simp only [hstop, if_true]
        have hidx : (List.drop b.pos b.buf ++ new).length - 1 < (List.drop b.pos b.buf ++ new).length := by omega
        have hlastE : lexTok E (next b + ((List.drop b.pos b.buf ++ new).length - 1)) = E := by
          have hg := hnget (new.length - 1) (by omega)
          rw [← getLast?_eq_get, hstop] at hg
          have e : lexTok E (b.consumed + (new.length - 1)) = E := by injection hg with e; exact e.symm
          exact lexTok_E_of_le e (by unfold next; omega)
        have hE : lexTok E (next b + i) = E := lexTok_E_of_le hlastE (by omega)
        rw [hbuf _ hidx, hlastE, hE]
        refine ⟨_, rfl, ?_, ?_, fun hne => absurd rfl hne⟩
        · refine ⟨by simp, ?_, ?_, ?_, ?_, ?_⟩
          · simp only; split <;> omega
          · simp only; split <;> omega
          · simp only; omega
          · intro j _ hj
            simp only at hj ⊢
            rw [hbuf j hj]; unfold next; congr 2; omega
          · intro j hj; simp at hj
        · simp only [next]; omega
      · -- ran to completion: the buffer now holds exactly i+1 tokens
        simp only [hnostop, if_false]
        have hi : i < (List.drop b.pos b.buf ++ new).length := by omega
        rw [hbuf i hi]
        refine ⟨_, rfl, ?_, ?_, fun _ => by simp only; omega⟩
        · refine ⟨by simp, ?_, ?_, ?_, ?_, ?_⟩
          · simp only; split <;> omega
          · simp only; split <;> omega
          · simp only; omega
          · intro j _ hj
            simp only at hj ⊢
            rw [hbuf j hj]; unfold next; congr 2; omega
          · intro j hj; simp at hj
        · simp only [next]; omega

/-- **Shift refines the stream and is index-safe.** -/
theorem shift_spec (E : Nat) (b : TB) (hI : Inv E b) :
    ∃ b', shift E b = some (b', lexTok E (next b)) ∧ Inv E b' ∧ next b' = next b + 1 := by
  obtain ⟨hpos, hlen, hcap, hcons, hlive, hstale⟩ := hI
  unfold shift
  by_cases h : b.pos ≥ b.buf.length
  · rw [if_pos h, if_pos hcap]
    have hpl : b.pos = b.buf.length := by omega
    have hnext : next b = b.consumed := by unfold next; omega
    dsimp only
    generalize hnb : (if 0 < b.buf.length then b.buf.set 0 (lexTok E b.consumed) else b.buf) = nb
    have hnbl : nb.length = b.buf.length := by rw [← hnb]; split <;> simp
    have hnx : next { buf := nb, pos := b.pos, cap := b.cap, consumed := b.consumed + 1 } = b.consumed + 1 := by
      unfold next; simp only [hnbl]; omega
    refine ⟨_, by rw [hnext], ?_, by rw [hnx, hnext]⟩
    refine ⟨by simp only [hnbl]; omega, by simp only [hnbl]; omega, hcap, by simp only [hnbl]; omega, ?_, ?_⟩
    · intro j hj1 hj2
      simp only [hnbl] at hj1 hj2; omega
    · intro j hj1 hj2
      simp only [hnbl] at hj1 hj2
      rw [hnx]
      by_cases hl0 : 0 < b.buf.length
      · by_cases hj0 : j = 0
        · subst hj0
          refine ⟨b.consumed, by omega, ?_⟩
          simp only
          rw [← hnb, if_pos hl0]
          simp [hl0]
        · obtain ⟨n, hn, hbn⟩ := hstale j hj1 hj2
          refine ⟨n, by omega, ?_⟩
          simp only
          rw [← hnb, if_pos hl0, List.getElem?_set]
          have : ¬ (0 = j) := fun e => hj0 e.symm
          simp [this, hbn]
      · omega
  · rw [if_neg h]
    have hl := hlive b.pos (Nat.le_refl _) (by omega)
    rw [hl]
    have hnx : next { buf := b.buf, pos := b.pos + 1, cap := b.cap, consumed := b.consumed } = next b + 1 := by
      unfold next; simp only; omega
    refine ⟨_, by simp [next], ?_, hnx⟩
    refine ⟨by simp only; omega, hlen, hcap, by simp only; omega, ?_, ?_⟩
    · intro j hj1 hj2
      simp only at hj1 hj2 ⊢
      exact hlive j (by omega) hj2
    · intro j hj1 hj2
      simp only at hj1 hj2 ⊢
      rw [hnx]
      by_cases hjp : j = b.pos
      · subst hjp; exact ⟨next b, by omega, by rw [hl]; rfl⟩
      · obtain ⟨n, hn, hbn⟩ := hstale j (by omega) hj2
        exact ⟨n, by omega, hbn⟩

/-! ## every script of operations -/

inductive Op where
  | peek (i : Nat) | shift
  deriving Repr, DecidableEq

/-- run a script; `none` = a panic somewhere -/
def runScript (E : Nat) : TB → List Op → Option (TB × List Nat)
  | b, [] => some (b, [])
  | b, .peek i :: r => match peek E b i with
    | some (b', t) => (runScript E b' r).map (fun (bb, ts) => (bb, t :: ts))
    | none => none
  | b, .shift :: r => match shift E b with
    | some (b', t) => (runScript E b' r).map (fun (bb, ts) => (bb, t :: ts))
    | none => none

/-- the reference: a stream with a cursor -/
def specScript (E : Nat) : Nat → List Op → List Nat
  | _, [] => []
  | n, .peek i :: r => lexTok E (n + i) :: specScript E n r
  | n, .shift :: r => lexTok E n :: specScript E (n + 1) r

/-- **C10 buffers, main.** For every error position `E` and EVERY script of Peek/Shift calls, starting
    from `NewTokenBuffer`, no call panics and the returned tokens are exactly those of a plain cursor
    over the token stream. -/
theorem script_refines (E : Nat) (ops : List Op) (b : TB) (hI : Inv E b) :
    ∃ b', runScript E b ops = some (b', specScript E (next b) ops) ∧ Inv E b' := by
  induction ops generalizing b with
  | nil => exact ⟨b, rfl, hI⟩
  | cons op r ih =>
    cases op with
    | peek i =>
      obtain ⟨b1, h1, hI1, hn1, _⟩ := peek_spec E b i hI
      obtain ⟨b2, h2, hI2⟩ := ih b1 hI1
      refine ⟨b2, ?_, hI2⟩
      simp only [runScript, h1, h2, specScript, hn1, Option.map_some]
    | shift =>
      obtain ⟨b1, h1, hI1, hn1⟩ := shift_spec E b hI
      obtain ⟨b2, h2, hI2⟩ := ih b1 hI1
      refine ⟨b2, ?_, hI2⟩
      simp only [runScript, h1, h2, specScript, hn1, Option.map_some]

theorem script_total (E : Nat) (ops : List Op) :
    ∃ b', runScript E init ops = some (b', specScript E 0 ops) := by
  obtain ⟨b', h, _⟩ := script_refines E ops init (init_inv E)
  exact ⟨b', by simpa [next, init] using h⟩

/-- `Attributes` relies on this: after `Peek(k)` returned a non-error token, that token is physically in
    the buffer at `pos + k` (so `z.buf[z.pos+k]` is in range) -/
theorem peek_available (E : Nat) (b : TB) (k : Nat) (hI : Inv E b) (b' : TB) (t : Nat)
    (h : peek E b k = some (b', t)) (ht : t ≠ E) : b'.pos + k < b'.buf.length := by
  obtain ⟨b1, h1, _, _, hav⟩ := peek_spec E b k hI
  rw [h1] at h
  injection h with h
  injection h with hb ht'
  subst hb; subst ht'
  exact hav ht

example : (runScript 3 init [.peek 2, .shift, .peek 5, .shift, .shift, .shift, .peek 0]).map (·.2)
    = some [2, 0, 3, 1, 2, 3, 3] := by decide



/-! ## `Bytes` / `String` hand the original back on error -/

namespace Api
open Verif Verif.Model.Api

/-- **Original returned unchanged on error**, for EVERY minifier behaviour (however it scribbles over
    its input buffer) and every input, provided the wrapper passes a private copy and returns the parameter. -/
theorem bytes_returns_input (mode : InputMode) (hm : mode ≠ .alias) (f : Bytes → Run) (v : Bytes)
    (e : String) (he : (f v).result = .error e) :
    (bytesCall mode true f v).returned = v ∧ (bytesCall mode true f v).callerAfter = v ∧
    (bytesCall mode true f v).err = some e := by
  unfold bytesCall
  cases mode with
  | alias => exact absurd rfl hm
  | copy => simp [he]
  | conv => simp [he]

/-- and the caller's data is never modified, error or not -/
theorem bytes_never_mutates (mode : InputMode) (hm : mode ≠ .alias) (f : Bytes → Run) (v : Bytes) :
    (bytesCall mode true f v).callerAfter = v := by
  unfold bytesCall
  cases mode with
  | alias => exact absurd rfl hm
  | copy => simp only []; split <;> rfl
  | conv => simp only []; split <;> rfl

/-- the guard is necessary: with the caller's slice aliased (the pinned tree before fix 9a88026) the
    statement is false — witness: a minifier that lower-cases in place and then fails -/
theorem bytes_alias_counterexample :
    ¬ (∀ (f : Bytes → Run) (v : Bytes) (e : String), (f v).result = .error e →
        (bytesCall .alias true f v).returned = v) := by
  intro h
  have := h (fun _ => ⟨[97], .error "x"⟩) [65] "x" rfl
  revert this; decide

/-- the regenerated facts: `Bytes` copies, `String` converts, both return the parameter on error -/
theorem wrapper_facts_ok :
    InputMode.ofString Verif.Gen.ApiFacts.bytesInput = some .copy ∧
    InputMode.ofString Verif.Gen.ApiFacts.stringInput = some .conv ∧
    Verif.Gen.ApiFacts.bytesOnErr = "orig" ∧ Verif.Gen.ApiFacts.stringOnErr = "orig" := by decide

/-- The observable recursion / size limits the totality argument (and the deep-nesting / long-input runs of the harness) rely on,
    as `package: boundary N` = "some comparison in that package separates `X ≤ N` from `X > N` for an int expression `X`"
    (css: 100 values per property, nesting depth 100; js: 50 string parts, 65 binary digits, 10000 hoisted declarations;
    minify.Mediatype: 1024 bytes lower-cased; svg: 100000 bytes of path data).  The translator normalises the spelling
    (`N < X`, `X > N`, `X >= N+1`, `N < X+1`, named constants, a helper predicate), see harness/cmd/extract/c10_api.go. -/
def expectedLimits : List (String × Nat) :=
  [("css: boundary 100", 1), ("css: boundary 99", 1), ("js: boundary 50", 1), ("js: boundary 65", 1),
   ("js: boundary 10000", 1), ("minify: boundary 1023", 1), ("svg: boundary 100000", 1)]

/-- every expected limit is still present in the regenerated facts (removing one, or changing its value, removes its key);
    comparisons that are not limits of the model are ignored -/
theorem limits_ok :
    expectedLimits.all (fun kn => Verif.Gen.ApiFacts.limitKeys.any (fun kc => kc.1 == kn.1 && decide (kn.2 ≤ kc.2))) = true := by
  decide

end Api

end Verif.Props.C10

import Verif.Props.C07
import Verif.Props.C06
import Verif.Props.C05
import Verif.Props.C18
import Verif.Proofs.C09Html
/-!
# C09 — accepted input yields syntactically valid output that is accepted again

Proved part: corollaries of the per-language theorems ("the output is in the language, and the model
of the minifier is defined on it").  What the models do not cover is swept on real documents by
`harness/cmd/corr/c09.go` (second pass + independent parsers).
-/
namespace Verif.Props.C09
open Verif.Spec.Json Verif.Model.Json

/-- **JSON**: for every value, whitespace decoration, option set and precision: the output of the first
    pass is a valid JSON text (it is `compact v'` for a well-formed `v'`, which the specification parser
    reads back), and the second pass on that output succeeds again with a valid text. -/
theorem json_valid_and_reaccepted (o : JsonOpts) (num : List Char → Int → List Char)
    (hg : NumGrammar num o.precision) (v : JV) (hw : wf v = true) (ws : Ws) :
    ∃ out v', minifyText o num (render ws v) = some out ∧
      out = compact v' ∧ wf v' = true ∧ parseJ out = some v' ∧
      ∃ out2 v'', minifyText o num out = some out2 ∧ out2 = compact v'' ∧ wf v'' = true := by
  obtain ⟨h1, hw1, _⟩ := Verif.Props.C07.C07_shape o num hg v hw ws
  refine ⟨_, _, h1, rfl, hw1, Verif.Props.C07.parse_render _ hw1 noWs, ?_⟩
  obtain ⟨h2, hw2, _⟩ := Verif.Props.C07.C07_shape o num hg _ hw1 noWs
  exact ⟨_, _, h2, rfl, hw2⟩

/-- **XML**: for every option set and every token stream of the lexer grammar, every emitted token is well-formed
    (no `<`, no bare `&`, quote-safe attribute literals) and no run of emitted character data contains `]]>`
    (re-export of C06 `xml_wellformed`, full strength since fix 9a0c504) -/
theorem xml_output_wellformed : type_of% @Verif.Props.C06.xml_wellformed := @Verif.Props.C06.xml_wellformed

/-- **SVG path data**: for every input string the scanner accepts, the shortened path is valid path data: it lexes and
    parses to exactly the commands the shortener chose (separator elision never merges or splits tokens) -/
theorem svg_path_output_parses : type_of% @Verif.Props.C05.shorten_output_parses_of_contract :=
  @Verif.Props.C05.shorten_output_parses_of_contract

/-- **SVG path printer**: any well-formed group list lexes back to exactly its tokens -/
theorem svg_path_lex_roundtrip : type_of% @Verif.Props.C05.path_lex_roundtrip := @Verif.Props.C05.path_lex_roundtrip

/-! ## HTML -/

/-- **HTML attribute values**: the bytes of `EscapeAttrVal` are read by the standard's tokenizer as one value in the form
    chosen, ending where the bytes end, decoding to the value meant; unquoted only when conforming -/
theorem html_attr_value_roundtrip : type_of% @Verif.Proofs.C09Html.html_attr_value_roundtrip :=
  @Verif.Proofs.C09Html.html_attr_value_roundtrip

/-- **HTML `&` ambiguity**: what html.go does to the references of a plain attribute value, then `EscapeAttrVal`, is read
    back as the input value — guard = C03's open findings K-C03-3 (hex overflow), K-C03-13 (CR + LF reference) -/
theorem html_attr_written_value_partial : type_of% @Verif.Proofs.C09Html.html_attr_written_value_partial :=
  @Verif.Proofs.C09Html.html_attr_written_value_partial

/-- the guard is needed (K-C03-3) -/
theorem html_attr_written_value_counterexample : type_of% @Verif.Proofs.C09Html.html_attr_written_value_counterexample :=
  @Verif.Proofs.C09Html.html_attr_written_value_counterexample

/-- **HTML start tags**: `<name` + the attributes the model writes + `>` is read as ONE start tag with the attribute list
    meant (names in order, values decoding to the values handed to `EscapeAttrVal`), not self-closing, for every option
    set and every attribute branch of html.go; guards: names without `/`, no template attributes -/
theorem html_start_tag_retokenises : type_of% @Verif.Proofs.C09Html.html_start_tag_retokenises :=
  @Verif.Proofs.C09Html.html_start_tag_retokenises

/-- the same for one step of the token loop, hypotheses on the lexer's start-tag token only -/
theorem html_start_tag_step : type_of% @Verif.Proofs.C09Html.html_start_tag_step :=
  @Verif.Proofs.C09Html.html_start_tag_step

/-- **HTML raw-text elements** (script, style, iframe, textarea): the content the model writes does not end the element
    early and the end tag ends it; guard: no `<!--` in a script (K-C09-HTML-8); contract `SubKeeps` on the sub-minifier -/
theorem html_rawtext_end_stable_partial : type_of% @Verif.Proofs.C09Html.html_rawtext_end_stable_partial :=
  @Verif.Proofs.C09Html.html_rawtext_end_stable_partial

/-- without the `<!--` guard it is false (script-data-double-escaped state) -/
theorem html_rawtext_end_stable_counterexample : type_of% @Verif.Proofs.C09Html.html_rawtext_end_stable_counterexample :=
  @Verif.Proofs.C09Html.html_rawtext_end_stable_counterexample

/-- **HTML comments**: every comment written is one comment token; guard K-C09-HTML-1, contract K-C09-HTML-3 -/
theorem html_comment_closed_partial : type_of% @Verif.Proofs.C09Html.html_comment_closed_partial :=
  @Verif.Proofs.C09Html.html_comment_closed_partial

/-- `<!-->x-->` kept verbatim is not one comment (K-C09-HTML-1) -/
theorem html_comment_closed_counterexample : type_of% @Verif.Proofs.C09Html.html_comment_closed_counterexample :=
  @Verif.Proofs.C09Html.html_comment_closed_counterexample

/-- **HTML, the whole output** (flagship): under the decidable guard `walk` (text pieces `textSafe`, comments `goodComment`,
    good tag/attribute names, no template/svg/math token, raw-text content without its end tag and without `<!--` in a
    script) the output of the model is the concatenation of its per-token pieces and re-tokenises, by the HTML standard,
    to exactly what each piece is on its own — for every option set, sub-minifier and token stream -/
theorem html_output_retokenises_partial : type_of% @Verif.Proofs.C09Html.html_output_retokenises_partial :=
  @Verif.Proofs.C09Html.html_output_retokenises_partial

/-- without the guard it is false: a removed comment between `<` and `b>` creates a tag (K-C09-HTML-4) -/
theorem html_output_retokenises_counterexample : type_of% @Verif.Proofs.C09Html.html_output_retokenises_counterexample :=
  @Verif.Proofs.C09Html.html_output_retokenises_counterexample

/-- the same over the lexer grammar `lexShape` -/
theorem html_output_retokenises_lexshape_counterexample :
    type_of% @Verif.Proofs.C09Html.html_output_retokenises_lexshape_counterexample :=
  @Verif.Proofs.C09Html.html_output_retokenises_lexshape_counterexample

/-- **HTML text**: a text token without a raw `<` is written without `<` — `&lt;` / `&#60;` / `&#x3C;` / `&LT` stay escaped —
    for all options (whole regenerated entity tables) -/
theorem html_text_lt_stays_escaped : type_of% @Verif.Proofs.C09Html.html_text_lt_stays_escaped :=
  @Verif.Proofs.C09Html.html_text_lt_stays_escaped

/-- html.go's reference decoding creates a tag from the text `<&#98;>` (K-C09-HTML-10) -/
theorem html_text_safe_not_preserved : type_of% @Verif.Proofs.C09Html.html_text_safe_not_preserved :=
  @Verif.Proofs.C09Html.html_text_safe_not_preserved

/-- **HTML second pass**: on every token stream the model returns bytes or `ext missing` -/
theorem html_second_pass_defined : type_of% @Verif.Proofs.C09Html.html_second_pass_defined :=
  @Verif.Proofs.C09Html.html_second_pass_defined

/-- html.go is not idempotent (not a C09 violation) -/
theorem html_idempotent_counterexample : type_of% @Verif.Proofs.C09Html.html_idempotent_counterexample :=
  @Verif.Proofs.C09Html.html_idempotent_counterexample

end Verif.Props.C09

import Verif.Props.C07
import Verif.Props.C06
import Verif.Props.C05
import Verif.Props.C18
import Verif.Proofs.C09Css
/-!
# C09 — accepted input yields syntactically valid output that is accepted again

Proved part: corollaries of the per-language theorems ("the output is in the language, and the model
of the minifier is defined on it").  What the models do not cover is swept on real documents by
`harness/cmd/corr/c09.go` (second pass + independent parsers).
-/
namespace Verif.Props.C09
open Verif.Spec.Json Verif.Model.Json

/-- **JSON**: for every value, whitespace decoration, option set and precision: the output of the first
    pass is a valid JSON text (it is `compact v'` for a well-formed `v'`, which the specification parser
    reads back), and the second pass on that output succeeds again with a valid text. -/
theorem json_valid_and_reaccepted (o : JsonOpts) (num : List Char → Int → List Char)
    (hg : NumGrammar num o.precision) (v : JV) (hw : wf v = true) (ws : Ws) :
    ∃ out v', minifyText o num (render ws v) = some out ∧
      out = compact v' ∧ wf v' = true ∧ parseJ out = some v' ∧
      ∃ out2 v'', minifyText o num out = some out2 ∧ out2 = compact v'' ∧ wf v'' = true := by
  obtain ⟨h1, hw1, _⟩ := Verif.Props.C07.C07_shape o num hg v hw ws
  refine ⟨_, _, h1, rfl, hw1, Verif.Props.C07.parse_render _ hw1 noWs, ?_⟩
  obtain ⟨h2, hw2, _⟩ := Verif.Props.C07.C07_shape o num hg _ hw1 noWs
  exact ⟨_, _, h2, rfl, hw2⟩

/-- **XML**: for every option set and every token stream of the lexer grammar, every emitted token is well-formed
    (no `<`, no bare `&`, quote-safe attribute literals) and no run of emitted character data contains `]]>`
    (re-export of C06 `xml_wellformed`, full strength since fix 9a0c504) -/
theorem xml_output_wellformed : type_of% @Verif.Props.C06.xml_wellformed := @Verif.Props.C06.xml_wellformed

/-- **SVG path data**: for every input string the scanner accepts, the shortened path is valid path data: it lexes and
    parses to exactly the commands the shortener chose (separator elision never merges or splits tokens) -/
theorem svg_path_output_parses : type_of% @Verif.Props.C05.shorten_output_parses_of_contract :=
  @Verif.Props.C05.shorten_output_parses_of_contract

/-- **SVG path printer**: any well-formed group list lexes back to exactly its tokens -/
theorem svg_path_lex_roundtrip : type_of% @Verif.Props.C05.path_lex_roundtrip := @Verif.Props.C05.path_lex_roundtrip

/-! ## Css -/

/-- **CSS, declaration writer**: for all admissible values (`valsOk`: every lexeme a closed token of its type for the
    independent tokeniser, function arguments pairwise safe), every `!important` flag and every context starting
    with a stop code point, the independent CSS Syntax 3 tokeniser reads the bytes `writeDeclaration` writes as
    exactly the tokens it was given: nothing merges, nothing splits (guard `sepOk` = known findings K-C09-CSS-1/2) -/
theorem css_writer_retokenises : type_of% @Verif.Proofs.C09Css.css_writer_retokenises :=
  @Verif.Proofs.C09Css.css_writer_retokenises

/-- **CSS**: without the guard on neighbours inside functions the statement is false (`f(` `red` `10%` `)` is written
    `f(red10%)`) -/
theorem css_writer_retokenises_counterexample : type_of% @Verif.Proofs.C09Css.css_writer_retokenises_counterexample :=
  @Verif.Proofs.C09Css.css_writer_retokenises_counterexample

/-- **CSS, raw path**: for all admissible component lists (`rawOk`) the bytes `writeRaw` writes (values with brackets,
    `a=b`, `!ie`, …; `/` and `*` kept apart) are read as exactly the components -/
theorem css_raw_retokenises : type_of% @Verif.Proofs.C09Css.css_raw_retokenises :=
  @Verif.Proofs.C09Css.css_raw_retokenises

/-- **CSS, raw path**: without the guard on neighbours it is false: `<` `!` `--x` is written `<!--x` (K-C09-CSS-3) -/
theorem css_raw_retokenises_counterexample : type_of% @Verif.Proofs.C09Css.css_raw_retokenises_counterexample :=
  @Verif.Proofs.C09Css.css_raw_retokenises_counterexample

/-- **CSS, declaration minifier of the model**: whenever `minifyDeclaration` is defined, not on the raw path and chose
    admissible values, the bytes it writes read back as those values -/
theorem css_declaration_retokenises : type_of% @Verif.Proofs.C09Css.css_declaration_retokenises :=
  @Verif.Proofs.C09Css.css_declaration_retokenises

/-- **CSS, declaration minifier of the model, raw path** -/
theorem css_declaration_retokenises_raw : type_of% @Verif.Proofs.C09Css.css_declaration_retokenises_raw :=
  @Verif.Proofs.C09Css.css_declaration_retokenises_raw

/-- **CSS, second pass**: every token the independent tokeniser reads in a written declaration is again a closed
    token of its type, none a bad-string or bad-url: the lexer contract holds again for the second pass -/
theorem css_second_pass_tokens : type_of% @Verif.Proofs.C09Css.css_second_pass_tokens :=
  @Verif.Proofs.C09Css.css_second_pass_tokens

/-- **CSS, block structure**: a written value followed by `;` or `}` is read as bracket-balanced tokens without
    bad-string/bad-url, then exactly the terminator: it neither swallows its terminator nor opens or closes a block -/
theorem css_declaration_closed : type_of% @Verif.Proofs.C09Css.css_declaration_closed :=
  @Verif.Proofs.C09Css.css_declaration_closed

/-- **CSS, urls**: whatever passes the unquoting test of `minifyTokens` is, between `url(` and `)`, one closed url token
    with exactly that value -/
theorem css_url_closed : type_of% @Verif.Proofs.C09Css.css_url_closed := @Verif.Proofs.C09Css.css_url_closed

/-- **CSS, strings**: without `\`+newline in it a closed string is left alone by `removeMarkupNewlines` -/
theorem css_string_closed_partial : type_of% @Verif.Proofs.C09Css.css_string_closed_partial :=
  @Verif.Proofs.C09Css.css_string_closed_partial

/-- **CSS, strings**: in general `removeMarkupNewlines` changes the value: `"\31\<LF>2"` (`12`) becomes `"\312"`
    (K-C09-CSS-11) -/
theorem css_string_closed_counterexample : type_of% @Verif.Proofs.C09Css.css_string_closed_counterexample :=
  @Verif.Proofs.C09Css.css_string_closed_counterexample

end Verif.Props.C09

import Verif.Props.C07
import Verif.Props.C06
import Verif.Props.C05
import Verif.Props.C18
import Verif.Proofs.C09Js
/-!
# C09 — accepted input yields syntactically valid output that is accepted again

Proved part: corollaries of the per-language theorems ("the output is in the language, and the model
of the minifier is defined on it").  What the models do not cover is swept on real documents by
`harness/cmd/corr/c09.go` (second pass + independent parsers).
-/
namespace Verif.Props.C09
open Verif.Spec.Json Verif.Model.Json

/-- **JSON**: for every value, whitespace decoration, option set and precision: the output of the first
    pass is a valid JSON text (it is `compact v'` for a well-formed `v'`, which the specification parser
    reads back), and the second pass on that output succeeds again with a valid text. -/
theorem json_valid_and_reaccepted (o : JsonOpts) (num : List Char → Int → List Char)
    (hg : NumGrammar num o.precision) (v : JV) (hw : wf v = true) (ws : Ws) :
    ∃ out v', minifyText o num (render ws v) = some out ∧
      out = compact v' ∧ wf v' = true ∧ parseJ out = some v' ∧
      ∃ out2 v'', minifyText o num out = some out2 ∧ out2 = compact v'' ∧ wf v'' = true := by
  obtain ⟨h1, hw1, _⟩ := Verif.Props.C07.C07_shape o num hg v hw ws
  refine ⟨_, _, h1, rfl, hw1, Verif.Props.C07.parse_render _ hw1 noWs, ?_⟩
  obtain ⟨h2, hw2, _⟩ := Verif.Props.C07.C07_shape o num hg _ hw1 noWs
  exact ⟨_, _, h2, rfl, hw2⟩

/-- **XML**: for every option set and every token stream of the lexer grammar, every emitted token is well-formed
    (no `<`, no bare `&`, quote-safe attribute literals) and no run of emitted character data contains `]]>`
    (re-export of C06 `xml_wellformed`, full strength since fix 9a0c504) -/
theorem xml_output_wellformed : type_of% @Verif.Props.C06.xml_wellformed := @Verif.Props.C06.xml_wellformed

/-- **SVG path data**: for every input string the scanner accepts, the shortened path is valid path data: it lexes and
    parses to exactly the commands the shortener chose (separator elision never merges or splits tokens) -/
theorem svg_path_output_parses : type_of% @Verif.Props.C05.shorten_output_parses_of_contract :=
  @Verif.Props.C05.shorten_output_parses_of_contract

/-- **SVG path printer**: any well-formed group list lexes back to exactly its tokens -/
theorem svg_path_lex_roundtrip : type_of% @Verif.Props.C05.path_lex_roundtrip := @Verif.Props.C05.path_lex_roundtrip

/-! ## JS -/

/-- **JS, writer level**: for every token list of the C01 token alphabet without an impossible adjacency, the bytes
    written by the writer model (`write`, `writeSpaceBeforeIdent`, `writeSpaceBefore`, `writeSpaceAfterIdent`,
    `a-- >b`, `<! --`) lex back, with the independent lexer `Spec.C09JsLex`, to exactly these tokens -/
theorem js_token_sep : type_of% @Verif.Proofs.C09Js.js_token_sep := @Verif.Proofs.C09Js.js_token_sep

/-- **JS, grammar trees**: the terminal string of every derivation tree of the expression grammar (plain names and
    strings) satisfies the hypotheses of `js_token_sep` -/
theorem js_tree_tokens_safe : type_of% @Verif.Proofs.C09Js.js_tree_tokens_safe :=
  @Verif.Proofs.C09Js.js_tree_tokens_safe

/-- **JS, grammar trees**: hence what the writer produces for it is read back as exactly that terminal string -/
theorem js_tree_relex : type_of% @Verif.Proofs.C09Js.js_tree_relex := @Verif.Proofs.C09Js.js_tree_relex

/-- **JS, expression printer**: the output of the printer model `printT` (C01) is token-separated and derives the
    printed tree in the independent grammar: valid, and re-lexed to the intended tokens -/
theorem js_expr_relex : type_of% @Verif.Proofs.C09Js.js_expr_relex := @Verif.Proofs.C09Js.js_expr_relex

/-- **JS, statement printer** (partial, guard = every printed expression tree is a grammar tree with plain names):
    the bytes of the statement printer model are read back as exactly the tokens written -/
theorem js_print_relex_partial : type_of% @Verif.Proofs.C09Js.js_print_relex_partial :=
  @Verif.Proofs.C09Js.js_print_relex_partial

end Verif.Props.C09

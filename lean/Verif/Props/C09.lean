import Verif.Props.C07
/-!
# C09 — accepted input yields syntactically valid output that is accepted again

Proved part: corollaries of the per-language theorems ("the output is in the language, and the model
of the minifier is defined on it").  What the models do not cover is swept on real documents by
`harness/cmd/corr/c09.go` (second pass + independent parsers).
-/
namespace Verif.Props.C09
open Verif.Spec.Json Verif.Model.Json

/-- **JSON**: for every value, whitespace decoration, option set and precision: the output of the first
    pass is a valid JSON text (it is `compact v'` for a well-formed `v'`, which the specification parser
    reads back), and the second pass on that output succeeds again with a valid text. -/
theorem json_valid_and_reaccepted (o : JsonOpts) (num : List Char → Int → List Char)
    (hg : NumGrammar num o.precision) (v : JV) (hw : wf v = true) (ws : Ws) :
    ∃ out v', minifyText o num (render ws v) = some out ∧
      out = compact v' ∧ wf v' = true ∧ parseJ out = some v' ∧
      ∃ out2 v'', minifyText o num out = some out2 ∧ out2 = compact v'' ∧ wf v'' = true := by
  obtain ⟨h1, hw1, _⟩ := Verif.Props.C07.C07_shape o num hg v hw ws
  refine ⟨_, _, h1, rfl, hw1, Verif.Props.C07.parse_render _ hw1 noWs, ?_⟩
  obtain ⟨h2, hw2, _⟩ := Verif.Props.C07.C07_shape o num hg _ hw1 noWs
  exact ⟨_, _, h2, rfl, hw2⟩

end Verif.Props.C09

import Verif.Props.C07
import Verif.Props.C06
import Verif.Props.C05
import Verif.Props.C18
import Verif.Props.C08
import Verif.Proofs.C09Json
import Verif.Proofs.C09Embed
import Verif.Proofs.C09XmlMain
import Verif.Proofs.C09SvgMain
import Verif.Proofs.C09Css
import Verif.Proofs.C09Html
import Verif.Proofs.C09Js
import Verif.Proofs.C09JsEmbed
/-!
# C09 — accepted input yields syntactically valid output that is accepted again

Proved part: corollaries of the per-language theorems ("the output is in the language, and the model
of the minifier is defined on it").  What the models do not cover is swept on real documents by
`harness/cmd/corr/c09.go` (second pass + independent parsers).
-/
namespace Verif.Props.C09
open Verif.Spec.Json Verif.Model.Json

/-- **JSON**: for every value, whitespace decoration, option set and precision: the output of the first
    pass is a valid JSON text (it is `compact v'` for a well-formed `v'`, which the specification parser
    reads back), and the second pass on that output succeeds again with a valid text. -/
theorem json_valid_and_reaccepted (o : JsonOpts) (num : List Char → Int → List Char)
    (hg : NumGrammar num o.precision) (v : JV) (hw : wf v = true) (ws : Ws) :
    ∃ out v', minifyText o num (render ws v) = some out ∧
      out = compact v' ∧ wf v' = true ∧ parseJ out = some v' ∧
      ∃ out2 v'', minifyText o num out = some out2 ∧ out2 = compact v'' ∧ wf v'' = true := by
  obtain ⟨h1, hw1, _⟩ := Verif.Props.C07.C07_shape o num hg v hw ws
  refine ⟨_, _, h1, rfl, hw1, Verif.Props.C07.parse_render _ hw1 noWs, ?_⟩
  obtain ⟨h2, hw2, _⟩ := Verif.Props.C07.C07_shape o num hg _ hw1 noWs
  exact ⟨_, _, h2, rfl, hw2⟩

/-- **JSON, second pass is the identity** where the number writer reproduces its own outputs (`NumFix`: checked on the real
    code at precision 0 by stage `c09-json-fixpoint`; trivially true with `KeepNumbers`, see `json_numfix_keep`): for every
    well-formed value, decoration and option set the output of the first pass is mapped to itself by the second. -/
theorem json_second_pass_fixed : type_of% @Verif.Proofs.C09Json.json_second_pass_fixed :=
  @Verif.Proofs.C09Json.json_second_pass_fixed

/-- `NumFix` holds for every number writer when numbers are kept -/
theorem json_numfix_keep : type_of% @Verif.Proofs.C09Json.numFix_keep := @Verif.Proofs.C09Json.numFix_keep

/-- idempotence is NOT claimed for `Precision > 0`: for the C08 model of `minify.Number`, `-67E-1` ↦ `-6.7` ↦ `-7` at
    precision 1 (the first pass does not round a lexeme with an exponent) -/
theorem json_numfix_precision_counterexample : type_of% @Verif.Proofs.C09Json.numFix_precision_counterexample :=
  @Verif.Proofs.C09Json.numFix_precision_counterexample

/-- **XML**: for every option set and every token stream of the lexer grammar, every emitted token is well-formed
    (no `<`, no bare `&`, quote-safe attribute literals) and no run of emitted character data contains `]]>`
    (re-export of C06 `xml_wellformed`, full strength since fix 9a0c504) -/
theorem xml_output_wellformed : type_of% @Verif.Props.C06.xml_wellformed := @Verif.Props.C06.xml_wellformed

/-- **SVG path data**: for every input string the scanner accepts, the shortened path is valid path data: it lexes and
    parses to exactly the commands the shortener chose (separator elision never merges or splits tokens) -/
theorem svg_path_output_parses : type_of% @Verif.Props.C05.shorten_output_parses_of_contract :=
  @Verif.Props.C05.shorten_output_parses_of_contract

/-- **SVG path printer**: any well-formed group list lexes back to exactly its tokens -/
theorem svg_path_lex_roundtrip : type_of% @Verif.Props.C05.path_lex_roundtrip := @Verif.Props.C05.path_lex_roundtrip

/-! ## the leaf languages: numbers, data URLs, media types -/

/-- **Numbers** (`minify.Number`, used by CSS, SVG, JS, JSON): for every lexeme of the number grammar and all precisions the
    result is a lexeme of the same grammar — so the second application (with any precision) is defined on it and again
    yields a number (corollary of C08 `number_grammar`) -/
theorem number_output_reaccepted (s : List Char) (p q : Int) (hs : Verif.Spec.Num.isNumber s = true) :
    Verif.Spec.Num.isNumber (Verif.Model.Num.number s p) = true ∧
    Verif.Spec.Num.isNumber (Verif.Model.Num.number (Verif.Model.Num.number s p) q) = true :=
  ⟨Verif.Props.C08.number_grammar s p hs,
   Verif.Props.C08.number_grammar _ q (Verif.Props.C08.number_grammar s p hs)⟩

/-- **Decimals** (`minify.Decimal`): the exponent-free number grammar is mapped into itself, twice -/
theorem decimal_output_reaccepted (s : List Char) (p q : Int) (hs : Verif.Spec.Num.isDecimal s = true) :
    Verif.Spec.Num.isDecimal (Verif.Model.Num.decimal s p) = true ∧
    Verif.Spec.Num.isDecimal (Verif.Model.Num.decimal (Verif.Model.Num.decimal s p) q) = true :=
  ⟨Verif.Props.C08.decimal_grammar s p hs,
   Verif.Props.C08.decimal_grammar _ q (Verif.Props.C08.decimal_grammar s p hs)⟩

example : Verif.Spec.Num.isNumber "+012.500e-3".toList = true ∧ Verif.Spec.Num.isDecimal "-0.50".toList = true := by decide

/-- **Data URLs** (`minify.DataURI`, used for `url(data:…)` in CSS and URL attributes in HTML): outside the three syntactic
    triggers of the open C18 findings, the result is the input or a data URL that the RFC 2397 reader parses to an equivalent
    media type and exactly the payload the sub-minifier produced (re-export of C18 `dataURI_holds_partial`) -/
theorem datauri_output_parses_partial : type_of% @Verif.Props.C18.dataURI_holds_partial :=
  @Verif.Props.C18.dataURI_holds_partial

/-- **Media types** (`minify.Mediatype`): the result is the input with white space outside quoted strings deleted and letters
    outside quoted strings lower-cased; quoted strings are copied, so a closed quoted string stays closed -/
theorem mediatype_output_spec : type_of% @Verif.Props.C18.mediatype_spec := @Verif.Props.C18.mediatype_spec

/-! ## Xml (XML and SVG documents; `Proofs/C09XmlMain.lean`, `Proofs/C09SvgMain.lean`) -/

/-- **XML tokeniser round trip** (specification side): every grammatical token stream in reader's view is read back
    from its bytes by the independent XML 1.0 tokeniser exactly -/
theorem xml_lex_roundtrip : type_of% @Verif.Proofs.C09Xml.xml_lex_roundtrip := @Verif.Proofs.C09Xml.xml_lex_roundtrip

/-- **XML tokeniser soundness** (specification side): whatever the tokeniser returns is grammatical and is read back
    from its own serialisation -/
theorem xml_lex_sound : type_of% @Verif.Proofs.C09Xml.xml_lex_sound := @Verif.Proofs.C09Xml.xml_lex_sound

/-- **XML, bytes level**: for every byte string the independent tokeniser accepts, the output of the model of
    `xml.Minify` on its tokens is accepted again and re-tokenises to exactly the intended stream.  NOTE the front end here is
    the SPECIFICATION tokeniser (PI data is one raw item); the real dependency lexer splits PI data into pseudo-attributes
    and deviates on DOCTYPE (K-C09-Xml-4, open) and on `>` inside PI data (K-C06-8) — for streams of the real lexer's
    shape use `xml_output_relexes` (full since /repo 59fe76b) -/
theorem xml_accepted_in_accepted_out : type_of% @Verif.Proofs.C09Xml.xml_accepted_in_accepted_out :=
  @Verif.Proofs.C09Xml.xml_accepted_in_accepted_out

/-- every finite sequence of passes (any options) over an accepted document is defined and ends in an accepted document -/
theorem xml_passes_defined : type_of% @Verif.Proofs.C09Xml.xml_passes_defined := @Verif.Proofs.C09Xml.xml_passes_defined

/-- **XML flagship** (full since /repo 59fe76b): for all options and all lexer-contract streams with grammatical
    tokens, the output bytes of the model of `xml.Minify` re-tokenise to exactly the emitted stream (reader's view),
    which is grammatical -/
theorem xml_output_relexes : type_of% @Verif.Proofs.C09Xml.xml_output_relexes :=
  @Verif.Proofs.C09Xml.xml_output_relexes

/-- the stream read back has exactly the markup skeleton (tags, attributes, CDATA, DOCTYPE, PI targets) and the bytes
    of the emitted stream -/
theorem xml_output_markup_exact : type_of% @Verif.Proofs.C09Xml.xml_output_markup_exact :=
  @Verif.Proofs.C09Xml.xml_output_markup_exact

/-- **XML second pass** (full): the stream read back from the output satisfies all hypotheses of the C06 and
    C09 theorems again; the output of a second pass (any options) re-tokenises to its intended stream -/
theorem xml_second_pass_defined : type_of% @Verif.Proofs.C09Xml.xml_second_pass_defined :=
  @Verif.Proofs.C09Xml.xml_second_pass_defined

/-- XML minification is not idempotent (`<a><![CDATA[ x ]]></a>` → `<a> x </a>` → `<a>x</a>`); no C09 violation -/
theorem xml_idempotent_counterexample : type_of% @Verif.Proofs.C09Xml.xml_idempotent_counterexample :=
  @Verif.Proofs.C09Xml.xml_idempotent_counterexample

/-- **SVG `bracketWriter`**: `bw.n` is the number of `]` at the end of everything written -/
theorem xml_svg_bracket_count : type_of% @Verif.Proofs.C09Xml.svg_bracket_count := @Verif.Proofs.C09Xml.svg_bracket_count

/-- **SVG text branch**, every sub-minifier function: for every `bw.n` and grammatical text token the written bytes have
    no `<`, no bare `&`, complete no `]]>` (the host checks the sub-minifier's result since d582c28); full `WfText` when
    the bytes do not come from the sub-minifier -/
theorem xml_svg_text_wellformed : type_of% @Verif.Proofs.C09Xml.svg_text_wellformed :=
  @Verif.Proofs.C09Xml.svg_text_wellformed

/-- **SVG CDATA branch**, every sub-minifier function with legal output: text path safe; a kept section is a
    well-formed CDATA section (a result containing `]]>` is not used since d582c28) -/
theorem xml_svg_cdata_wellformed : type_of% @Verif.Proofs.C09Xml.svg_cdata_wellformed :=
  @Verif.Proofs.C09Xml.svg_cdata_wellformed

/-- **SVG attribute values**: the preprocessed value is a sequence of units; `EscapeAttrVal` of any sequence of
    units is a well-formed literal with that normalised value; the `style` attribute for every inline sub-minifier
    function: quoted, quote-safe, no `<`, no bare `&` -/
theorem xml_svg_attr_wellformed : type_of% @Verif.Proofs.C09Xml.svg_attr_wellformed :=
  @Verif.Proofs.C09Xml.svg_attr_wellformed

/-! ## Css -/

/-- **CSS, declaration writer**: for all admissible values (`valsOk`: every lexeme a closed token of its type for the
    independent tokeniser, function arguments pairwise safe), every `!important` flag and every context starting
    with a stop code point, the independent CSS Syntax 3 tokeniser reads the bytes `writeDeclaration` writes as
    exactly the tokens it was given: nothing merges, nothing splits (inside functions: pairs that are safe back to back or that `writeFunction` separates itself since a933f35) -/
theorem css_writer_retokenises : type_of% @Verif.Proofs.C09Css.css_writer_retokenises :=
  @Verif.Proofs.C09Css.css_writer_retokenises

/-- **CSS**: without any condition on neighbours inside functions the statement is still false for pairs the writer
    does not test (`f(` `-` `red` `)` is written `f(-red)`; no input produces them) -/
theorem css_writer_retokenises_counterexample : type_of% @Verif.Proofs.C09Css.css_writer_retokenises_counterexample :=
  @Verif.Proofs.C09Css.css_writer_retokenises_counterexample

/-- **CSS, raw path**: for all admissible component lists (`rawOk`) the bytes `writeRaw` writes (values with brackets,
    `a=b`, `!ie`, …; `/` and `*` kept apart) are read as exactly the components -/
theorem css_raw_retokenises : type_of% @Verif.Proofs.C09Css.css_raw_retokenises :=
  @Verif.Proofs.C09Css.css_raw_retokenises

/-- **CSS, raw path**: without the guard on neighbours it is false: `<` `!` `--x` is written `<!--x` (K-C09-CSS-3) -/
theorem css_raw_retokenises_counterexample : type_of% @Verif.Proofs.C09Css.css_raw_retokenises_counterexample :=
  @Verif.Proofs.C09Css.css_raw_retokenises_counterexample

/-- **CSS, declaration minifier of the model**: whenever `minifyDeclaration` is defined, not on the raw path and chose
    admissible values, the bytes it writes read back as those values -/
theorem css_declaration_retokenises : type_of% @Verif.Proofs.C09Css.css_declaration_retokenises :=
  @Verif.Proofs.C09Css.css_declaration_retokenises

/-- **CSS, declaration minifier of the model, raw path** -/
theorem css_declaration_retokenises_raw : type_of% @Verif.Proofs.C09Css.css_declaration_retokenises_raw :=
  @Verif.Proofs.C09Css.css_declaration_retokenises_raw

/-- **CSS, second pass**: every token the independent tokeniser reads in a written declaration is again a closed
    token of its type, none a bad-string or bad-url: the lexer contract holds again for the second pass -/
theorem css_second_pass_tokens : type_of% @Verif.Proofs.C09Css.css_second_pass_tokens :=
  @Verif.Proofs.C09Css.css_second_pass_tokens

/-- **CSS, block structure**: a written value followed by `;` or `}` is read as bracket-balanced tokens without
    bad-string/bad-url, then exactly the terminator: it neither swallows its terminator nor opens or closes a block -/
theorem css_declaration_closed : type_of% @Verif.Proofs.C09Css.css_declaration_closed :=
  @Verif.Proofs.C09Css.css_declaration_closed

/-- **CSS, urls**: whatever passes the unquoting test of `minifyTokens` is, between `url(` and `)`, one closed url token
    with exactly that value -/
theorem css_url_closed : type_of% @Verif.Proofs.C09Css.css_url_closed := @Verif.Proofs.C09Css.css_url_closed

/-- **CSS, strings**: without `\`+newline in it a closed string is left alone by `removeMarkupNewlines` -/
theorem css_string_closed_partial : type_of% @Verif.Proofs.C09Css.css_string_closed_partial :=
  @Verif.Proofs.C09Css.css_string_closed_partial

/-! ## HTML -/

/-- **HTML attribute values**: the bytes of `EscapeAttrVal` are read by the standard's tokenizer as one value in the form
    chosen, ending where the bytes end, decoding to the value meant; unquoted only when conforming -/
theorem html_attr_value_roundtrip : type_of% @Verif.Proofs.C09Html.html_attr_value_roundtrip :=
  @Verif.Proofs.C09Html.html_attr_value_roundtrip

/-- **HTML `&` ambiguity**: what html.go does to the references of a plain attribute value, then `EscapeAttrVal`, is read
    back as the input value — guard = C03's open findings K-C03-3 (hex overflow), K-C03-13 (CR + LF reference) -/
theorem html_attr_written_value_partial : type_of% @Verif.Proofs.C09Html.html_attr_written_value_partial :=
  @Verif.Proofs.C09Html.html_attr_written_value_partial

/-- the guard is needed (K-C03-3) -/
theorem html_attr_written_value_counterexample : type_of% @Verif.Proofs.C09Html.html_attr_written_value_counterexample :=
  @Verif.Proofs.C09Html.html_attr_written_value_counterexample

/-- **HTML start tags**: `<name` + the attributes the model writes + `>` is read as ONE start tag with the attribute list
    meant (names in order, values decoding to the values handed to `EscapeAttrVal`), not self-closing, for every option
    set and every attribute branch of html.go; guards: names without `/`, no template attributes -/
theorem html_start_tag_retokenises : type_of% @Verif.Proofs.C09Html.html_start_tag_retokenises :=
  @Verif.Proofs.C09Html.html_start_tag_retokenises

/-- the same for one step of the token loop, hypotheses on the lexer's start-tag token only -/
theorem html_start_tag_step : type_of% @Verif.Proofs.C09Html.html_start_tag_step :=
  @Verif.Proofs.C09Html.html_start_tag_step

/-- **HTML raw-text elements** (script, style, iframe, textarea): the content the model writes does not end the element
    early and the end tag ends it; guard: no `<!--` in a script; NO hypothesis on the sub-minifier (html.go re-lexes its result, 1557146) -/
theorem html_rawtext_end_stable_partial : type_of% @Verif.Proofs.C09Html.html_rawtext_end_stable_partial :=
  @Verif.Proofs.C09Html.html_rawtext_end_stable_partial

/-- without the `<!--` guard it is false (script-data-double-escaped state) -/
theorem html_rawtext_end_stable_counterexample : type_of% @Verif.Proofs.C09Html.html_rawtext_end_stable_counterexample :=
  @Verif.Proofs.C09Html.html_rawtext_end_stable_counterexample

/-- **HTML comments**: every comment written is one comment token; guard K-C09-HTML-1; no contract on the recursive result (3c66722) -/
theorem html_comment_closed_partial : type_of% @Verif.Proofs.C09Html.html_comment_closed_partial :=
  @Verif.Proofs.C09Html.html_comment_closed_partial

/-- `<!-->x-->` kept verbatim is not one comment (K-C09-HTML-1) -/
theorem html_comment_closed_counterexample : type_of% @Verif.Proofs.C09Html.html_comment_closed_counterexample :=
  @Verif.Proofs.C09Html.html_comment_closed_counterexample

/-- **HTML, the whole output** (flagship): under the decidable guard `walk` (text pieces `textSafe`, comments `goodComment`,
    good tag/attribute names, no template/svg/math token, raw-text content without its end tag and without `<!--` in a
    script) the output of the model is the concatenation of its per-token pieces and re-tokenises, by the HTML standard,
    to exactly what each piece is on its own — for every option set, sub-minifier and token stream -/
theorem html_output_retokenises_partial : type_of% @Verif.Proofs.C09Html.html_output_retokenises_partial :=
  @Verif.Proofs.C09Html.html_output_retokenises_partial

/-- without the guard it is false: a removed comment between `<` and `b>` creates a tag (K-C09-HTML-4) -/
theorem html_output_retokenises_counterexample : type_of% @Verif.Proofs.C09Html.html_output_retokenises_counterexample :=
  @Verif.Proofs.C09Html.html_output_retokenises_counterexample

/-- the same over the lexer grammar `lexShape` -/
theorem html_output_retokenises_lexshape_counterexample :
    type_of% @Verif.Proofs.C09Html.html_output_retokenises_lexshape_counterexample :=
  @Verif.Proofs.C09Html.html_output_retokenises_lexshape_counterexample

/-- **HTML text**: a text token without a raw `<` is written without `<` — `&lt;` / `&#60;` / `&#x3C;` / `&LT` stay escaped —
    for all options (whole regenerated entity tables) -/
theorem html_text_lt_stays_escaped : type_of% @Verif.Proofs.C09Html.html_text_lt_stays_escaped :=
  @Verif.Proofs.C09Html.html_text_lt_stays_escaped

/-- **HTML text, positive** (after 6635adc; replaces the K-C09-HTML-10 counterexample): a text whose `<` open nothing is
    written so that its `<` still open nothing -/
theorem html_text_safe_preserved : type_of% @Verif.Proofs.C09Html.html_text_safe_preserved :=
  @Verif.Proofs.C09Html.html_text_safe_preserved

/-- the re-lex check of html.go (1557146) implies "no appropriate end tag" of the standard outside escaped sections -/
theorem html_relex_no_end_tag : type_of% @Verif.Proofs.C09Html.html_relex_no_end_tag :=
  @Verif.Proofs.C09Html.html_relex_no_end_tag

/-- … and not inside them: `<!--<script-x></script> y` passes the re-lex, the standard ends the script at the first `</script>` -/
theorem html_relex_script_counterexample : type_of% @Verif.Proofs.C09Html.html_relex_script_counterexample :=
  @Verif.Proofs.C09Html.html_relex_script_counterexample

/-- **HTML second pass**: on every token stream the model returns bytes or `ext missing` -/
theorem html_second_pass_defined : type_of% @Verif.Proofs.C09Html.html_second_pass_defined :=
  @Verif.Proofs.C09Html.html_second_pass_defined

/-- html.go is not idempotent (not a C09 violation) -/
theorem html_idempotent_counterexample : type_of% @Verif.Proofs.C09Html.html_idempotent_counterexample :=
  @Verif.Proofs.C09Html.html_idempotent_counterexample
/-! ## JS -/

/-- **JS, writer level**: for every token list of the C01 token alphabet without an impossible adjacency, the bytes
    written by the writer model (`write`, `writeSpaceBeforeIdent`, `writeSpaceBefore`, `writeSpaceAfterIdent`,
    `a-- >b`, `<! --`) lex back, with the independent lexer `Spec.C09JsLex`, to exactly these tokens -/
theorem js_token_sep : type_of% @Verif.Proofs.C09Js.js_token_sep := @Verif.Proofs.C09Js.js_token_sep

/-- **JS, grammar trees**: the terminal string of every derivation tree of the expression grammar (plain names and
    strings) satisfies the hypotheses of `js_token_sep` -/
theorem js_tree_tokens_safe : type_of% @Verif.Proofs.C09Js.js_tree_tokens_safe :=
  @Verif.Proofs.C09Js.js_tree_tokens_safe

/-- **JS, grammar trees**: hence what the writer produces for it is read back as exactly that terminal string -/
theorem js_tree_relex : type_of% @Verif.Proofs.C09Js.js_tree_relex := @Verif.Proofs.C09Js.js_tree_relex

/-- **JS, optional chains**: the grammar trees include `E.opt` (`a?.b.c(d)`); `?.` directly before a digit is not the
    `?.` punctuator (`a?.5:1` is `a ? .5 : 1`, `js_qdot_digit_counterexample`), the writer contract excludes that pair
    and the terminal string of a tree never contains it -/
theorem js_opt_chain_no_digit_after_qdot : type_of% @Verif.Proofs.C09Js.js_opt_chain_no_digit_after_qdot :=
  @Verif.Proofs.C09Js.js_opt_chain_no_digit_after_qdot

/-- **JS, expression printer**: the output of the printer model `printT` (C01) is token-separated and derives the
    printed tree in the independent grammar: valid, and re-lexed to the intended tokens -/
theorem js_expr_relex : type_of% @Verif.Proofs.C09Js.js_expr_relex := @Verif.Proofs.C09Js.js_expr_relex

/-- **JS, statement printer** (partial, guard = every printed expression tree is a grammar tree with plain names):
    the bytes of the statement printer model are read back as exactly the tokens written -/
theorem js_print_relex_partial : type_of% @Verif.Proofs.C09Js.js_print_relex_partial :=
  @Verif.Proofs.C09Js.js_print_relex_partial

/-- **JS inside HTML, writer level**: for every well-formed, goal-consistent token list of the C01 alphabet the bytes
    of the JS writer model contain neither an appropriate end tag of `script` (no `</` at all) nor `<!--` -/
theorem js_output_no_markup : type_of% @Verif.Proofs.C09JsEmbed.js_output_no_markup :=
  @Verif.Proofs.C09JsEmbed.js_output_no_markup

/-- **JS inside HTML, the contract discharged**: the JS fragment printer (any parser function, guarded statement
    printer, pass-through otherwise) satisfies the contract `SubKeeps "script"` of the HTML minifier model -/
theorem js_script_embed_keeps : type_of% @Verif.Proofs.C09JsEmbed.js_script_embed_keeps :=
  @Verif.Proofs.C09JsEmbed.js_script_embed_keeps

/-- **Embedded languages, composed** (strong form): for an HTML `script` element whose payload is minified by the JS
    fragment printer the HTML model writes exactly the printer's output (the host's re-lex check `rawTextEndsAtEnd`
    never falls back to the original payload, lemma `rawTextEndsAtEnd_noBad`: text without `</` and `<!--` ends at its
    end), and the HTML tokenizer reads it back as character tokens equal to it byte for byte, followed by the element's
    end tag.  Hypotheses: model state inside `script` (`dropEnd = false`, `textMode = 1`, `rawTag = "script"`), payload
    token without end tag of `script` and without `<!--`; nothing is assumed about the parser function -/
theorem html_script_with_js_fragment : type_of% @Verif.Proofs.C09JsEmbed.html_script_with_js_fragment :=
  @Verif.Proofs.C09JsEmbed.html_script_with_js_fragment

/-! ## embedded languages -/

/-- **K-C09-3 on the model of the CSS declaration writer**: the value tokens `<` `/` `style` `>` — none contains `</style` —
    are written `</style >`, an appropriate end tag of the enclosing HTML `style` element: the `SubKeeps` contract of
    `html_rawtext_end_stable_partial` is false for the CSS writer (for the JS-fragment printer it is a theorem:
    `js_script_embed_keeps`).  That is why the host has to enforce the contract: since /repo 1557146 html.go re-reads
    `<tag>` + result + `</tag>` and keeps the original payload unless it is read back as one text token (before:
    `<style>a{b:< /style >}</style><p>x</p>` ↦ `<style>a{b:</style >}</style><p>x`, K-C09-3, now a regression input). -/
theorem css_writer_creates_style_end_tag : type_of% @Verif.Proofs.C09Embed.css_writer_creates_style_end_tag :=
  @Verif.Proofs.C09Embed.css_writer_creates_style_end_tag

end Verif.Props.C09

import Verif.Model.Conc
import Verif.Gen.ConcFacts
/-!
# C13 — a shared registry is safe and deterministic under concurrency

`noninterference`/`deterministic` are the model-level theorems (every interleaving = sequential);
`facts_ok` re-checks, on every run, that the facts regenerated from /repo's source still have the
shape the model assumes.  What the model cannot exhibit (the Go memory model for heap objects
reachable from caller data, allocator, `sync` internals) is explored by the race-detector stress in
the harness and named in docs/C13.md.
-/
namespace Verif.Props.C13
open Verif.Model.Conc

theorem run_shared {Sh Lo : Type} (P : Prog Sh Lo) (c : Cfg Sh Lo) (sched : List Nat) :
    (run P c sched).shared = c.shared := by
  induction sched generalizing c with
  | nil => rfl
  | cons i s ih => simp only [run, List.foldl_cons] at *; rw [ih]; rfl

theorem iter_succ' {Lo : Type} (f : Lo → Lo) (n : Nat) (x : Lo) : iter f (n + 1) x = f (iter f n x) := by
  induction n generalizing x with
  | zero => rfl
  | succ n ih => simp only [iter] at *; rw [ih]

/-- **Non-interference.** Under every interleaving of any number of threads, shared state is never
    changed and thread `i` ends in exactly the state it reaches by running alone for as many steps
    as the schedule gave it: no call can observe or influence another. -/
theorem noninterference {Sh Lo : Type} (P : Prog Sh Lo) (c : Cfg Sh Lo) (sched : List Nat) (i : Nat) :
    (run P c sched).shared = c.shared ∧
    (run P c sched).locals[i]? = (c.locals[i]?).map (iter (P.step c.shared) (sched.count i)) := by
  refine ⟨run_shared P c sched, ?_⟩
  induction sched generalizing c with
  | nil => simp [run, iter]
  | cons j s ih =>
    have hs : (stepThread P c j).shared = c.shared := rfl
    simp only [run, List.foldl_cons] at ih ⊢
    rw [ih (stepThread P c j), hs]
    simp only [stepThread, List.getElem?_modify]
    by_cases hji : j = i
    · subst hji
      simp only [if_true, List.count_cons_self]
      cases c.locals[j]? with
      | none => rfl
      | some x => simp [iter]
    · have : (j == i) = false := by simpa using hji
      simp [hji]

/-- **Determinism / schedule independence.** Two runs with different interleavings that give thread `i`
    the same number of steps leave it in the same state — in particular the bytes a call returns do
    not depend on what other goroutines do, nor on GOMAXPROCS or the goroutine count. -/
theorem deterministic {Sh Lo : Type} (P : Prog Sh Lo) (c : Cfg Sh Lo) (s₁ s₂ : List Nat) (i : Nat)
    (h : s₁.count i = s₂.count i) : (run P c s₁).locals[i]? = (run P c s₂).locals[i]? := by
  rw [(noninterference P c s₁ i).2, (noninterference P c s₂ i).2, h]

/-- adding more concurrent calls changes nothing for the existing ones -/
theorem more_threads_irrelevant {Sh Lo : Type} (P : Prog Sh Lo) (sh : Sh) (ls extra : List Lo) (sched : List Nat)
    (i : Nat) (hi : i < ls.length) :
    (run P ⟨sh, ls ++ extra⟩ sched).locals[i]? = (run P ⟨sh, ls⟩ (sched.filter (· < ls.length))).locals[i]? := by
  rw [(noninterference P _ sched i).2, (noninterference P _ _ i).2]
  simp only [List.getElem?_append_left hi]
  congr 2
  induction sched with
  | nil => rfl
  | cons j s ih =>
    by_cases hj : j < ls.length
    · simp [List.filter, hj, List.count_cons, ih]
    · have : j ≠ i := by omega
      have h2 : (j == i) = false := by simpa using this
      simp [List.filter, hj, List.count_cons, ih, h2]

/-! ## the registry lock never blocks a reader when nobody registers -/

def runOps (s : RW) (ops : List LockOp) : RW := ops.foldl applyOp s

theorem reader_ops_keep_free (s : RW) (ops : List LockOp) (hs : s.writer = false ∧ s.pending = false)
    (h : ∀ op ∈ ops, isReaderOp op = true) :
    (runOps s ops).writer = false ∧ (runOps s ops).pending = false := by
  induction ops generalizing s with
  | nil => exact hs
  | cons op r ih =>
    simp only [runOps, List.foldl_cons]
    apply ih
    · cases op with
      | rlock => simp only [applyOp]; split <;> exact hs
      | runlock => exact hs
      | lock => simp [isReaderOp] at h
      | unlock => simp [isReaderOp] at h
    · intro o ho; exact h o (List.mem_cons_of_mem _ ho)

/-- **No call blocks on another.** As long as only `RLock`/`RUnlock` are issued (Match, MinifyMimetype,
    also re-entrantly for embedded content; registration concurrent with use is outside the property),
    after every prefix of every interleaving of lock operations a further `RLock` is enabled. -/
theorem readers_never_block (ops : List LockOp) (h : ∀ op ∈ ops, isReaderOp op = true) (k : Nat) :
    enabled (runOps {} (ops.take k)) .rlock = true := by
  have := reader_ops_keep_free {} (ops.take k) ⟨rfl, rfl⟩ (fun o ho => h o (List.mem_of_mem_take ho))
  simp [enabled, this.1, this.2]

/-- the pending-writer rule is why registration during use is excluded: a waiting `Lock` disables `RLock`
    (non-vacuity of the hypothesis of `readers_never_block`) -/
example : enabled (runOps {} [.rlock, .lock]) .rlock = false := by decide

/-! ## regenerated facts -/

open Verif.Gen.ConcFacts

/-! The facts are *semantic*: the translator (harness/cmd/extract/c13_facts.go + alias.go) resolves every name through the type
checker and follows package-level slices / maps through local aliases, re-slices, parameters of the callees it has source
for (the module itself and github.com/tdewolff/parse/v2), struct fields those callees store them in, and returned values.
`aliasViolations` lists every write / escape it finds on the way (must be empty); `globalArgLeaves` lists the calls where
such a value leaves the analysed code.  What is decided HERE is only which leaves are acceptable:
a generous list of standard-library functions that never write through their slice / map arguments, and three named contracts.
A harmless rewrite of /repo (renamed receiver, new read-only helper, another read-only standard-library call) therefore
does not change the verdict; a write through any alias does. -/

/-- standard-library functions and methods (`package.Function`, `package.Type.Method`) that only read the slices / maps they
    are given (whichever argument position) -/
def readOnlyStdlib : List String :=
  ["bytes.Equal", "bytes.Compare", "bytes.Contains", "bytes.ContainsAny", "bytes.ContainsRune", "bytes.ContainsFunc", "bytes.Count",
   "bytes.EqualFold", "bytes.HasPrefix", "bytes.HasSuffix", "bytes.Index", "bytes.IndexAny", "bytes.IndexByte", "bytes.IndexFunc",
   "bytes.IndexRune", "bytes.LastIndex", "bytes.LastIndexAny", "bytes.LastIndexByte", "bytes.LastIndexFunc", "bytes.Split",
   "bytes.SplitN", "bytes.SplitAfter", "bytes.SplitAfterN", "bytes.Fields", "bytes.FieldsFunc", "bytes.Trim", "bytes.TrimLeft",
   "bytes.TrimRight", "bytes.TrimFunc", "bytes.TrimLeftFunc", "bytes.TrimRightFunc", "bytes.TrimSpace", "bytes.TrimPrefix",
   "bytes.TrimSuffix", "bytes.Cut", "bytes.CutPrefix", "bytes.CutSuffix", "bytes.Join", "bytes.Repeat", "bytes.ToUpper",
   "bytes.ToLower", "bytes.ToTitle", "bytes.Title", "bytes.Map", "bytes.Runes", "bytes.Clone", "bytes.Replace", "bytes.ReplaceAll",
   "bytes.ToValidUTF8", "bytes.NewReader", "bytes.Buffer.Write", "bytes.Buffer.WriteString",
   "strings.Builder.Write", "bufio.Writer.Write", "os.File.Write", "os.File.WriteAt",
   "utf8.DecodeRune", "utf8.DecodeLastRune", "utf8.FullRune", "utf8.RuneCount", "utf8.Valid", "utf8.RuneStart",
   "unicode.Is", "unicode.In", "unicode.IsOneOf",
   "regexp.Regexp.Match", "regexp.Regexp.Find", "regexp.Regexp.FindIndex", "regexp.Regexp.FindSubmatch", "regexp.Regexp.FindSubmatchIndex",
   "regexp.Regexp.FindAll", "regexp.Regexp.FindAllIndex", "regexp.Regexp.FindAllSubmatch", "regexp.Regexp.ReplaceAll",
   "regexp.Regexp.ReplaceAllLiteral", "regexp.Match",
   "slices.Equal", "slices.Compare", "slices.Contains", "slices.ContainsFunc", "slices.Index", "slices.IndexFunc", "slices.BinarySearch",
   "slices.Max", "slices.Min", "slices.Clone", "maps.Keys", "maps.Values", "maps.Clone", "maps.Equal",
   "hex.EncodeToString", "hex.Dump", "base64.Encoding.EncodeToString", "base64.Encoding.EncodedLen",
   "crc32.ChecksumIEEE", "crc32.Checksum", "crc64.Checksum", "adler32.Checksum", "sha256.Sum256", "sha256.Sum224", "sha1.Sum",
   "md5.Sum", "sha512.Sum512", "fnv.New32a", "hash.Hash.Write", "hash.Hash32.Write", "hash.Hash64.Write",
   "fmt.Sprint", "fmt.Sprintf", "fmt.Sprintln", "fmt.Fprint", "fmt.Fprintf", "fmt.Fprintln", "fmt.Errorf", "fmt.Print", "fmt.Printf",
   "fmt.Println", "log.Logger.Print", "log.Logger.Printf", "log.Logger.Println",
   "strconv.ParseInt", "strconv.ParseUint", "strconv.ParseFloat", "strconv.Atoi", "reflect.DeepEqual"]

/-- (function, argument index) pairs: the function writes another argument but only reads this one -/
def readOnlyStdlibAt : List (String × Int) :=
  [("hex.Encode", 1), ("hex.Decode", 1), ("base64.Encoding.Encode", 1), ("base64.Encoding.Decode", 1),
   ("strconv.AppendQuote", 1), ("utf8.AppendRune", 1), ("crc32.Update", 2), ("crc32.Update", 1), ("binary.Write", 2)]

/-- named contracts about code the analysis cannot see:
    * `io.Writer.Write(p)`: "Write must not modify the slice data, even temporarily" (package io);
    * a registered minifier — `minify.Minifier.Minify(m, w, r, params)` behind the interface, or a `minify.MinifierFunc` — must not
      write to the `params` map it is handed (the in-module implementations are analysed; this is the contract for foreign ones) -/
def contracts : List (String × Int) :=
  [("io.Writer.Write", 0), ("minify.Minifier.Minify", 3), ("func value of type minify.MinifierFunc", 3)]

def leafOk (l : String × Int) : Bool :=
  readOnlyStdlib.contains l.1 || readOnlyStdlibAt.contains l || contracts.contains l

def expectedLockUse : List String :=
  ["M.Add: Lock;Unlock", "M.AddCmd: Lock;Unlock", "M.AddCmdRegexp: Lock;Unlock", "M.AddFunc: Lock;Unlock",
   "M.AddFuncRegexp: Lock;Unlock", "M.AddRegexp: Lock;Unlock", "M.Match: RLock;defer RUnlock",
   "M.MinifyMimetype: RLock;defer RUnlock"]

def factsOk : Bool :=
  -- no package-level variable is written after init
  globalWrites.isEmpty &&
  -- every write through a Minify receiver happens on a private copy
  optionWrites.all (fun s => s.endsWith " dominated") &&
  -- every iteration over a map only does order-insensitive things (builds a set, counts)
  mapRanges.all (fun s => s.endsWith " order-insensitive") &&
  -- goroutines only in the three pipe wrappers; no time, randomness, environment
  nondet == ["minify.M.Reader: go", "minify.M.Writer: go", "minify.responseWriter.Write: go"] &&
  -- lock discipline of the registry (lock calls are recognised by their sync.(RW)Mutex method on a field of M)
  lockUse == expectedLockUse &&
  -- the registry's own fields are assigned only by the registration methods (which hold the write lock)
  registryWrites == ["M.Add: literal[_]", "M.AddCmd: literal[_]", "M.AddCmdRegexp: pattern",
    "M.AddFunc: literal[_]", "M.AddFuncRegexp: pattern", "M.AddRegexp: pattern"] &&
  -- nothing derived from a package-level slice / map is written through or escapes in the code the analysis has source for …
  aliasViolations.isEmpty &&
  -- … and where such a value leaves that code, the callee is a read-only standard-library function or one of the contracts
  globalArgLeaves.all leafOk &&
  -- … and only two of them are ever the base of an append (their cap == len is checked at run time through the hook)
  appendBases.all (fun s => ["css.urlBytes", "minify.dataBytes"].contains s)

/-- the source of /repo, as of this run, has the shape the model assumes -/
theorem facts_ok : factsOk = true := by decide +kernel

end Verif.Props.C13

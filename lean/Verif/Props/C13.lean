import Verif.Model.Conc
import Verif.Gen.ConcFacts
/-!
# C13 — a shared registry is safe and deterministic under concurrency

`noninterference`/`deterministic` are the model-level theorems (every interleaving = sequential);
`facts_ok` re-checks, on every run, that the facts regenerated from /repo's source still have the
shape the model assumes.  What the model cannot exhibit (the Go memory model for heap objects
reachable from caller data, allocator, `sync` internals) is explored by the race-detector stress in
the harness and named in docs/C13.md.
-/
namespace Verif.Props.C13
open Verif.Model.Conc

theorem run_shared {Sh Lo : Type} (P : Prog Sh Lo) (c : Cfg Sh Lo) (sched : List Nat) :
    (run P c sched).shared = c.shared := by
  induction sched generalizing c with
  | nil => rfl
  | cons i s ih => simp only [run, List.foldl_cons] at *; rw [ih]; rfl

theorem iter_succ' {Lo : Type} (f : Lo → Lo) (n : Nat) (x : Lo) : iter f (n + 1) x = f (iter f n x) := by
  induction n generalizing x with
  | zero => rfl
  | succ n ih => simp only [iter] at *; rw [ih]

/-- **Non-interference.** Under every interleaving of any number of threads, shared state is never
    changed and thread `i` ends in exactly the state it reaches by running alone for as many steps
    as the schedule gave it: no call can observe or influence another. -/
theorem noninterference {Sh Lo : Type} (P : Prog Sh Lo) (c : Cfg Sh Lo) (sched : List Nat) (i : Nat) :
    (run P c sched).shared = c.shared ∧
    (run P c sched).locals[i]? = (c.locals[i]?).map (iter (P.step c.shared) (sched.count i)) := by
  refine ⟨run_shared P c sched, ?_⟩
  induction sched generalizing c with
  | nil => simp [run, iter]
  | cons j s ih =>
    have hs : (stepThread P c j).shared = c.shared := rfl
    simp only [run, List.foldl_cons] at ih ⊢
    rw [ih (stepThread P c j), hs]
    simp only [stepThread, List.getElem?_modify]
    by_cases hji : j = i
    · subst hji
      simp only [if_true, List.count_cons_self]
      cases c.locals[j]? with
      | none => rfl
      | some x => simp [iter]
    · have : (j == i) = false := by simpa using hji
      simp [hji]

/-- **Determinism / schedule independence.** Two runs with different interleavings that give thread `i`
    the same number of steps leave it in the same state — in particular the bytes a call returns do
    not depend on what other goroutines do, nor on GOMAXPROCS or the goroutine count. -/
theorem deterministic {Sh Lo : Type} (P : Prog Sh Lo) (c : Cfg Sh Lo) (s₁ s₂ : List Nat) (i : Nat)
    (h : s₁.count i = s₂.count i) : (run P c s₁).locals[i]? = (run P c s₂).locals[i]? := by
  rw [(noninterference P c s₁ i).2, (noninterference P c s₂ i).2, h]

/-- adding more concurrent calls changes nothing for the existing ones -/
theorem more_threads_irrelevant {Sh Lo : Type} (P : Prog Sh Lo) (sh : Sh) (ls extra : List Lo) (sched : List Nat)
    (i : Nat) (hi : i < ls.length) :
    (run P ⟨sh, ls ++ extra⟩ sched).locals[i]? = (run P ⟨sh, ls⟩ (sched.filter (· < ls.length))).locals[i]? := by
  rw [(noninterference P _ sched i).2, (noninterference P _ _ i).2]
  simp only [List.getElem?_append_left hi]
  congr 2
  induction sched with
  | nil => rfl
  | cons j s ih =>
    by_cases hj : j < ls.length
    · simp [List.filter, hj, List.count_cons, ih]
    · have : j ≠ i := by omega
      have h2 : (j == i) = false := by simpa using this
      simp [List.filter, hj, List.count_cons, ih, h2]

/-! ## the registry lock never blocks a reader when nobody registers -/

def runOps (s : RW) (ops : List LockOp) : RW := ops.foldl applyOp s

theorem reader_ops_keep_free (s : RW) (ops : List LockOp) (hs : s.writer = false ∧ s.pending = false)
    (h : ∀ op ∈ ops, isReaderOp op = true) :
    (runOps s ops).writer = false ∧ (runOps s ops).pending = false := by
  induction ops generalizing s with
  | nil => exact hs
  | cons op r ih =>
    simp only [runOps, List.foldl_cons]
    apply ih
    · cases op with
      | rlock => simp only [applyOp]; split <;> exact hs
      | runlock => exact hs
      | lock => simp [isReaderOp] at h
      | unlock => simp [isReaderOp] at h
    · intro o ho; exact h o (List.mem_cons_of_mem _ ho)

/-- **No call blocks on another.** As long as only `RLock`/`RUnlock` are issued (Match, MinifyMimetype,
    also re-entrantly for embedded content; registration concurrent with use is outside the property),
    after every prefix of every interleaving of lock operations a further `RLock` is enabled. -/
theorem readers_never_block (ops : List LockOp) (h : ∀ op ∈ ops, isReaderOp op = true) (k : Nat) :
    enabled (runOps {} (ops.take k)) .rlock = true := by
  have := reader_ops_keep_free {} (ops.take k) ⟨rfl, rfl⟩ (fun o ho => h o (List.mem_of_mem_take ho))
  simp [enabled, this.1, this.2]

/-- the pending-writer rule is why registration during use is excluded: a waiting `Lock` disables `RLock`
    (non-vacuity of the hypothesis of `readers_never_block`) -/
example : enabled (runOps {} [.rlock, .lock]) .rlock = false := by decide

/-! ## regenerated facts -/

open Verif.Gen.ConcFacts

/-- callees that receive a package-level slice/map and are known not to write through it -/
def readOnlyCallees : List String :=
  ["bytes.Equal#1", "isGlobalVar#1", "bytes.HasPrefix#1", "bytes.Split#1", "c.w.Write#0", "m.w.Write#0", "w.Write#0", "m.write#0",
   "m.MinifyMimetype#0", "m.MinifyMimetype#3", "parse.EqualFold#1", "parse.ReplaceEntities#1", "parse.ReplaceEntities#2",
   "parse.ReplaceMultipleWhitespaceAndEntities#1", "parse.ReplaceMultipleWhitespaceAndEntities#2",
   -- read-only functions of the standard library and of parse/v2 (second operand of a search / comparison; parse.Copy reads)
   "bytes.Contains#1", "bytes.Index#1", "bytes.LastIndex#1", "bytes.HasSuffix#1", "bytes.Compare#1", "bytes.EqualFold#1",
   "bytes.Count#1", "bytes.ContainsAny#0", "bytes.IndexAny#0", "bytes.TrimPrefix#1", "bytes.TrimSuffix#1", "bytes.Equal#0",
   "bytes.HasPrefix#0", "bytes.Contains#0", "bytes.Index#0", "parse.Copy#0", "parse.EqualFold#0"]

def expectedLockUse : List String :=
  ["M.Add: Lock;Unlock", "M.AddCmd: Lock;Unlock", "M.AddCmdRegexp: Lock;Unlock", "M.AddFunc: Lock;Unlock",
   "M.AddFuncRegexp: Lock;Unlock", "M.AddRegexp: Lock;Unlock", "M.Match: RLock;defer RUnlock",
   "M.MinifyMimetype: RLock;defer RUnlock"]

def factsOk : Bool :=
  -- no package-level variable is written after init
  globalWrites.isEmpty &&
  -- every write through a Minify receiver happens on a private copy
  optionWrites.all (fun s => s.endsWith " dominated") &&
  -- the only map iteration builds a set (order-insensitive)
  mapRanges == ["js.newRenamer: js.Keywords"] &&
  -- goroutines only in the three pipe wrappers; no time, randomness, environment
  nondet == ["minify.M.Reader: go", "minify.M.Writer: go", "minify.responseWriter.Write: go"] &&
  -- lock discipline of the registry
  lockUse == expectedLockUse &&
  -- the registry's own fields are assigned only by the registration methods (which hold the write lock)
  registryWrites == ["M.Add: m.literal[mimetype]", "M.AddCmd: m.literal[mimetype]", "M.AddCmdRegexp: m.pattern",
    "M.AddFunc: m.literal[mimetype]", "M.AddFuncRegexp: m.pattern", "M.AddRegexp: m.pattern"] &&
  -- package-level slices are only handed to read-only callees …
  globalArgCallees.all (fun s => readOnlyCallees.contains s) &&
  -- … and appended to only at two known sites (cap == len is checked at run time through the hook)
  appendBases.all (fun s => ["css.urlBytes in cssMinifier.minifyTokens", "minify.dataBytes in DataURI"].contains s)

/-- the source of /repo, as of this run, has the shape the model assumes -/
theorem facts_ok : factsOk = true := by decide +kernel

end Verif.Props.C13

import Verif.Proofs.DataURI
/-!
# C18 — Data URI and media type helpers preserve what they encode

Property theorems only.  Model: `Verif.Model.DataURI` (behavioural model of `minify.DataURI`,
`minify.Mediatype` and — by contract — of the dependency functions they call); specification:
`Verif.Spec.Rfc2397` (RFC 2397 / RFC 4648 readers, media type normal form, reference media type helper).
Byte strings are Latin-1 `List Char`s; `AllBytes l` says every element is < 256 (true of everything the
driver ever builds; `bytesToChars` of any `List UInt8` satisfies it).
-/
set_option maxRecDepth 100000
namespace Verif.Props.C18
open Verif Verif.Model.DataURI Verif.Proofs.DataURI
open Verif.Spec.Rfc2397 (pctDecode)

/-! ## facts about the regenerated tables (re-checked by the kernel whenever the dependency changes) -/

/-- the model's `isWs` is the dependency's `whitespaceTable` -/
theorem ws_table_agrees : ∀ n, n < 256 → isWs (Char.ofNat n) = (Verif.Gen.DataURITable.wsTable[n]?).getD false := by
  decide +kernel

theorem table_sizes : Verif.Gen.DataURITable.encTable.length = 256 ∧ Verif.Gen.DataURITable.wsTable.length = 256 := by
  decide

/-- `%` is escaped (needed for decoding to invert encoding) -/
theorem tbl_escapes_percent : tbl '%' = true := by decide

/-- the digits `EncodeURL` inserts are not themselves escaped (side condition of the model `encodeURL`) -/
theorem tbl_hex_unescaped : ∀ c ∈ "0123456789ABCDEF".toList, tbl c = false := by decide

/-- every byte the table leaves alone is printable ASCII other than `%`: the percent-encoded form is a
    string of URL characters -/
theorem tbl_unescaped_printable : ∀ n, n < 256 → tbl (Char.ofNat n) = false → 33 ≤ n ∧ n < 127 ∧ n ≠ 37 := by
  decide +kernel

/-- **known defect of the dependency table**: `+` is not escaped although the dependency's own decoder
    turns `+` into a space -/
theorem tbl_does_not_escape_plus : tbl '+' = false := by decide

/-! ## (a) base64 -/

/-- decoding inverts encoding, for every byte string (Go `StdEncoding.Decode ∘ Encode`, by contract) -/
theorem b64_roundtrip (bs : List Char) (hb : AllBytes bs) : b64dec (b64enc bs) = some bs := by
  unfold b64dec
  rw [b64enc_filter bs hb, b64decCore_b64enc bs hb]

/-- the same for genuine byte lists, no side condition -/
theorem b64_roundtrip_bytes (bs : Bytes) : b64dec (b64enc (bytesToChars bs)) = some (bytesToChars bs) :=
  b64_roundtrip _ (allBytes_bytesToChars bs)

/-- `EncodedLen` -/
theorem b64_length (bs : List Char) : (b64enc bs).length = (bs.length + 2) / 3 * 4 := b64enc_length bs

example : b64enc "text".toList = "dGV4dA==".toList := by decide
example : b64dec "dGV4\r\ndA==".toList = some "text".toList := by decide
example : b64dec "dGV4dA=".toList = none := by decide

/-! ## (b) percent-coding -/

/-- RFC percent-decoding inverts `EncodeURL` for every table that escapes `%` -/
theorem pct_roundtrip (t : Char → Bool) (ht : t '%' = true) (bs : List Char) (hb : AllBytes bs) :
    pctDecode (encodeURL t bs) = bs := pctDecode_encodeURL t ht bs hb

/-- … in particular for the regenerated `DataURIEncodingTable` -/
theorem pct_roundtrip_tbl (bs : List Char) (hb : AllBytes bs) : pctDecode (encodeURL tbl bs) = bs :=
  pct_roundtrip tbl tbl_escapes_percent bs hb

/-- the dependency's own `DecodeURL` inverts `EncodeURL` for tables that escape `%` **and** `+` -/
theorem pct_roundtrip_dep (t : Char → Bool) (ht : t '%' = true) (hp : t '+' = true) (bs : List Char)
    (hb : AllBytes bs) : decodeURL (encodeURL t bs) = bs := decodeURL_encodeURL t ht hp bs hb

/-- full statement for the shipped table -/
def pct_roundtrip_dep_tbl_full : Prop := ∀ bs, AllBytes bs → decodeURL (encodeURL tbl bs) = bs

/-- it is false: the table does not escape `+`, so what `DataURI` writes (`data:,a+b` for the payload `a+b`)
    is read back by the dependency as `a b` -/
theorem pct_roundtrip_dep_tbl_counterexample : ¬ pct_roundtrip_dep_tbl_full := fun h =>
  absurd (h "a+b".toList (by decide)) (by decide)

/-- guarded version: payloads without `+` -/
theorem pct_roundtrip_dep_tbl_partial (bs : List Char) (hb : AllBytes bs) (hp : '+' ∉ bs) :
    decodeURL (encodeURL tbl bs) = bs := by
  induction bs with
  | nil => rfl
  | cons c r ih =>
    have hc := (allBytes_cons.1 hb).1
    have hr := (allBytes_cons.1 hb).2
    have hcp : c ≠ '+' := fun e => hp (by simp [e])
    have hrp : '+' ∉ r := fun e => hp (by simp [e])
    simp only [encodeURL]
    split
    · rw [decodeURL_esc (hexVal_hexUp _ (by omega)) (hexVal_hexUp _ (Nat.mod_lt _ (by decide))), ih hr hrp]
      have : c.toNat / 16 * 16 + c.toNat % 16 = c.toNat := by omega
      rw [this, Char.ofNat_toNat]
    · rename_i hn
      have h1 : c ≠ '%' := by intro e; subst e; exact hn tbl_escapes_percent
      rw [decodeURL_cons_plain h1 hcp, ih hr hrp]

example : AllBytes "a b#".toList ∧ '+' ∉ "a b#".toList := by decide
example : encodeURL tbl "a b#<".toList = "a%20b%23%3C".toList := by decide

/-! ## (c) anything the dependency does not parse is returned unchanged -/

theorem dataURI_bad (sub : List Char → List Char → Option (List Char)) (u : List Char)
    (h : parseDataURI u = none) : dataURI sub u = u := by
  simp [dataURI, h]

example : parseDataURI "data:;base64,QQ=".toList = none := by decide
example : parseDataURI "datx:x".toList = none := by decide
example : parseDataURI "data:text/html".toList = none := by decide

end Verif.Props.C18

import Verif.Proofs.DataURIMain
/-!
# C18 — Data URI and media type helpers preserve what they encode

Property theorems only.  Model: `Verif.Model.DataURI` (behavioural model of `minify.DataURI`,
`minify.Mediatype` and — by contract — of the dependency functions they call); specification:
`Verif.Spec.Rfc2397` (RFC 2397 / RFC 4648 readers, media type normal form, reference media type helper).
Byte strings are Latin-1 `List Char`s; `AllBytes l` says every element is < 256 (true of everything the
driver ever builds; `bytesToChars` of any `List UInt8` satisfies it).
-/
set_option maxRecDepth 100000
namespace Verif.Props.C18
open Verif Verif.Model.DataURI Verif.Proofs.DataURI
open Verif.Spec.Rfc2397 (pctDecode rfcParse mtNorm trigPlus trigParamNoType trigB64Item trigTextPlainPrefix
  trigDataURI holdsDataURI)

/-! ## facts about the regenerated tables (re-checked by the kernel whenever the dependency changes) -/

/-- the model's `isWs` is the dependency's `whitespaceTable` -/
theorem ws_table_agrees : ∀ n, n < 256 → isWs (Char.ofNat n) = (Verif.Gen.DataURITable.wsTable[n]?).getD false := by
  decide +kernel

theorem table_sizes : Verif.Gen.DataURITable.encTable.length = 256 ∧ Verif.Gen.DataURITable.wsTable.length = 256 := by
  decide

/-- `%` is escaped (needed for decoding to invert encoding) -/
theorem tbl_escapes_percent : tbl '%' = true := by decide

/-- the digits `EncodeURL` inserts are not themselves escaped (side condition of the model `encodeURL`) -/
theorem tbl_hex_unescaped : ∀ c ∈ "0123456789ABCDEF".toList, tbl c = false := by decide

/-- every byte the table leaves alone is printable ASCII other than `%`: the percent-encoded form is a
    string of URL characters -/
theorem tbl_unescaped_printable : ∀ n, n < 256 → tbl (Char.ofNat n) = false → 33 ≤ n ∧ n < 127 ∧ n ≠ 37 := by
  decide +kernel

/-- **known defect of the dependency table**: `+` is not escaped although the dependency's own decoder
    turns `+` into a space -/
theorem tbl_does_not_escape_plus : tbl '+' = false := by decide

/-! ## (a) base64 -/

/-- decoding inverts encoding, for every byte string (Go `StdEncoding.Decode ∘ Encode`, by contract) -/
theorem b64_roundtrip (bs : List Char) (hb : AllBytes bs) : b64dec (b64enc bs) = some bs := by
  unfold b64dec
  rw [b64enc_filter bs hb, b64decCore_b64enc bs hb]

/-- the same for genuine byte lists, no side condition -/
theorem b64_roundtrip_bytes (bs : Bytes) : b64dec (b64enc (bytesToChars bs)) = some (bytesToChars bs) :=
  b64_roundtrip _ (allBytes_bytesToChars bs)

/-- `EncodedLen` -/
theorem b64_length (bs : List Char) : (b64enc bs).length = (bs.length + 2) / 3 * 4 := b64enc_length bs

example : b64enc "text".toList = "dGV4dA==".toList := by decide
example : b64dec "dGV4\r\ndA==".toList = some "text".toList := by decide
example : b64dec "dGV4dA=".toList = none := by decide

/-! ## (b) percent-coding -/

/-- RFC percent-decoding inverts `EncodeURL` for every table that escapes `%` -/
theorem pct_roundtrip (t : Char → Bool) (ht : t '%' = true) (bs : List Char) (hb : AllBytes bs) :
    pctDecode (encodeURL t bs) = bs := pctDecode_encodeURL t ht bs hb

/-- … in particular for the regenerated `DataURIEncodingTable` -/
theorem pct_roundtrip_tbl (bs : List Char) (hb : AllBytes bs) : pctDecode (encodeURL tbl bs) = bs :=
  pct_roundtrip tbl tbl_escapes_percent bs hb

/-- the dependency's own `DecodeURL` inverts `EncodeURL` for tables that escape `%` **and** `+` -/
theorem pct_roundtrip_dep (t : Char → Bool) (ht : t '%' = true) (hp : t '+' = true) (bs : List Char)
    (hb : AllBytes bs) : decodeURL (encodeURL t bs) = bs := decodeURL_encodeURL t ht hp bs hb

/-- full statement for the shipped table -/
def pct_roundtrip_dep_tbl_full : Prop := ∀ bs, AllBytes bs → decodeURL (encodeURL tbl bs) = bs

/-- it is false: the table does not escape `+`, so what `DataURI` writes (`data:,a+b` for the payload `a+b`)
    is read back by the dependency as `a b` -/
theorem pct_roundtrip_dep_tbl_counterexample : ¬ pct_roundtrip_dep_tbl_full := fun h =>
  absurd (h "a+b".toList (by decide)) (by decide)

/-- guarded version: payloads without `+` -/
theorem pct_roundtrip_dep_tbl_partial (bs : List Char) (hb : AllBytes bs) (hp : '+' ∉ bs) :
    decodeURL (encodeURL tbl bs) = bs := by
  induction bs with
  | nil => rfl
  | cons c r ih =>
    have hc := (allBytes_cons.1 hb).1
    have hr := (allBytes_cons.1 hb).2
    have hcp : c ≠ '+' := fun e => hp (by simp [e])
    have hrp : '+' ∉ r := fun e => hp (by simp [e])
    simp only [encodeURL]
    split
    · rw [decodeURL_esc (hexVal_hexUp _ (by omega)) (hexVal_hexUp _ (Nat.mod_lt _ (by decide))), ih hr hrp]
      have : c.toNat / 16 * 16 + c.toNat % 16 = c.toNat := by omega
      rw [this, Char.ofNat_toNat]
    · rename_i hn
      have h1 : c ≠ '%' := by intro e; subst e; exact hn tbl_escapes_percent
      rw [decodeURL_cons_plain h1 hcp, ih hr hrp]

example : AllBytes "a b#".toList ∧ '+' ∉ "a b#".toList := by decide
example : encodeURL tbl "a b#<".toList = "a%20b%23%3C".toList := by decide

/-! ## (c) anything the dependency does not parse is returned unchanged -/

theorem dataURI_bad (sub : List Char → List Char → Option (List Char)) (u : List Char)
    (h : parseDataURI u = none) : dataURI sub u = u := by
  simp [dataURI, h]

example : parseDataURI "data:;base64,QQ=".toList = none := by decide
example : parseDataURI "datx:x".toList = none := by decide
example : parseDataURI "data:text/html".toList = none := by decide

/-! ## (d) what the helper returns reads, per RFC 2397, as the same media type and the (sub-)minified payload

The statement is against the RFC reading of the *input* (`rfcParse`, specification side), not against the
dependency's parser.  `sub` is the sub-minifier (`m.Bytes`): an arbitrary function that returns bytes. -/

/-- the sub-minifier returns byte strings -/
def SubBytes (sub : List Char → List Char → Option (List Char)) : Prop := ∀ m x y, sub m x = some y → AllBytes y

/-- full statement: for every data URL `u` that RFC 2397 reads as (media type `mt`, payload `d`) the result is
    `u` itself or a data URL that reads as a media type equivalent to `mt` and the payload the sub-minifier
    produced for `d` (identical bytes when it declined) — and the sub-minifier was asked with a media type
    equivalent to `mt` -/
def dataURI_preserves_full : Prop :=
  ∀ (sub : List Char → List Char → Option (List Char)) (u mt d : List Char),
    AllBytes u → SubBytes sub → rfcParse u = some (mt, d) →
    ∃ mtd, mtNorm mtd = mtNorm mt ∧
      (dataURI sub u = u ∨
       ∃ mt', rfcParse (dataURI sub u) = some (mt', (sub mtd d).getD d) ∧ mtNorm mt' = mtNorm mt)

/-- proved outside four narrow syntactic triggers (the known findings K-C18-1 … K-C18-4) -/
theorem dataURI_preserves_partial (sub : List Char → List Char → Option (List Char)) (u mt d : List Char)
    (hu : AllBytes u) (hsub : SubBytes sub) (hr : rfcParse u = some (mt, d))
    (g1 : trigPlus u = false) (g2 : trigParamNoType u = false) (g3 : trigB64Item u = false)
    (g4 : trigTextPlainPrefix u = false) :
    ∃ mtd, mtNorm mtd = mtNorm mt ∧
      (dataURI sub u = u ∨
       ∃ mt', rfcParse (dataURI sub u) = some (mt', (sub mtd d).getD d) ∧ mtNorm mt' = mtNorm mt) := by
  obtain ⟨mtd, _, h2, h3⟩ := preserves_core sub u mt d hu hsub hr g1 g2 g3 g4
  exact ⟨mtd, h2, h3⟩

/-- the same in the form the harness evaluates on the implementation's output (`spec.c18.holds`) -/
theorem dataURI_holds_partial (sub : List Char → List Char → Option (List Char)) (u : List Char)
    (hu : AllBytes u) (hsub : SubBytes sub) (g : trigDataURI u = false) :
    ∃ mtd, holdsDataURI u (dataURI sub u)
      ((sub mtd ((rfcParse u).map (·.2)).get!).getD ((rfcParse u).map (·.2)).get!) = true := by
  simp only [trigDataURI, Bool.or_eq_false_iff] at g
  obtain ⟨⟨⟨g1, g2⟩, g3⟩, g4⟩ := g
  cases hr : rfcParse u with
  | none => exact ⟨[], by simp [holdsDataURI, hr]⟩
  | some md =>
    obtain ⟨mt, d⟩ := md
    obtain ⟨mtd, _, h | ⟨mt', h1, h2⟩⟩ := dataURI_preserves_partial sub u mt d hu hsub hr g1 g2 g3 g4
    · exact ⟨mtd, by simp [holdsDataURI, hr, h]⟩
    · refine ⟨mtd, ?_⟩
      simp only [holdsDataURI, hr, Option.map_some, Option.get!_some, h1, h2]
      simp

/-- outside the triggers the dependency's parser reads what RFC 2397 reads (media type up to the normal form).
    The converse fails by design: Go's base64 decoder also accepts CR/LF inside the payload. -/
theorem parse_agrees (u mt d : List Char) (hu : AllBytes u) (hr : rfcParse u = some (mt, d))
    (g : trigDataURI u = false) :
    ∃ mtd, parseDataURI u = some (mtd, d) ∧ mtNorm mtd = mtNorm mt := by
  simp only [trigDataURI, Bool.or_eq_false_iff] at g
  obtain ⟨⟨⟨g1, g2⟩, g3⟩, g4⟩ := g
  obtain ⟨mtd, h1, h2, _⟩ := preserves_core (fun _ _ => none) u mt d hu (by intro _ _ _ h; cases h) hr g1 g2 g3 g4
  exact ⟨mtd, h1, h2⟩

example : rfcParse "data:;base64,QU\nJD".toList = none ∧
    parseDataURI "data:;base64,QU\nJD".toList = some ("text/plain".toList, "ABC".toList) := by decide

/-- non-vacuity: a URL with parameters, whitespace and escapes satisfies every hypothesis -/
example : AllBytes "data:Text/HTML; charset=us-ascii ;a=b,%3Cp%3e x".toList ∧
    trigDataURI "data:Text/HTML; charset=us-ascii ;a=b,%3Cp%3e x".toList = false ∧
    rfcParse "data:Text/HTML; charset=us-ascii ;a=b,%3Cp%3e x".toList
      = some ("Text/HTML; charset=us-ascii ;a=b".toList, "<p> x".toList) ∧
    dataURI (fun _ _ => none) "data:Text/HTML; charset=us-ascii ;a=b,%3Cp%3e x".toList
      = "data:Text/HTML;a=b,%3Cp%3E%20x".toList := by decide

example : trigDataURI "data:image/png;base64,iVBORw0KGgo=".toList = false ∧
    (rfcParse "data:image/png;base64,iVBORw0KGgo=".toList).isSome = true := by decide

/-- the full statement is false — four independent witnesses, each the replay input of a known finding -/
theorem dataURI_preserves_counterexample_plus : ¬ dataURI_preserves_full := fun h => by
  obtain ⟨mtd, _, h1 | ⟨mt', h2, _⟩⟩ :=
    h (fun _ _ => none) "data:,a+b".toList [] "a+b".toList (by decide) (by intro _ _ _ e; cases e) (by decide)
  · revert h1; decide
  · have e : rfcParse (dataURI (fun _ _ => none) "data:,a+b".toList) = some ([], "a b".toList) := by decide
    rw [e] at h2
    simp only [Option.getD_none, Option.some.injEq, Prod.mk.injEq] at h2
    exact absurd h2.2 (by decide)

theorem dataURI_preserves_counterexample_paramNoType : ¬ dataURI_preserves_full := fun h => by
  obtain ⟨mtd, _, h1 | ⟨mt', h2, h3⟩⟩ :=
    h (fun _ _ => none) "data:;charset=utf-8,x".toList ";charset=utf-8".toList "x".toList (by decide)
      (by intro _ _ _ e; cases e) (by decide)
  · revert h1; decide
  · have e : rfcParse (dataURI (fun _ _ => none) "data:;charset=utf-8,x".toList) = some ([], "x".toList) := by decide
    rw [e] at h2
    simp only [Option.getD_none, Option.some.injEq, Prod.mk.injEq] at h2
    rw [← h2.1] at h3
    revert h3; decide

theorem dataURI_preserves_counterexample_b64Item : ¬ dataURI_preserves_full := fun h => by
  obtain ⟨mtd, _, h1 | ⟨mt', h2, _⟩⟩ :=
    h (fun _ _ => none) "data:x/y;a=base64,QUJD".toList "x/y;a=base64".toList "QUJD".toList (by decide)
      (by intro _ _ _ e; cases e) (by decide)
  · revert h1; decide
  · have e : rfcParse (dataURI (fun _ _ => none) "data:x/y;a=base64,QUJD".toList)
        = some ("x/y;a".toList, "ABC".toList) := by decide
    rw [e] at h2
    simp only [Option.getD_none, Option.some.injEq, Prod.mk.injEq] at h2
    exact absurd h2.2 (by decide)

theorem dataURI_preserves_counterexample_textPlainPrefix : ¬ dataURI_preserves_full := fun h => by
  obtain ⟨mtd, _, h1 | ⟨mt', h2, h3⟩⟩ :=
    h (fun _ _ => none) "data:text/plainx,abc".toList "text/plainx".toList "abc".toList (by decide)
      (by intro _ _ _ e; cases e) (by decide)
  · revert h1; decide
  · have e : rfcParse (dataURI (fun _ _ => none) "data:text/plainx,abc".toList) = some ("x".toList, "abc".toList) := by
      decide
    rw [e] at h2
    simp only [Option.getD_none, Option.some.injEq, Prod.mk.injEq] at h2
    rw [← h2.1] at h3
    revert h3; decide

/-- each witness falls under exactly its own trigger -/
example : trigPlus "data:,a+b".toList = true ∧ trigParamNoType "data:;charset=utf-8,x".toList = true ∧
    trigB64Item "data:x/y;a=base64,QUJD".toList = true ∧ trigTextPlainPrefix "data:text/plainx,abc".toList = true := by
  decide

end Verif.Props.C18

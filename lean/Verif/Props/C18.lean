import Verif.Proofs.DataURILength
import Verif.Proofs.Mediatype
/-!
# C18 — Data URI and media type helpers preserve what they encode

Property theorems only.  Model: `Verif.Model.DataURI` (behavioural model of `minify.DataURI`,
`minify.Mediatype` and — by contract — of the dependency functions they call); specification:
`Verif.Spec.Rfc2397` (RFC 2397 / RFC 4648 readers, media type normal form, reference media type helper).
Byte strings are Latin-1 `List Char`s; `AllBytes l` says every element is < 256 (true of everything the
driver ever builds; `bytesToChars` of any `List UInt8` satisfies it).
-/
set_option maxRecDepth 100000
namespace Verif.Props.C18
open Verif Verif.Model.DataURI Verif.Proofs.DataURI
open Verif.Spec.Rfc2397 (pctDecode rfcParse mtNorm trigPlus trigParamNoType trigB64Item
  trigDataURI holdsDataURI validlyEncoded specMediatypeOK specMediatype quotesClosed)

/-! ## facts about the regenerated tables (re-checked by the kernel whenever the dependency changes) -/

/-- the model's `isWs` is the dependency's `whitespaceTable` -/
theorem ws_table_agrees : ∀ n, n < 256 → isWs (Char.ofNat n) = (Verif.Gen.DataURITable.wsTable[n]?).getD false := by
  decide +kernel

theorem table_sizes : Verif.Gen.DataURITable.encTable.length = 256 ∧ Verif.Gen.DataURITable.wsTable.length = 256 := by
  decide

/-- `%` is escaped (needed for decoding to invert encoding) -/
theorem tbl_escapes_percent : tbl '%' = true := by decide

/-- the digits `EncodeURL` inserts are not themselves escaped (side condition of the model `encodeURL`) -/
theorem tbl_hex_unescaped : ∀ c ∈ "0123456789ABCDEF".toList, tbl c = false := by decide

/-- every byte the table leaves alone is printable ASCII other than `%`: the percent-encoded form is a
    string of URL characters -/
theorem tbl_unescaped_printable : ∀ n, n < 256 → tbl (Char.ofNat n) = false → 33 ≤ n ∧ n < 127 ∧ n ≠ 37 := by
  decide +kernel

/-- **known defect of the dependency table**: `+` is not escaped although the dependency's own decoder
    turns `+` into a space -/
theorem tbl_does_not_escape_plus : tbl '+' = false := by decide

/-! ## (a) base64 -/

/-- decoding inverts encoding, for every byte string (Go `StdEncoding.Decode ∘ Encode`, by contract) -/
theorem b64_roundtrip (bs : List Char) (hb : AllBytes bs) : b64dec (b64enc bs) = some bs := by
  unfold b64dec
  rw [b64enc_filter bs hb, b64decCore_b64enc bs hb]

/-- the same for genuine byte lists, no side condition -/
theorem b64_roundtrip_bytes (bs : Bytes) : b64dec (b64enc (bytesToChars bs)) = some (bytesToChars bs) :=
  b64_roundtrip _ (allBytes_bytesToChars bs)

/-- `EncodedLen` -/
theorem b64_length (bs : List Char) : (b64enc bs).length = (bs.length + 2) / 3 * 4 := b64enc_length bs

example : b64enc "text".toList = "dGV4dA==".toList := by decide
example : b64dec "dGV4\r\ndA==".toList = some "text".toList := by decide
example : b64dec "dGV4dA=".toList = none := by decide

/-! ## (b) percent-coding -/

/-- RFC percent-decoding inverts `EncodeURL` for every table that escapes `%` -/
theorem pct_roundtrip (t : Char → Bool) (ht : t '%' = true) (bs : List Char) (hb : AllBytes bs) :
    pctDecode (encodeURL t bs) = bs := pctDecode_encodeURL t ht bs hb

/-- … in particular for the regenerated `DataURIEncodingTable` -/
theorem pct_roundtrip_tbl (bs : List Char) (hb : AllBytes bs) : pctDecode (encodeURL tbl bs) = bs :=
  pct_roundtrip tbl tbl_escapes_percent bs hb

/-- the dependency's own `DecodeURL` inverts `EncodeURL` for tables that escape `%` **and** `+` -/
theorem pct_roundtrip_dep (t : Char → Bool) (ht : t '%' = true) (hp : t '+' = true) (bs : List Char)
    (hb : AllBytes bs) : decodeURL (encodeURL t bs) = bs := decodeURL_encodeURL t ht hp bs hb

/-- full statement for the shipped table -/
def pct_roundtrip_dep_tbl_full : Prop := ∀ bs, AllBytes bs → decodeURL (encodeURL tbl bs) = bs

/-- it is false: the table does not escape `+`, so what `DataURI` writes (`data:,a+b` for the payload `a+b`)
    is read back by the dependency as `a b` -/
theorem pct_roundtrip_dep_tbl_counterexample : ¬ pct_roundtrip_dep_tbl_full := fun h =>
  absurd (h "a+b".toList (by decide)) (by decide)

/-- guarded version: payloads without `+` -/
theorem pct_roundtrip_dep_tbl_partial (bs : List Char) (hb : AllBytes bs) (hp : '+' ∉ bs) :
    decodeURL (encodeURL tbl bs) = bs := by
  induction bs with
  | nil => rfl
  | cons c r ih =>
    have hc := (allBytes_cons.1 hb).1
    have hr := (allBytes_cons.1 hb).2
    have hcp : c ≠ '+' := fun e => hp (by simp [e])
    have hrp : '+' ∉ r := fun e => hp (by simp [e])
    simp only [encodeURL]
    split
    · rw [decodeURL_esc (hexVal_hexUp _ (by omega)) (hexVal_hexUp _ (Nat.mod_lt _ (by decide))), ih hr hrp]
      have : c.toNat / 16 * 16 + c.toNat % 16 = c.toNat := by omega
      rw [this, Char.ofNat_toNat]
    · rename_i hn
      have h1 : c ≠ '%' := by intro e; subst e; exact hn tbl_escapes_percent
      rw [decodeURL_cons_plain h1 hcp, ih hr hrp]

example : AllBytes "a b#".toList ∧ '+' ∉ "a b#".toList := by decide
example : encodeURL tbl "a b#<".toList = "a%20b%23%3C".toList := by decide

/-! ## (c) anything the dependency does not parse is returned unchanged -/

theorem dataURI_bad (sub : List Char → List Char → Option (List Char)) (u : List Char)
    (h : parseDataURI u = none) : dataURI sub u = u := by
  simp [dataURI, h]

example : parseDataURI "data:;base64,QQ=".toList = none := by decide
example : parseDataURI "datx:x".toList = none := by decide
example : parseDataURI "data:text/html".toList = none := by decide

/-! ## (d) what the helper returns reads, per RFC 2397, as the same media type and the (sub-)minified payload

The statement is against the RFC reading of the *input* (`rfcParse`, specification side), not against the
dependency's parser.  `sub` is the sub-minifier (`m.Bytes`): an arbitrary function that returns bytes. -/

/-- the sub-minifier returns byte strings -/
def SubBytes (sub : List Char → List Char → Option (List Char)) : Prop := ∀ m x y, sub m x = some y → AllBytes y

/-- full statement: for every data URL `u` that RFC 2397 reads as (media type `mt`, payload `d`) the result is
    `u` itself or a data URL that reads as a media type equivalent to `mt` and the payload the sub-minifier
    produced for `d` (identical bytes when it declined) — and the sub-minifier was asked with a media type
    equivalent to `mt` -/
def dataURI_preserves_full : Prop :=
  ∀ (sub : List Char → List Char → Option (List Char)) (u mt d : List Char),
    AllBytes u → SubBytes sub → rfcParse u = some (mt, d) →
    ∃ mtd, mtNorm mtd = mtNorm mt ∧
      (dataURI sub u = u ∨
       ∃ mt', rfcParse (dataURI sub u) = some (mt', (sub mtd d).getD d) ∧ mtNorm mt' = mtNorm mt)

/-- proved outside three narrow syntactic triggers (the open known findings K-C18-1 … K-C18-3, all in the
    dependency `parse/v2`) -/
theorem dataURI_preserves_partial (sub : List Char → List Char → Option (List Char)) (u mt d : List Char)
    (hu : AllBytes u) (hsub : SubBytes sub) (hr : rfcParse u = some (mt, d))
    (g1 : trigPlus u = false) (g2 : trigParamNoType u = false) (g3 : trigB64Item u = false) :
    ∃ mtd, mtNorm mtd = mtNorm mt ∧
      (dataURI sub u = u ∨
       ∃ mt', rfcParse (dataURI sub u) = some (mt', (sub mtd d).getD d) ∧ mtNorm mt' = mtNorm mt) := by
  obtain ⟨mtd, _, h2, h3⟩ := preserves_core sub u mt d hu hsub hr g1 g2 g3
  exact ⟨mtd, h2, h3⟩

/-- the same in the form the harness evaluates on the implementation's output (`spec.c18.holds`) -/
theorem dataURI_holds_partial (sub : List Char → List Char → Option (List Char)) (u : List Char)
    (hu : AllBytes u) (hsub : SubBytes sub) (g : trigDataURI u = false) :
    ∃ mtd, holdsDataURI u (dataURI sub u)
      ((sub mtd ((rfcParse u).map (·.2)).get!).getD ((rfcParse u).map (·.2)).get!) = true := by
  simp only [trigDataURI, Bool.or_eq_false_iff] at g
  obtain ⟨⟨g1, g2⟩, g3⟩ := g
  cases hr : rfcParse u with
  | none => exact ⟨[], by simp [holdsDataURI, hr]⟩
  | some md =>
    obtain ⟨mt, d⟩ := md
    obtain ⟨mtd, _, h | ⟨mt', h1, h2⟩⟩ := dataURI_preserves_partial sub u mt d hu hsub hr g1 g2 g3
    · exact ⟨mtd, by simp [holdsDataURI, hr, h]⟩
    · refine ⟨mtd, ?_⟩
      simp only [holdsDataURI, hr, Option.map_some, Option.get!_some, h1, h2]
      simp

/-- outside the triggers the dependency's parser reads what RFC 2397 reads (media type up to the normal form).
    The converse fails by design: Go's base64 decoder also accepts CR/LF inside the payload. -/
theorem parse_agrees (u mt d : List Char) (hu : AllBytes u) (hr : rfcParse u = some (mt, d))
    (g : trigDataURI u = false) :
    ∃ mtd, parseDataURI u = some (mtd, d) ∧ mtNorm mtd = mtNorm mt := by
  simp only [trigDataURI, Bool.or_eq_false_iff] at g
  obtain ⟨⟨g1, g2⟩, g3⟩ := g
  obtain ⟨mtd, h1, h2, _⟩ := preserves_core (fun _ _ => none) u mt d hu (by intro _ _ _ h; cases h) hr g1 g2 g3
  exact ⟨mtd, h1, h2⟩

example : rfcParse "data:;base64,QU\nJD".toList = none ∧
    parseDataURI "data:;base64,QU\nJD".toList = some ("text/plain".toList, "ABC".toList) := by decide

/-- non-vacuity: a URL with parameters, whitespace and escapes satisfies every hypothesis -/
example : AllBytes "data:Text/HTML; charset=us-ascii ;a=b,%3Cp%3e x".toList ∧
    trigDataURI "data:Text/HTML; charset=us-ascii ;a=b,%3Cp%3e x".toList = false ∧
    rfcParse "data:Text/HTML; charset=us-ascii ;a=b,%3Cp%3e x".toList
      = some ("Text/HTML; charset=us-ascii ;a=b".toList, "<p> x".toList) ∧
    dataURI (fun _ _ => none) "data:Text/HTML; charset=us-ascii ;a=b,%3Cp%3e x".toList
      = "data:Text/HTML;a=b,%3Cp%3E%20x".toList := by decide

example : trigDataURI "data:image/png;base64,iVBORw0KGgo=".toList = false ∧
    (rfcParse "data:image/png;base64,iVBORw0KGgo=".toList).isSome = true := by decide

/-- the full statement is false — three independent witnesses, each the replay input of an open known finding -/
theorem dataURI_preserves_counterexample_plus : ¬ dataURI_preserves_full := fun h => by
  obtain ⟨mtd, _, h1 | ⟨mt', h2, _⟩⟩ :=
    h (fun _ _ => none) "data:,a+b".toList [] "a+b".toList (by decide) (by intro _ _ _ e; cases e) (by decide)
  · revert h1; decide
  · have e : rfcParse (dataURI (fun _ _ => none) "data:,a+b".toList) = some ([], "a b".toList) := by decide
    rw [e] at h2
    simp only [Option.getD_none, Option.some.injEq, Prod.mk.injEq] at h2
    exact absurd h2.2 (by decide)

theorem dataURI_preserves_counterexample_paramNoType : ¬ dataURI_preserves_full := fun h => by
  obtain ⟨mtd, _, h1 | ⟨mt', h2, h3⟩⟩ :=
    h (fun _ _ => none) "data:;charset=utf-8,x".toList ";charset=utf-8".toList "x".toList (by decide)
      (by intro _ _ _ e; cases e) (by decide)
  · revert h1; decide
  · have e : rfcParse (dataURI (fun _ _ => none) "data:;charset=utf-8,x".toList) = some ([], "x".toList) := by decide
    rw [e] at h2
    simp only [Option.getD_none, Option.some.injEq, Prod.mk.injEq] at h2
    rw [← h2.1] at h3
    revert h3; decide

theorem dataURI_preserves_counterexample_b64Item : ¬ dataURI_preserves_full := fun h => by
  obtain ⟨mtd, _, h1 | ⟨mt', h2, _⟩⟩ :=
    h (fun _ _ => none) "data:x/y;a=base64,QUJD".toList "x/y;a=base64".toList "QUJD".toList (by decide)
      (by intro _ _ _ e; cases e) (by decide)
  · revert h1; decide
  · have e : rfcParse (dataURI (fun _ _ => none) "data:x/y;a=base64,QUJD".toList)
        = some ("x/y;a".toList, "ABC".toList) := by decide
    rw [e] at h2
    simp only [Option.getD_none, Option.some.injEq, Prod.mk.injEq] at h2
    exact absurd h2.2 (by decide)

/-- regression (fixed finding K-C18-4): a type that merely starts with `text/plain` is kept -/
example : dataURI (fun _ _ => none) "data:text/plainx,abc".toList = "data:text/plainx,abc".toList ∧
    dataURI (fun _ _ => none) "data:text/plain x;a=b,abc".toList = "data:text/plain x;a=b,abc".toList ∧
    dataURI (fun _ _ => none) "data:TEXT/plain;a=b,abc".toList = "data:;a=b,abc".toList ∧
    trigDataURI "data:text/plainx,abc".toList = false := by decide

/-- each witness falls under exactly its own trigger -/
example : trigPlus "data:,a+b".toList = true ∧ trigParamNoType "data:;charset=utf-8,x".toList = true ∧
    trigB64Item "data:x/y;a=base64,QUJD".toList = true := by
  decide

/-! ## (f) the shorter of the two encodings is chosen -/

/-- the three ways out of `minify.DataURI` for a URL the dependency parses: with `d` the (sub-)minified
    payload, `B = len(";base64") + EncodedLen(len d)` and `A` = length of the percent-encoded form —
    the input itself if it is shorter than both `A` and `B`; otherwise the base64 form **iff `B < A`**,
    else the percent-encoded form.  (The early `break` of the `asciiLen` loop never changes a decision.) -/
theorem dataURI_shortest (sub : List Char → List Char → Option (List Char)) (u mt d0 : List Char)
    (hp : parseDataURI u = some (mt, d0)) :
    let d := (sub mt d0).getD d0
    let B := 7 + (b64enc d).length
    let A := (encodeURL tbl d).length
    (u.length < B ∧ u.length < A ∧ dataURI sub u = u) ∨
    (¬(u.length < B ∧ u.length < A) ∧ B < A ∧
      dataURI sub u = dataPrefix ++ (stripCharset (stripTextPlain mt) ++ semiBase64) ++ [','] ++ b64enc d) ∨
    (¬(u.length < B ∧ u.length < A) ∧ A ≤ B ∧
      dataURI sub u = dataPrefix ++ stripCharset (stripTextPlain mt) ++ [','] ++ encodeURL tbl d) := by
  intro d B A
  have hB : B = 7 + b64Len d.length := by simp only [B, b64enc_length]
  have hA : A = pctLen tbl d := encodeURL_length tbl d
  have hdec := asciiEst_decisions tbl (7 + b64Len d.length) u.length d
  unfold dataURI
  simp only [hp]
  show (_ ∨ _ ∨ _)
  rw [hB, hA]
  by_cases h1 : u.length < 7 + b64Len d.length ∧ u.length < asciiEst tbl (7 + b64Len d.length) d.length d
  · left
    have := hdec.1.1 h1
    exact ⟨this.1, this.2, by rw [if_pos h1]⟩
  · right
    have h1' : ¬(u.length < 7 + b64Len d.length ∧ u.length < pctLen tbl d) := fun h => h1 (hdec.1.2 h)
    rw [if_neg h1]
    by_cases h2 : 7 + b64Len d.length < asciiEst tbl (7 + b64Len d.length) d.length d
    · left
      refine ⟨h1', hdec.2.1 h2, ?_⟩
      rw [if_pos h2, if_pos h2, stripTextPlain_append, stripCharset_append]
    · right
      have : ¬(7 + b64Len d.length < pctLen tbl d) := fun h => h2 (hdec.2.2 h)
      refine ⟨h1', by omega, ?_⟩
      rw [if_neg h2, if_neg h2]

/-- … hence the result is never longer than either re-encoding of the (sub-)minified payload -/
theorem dataURI_le_both (sub : List Char → List Char → Option (List Char)) (u mt d0 : List Char)
    (hp : parseDataURI u = some (mt, d0)) :
    (dataURI sub u).length ≤ (dataPrefix ++ (stripCharset (stripTextPlain mt) ++ semiBase64) ++ [','] ++
        b64enc ((sub mt d0).getD d0)).length ∧
    (dataURI sub u).length ≤ (dataPrefix ++ stripCharset (stripTextPlain mt) ++ [','] ++
        encodeURL tbl ((sub mt d0).getD d0)).length := by
  have h7 : semiBase64.length = 7 := rfl
  have h5 : dataPrefix.length = 5 := rfl
  have := dataURI_shortest sub u mt d0 hp
  simp only [] at this
  rcases this with ⟨h1, h2, h3⟩ | ⟨_, h2, h3⟩ | ⟨_, h2, h3⟩
  · rw [h3]; simp only [List.length_append, List.length_cons, List.length_nil, h7, h5]; constructor <;> omega
  · rw [h3]; simp only [List.length_append, List.length_cons, List.length_nil, h7, h5] at *; constructor <;> omega
  · rw [h3]; simp only [List.length_append, List.length_cons, List.length_nil, h7, h5] at *; constructor <;> omega

example : dataURI (fun _ _ => none) "data:,%23%23%23%23%23".toList = "data:,%23%23%23%23%23".toList ∧
    dataURI (fun _ _ => none) "data:,%23%23%23%23%23%23".toList = "data:;base64,IyMjIyMj".toList := by decide

/-! ## (e) never longer than a validly encoded input -/

/-- the sub-minifier does not make the payload more expensive (true of "none registered", of the identity
    and of any minifier that only deletes bytes) -/
def NonExpanding (sub : List Char → List Char → Option (List Char)) : Prop :=
  ∀ m x y, sub m x = some y → y.length ≤ x.length ∧ pctLen tbl y ≤ pctLen tbl x

/-- full statement; "validly encoded" = base64 that decodes, or percent-encoded with every byte the table wants
    escaped escaped (`Spec.validlyEncoded`) -/
def dataURI_length_full : Prop :=
  ∀ (sub : List Char → List Char → Option (List Char)) (u : List Char),
    NonExpanding sub → (rfcParse u).isSome = true → validlyEncoded tbl u = true → (dataURI sub u).length ≤ u.length

/-- the exact guard: the two dependency quirks that change how the payload is read -/
theorem dataURI_length_partial (sub : List Char → List Char → Option (List Char)) (u : List Char)
    (hsub : NonExpanding sub) (hr : (rfcParse u).isSome = true) (hv : validlyEncoded tbl u = true)
    (g1 : trigPlus u = false) (g3 : trigB64Item u = false) : (dataURI sub u).length ≤ u.length := by
  cases h : rfcParse u with
  | none => rw [h] at hr; cases hr
  | some md => exact length_core sub u md.1 md.2 hsub h g1 g3 hv

/-- `data:base64,IyMjIyMj` (20 bytes, a valid percent-encoded payload under the media type text `base64`) comes
    back as `data:;base64,IyMjIyMj` (21 bytes) -/
theorem dataURI_length_counterexample : ¬ dataURI_length_full := fun h =>
  absurd (h (fun _ _ => none) "data:base64,IyMjIyMj".toList (by intro _ _ _ e; cases e) (by decide) (by decide))
    (by decide)

/-- … and `data:,a+b` (9 bytes) as `data:,a%20b` (11 bytes) -/
theorem dataURI_length_counterexample_plus : ¬ dataURI_length_full := fun h =>
  absurd (h (fun _ _ => none) "data:,a+b".toList (by intro _ _ _ e; cases e) (by decide) (by decide)) (by decide)

example : validlyEncoded tbl "data:text/html,%3Cp%3E%20x".toList = true ∧
    validlyEncoded tbl "data:text/html,<p>".toList = false ∧
    (dataURI (fun _ _ => none) "data:text/html,<p>".toList).length = 22 := by decide

example : NonExpanding (fun _ d => some (d.filter (· ≠ ' '))) := by
  intro _ x y h
  simp only [Option.some.injEq] at h
  subst h
  constructor
  · exact List.length_filter_le _ _
  · simp only [pctLen]
    have h1 := List.length_filter_le (fun c : Char => decide (c ≠ ' ')) x
    have h2 : ((x.filter (fun c => decide (c ≠ ' '))).filter tbl).length ≤ (x.filter tbl).length := by
      rw [List.filter_filter]
      have : x.filter (fun a => tbl a && decide (a ≠ ' ')) = (x.filter tbl).filter (fun a => decide (a ≠ ' ')) := by
        rw [List.filter_filter]
        congr 1; funext a; exact Bool.and_comm _ _
      rw [this]
      exact List.length_filter_le _ _
    omega

/-! ## (g) the media type helper -/

/-- **"only lowercases and strips whitespace outside quoted strings"**, full strength: for every media type
    string whose quoted strings are closed the result is the input with the whitespace outside quoted strings
    deleted and each letter outside quoted strings kept or lower-cased (relational: runs of 1024 bytes or more may
    stay as they are); quoted strings, incl. backslash escapes (RFC 2045 `quoted-pair`), are copied.
    Proof: loop invariant over the in-place compaction. -/
theorem mediatype_spec (b : List Char) (hc : quotesClosed b = true) : specMediatypeOK 0 b (mediatype b) = true :=
  Verif.Proofs.Mediatype.mediatype_ok b hc

/-- regression (fixed findings K-C18-5, K-C18-6) -/
example : mediatype "a  ;x=\"AB\";y=\"C\"".toList = "a;x=\"AB\";y=\"C\"".toList ∧
    mediatype "X=\"a\\\"B C\" ; Y=z".toList = "x=\"a\\\"B C\";y=z".toList ∧
    quotesClosed "X=\"a\\\"B C\" ; Y=z".toList = true := by decide

/-- non-vacuity: the suite's own case with a quoted parameter; the result is the reference result -/
example : quotesClosed "text/html; charset=UTF-8 ; param = \" ; \"".toList = true ∧
    mediatype "text/html; charset=UTF-8 ; param = \" ; \"".toList = "text/html;charset=utf-8;param=\" ; \"".toList ∧
    specMediatype "text/html; charset=UTF-8 ; param = \" ; \"".toList = "text/html;charset=utf-8;param=\" ; \"".toList := by
  decide

/-- never longer than its input -/
theorem mediatype_len (b : List Char) : (mediatype b).length ≤ b.length :=
  Verif.Proofs.Mediatype.mediatype_length b

end Verif.Props.C18

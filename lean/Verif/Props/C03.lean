import Verif.Proofs.HtmlAttr
/-!
# C03 — HTML minification preserves the parsed document

Property theorems only.  Models: `Verif.Model.HtmlAttr` (byte-level helpers), `Verif.Model.Html` (token loop);
specifications: `Verif.Spec.HtmlAttr` (HTML standard: attribute tokenisation, character references),
`Verif.Spec.HtmlKnown` (guards of the known findings).
-/
namespace Verif.Props.C03
open Verif.Spec.HtmlAttr Verif.Spec.HtmlKnown Verif.Model.HtmlAttr Verif.Proofs.HtmlAttr

/-! ## attributes: quoting and escaping (`html.EscapeAttrVal`) -/

/-- **attr_roundtrip.**  Whatever value `v` (non-empty — `html.go` writes `=value` only then), original quote
    and `mustQuote` flag `EscapeAttrVal` is called with, and however the tag continues (a space before the next
    attribute, or `>`): an HTML-standard tokenizer reads the emitted bytes back as exactly one *conforming*
    attribute value (unquoted only if free of whitespace, quotes, `=`, `<`, `>`, backtick), ends exactly where
    the emitted value ends, and the raw value it finds decodes (attribute context) to the same units as `v`.
    In particular the choice of quotes and the `&#34;`/`&#39;` escapes never change the attribute's value. -/
theorem attr_roundtrip (v : List Char) (q : Quote) (must : Bool) (rest : List Char)
    (hv : v ≠ []) (hrest : tagContinues rest = true) :
    ∃ raw, tokenizeAttr (escapeAttrVal v q must ++ rest) = some (raw, rest) ∧
      decodeAttr raw = decodeAttr v := by
  unfold escapeAttrVal
  simp only
  split
  · next h =>
    -- unquoted
    simp only [Bool.and_eq_true] at h
    exact ⟨v, tokenizeAttr_unquoted v rest hv h.1 hrest, rfl⟩
  · split
    · next _ h =>
      -- original quote, not occurring in the value
      refine ⟨v, ?_, rfl⟩
      have hq : (q.char = '"' ∨ q.char = '\'') ∧ q.char ∉ v := by
        simp only [Bool.or_eq_true, Bool.and_eq_true, decide_eq_true_eq] at h
        rcases h with ⟨hc, ho⟩ | ⟨hc, ho⟩
        · subst ho; exact ⟨Or.inr rfl, List.count_eq_zero.mp hc⟩
        · subst ho; exact ⟨Or.inl rfl, List.count_eq_zero.mp hc⟩
      have := tokenizeAttr_quoted q.char v rest hq.1 hq.2
      simpa using this
    · split
      · -- double quotes, `"` escaped as &#34;
        refine ⟨escapeQuote '"' ['&', '#', '3', '4', ';'] v, ?_, ?_⟩
        · have := tokenizeAttr_quoted '"' (escapeQuote '"' ['&', '#', '3', '4', ';'] v) rest (Or.inl rfl)
            (not_mem_escapeQuote _ _ _ (by decide))
          simpa using this
        · exact dec_escapeQuote true '"' '3' '4' (by decide) (by decide) (matchRef_34 true) _ v (Nat.le_refl _)
      · -- single quotes, `'` escaped as &#39;
        refine ⟨escapeQuote '\'' ['&', '#', '3', '9', ';'] v, ?_, ?_⟩
        · have := tokenizeAttr_quoted '\'' (escapeQuote '\'' ['&', '#', '3', '9', ';'] v) rest (Or.inr rfl)
            (not_mem_escapeQuote _ _ _ (by decide))
          simpa using this
        · exact dec_escapeQuote true '\'' '3' '9' (by decide) (by decide) (matchRef_39 true) _ v (Nat.le_refl _)

/-- non-vacuity: a value with both kinds of quotes, a reference and a space, continued by another attribute -/
example : tokenizeAttr (escapeAttrVal "a\"b'c &amp; d".toList .single true ++ " x>".toList)
    = some ("a\"b&#39;c &amp; d".toList, " x>".toList) := by decide

/-- the unquoted form is chosen exactly when no byte of the value needs quoting (and quotes may be dropped) -/
theorem unquoted_iff (v : List Char) (q : Quote) (must : Bool) :
    (v.all (fun c => !needsQuote c) && (!must || q = .none)) = true → escapeAttrVal v q must = v := by
  intro h; unfold escapeAttrVal; simp only [h, if_true]

end Verif.Props.C03
